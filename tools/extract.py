#!/usr/bin/env python3
"""
Translator: regenerates the tabular parts of the Lean model from /repo's current sources.

  lean/Qvnt/Generated/GateTable.lean   gate-name table of src/qasm/int/gates.rs (one row per
                                       `"name" | "NAME" => gate!(name, <arm>, <ctor>, ..)`),
                                       canonical-form flags for the `gate!` macro arms and
                                       the c-prefix rule
  lean/Qvnt/Generated/Consts.lean      numeric constants the model mirrors (buffer minimum,
                                       identifier / register limits, normalize thresholds,
                                       the meval context installed by parse.rs)
(src/qasm/examples/source/qelib1.inc is an empty stub in this repository, so the reference
definitions of the standard gates are transcribed by hand in lean/Qvnt/Spec/Qelib.lean.)

The extraction is purely syntactic over a fixed shape. Anything not recognised makes the
translator fail loudly (exit 1); it never guesses. Files are rewritten only when their
content changes, so lake's cache stays valid.
"""
import os, re, sys

REPO = os.environ.get("VERIF_REPO", "/repo")
ROOT = os.path.dirname(os.path.dirname(os.path.abspath(__file__)))
OUT = os.path.join(ROOT, "lean", "Qvnt", "Generated")


PROBLEMS = []
SECTION = ["?"]


class Skip(Exception):
    pass


def die(msg):
    """the current section cannot be extracted: recorded with its tag (`gates`, `quant`, `normalize`, `int`, `math`,
    `parse`); the section gets a placeholder that no theorem accepts, the other sections are still regenerated"""
    PROBLEMS.append(f"{SECTION[0]}: {msg}")
    raise Skip()


def read(rel):
    p = os.path.join(REPO, rel)
    if not os.path.exists(p):
        die(f"missing {rel}")
    return open(p).read()


def norm(s):
    return re.sub(r"\s+", " ", s).strip()


def write_if_changed(name, text):
    os.makedirs(OUT, exist_ok=True)
    p = os.path.join(OUT, name)
    if os.path.exists(p) and open(p).read() == text:
        return False
    open(p, "w").write(text)
    return True


def lean_str(s):
    return '"' + s.replace("\\", "\\\\").replace('"', '\\"') + '"'


# ----------------------------------------------------------------------------------------
# gates.rs

CANON_ARMS = {
    # arm pattern -> canonical body (whitespace-normalised)
    "any": "{{ let regs = $regs.into_iter().fold(0, |acc, reg| acc | reg); if regs == 0 { Err(Error::WrongRegNumber($name, 0)) } else if $args.len() != 0 { Err(Error::WrongArgNumber($name, $args.len())) } else { Ok(op::$op(regs)) } }}",
    "dgr": "{{ let regs = $regs.into_iter().fold(0, |acc, reg| acc | reg); if regs == 0 { Err(Error::WrongRegNumber($name, 0)) } else if $args.len() != 0 { Err(Error::WrongArgNumber($name, $args.len())) } else { Ok(op::$op(regs).dgr()) } }}",
    "2": "{{ let regs = $regs.into_iter().fold(0, |acc, reg| acc | reg); if crate::math::count_bits(regs) != 2 { Err(Error::WrongRegNumber($name, crate::math::count_bits(regs))) } else if $args.len() != 0 { Err(Error::WrongArgNumber($name, $args.len())) } else { Ok(op::$op(regs)) } }}",
    "r($num:expr)": "{{ let regs = $regs.into_iter().fold(0, |acc, reg| acc | reg); if crate::math::count_bits(regs) != $num { Err(Error::WrongRegNumber($name, crate::math::count_bits(regs))) } else if $args.len() != 1 { Err(Error::WrongArgNumber($name, $args.len())) } else { Ok(op::$op($args[0], regs)) } }}",
    "u1": "{{ let regs = $regs.into_iter().fold(0, |acc, reg| acc | reg); if crate::math::count_bits(regs) != 1 { Err(Error::WrongRegNumber($name, crate::math::count_bits(regs))) } else if $args.len() != 1 { Err(Error::WrongArgNumber($name, $args.len())) } else { Ok(op::u1($args[0], regs)) } }}",
    "u2": "{{ let regs = $regs.into_iter().fold(0, |acc, reg| acc | reg); if crate::math::count_bits(regs) != 1 { Err(Error::WrongRegNumber($name, crate::math::count_bits(regs))) } else if $args.len() != 2 { Err(Error::WrongArgNumber($name, $args.len())) } else { Ok(op::u2($args[0], $args[1], regs)) } }}",
    "u3": "{{ let regs = $regs.into_iter().fold(0, |acc, reg| acc | reg); if crate::math::count_bits(regs) != 1 { Err(Error::WrongRegNumber($name, crate::math::count_bits(regs))) } else if $args.len() != 3 { Err(Error::WrongArgNumber($name, $args.len())) } else { Ok(op::u3($args[0], $args[1], $args[2], regs)) } }}",
}

CANON_PREFIX = norm("""
        s if s.len() > 1 && (s.starts_with('c') || s.starts_with('C')) => {
            let (&ctrl, regs) = regs.split_first().ok_or(Error::WrongRegNumber(name, 0))?;

            match process(&name[1..], regs.into(), args) {
                Ok(op) => {
                    let act = op.act_on();
                    op.c(ctrl).ok_or(Error::InvalidControlMask(ctrl, act))
                }
                Err(err) => Err(match err {
                    Error::WrongRegNumber(_, num) => Error::WrongRegNumber(name, 1 + num),
                    Error::WrongArgNumber(_, num) => Error::WrongArgNumber(name, num),
                    Error::UnknownGate(_) => Error::UnknownGate(name),
                    e => e,
                }),
            }
        }
""")


GATES_PLACEHOLDER = """/- GENERATED by tools/extract.py: src/qasm/int/gates.rs could not be read in the expected shape - placeholder. -/
namespace Qvnt.Generated

inductive Arm where
  | any | dgr | two | r (n : Nat) | u1 | u2 | u3
deriving Repr, DecidableEq

structure Row where
  lower : String
  upper : String
  arm : Arm
  ctor : String
deriving Repr, DecidableEq

def gateTable : List Row := []
def armAnyCanonical : Bool := false
def armDgrCanonical : Bool := false
def armTwoCanonical : Bool := false
def armRCanonical : Bool := false
def armU1Canonical : Bool := false
def armU2Canonical : Bool := false
def armU3Canonical : Bool := false
def noExtraArms : Bool := false
def prefixArmCanonical : Bool := false

end Qvnt.Generated
"""


def gen_gate_table():
    SECTION[0] = "gates"
    try:
        return gen_gate_table_()
    except Skip:
        return GATES_PLACEHOLDER


def gen_gate_table_():
    src = read("src/qasm/int/gates.rs")
    m = re.search(r"macro_rules!\s*gate\s*\{(.*?)\n\}\n", src, re.S)
    if not m:
        die("gates.rs: macro_rules! gate not found")
    body = m.group(1)
    arms = re.findall(r"\(\$name:expr,\s*(.*?),\s*(?:\$op:ident,\s*)?\$regs:expr,\s*\$args:expr\)\s*=>\s*(\{\{.*?\}\});", body, re.S)
    found = {norm(k): norm(v) for k, v in arms}
    flags = {}
    for k, canon in CANON_ARMS.items():
        flags[k] = (found.get(k) == canon)
    extra = sorted(set(found) - set(CANON_ARMS))
    pm = re.search(r"pub\(crate\) fn process<'t>\(name: &'t str, regs: Vec<N>, args: Vec<R>\) -> Result<'t, MultiOp> \{\s*match name \{(.*?)\n    \}\n\}", src, re.S)
    if not pm:
        die("gates.rs: fn process not found in the expected shape")
    pbody = pm.group(1)
    # the prefix arm comes first
    first_arm_end = pbody.find('"x" | "X"')
    if first_arm_end < 0:
        die("gates.rs: row for x not found")
    prefix_ok = norm(pbody[:first_arm_end]) == CANON_PREFIX
    rows = []
    rest = pbody[first_arm_end:]
    for line in rest.splitlines():
        l = line.strip()
        if not l or l.startswith("//"):
            continue
        rm = re.fullmatch(r'"([^"]+)"\s*\|\s*"([^"]+)"\s*=>\s*gate!\(name,\s*(any|dgr|2|r\((\d)\)|u1|u2|u3)(?:,\s*(\w+))?,\s*regs,\s*args\),', l)
        if rm:
            lower, upper, arm, rnum, ctor = rm.groups()
            if arm in ("u1", "u2", "u3"):
                ctor = arm
            if ctor is None:
                die(f"gates.rs: row without constructor: {l}")
            rows.append((lower, upper, arm, rnum, ctor))
            continue
        if re.fullmatch(r"_\s*=>\s*Err\(Error::UnknownGate\(name\)\),", l):
            continue
        die(f"gates.rs: unrecognised row: {l}")
    if not rows:
        die("gates.rs: no rows")

    def arm_term(arm, rnum):
        if arm == "2":
            return ".two"
        if arm.startswith("r("):
            return f"(.r {rnum})"
        return "." + arm

    out = ["/- GENERATED by tools/extract.py from /repo/src/qasm/int/gates.rs — do not edit. -/",
           "namespace Qvnt.Generated", "",
           "inductive Arm where", "  | any | dgr | two | r (n : Nat) | u1 | u2 | u3", "deriving Repr, DecidableEq", "",
           "structure Row where", "  lower : String", "  upper : String", "  arm : Arm", "  ctor : String", "deriving Repr, DecidableEq", "",
           "/-- one row per `\"name\" | \"NAME\" => gate!(name, <arm>, <ctor>, regs, args)` -/",
           "def gateTable : List Row := ["]
    for i, (lo, up, arm, rnum, ctor) in enumerate(rows):
        out.append(f"  ⟨{lean_str(lo)}, {lean_str(up)}, {arm_term(arm, rnum)}, {lean_str(ctor)}⟩" + ("," if i + 1 < len(rows) else ""))
    out += ["]", "",
            "/-- each `gate!` arm has exactly the text the model mirrors -/"]
    names = {"any": "armAny", "dgr": "armDgr", "2": "armTwo", "r($num:expr)": "armR", "u1": "armU1", "u2": "armU2", "u3": "armU3"}
    for k, n in names.items():
        out.append(f"def {n}Canonical : Bool := {'true' if flags[k] else 'false'}")
    out.append(f"def noExtraArms : Bool := {'true' if not extra else 'false'}")
    out.append(f"def prefixArmCanonical : Bool := {'true' if prefix_ok else 'false'}")
    out += ["", "end Qvnt.Generated", ""]
    return "\n".join(out)


# ----------------------------------------------------------------------------------------
# constants

def gen_consts():
    quant = read("src/register/quant.rs")
    intm = read("src/qasm/int/mod.rs")
    parse = read("src/qasm/int/parse.rs")
    mathm = read("src/math/mod.rs")
    def grab(src, pat, what, tag, default):
        SECTION[0] = tag
        m = re.search(pat, src, re.S)
        if not m:
            try:
                die(f"constant not found: {what}")
            except Skip:
                return default
        return m.group(1)
    min_buf = grab(quant, r"const MIN_BUFFER_LEN: usize = (\d+);", "MIN_BUFFER_LEN", "quant", "0")
    tiny = grab(quant, r"if norm <= (1e-\d+) \{\s*self\.reset\(0\);", "normalize tiny threshold", "normalize", "1e-0")
    close = grab(quant, r"else if 1\. - norm <= (1e-\d+) \{", "normalize close threshold", "normalize", "1e-0")
    ident = grab(intm, r"if bytes_len >= (\d+) \{\s*return Err\(Error::IdentIsTooLarge", "identifier limit", "int", "0")
    regsz = grab(intm, r"if q_num >= (\d+) \{\s*return Err\(Error::RegisterIsTooLarge", "register size limit", "int", "0")
    ipow = re.findall(r"C \{ re: (-?\d+)\., im: (-?\d+)\. \}", grab(mathm, r"I_POW_TABLE: \[C; 4\] = \[(.*?)\];", "I_POW_TABLE", "math", ""))
    if len(ipow) != 4:
        PROBLEMS.append("math: I_POW_TABLE shape"); ipow = []
    parse = grab(parse, r"static EXAUSTIVE_CONTEXT: Context<'static> = \{(.*?)\n        ctx\n", "EXAUSTIVE_CONTEXT block", "parse", "")
    var_names = re.findall(r'ctx\.var\("(\w+)",', parse)
    funcs1 = re.findall(r'ctx\.func\("(\w+)",\s*f64::(\w+)\)', parse)
    funcs2 = re.findall(r'ctx\.func2\("(\w+)",\s*f64::(\w+)\)', parse)
    funcsn = re.findall(r'ctx\.funcn\("(\w+)",\s*(\w+),\s*1\.\.\)', parse)
    n_inst = len(re.findall(r"ctx\.(var|func|func2|funcn)\(", parse))
    if n_inst != len(var_names) + len(funcs1) + len(funcs2) + len(funcsn):
        PROBLEMS.append("parse: parse.rs: an installed context entry has an unrecognised shape")
    out = ["/- GENERATED by tools/extract.py from /repo — do not edit. -/",
           "namespace Qvnt.Generated", "",
           f"/-- `MIN_BUFFER_LEN` (src/register/quant.rs) -/\ndef minBufferLen : Nat := {min_buf}",
           f"/-- `normalize`: `norm <= {tiny}` resets, `1 - norm <= {close}` returns (negative decimal exponents) -/",
           f"def normalizeTinyExp : Nat := {int(tiny.split('-')[1])}",
           f"def normalizeCloseExp : Nat := {int(close.split('-')[1])}",
           f"/-- `check_ident`: identifiers of this many bytes or more are refused -/\ndef identLimit : Nat := {ident}",
           f"/-- `check_reg_size`: this many bits or more are refused -/\ndef regSizeLimit : Nat := {regsz}",
           "/-- `I_POW_TABLE` as (re, im) integer pairs -/",
           "def iPowTable : List (Int × Int) := [" + ", ".join(f"({a}, {b})" for a, b in ipow) + "]",
           "/-- the `meval` context installed by src/qasm/int/parse.rs -/",
           "def ctxVars : List String := [" + ", ".join(lean_str(v) for v in var_names) + "]",
           "def ctxFuncs1 : List (String × String) := [" + ", ".join(f"({lean_str(a)}, {lean_str(b)})" for a, b in funcs1) + "]",
           "def ctxFuncs2 : List (String × String) := [" + ", ".join(f"({lean_str(a)}, {lean_str(b)})" for a, b in funcs2) + "]",
           "def ctxFuncsN : List (String × String) := [" + ", ".join(f"({lean_str(a)}, {lean_str(b)})" for a, b in funcsn) + "]",
           "", "end Qvnt.Generated", ""]
    return "\n".join(out)


def main():
    changed = []
    for name, fn in (("GateTable.lean", gen_gate_table), ("Consts.lean", gen_consts)):
        if write_if_changed(name, fn()):
            changed.append(name)
    for pr in PROBLEMS:
        print("extract.py: UNSUPPORTED " + pr)
    print("extract.py: " + ("ok" if not PROBLEMS else f"{len(PROBLEMS)} problems") + (" (rewrote " + ", ".join(changed) + ")" if changed else " (unchanged)"))
    return 2 if PROBLEMS else 0


if __name__ == "__main__":
    sys.exit(main())
