"""Per-property configuration of ./check: which Lean modules carry the property theorems,
which harness suites tie the model to the implementation, which MISMATCH / SPECFAIL tags
(4th field of the driver's report lines) are attributed to the property."""

TB_COMMON = [
    "Lean 4.33.0 kernel; axioms propext, Classical.choice, Quot.sound only (audited with #print axioms on every property theorem; no sorry/admit/axiom/native_decide/bv_decide, source-scanned)",
    "Mathlib v4.33.0 as a library of kernel-checked lemmas (single modules, proof files only)",
    "correspondence check: /verif/harness (Rust, calls the real crate in-process with --cfg qvnt_verif hooks) + /verif/lean/Driver.lean (native, Float instance of the same model definitions), sampling with a seeded PRNG, tolerance 1e-9 on amplitudes, exact on integers",
    "modelled, not verified: IEEE-754 rounding (theorems are over exact commutative rings / reals), libm sin/cos, usize = 64 bit, memory safety of the set_len buffers, allocation failure",
]

ASSUME_COMMON = [
    "the hand-written Lean model is trusted to the extent the correspondence check exercises it (every run regenerates cases from the current /repo working tree)",
    "operators are addressed to qubits inside the amplitude buffer (an out-of-range mask is a Rust index panic, outside the model)",
    "rayon's par_iter contract: the closure runs exactly once per index (C08 covers schedule independence)",
]


def suite(name, quick, thorough):
    return {"suite": name, "quick": quick, "thorough": thorough}


TECH = "Lean 4 proof over a hand-written model + differential correspondence check"

PROPS = {
    "C09": {
        "modules": ["Qvnt.Props.C09"],
        "suites": [
            suite("c09", dict(count=2500), dict(count=60000)),
            suite("int", dict(count=150), dict(count=3000)),
        ],
        "mismatch_tags": [r"igate.*", r"iadd.*", r"inew", r"ixor"],
        "spec_tags": [r"c09\..*"],
        "trusted_base": TB_COMMON + ["translator tools/extract.py: the gate-name table and the canonical-form flags of the gate! macro arms are regenerated from src/qasm/int/gates.rs on every run; C09_table_* / C09_arms_canonical are re-proved by decide over the regenerated table"],
        "assumptions": ASSUME_COMMON + ["qelib1.inc in the repository is an empty stub; the reference definitions (Spec/RefSem.lean, Spec.qelib) are transcribed by hand from the OpenQASM 2.0 paper and the standard qelib1.inc"],
        "level_text": "Lean theorems (Props/C09.lean, 39): the regenerated gate table has exactly the 22 expected names, each bound to the expected macro arm and constructor, upper case = lower case, every macro arm has the canonical text the model mirrors (all by decide over the generated file, so a rebound row, a swapped argument or a dropped .dgr() fails the build); for every table name Gates.process builds exactly what the operator-level program for that name builds (sdg/tdg the daggered gate, u2/u3 with parameters in written order), hence by build_refines the documented matrix; k leading c's take the first k arguments as controls and act as the base gate where all of them are 1 (C09_ctrl_k, C09_ctrl_block); arity errors are characterised; the 14 one-qubit standard names agree with their qelib1.inc definition over U(theta,phi,lambda) up to a global phase (over the reals). Tied to the code by calling the real gates::process on every accepted name (0-2 leading c, upper/lower case, random qubits and parameters) and comparing with the model; oracle: the qelib1.inc definition body evaluated on the same input, up to one global phase (cx cy cz ch ccx crz cu1 cu3 swap cswap included), and the documented matrix for extensions.",
        "level_note": "Trusted: Lean kernel + standard axioms; the translator for the table; hand-written model of the macro arms and the c-prefix recursion (validated by correspondence and by the canonical-text flags). Known finding D9: cu1 is controlled-RZ, not qelib1's controlled phase (C09_cu1_is_crz, C09_cu1_partial).",
        "technique": "Lean 4 proof over a model whose gate table is regenerated from the source + differential correspondence check",
        "design_ref": "DESIGN.md section 5, C09",
    },
    "C10": {
        "modules": ["Qvnt.Props.C10"],
        "suites": [suite("int", dict(count=500), dict(count=15000)), suite("c10e", dict(count=300), dict(count=6000))],
        "mismatch_tags": [r"iadd.*", r"inew", r"ixor", r"isym.*", r"iexpr.*"],
        "spec_tags": [r"refsem\..*", r"iexpect\.accept", r"c10\..*"],
        "trusted_base": TB_COMMON,
        "assumptions": ASSUME_COMMON + ["text -> AST (crate qvnt-qasm) and expression text -> RPN (crate meval) are external and not modelled: the model starts from the AST / RPN the real crates produced; the intended value of generated expressions is known to the generator and compared with what the pipeline applied"],
        "level_text": "Lean theorems (Props/C10.lean, 20): bit k of the alias mask is set iff the k-th declared (qu)bit belongs to that register, a register declared after `pre` occupies bits pre.length .. pre.length+n-1 and r[i] resolves to 2^(offset+i), distinct (qu)bits are disjoint; every accepted gate statement changes the queue by exactly one push of its operator and nothing else, measure/reset by exactly one separator block, barrier/declarations not at all, and statements compose in program order; one level of a user-defined gate is its body with formal qubits and parameters substituted, in body order. Tied to the code by the int suite (random programs with several registers, interleaved cregs, parameterised nested gate definitions, expression trees): interpreter state and executed result compared with the model, and the executed result compared with the statement-by-statement reference semantics (Spec/RefSem).",
        "level_note": "Trusted: Lean kernel + standard axioms; hand-written model of int/mod.rs, macros.rs, parse.rs (RPN evaluation); external parsers as stated.",
        "technique": TECH,
        "design_ref": "DESIGN.md section 5, C10",
    },
    "C13": {
        "modules": ["Qvnt.Props.C13"],
        "suites": [suite("c13", dict(count=600), dict(count=20000))],
        "mismatch_tags": [r"iadd.*", r"inew"],
        "spec_tags": [r"iexpect\..*"],
        "trusted_base": TB_COMMON,
        "assumptions": ASSUME_COMMON + ["statements the external parser itself rejects (e.g. a measure inside a gate body) surface as parse errors and are outside the model"],
        "level_text": "Lean theorems (Props/C13.lean, 52): the first error wins and nothing after it is looked at (a planted violation at any position is reported whatever follows); for each rule an iff-characterisation of when processNode returns that error with its exact payload and in which order the checks apply - undeclared / out-of-range register arguments, declaration limits (identifier length, register size, total size) and duplicates, measure size mismatch, non-gate under if, gate-body rules, unknown gate, register / parameter arity, control overlap, first unbound name in an expression; acceptance: a statement with no error condition is accepted and conversely (for programs using built-in gates). Tied to the code by the c13 suite: well-formed programs with exactly one planted violation (20 kinds) at a random position, expected variant checked on the implementation and payloads compared with the model; the same program without the violation must be accepted.",
        "level_note": "Trusted: Lean kernel + standard axioms; hand-written model of the interpreter's checks. Known finding: a zero-size register does not reserve its name (qreg a[0]; qreg a[1]; is accepted).",
        "technique": TECH,
        "design_ref": "DESIGN.md section 5, C13",
    },
    "C15": {
        "modules": ["Qvnt.Props.C15"],
        "suites": [suite("dft", dict(count=500, max_n=6), dict(count=6000, max_n=9))],
        "mismatch_tags": None,
        "spec_tags": [r"dft"],
        "trusted_base": TB_COMMON,
        "assumptions": ASSUME_COMMON + ["the theorem is over the reals with Real.cos / Real.sin; the implementation uses libm at f64"],
        "level_text": "Lean theorems (Props/C15.lean): for EVERY ascending list of selected bits (any 64-bit mask, contiguous or scattered) the circuit built by qft acts, on every state and index, as lam * DFT on the selected sub-register composed with the qubit reversal, and qft_swapped as lam * DFT, with |lam| = 1 and the identity on the other qubits; the swap layer is the reversal; each 'controlled RZ + RZ/2 on the control' pair is the controlled phase shift up to cis(-theta/4); qft followed by its dagger is the identity. Proved by radix-2 induction over the bit list (Lemmas/Dft*.lean) on top of Ctor.qft_apply (the model constructor builds exactly that circuit). Tied to the code by the dft suite: random masks and states, the implementation's output compared with the model and with the DFT matrix up to one global phase.",
        "level_note": "Trusted: Lean kernel + standard axioms; model of multi/qft.rs (after the D10 repair).",
        "technique": TECH,
        "design_ref": "DESIGN.md section 5, C15 and Appendix A",
    },
    "C14": {
        "modules": ["Qvnt.Props.C14"],
        "suites": [suite("reg", dict(count=500, max_n=6), dict(count=10000, max_n=9))],
        "mismatch_tags": None,
        "spec_tags": [r"c14\..*"],
        "trusted_base": TB_COMMON,
        "assumptions": ASSUME_COMMON + ["get_polar (to_polar: hypot/atan2 from libm) is checked by the correspondence only: the polar pairs must reconstruct the model's amplitudes and there must be 2^n of them"],
        "level_text": "Lean theorems (Props/C14.lean) over the register model: with_state(n, s) is the basis state s mod 2^n in a buffer of max(2^n, 8) entries; the tensor product has amplitude a[i mod 2^na] * b[i div 2^na] below 2^(na+nb) and zero padding, sizes add, the empty register is neutral on both sides (quantum and classical); probabilities have 2^n entries and the vreg n entries for every n; growing keeps the amplitudes and adds |0> qubits, shrinking yields exactly QReg::new(n). All for every n, every state. Tied to the code by the reg suite (construction with indices >= 2^n, chains of products of 0..3-qubit registers in random states and threading models, grow/shrink sequences, observable sizes) executed on the real crate and the model, with the same statements as oracles on the implementation's outputs.",
        "level_note": "Trusted: Lean kernel + standard axioms; hand-written model of quant.rs/class.rs construction, tensor_prod and set_num (after the D3 repair), validated by the correspondence run.",
        "technique": TECH,
        "design_ref": "DESIGN.md section 5, C14",
    },
    "C16": {
        "modules": ["Qvnt.Props.C16"],
        "suites": [suite("sample", dict(count=600, max_n=6), dict(count=20000, max_n=10))],
        "mismatch_tags": [r"sample", r"setpsi", r"apply", r"op"],
        "spec_tags": [r"c16\..*"],
        "trusted_base": TB_COMMON,
        "assumptions": ASSUME_COMMON + ["the standard-normal draws are inputs of the model (for single-threaded registers the harness reproduces them from the seeded generator; with several threads the order of the draws is not reproducible and only the postconditions are checked)", "stage 1 (floating-point proposal) is modelled at Float; C16_zero assumes round(0) <= 0 and sqrt 0 * x = 0 as explicit hypotheses"],
        "level_text": "Lean theorems (Props/C16.lean) about the integer correction pass of sample_all (after the D4/D5 repair), for EVERY proposal vector, every positivity pattern and every shot count: the pass never indexes out of bounds and its surplus walk terminates within the stated fuel, the result has 2^n cells, sums to exactly the requested count whenever some outcome is possible, and cells of zero probability keep zero shots; lifted to sample_all with the Gaussian draws as an input list. Tied to the code by the sample suite: sparse states on 0..6 qubits (0..10 thorough), counts 0/1/odd/large, both threading models; for single-threaded registers the model reproduces the exact histogram from the same draws; the three postconditions are checked on every implementation output.",
        "level_note": "Trusted: Lean kernel + standard axioms; hand-written model of sample_all; rand_distr::StandardNormal and the seeded generator hook (cfg qvnt_verif) as the source of the draws.",
        "technique": TECH,
        "design_ref": "DESIGN.md section 5, C16",
    },
    "C20": {
        "modules": ["Qvnt.Props.C20"],
        "suites": [
            suite("bits", dict(count=500, timeout=60), dict(count=20000, timeout=600)),
        ],
        "mismatch_tags": None,   # every command of the suite belongs to this property
        "spec_tags": [r"c20\..*", r"c14\.size\.vreg", r"op"],
        "trusted_base": TB_COMMON,
        "assumptions": ASSUME_COMMON + ["machine words are 64 bit (usize)", "CReg shifts by 64 or more (a Rust overflow panic in debug builds) are outside the model"],
        "level_text": "31 Lean theorems (Props/C20.lean): the Rust bit iterator, modelled with the wrapping `pos <<= 1` and explicit fuel, never runs out of fuel and returns exactly the ascending set bits for EVERY 64-bit mask (bit 63 included); VReg contents / every index form are the union of the selected bits; a view exists iff the mask lies inside the register; CReg keeps value < 2^n under with_state/set/xor (masks inside)/reset/set_num/product, updates change exactly the given bits, the product concatenates with the left factor low, the printed form is n binary digits; the h / qft_swapped cursor loops terminate on every word. Tied to the code by running the same operations (masks drawn from the whole word range, top bit set in >50% of cases) on the real crate and the model, plus spec oracles on the implementation's outputs.",
        "level_note": "Trusted: Lean kernel + propext/Classical.choice/Quot.sound; hand-written model of bits_iter.rs, class.rs, virtl.rs, multi/h.rs and multi/qft.rs loops, validated by the correspondence run on every check.",
        "technique": TECH,
        "design_ref": "DESIGN.md section 5, C20",
    },
    "C01": {
        "modules": ["Qvnt.Props.C01"],
        "suites": [
            suite("c01x", dict(count=0, max_n=3), dict(count=0, max_n=4)),
            suite("c01", dict(count=800, max_n=6), dict(count=20000, max_n=9)),
        ],
        "mismatch_tags": None,
        "spec_tags": [r"op", r"apply", r"applyeach", r"matrix"],
        "trusted_base": TB_COMMON,
        "assumptions": ASSUME_COMMON + ["angles enter the theorems as half-angle phases (c, s) with c*c + s*s = 1; the conversion angle -> (cos(a/2), sin(a/2)) is one libm call on each side", "the constants satisfy 2*h*h = 1 (FRAC_1_SQRT_2) and 2*half = 1 exactly in the theorems; in f64 they hold to rounding"],
        "level_text": "Lean theorems (Props/C01.lean, via Lemmas/Kernels, Multi, Ctor, Refine, Matrix): every kernel of src/operator/atomic equals the action of its documented matrix (one-qubit gates for any mask bit, two-qubit gates for any two distinct bits), the multi-bit forms of x y z s t and h are that gate on each selected qubit for EVERY 64-bit mask (including the wrapped i-power arithmetic of y/s/t), u1/u2/u3 are the documented products, constructors needing one/two target bits refuse exactly the other masks, the reported matrix is the linear map performed (finite-sum statement) and the map preserves the norm; for every angle (unit-circle phase), every register size, every state. Tied to the code by an exhaustive small-scope run (all gate kinds x all masks x all basis states, n <= 3; n <= 4 thorough) plus random leaf programs up to 6 (9) qubits, compared against the model and against the documented-matrix reference semantics.",
        "level_note": "Trusted: Lean kernel + standard axioms; hand-written model of the 18 reachable atomic kernels, SingleOp/MultiOp and the constructors of operator/mod.rs, multi/h.rs; the doc-comment matrices transcribed into Spec/Gates.lean. Rounding error is outside the theorems (commutative-ring scalars).",
        "technique": TECH,
        "design_ref": "DESIGN.md section 5, C01",
    },
    "C02": {
        "modules": ["Qvnt.Props.C02"],
        "suites": [suite("c02", dict(count=800, max_n=5), dict(count=20000, max_n=8))],
        "mismatch_tags": [r"op", r"metactrl.*"],
        "spec_tags": [r"c02\..*"],
        "trusted_base": TB_COMMON,
        "assumptions": ASSUME_COMMON,
        "level_text": "Lean theorems (Props/C02.lean): for every operator built from the public gate set and every control mask, .c(m) is refused exactly when m overlaps the qubits acted on or controlled by, otherwise every queue element gets the mask OR-ed into its controls, the reported support is the union, nested controls compose, and the controlled product applies the original map where all bits of m are 1 and leaves every other amplitude untouched (C02_block, proved from the read-locality of every kernel: controlling commutes with composition). Tied to the code by the c02 suite: random operators (products, daggers, already controlled, qft) x control masks (0-3 bits, disjoint and overlapping, nested), with a metamorphic oracle on the implementation's own outputs (E.c(m) on psi against E on the projected state).",
        "level_note": "Trusted: Lean kernel + standard axioms; model of dispatch.rs for_each control test (idx & ctrl == ctrl), SingleOp::c, MultiOp::c. The oracle compares the implementation with itself, so a kernel defect does not raise C02.",
        "technique": TECH,
        "design_ref": "DESIGN.md section 5, C02",
    },
    "C03": {
        "modules": ["Qvnt.Props.C03"],
        "suites": [suite("c03", dict(count=800, max_n=5), dict(count=20000, max_n=8))],
        "mismatch_tags": [r"op", r"metadgr.*"],
        "spec_tags": [r"c03\..*"],
        "trusted_base": TB_COMMON,
        "assumptions": ASSUME_COMMON + ["phases on the unit circle, constants exact (see C01)"],
        "level_text": "Lean theorems (Props/C03.lean): for every operator built from the public gate set (parameterised, controlled, products, qft, u2/u3), with unit-circle phases: dgr(o) after o and o after dgr(o) are the identity on every state, o * dgr(o) applies as the identity, the dagger's matrix is the conjugate transpose of the operator's matrix, dgr(a*b) = dgr(b)*dgr(a), dgr is involutive and commutes with .c. Proved through the refinement build = denote carrying the operator and its dagger together, plus unitarity of every documented matrix. Tied to the code by the c03 suite (random operators up to depth 3, metamorphic oracles: E then E.dgr, E.dgr then E, E*E.dgr, conjugate-transposed matrices, reversed names).",
        "level_note": "Trusted: Lean kernel + standard axioms; model of AtomicOp::dgr for all kinds (after the D1 repair), SingleOp::dgr, MultiOp::dgr.",
        "technique": TECH,
        "design_ref": "DESIGN.md section 5, C03",
    },
    "C04": {
        "modules": ["Qvnt.Props.C04"],
        "suites": [
            suite("c04", dict(count=600, max_n=5), dict(count=6000, max_n=8, long=1)),
            suite("ops", dict(count=300, max_n=5), dict(count=3000, max_n=7)),
        ],
        # structure of the built queue + the metamorphic product oracles; kernel-level
        # disagreements (apply / matrix lines) belong to C01
        "mismatch_tags": [r"op", r"metamul\..*", r"metamul"],
        "spec_tags": [r"c04\..*"],
        "trusted_base": TB_COMMON,
        "assumptions": ASSUME_COMMON,
        "level_text": "Lean 4 theorems (Props/C04.lean) prove for every queue, state and scalar type that the model's MultiOp::apply - buffer ping-pong and final swap included - is the left fold of its elements, that * / *= / append are list concatenation (hence any grouping is the same operator, identity neutral) and that QReg::apply of a product is one sweep per element. The model is tied to the code on every run by executing generated products (0..400 elements, all assembly forms) on the real crate and on the model, plus metamorphic oracles on the implementation's own outputs (product vs one-by-one vs regrouped vs identity-padded, commuting disjoint factors).",
        "level_note": "Trusted: Lean kernel + propext/Quot.sound; the hand-written model of multi/mod.rs (validated by the correspondence run); rounding is outside the theorems. C04_commute (operators on disjoint qubits commute) is proved through the refinement to the reference circuit.",
        "technique": "Lean 4 proof over a hand-written model + differential correspondence check",
        "design_ref": "DESIGN.md section 5, C04",
    },
}
