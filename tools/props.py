"""Per-property configuration of ./check: which Lean modules carry the property theorems,
which harness suites tie the model to the implementation, which MISMATCH / SPECFAIL tags
(4th field of the driver's report lines) are attributed to the property."""

TB_COMMON = [
    "Lean 4.33.0 kernel; axioms propext, Classical.choice, Quot.sound only (audited with #print axioms on every property theorem; no sorry/admit/axiom/native_decide/bv_decide, source-scanned)",
    "Mathlib v4.33.0 as a library of kernel-checked lemmas (single modules, proof files only)",
    "correspondence check: /verif/harness (Rust, calls the real crate in-process with --cfg qvnt_verif hooks) + /verif/lean/Driver.lean (native, Float instance of the same model definitions), sampling with a seeded PRNG, tolerance 1e-9 on amplitudes, exact on integers",
    "modelled, not verified: IEEE-754 rounding (theorems are over exact commutative rings / reals), libm sin/cos, usize = 64 bit, memory safety of the set_len buffers, allocation failure",
]

ASSUME_COMMON = [
    "the hand-written Lean model is trusted to the extent the correspondence check exercises it (every run regenerates cases from the current /repo working tree)",
    "operators are addressed to qubits inside the amplitude buffer (an out-of-range mask is a Rust index panic, outside the model)",
    "rayon's par_iter contract: the closure runs exactly once per index (C08 covers schedule independence)",
]


def suite(name, quick, thorough):
    return {"suite": name, "quick": quick, "thorough": thorough}


TECH = "Lean 4 proof over a hand-written model + differential correspondence check"

PROPS = {
    "C20": {
        "modules": ["Qvnt.Props.C20"],
        "suites": [
            suite("bits", dict(count=500), dict(count=20000)),
        ],
        "mismatch_tags": None,   # every command of the suite belongs to this property
        "spec_tags": [r"c20\..*", r"c14\.size\.vreg", r"op"],
        "trusted_base": TB_COMMON,
        "assumptions": ASSUME_COMMON + ["machine words are 64 bit (usize)", "CReg shifts by 64 or more (a Rust overflow panic in debug builds) are outside the model"],
        "level_text": "31 Lean theorems (Props/C20.lean): the Rust bit iterator, modelled with the wrapping `pos <<= 1` and explicit fuel, never runs out of fuel and returns exactly the ascending set bits for EVERY 64-bit mask (bit 63 included); VReg contents / every index form are the union of the selected bits; a view exists iff the mask lies inside the register; CReg keeps value < 2^n under with_state/set/xor (masks inside)/reset/set_num/product, updates change exactly the given bits, the product concatenates with the left factor low, the printed form is n binary digits; the h / qft_swapped cursor loops terminate on every word. Tied to the code by running the same operations (masks drawn from the whole word range, top bit set in >50% of cases) on the real crate and the model, plus spec oracles on the implementation's outputs.",
        "level_note": "Trusted: Lean kernel + propext/Classical.choice/Quot.sound; hand-written model of bits_iter.rs, class.rs, virtl.rs, multi/h.rs and multi/qft.rs loops, validated by the correspondence run on every check.",
        "technique": TECH,
        "design_ref": "DESIGN.md section 5, C20",
    },
    "C04": {
        "modules": ["Qvnt.Props.C04"],
        "suites": [
            suite("c04", dict(count=600, max_n=5), dict(count=6000, max_n=8, long=1)),
            suite("ops", dict(count=300, max_n=5), dict(count=3000, max_n=7)),
        ],
        # structure of the built queue + the metamorphic product oracles; kernel-level
        # disagreements (apply / matrix lines) belong to C01
        "mismatch_tags": [r"op", r"metamul\..*", r"metamul"],
        "spec_tags": [r"c04\..*"],
        "trusted_base": TB_COMMON,
        "assumptions": ASSUME_COMMON,
        "level_text": "Lean 4 theorems (Props/C04.lean) prove for every queue, state and scalar type that the model's MultiOp::apply - buffer ping-pong and final swap included - is the left fold of its elements, that * / *= / append are list concatenation (hence any grouping is the same operator, identity neutral) and that QReg::apply of a product is one sweep per element. The model is tied to the code on every run by executing generated products (0..400 elements, all assembly forms) on the real crate and on the model, plus metamorphic oracles on the implementation's own outputs (product vs one-by-one vs regrouped vs identity-padded, commuting disjoint factors).",
        "level_note": "Trusted: Lean kernel + propext/Quot.sound; the hand-written model of multi/mod.rs (validated by the correspondence run); rounding is outside the theorems. Commutation of disjoint operators is decided by the oracle until the locality theorem (Lemmas/SpecAlg) is assembled into Props/C04.",
        "technique": "Lean 4 proof over a hand-written model + differential correspondence check",
        "design_ref": "DESIGN.md section 5, C04",
    },
}
