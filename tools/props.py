"""Per-property configuration of ./check: which Lean modules carry the property theorems,
which harness suites tie the model to the implementation, which MISMATCH / SPECFAIL tags
(4th field of the driver's report lines) are attributed to the property."""

import os

TB_COMMON = [
    "Lean 4.33.0 kernel; axioms propext, Classical.choice, Quot.sound only (audited with #print axioms on every property theorem; no sorry/admit/axiom/native_decide/bv_decide, source-scanned)",
    "Mathlib v4.33.0 as a library of kernel-checked lemmas (single modules, proof files only)",
    "correspondence check: /verif/harness (Rust, calls the real crate in-process with --cfg qvnt_verif hooks) + /verif/lean/Driver.lean (native, Float instance of the same model definitions), sampling with a seeded PRNG, tolerance 1e-9 on amplitudes, exact on integers",
    "modelled, not verified: IEEE-754 rounding (theorems are over exact commutative rings / reals), libm sin/cos, usize = 64 bit, memory safety of the set_len buffers, allocation failure",
]

ASSUME_COMMON = [
    "the hand-written Lean model is trusted to the extent the correspondence check exercises it (every run regenerates cases from the current /repo working tree)",
    "operators are addressed to qubits inside the amplitude buffer (an out-of-range mask is a Rust index panic, outside the model)",
    "rayon's par_iter contract: the closure runs exactly once per index (C08 covers schedule independence)",
]


import glob as _glob
_LEMMAS = os.path.join(os.path.dirname(os.path.dirname(os.path.abspath(__file__))), "lean", "Qvnt", "Lemmas")


def _chunks(*files):
    """the per-declaration modules (tools/lean_split.py) of the given lemma files"""
    out = []
    for f in files:
        out += sorted("Qvnt.Lemmas." + f + "." + os.path.basename(p)[:-5] for p in _glob.glob(os.path.join(_LEMMAS, f, "*.lean")))
    return out


GEN1_FILES = ("GenCore", "GenKOps", "GenKFns", "GenKCtor", "GenRegs")
GEN2_FILES = ("GenPre", "GenQuant", "GenQProb", "GenOps", "GenBits", "GenH", "GenCtors", "GenQft", "GenSample", "GenVirtl", "GenExtOp",
              "GenCreg", "GenMeas", "GenSym", "GenInt", "GenMatrix", "GenMacro", "GenMacroNew", "GenGates")
GEN2_MODULES = _chunks(*GEN2_FILES) + ["Qvnt.Lemmas.GenTwins", "Qvnt.Lemmas.GenThreads"]


def tie(theorems, modules=None, audit=None, sources=".*"):
    """translation tie: the Rust functions translated by tools/rs2lean.py on every run are proved equal to the
    hand-written model by the theorems whose names match `theorems`. Every equality lives in a module of its own
    (tools/lean_split.py), importing only what its proof uses; ./check builds the modules that hold a named equality
    and writes the axiom audit for exactly those on the fly"""
    return {"modules": _chunks(*GEN1_FILES), "theorems": theorems, "select": True, "sources": sources}


def tie2(theorems, sources, creg=False):
    """second translator (tools/rs2lean2.py -> Generated/Regs.lean): as above, for the modules of GEN2_FILES"""
    return {"translator": "rs2lean2", "modules": list(GEN2_MODULES) + _chunks("GenRegs"), "theorems": theorems, "select": True, "sources": sources}


def tie3(theorems, sources):
    """interpreter functions of qasm/int/mod.rs (tools/rs2lean2.py), equalities under Lemmas/GenInt/"""
    return tie2(theorems, sources)


CANON_MODULES = ["Qvnt.Lemmas.Canon." + m for m in ['ParseContext', 'ParseEvalExtended', 'SymInit']]


def tiec(items):
    """canonical-text tie (tools/canon.py -> Generated/Canon.lean): the hand-mirrored items named by the regular
    expression `items` still have the text the model was written against (Lemmas/Canon/*.lean, one module and theorem each)"""
    return {"translator": "canon", "modules": list(CANON_MODULES), "theorems": "(" + items + ")_canon", "select": True,
            "sources": r"UNSUPPORTED .*"}


TB_CANON = "canonical-text tie tools/canon.py: for the interpreter code the model still mirrors by hand (parse.rs: the meval context and eval_extended; the field lists of Int / Macro / Sym; Sym::new / init and its getters - int/mod.rs itself is translated by tools/rs2lean2.py and calls these through the model functions) the current source text, normalised up to comments, layout and names of locals, must be the text the model was written against (tools/canon.json); an edit breaks the named obligation <item>_canon and is then examined by the correspondence suites"

TB_TIE2 = "translator tools/rs2lean2.py (collection-level Rust subset: iterator pipelines over Vec/VecDeque as lists, &mut methods as state-passing functions, loops with fuel, Option for unwrap/unreachable, `match self.th` reduced to the sequential arm after checking that the parallel arm is its rayon twin, random draws as inputs; regenerates Generated/Regs.lean from src/register/quant.rs, src/operator/{single,multi}/mod.rs, src/operator/multi/h.rs, src/operator/mod.rs and src/operator/single/{pauli,rotate,swap}.rs (public constructors), src/math/bits_iter.rs, src/register/{class,virtl}.rs, src/operator/multi/qft.rs, src/qasm/int/ext_op.rs, src/qasm/sym.rs and the declaration / argument-resolution / measure / reset / append functions of src/qasm/int/mod.rs (Result as Except) on every run; Lemmas/GenRegs2.lean, GenRegs3.lean, GenInt.lean prove every translated function equal to the model definition) - the translator and the dozen list combinators of Model/RustStd.lean are trusted, the output is not"
TB_TIE_REG = "translator tools/rs2lean.py (straight-line Rust subset -> Lean; regenerates the classical-register functions of src/register/class.rs on every run; Lemmas/GenRegs.lean proves each equal to the model's CReg function) - the translator itself is trusted, its output is not"
TB_TIE = "translator tools/rs2lean.py (straight-line Rust subset -> Lean; regenerates Generated/Kernels.lean from the current src/operator/atomic/*.rs, math/mod.rs, dispatch.rs on every run; Lemmas/GenKernels.lean proves each translated function equal to the model definition over any commutative ring) - the translator itself is trusted, its output is not"


def suite(name, quick, thorough):
    return {"suite": name, "quick": quick, "thorough": thorough}


# structure of the interpreter state and of the run, without the operator probes (an operator that
# itself acts differently is C01/C09's business) and without lines tagged `.opsdiffer`
INT_STRUCT = [r"i(add|chg|prep)\.(result|summary|blocks?\d*|tail)", r"inew.*", r"ixor.*",
              r"isym\.(new|init|reset|finish)(\.creg)?"]

TECH = "Lean 4 proof over a hand-written model + differential correspondence check"
def tech_tie(part):
    return ("Lean 4 proof over a model whose " + part + " proved equal to the Rust source translated on every run "
            "(tools/rs2lean.py, tools/rs2lean2.py) + differential correspondence check for the hand-written rest of the model")

PROPS = {
    "C05": {
        "modules": ["Qvnt.Props.C05", "Qvnt.Props.Code.C05"],
        "tie": [tie(r".*_op_eq|rotate_eq|negWord_eq|forEach_eq", sources=r"UNSUPPORTED (\w+\.rs: \w+\.rs::(atomic_op|struct)|math/mod\.rs|dispatch\.rs: dispatch\.rs::for_each:)"), tie2(r"quant_\w+_eq|multi_apply_eq|single_apply_eq|parTwins_all", r"UNSUPPORTED (quant\.rs|mod\.rs: operator/(single|multi)/mod\.rs::apply)", creg=True)],
        "suites": [suite("hist", dict(count=600, max_n=5, steps=14), dict(count=4000, max_n=8, steps=200)),
                   suite("intnu", dict(count=250), dict(count=3000))],
        "mismatch_tags": [r"measure.*", r"resetmask", r"setnum.*", r"tensor.*", r"reset", r"probs", r"qstate", r"q2state"],
        "spec_tags": [r"c05\..*"],
        "trusted_base": [TB_TIE2] + [TB_TIE] + TB_COMMON,
        "assumptions": ASSUME_COMMON + ["theorems are over the reals (Real.sqrt); 'finite' and 'within rounding' for f64 are outside them and are checked by the oracle on every step of every generated history (|norm - 1| <= 1e-6, finiteness, zero padding)", "a measurement draws an index of positive weight (rand_distr::WeightedIndex contract)", "operators are addressed to qubits the register has"],
        "level_text": "Lean theorems over the reals (Props/C05.lean): the invariant Inv = (buffer of max(2^n,8) entries, zero padding, norm in [(1-1e-9)^2, 1]) holds for new/with_state (norm exactly 1), is preserved by every queue element that preserves the norm and stays inside the register (discharged for all public gates by C01_norm), by measurement (after which the norm is EXACTLY 1, so it cannot shrink over repeated measurements), reset, set_num, and the tensor product multiplies norms; hence it holds in every state reachable by any finite history (C05_reachable, induction over an inductive Step), where the reported probabilities are non-negative and sum to 1. Tied to the code by the hist suite: random histories of apply / measure / measure_mask (also with out-of-range bits) / tensor / set_num / reset-by-mask on 0..5 (8) qubits, up to 14 (200) steps, state compared with the model after every step and validity checked on the implementation's buffer; plus executed interpreter programs with measure/if/reset.",
        "level_note": "Trusted: Lean kernel + standard axioms; model of quant.rs (after the D2/D3/D12 repairs and the rescale follow-up); WeightedIndex contract. normalize() itself never rescales a norm above 1 (C05_normalize_above_one); inside the invariant that cannot occur.",
        "technique": tech_tie("atomic kernels, element-wise sweep and every register operation of quant.rs (constructors, set_num, reset, collapse, rescale, normalize, measure_mask, reset_by_mask, apply, tensor product) are"),
        "design_ref": "DESIGN.md section 5, C05",
    },
    "C06": {
        "modules": ["Qvnt.Props.C06", "Qvnt.Props.Code.C06"],
        "tie": [tie2(r"quant_(collapse_mask|rescale|measure_mask|measure|get_absolute|get_probabilities)_eq|creg_new_eq", r"UNSUPPORTED quant\.rs: register/quant\.rs::(collapse_mask|rescale|measure_mask|measure|get_absolute|get_probabilities):", creg=True)],
        "suites": [suite("meas", dict(count=800, max_n=6), dict(count=15000, max_n=10))],
        "mismatch_tags": [r"measure.*"],
        "spec_tags": [r"c06\..*"],
        "trusted_base": [TB_TIE2] + TB_COMMON,
        "assumptions": ASSUME_COMMON + ["the drawn basis index is an input of the model (logged by the cfg(qvnt_verif) hook); that it has positive probability is the WeightedIndex contract and is checked on every observed draw"],
        "level_text": "Lean theorems over the reals (Props/C06.lean), for every register, mask and drawn index: the returned value is drawn & mask & q_mask (only measured positions, inside the register); amplitudes inconsistent with it are exactly 0; the consistent ones are the old ones times one common positive factor (exactly 1/sqrt of the outcome's weight), so ratios and phases are kept; any index still carrying amplitude agrees with the outcome on the measured bits, hence measuring again returns the same classical register; an empty effective mask changes nothing; bits beyond the register are ignored. No non-degeneracy hypothesis is needed since measurement rescales directly. Tied to the code by the meas suite: random states x masks (empty, partial, full, out-of-range bits), repeated / sub-mask / disjoint re-measurements, both threading models; each clause is also evaluated on the implementation's buffers.",
        "level_note": "Trusted: Lean kernel + standard axioms; model of measure_mask / collapse_mask / rescale.",
        "technique": tech_tie("collapse_mask, rescale and measure_mask are"),
        "design_ref": "DESIGN.md section 5, C06",
    },
    "C07": {
        "modules": ["Qvnt.Props.C07", "Qvnt.Props.Code.C07"],
        "tie": [tie2(r"quant_(get_probabilities|get_absolute|measure_mask|measure_mask_weights|collapse_mask|rescale|sample_all)_eq|proposal_eq", r"UNSUPPORTED quant\.rs: register/quant\.rs::(collapse_mask|rescale|measure_mask|measure_mask\[weights\]|get_absolute|get_probabilities|sample_all):", creg=True)],
        "suites": [suite("meas", dict(count=600, max_n=5), dict(count=4000, max_n=8)),
                   suite("born", dict(count=16, shots=2048), dict(count=300, shots=16384))],
        "mismatch_tags": [r"probs", r"measure.*"],
        "spec_tags": [r"c07\..*", r"c06\.possible"],
        "trusted_base": [TB_TIE2] + TB_COMMON + ["rand::thread_rng + rand_distr::WeightedIndex draw index i with probability weight_i / total; rand_distr::StandardNormal draws are i.i.d. N(0,1) (contract, not verified)"],
        "assumptions": ASSUME_COMMON + ["PARTIAL by nature: the quality of the PRNG and the Gaussian approximation of a multinomial are statistics, not logic; they are covered by the born suite (chi-square on measure_mask frequencies, mean/variance of sample_all cells) with thresholds around p < 1e-12, as supporting evidence only"],
        "level_text": "Lean theorems over the reals (Props/C07.lean): the reported probabilities are |psi_i|^2 / norm^2; the probability of an outcome on a mask is the push-forward of the full-index draw and equals the sum of |psi_i|^2 over the consistent basis states over the norm; probabilities are invariant under positive rescaling; chain rule P(v1 on m1) * P(v2 on m2 | after measuring v1) = P(v1|v2 on m1|m2) for disjoint masks, hence the joint distribution does not depend on the order of measurement; the linear map sample_all applies to its normal draws has exactly the multinomial covariance diag(p) - p p^T. Partial: the statistical behaviour of the external generators is outside any theorem (see assumptions).",
        "level_note": "Trusted: Lean kernel + standard axioms; the distribution contracts of rand / rand_distr; model of get_probabilities and measure_mask.",
        "technique": tech_tie("get_probabilities, get_absolute and measure_mask are") + " (+ statistical supporting test)",
        "design_ref": "DESIGN.md section 5, C07",
    },
    "C08": {
        "modules": ["Qvnt.Props.C08", "Qvnt.Props.Code.C08"],
        "tie": [tie(r"forEachPar_eq|forEachTwins_true", sources=r"UNSUPPORTED dispatch\.rs"), tie2(r"parTwins_all|th_and_eq|quant_num_threads_eq", r"UNSUPPORTED (.*parallel arm differs|quant\.rs: register/quant\.rs::(and|num_threads))")],
        "suites": [suite("c08", dict(count=400, max_n=7), dict(count=2500, max_n=8, big=1))],
        "mismatch_tags": [r"threads", r"par", r"qreg"],
        "spec_tags": [r"c08\..*"],
        "trusted_base": [TB_TIE2] + [TB_TIE] + TB_COMMON + ["rayon contract: par_iter_mut().enumerate().for_each / into_par_iter().map().collect() run the closure exactly once per index, in any order and grouping"],
        "assumptions": ASSUME_COMMON + ["PARTIAL by nature: the interleavings rayon actually produces cannot be enumerated and f64 reduction order is not associative; the theorem covers every schedule abstractly under the rayon contract, the c08 suite (same script with 1 and k threads, repeated, registers up to 2^14 amplitudes in thorough) is supporting exploration"],
        "level_text": "Lean theorems (Props/C08.lean): an element-wise fill visited in ANY order that covers every index (each once, or repeatedly) yields the same buffer as the sequential loop, whatever the buffer held before (C08_fill, C08_fill_repeats, C08_fill_two_schedules) - this is schedule independence of every sweep in dispatch.rs / quant.rs, generic in the closure; any two reduction trees over the same leaves give the same sum under associativity, any permutation under commutativity (and f64 is neither, which is why sums are promised to rounding only); num_threads accepts exactly 0 < k <= available; the threading-model join is commutative, associative, Single neutral. Tied to the code by running identical scripts (apply of random circuits, collapse, normalize, tensor products, probabilities) single-threaded and with k = 2..16 threads, repeated, and comparing bit patterns (sums to rounding), plus the refusal of 0 / too many threads.",
        "level_note": "Trusted: Lean kernel + standard axioms; the rayon contract; that every parallel loop has the same closure as its sequential twin is established by the bit-for-bit comparison, not by proof.",
        "technique": tech_tie("parallel sweep is (token-identical to the sequential one), and every `match` on the threading model in quant.rs has a parallel arm that is the sequential arm with rayon adaptors; the threading model itself (Model::and, QReg::num_threads with the available thread count as an input) is translated too; those are"),
        "design_ref": "DESIGN.md section 5, C08",
    },
    "C11": {
        "modules": ["Qvnt.Props.C11", "Qvnt.Props.Code.C11"],
        "tie": [tie3(r"int_process_(apply_gate|gate|if|node|nodes|node_apply)_eq|int_(ast_changes|add_ast|new)_eq|processNode_inv|processApply_macros|foldlM_process|regsOf_eq|argsOf_eq|macro_process(_nested)?_eq|macro_argument_name_eq|macro_new_eq|gate_arm_\w+_eq", r"UNSUPPORTED (mod\.rs: qasm/int/mod\.rs::(process_(apply_gate|gate|if|node|nodes)|ast_changes|add_ast|new):|macros\.rs|gates\.rs)"), tiec(r"parse_\w+|sym_\w+"), tie(r"creg_(set|xor|reset|get)_eq|notW_eq", sources=r"UNSUPPORTED class\.rs"), tie2(r"creg_get_by_mask_eq|quant_(reset_by_mask|measure_mask|reset)_eq|bitsList_eq|sym_(finish|step|reset|new|get_class|get_probabilities)_eq|store_(set|xor)_eq|finish_as_foldlM|mstep_inv", r"UNSUPPORTED (quant\.rs: register/quant\.rs::(reset_by_mask|measure_mask|reset):|class\.rs|bits_iter\.rs|sym\.rs)", creg=True), tie2(r"extop_(push|append)_eq", r"UNSUPPORTED ext_op\.rs"), tie3(r"int_process_(measure|reset|barrier)_eq|int_branch(_with_id)?_eq|int_xor_eq|int_get_[qc]_idx_eq", r"UNSUPPORTED mod\.rs: qasm/int/mod\.rs::(process_(measure|reset|barrier)|branch|branch_with_id|xor|get_[qc]_idx_with_context|get_idx_by_alias):")],
        "suites": [suite("intnu", dict(count=900), dict(count=20000)), suite("c17", dict(count=250), dict(count=3000))],
        "mismatch_tags": INT_STRUCT,
        "spec_tags": [r"refsem\.(psi|creg|run)", r"c11\..*", r"iexpect\.accept", r"isame"],
        "trusted_base": [TB_CANON] + [TB_TIE2] + [TB_TIE_REG] + TB_COMMON,
        "assumptions": ASSUME_COMMON + ["measurement outcomes are inputs (the implementation's draw log); declared register sizes are positive in C11_refine_partial (a zero-size register is the known finding D22)"],
        "level_text": "Lean theorems (Props/C11.lean): Sym::finish factors through the event list of the block queue; each statement kind contributes exactly its event (an `if` ALWAYS its own cond event, never merged into a preceding unconditional block; measure and reset their own events; barrier nothing); a cond event applies its operator iff get_by_mask of the condition register equals the value; storeBits changes exactly the paired classical bits (set / xor mode); the interpreter's masks are the reference masks; and the whole pipeline Interp.new -> Sym.finish equals the statement-by-statement reference execution (Spec.refRun) on final state, classical register and remaining draws, for every accepted program with positive register sizes, both measurement modes, user-defined gates included (C11_refine_partial; the unrestricted statement is false because of D22 and is kept in a comment with its counterexample). Tied to the code by the intnu suite (random programs mixing gates, measure in bit and register form, if on any register / value / position, reset of bits and registers, barriers): interpreter state and execution compared with the model for the logged outcomes, and with the reference semantics.",
        "level_note": "Trusted: Lean kernel + standard axioms; model of int/mod.rs, ext_op.rs, sym.rs (after the D11/D12 repairs). reset statistics (C11 'does not change the outcome statistics of other qubits') follow from reset = measure + X and C07_chain.",
        "technique": tech_tie("classical-bit set / xor / reset / get_by_mask functions, reset_by_mask / measure_mask, the block queue, its execution (Sym::finish) and the measure / reset / barrier statements of the interpreter are") + ' (incl. statement dispatch, gate application / definition / `if` statements and the session entry points process_node(s), process_apply_gate, process_gate, process_if, ast_changes, add_ast, Int::new of qasm/int/mod.rs, macros.rs and the arms of the gate! macro of gates.rs are translated as well; parse.rs, the gate-name table and the prefix arm of gates::process are hand-mirrored, tied by tools/canon.py and tools/extract.py)',
        "design_ref": "DESIGN.md section 5, C11 and Appendix B",
    },
    "C12": {
        "modules": ["Qvnt.Props.C12", "Qvnt.Props.Code.C12"],
        "tie": [tie3(r"int_process_(apply_gate|gate|if|node|nodes|node_apply)_eq|int_(ast_changes|add_ast|new)_eq|processNode_inv|processApply_macros|foldlM_process|regsOf_eq|argsOf_eq|macro_process(_nested)?_eq|macro_argument_name_eq|macro_new_eq|gate_arm_\w+_eq", r"UNSUPPORTED (mod\.rs: qasm/int/mod\.rs::(process_(apply_gate|gate|if|node|nodes)|ast_changes|add_ast|new):|macros\.rs|gates\.rs)"), tiec(r"parse_\w+|sym_\w+")],
        "suites": [suite("fuzz", dict(count=2500, timeout=120), dict(count=60000, timeout=3000)),
                   suite("intnu", dict(count=300), dict(count=3000))],
        "mismatch_tags": [r"i(add|chg)\.result", r"isym\.(new|init|reset|finish)(\.creg)?"],
        "spec_tags": [r"c12\..*"],
        "trusted_base": [TB_CANON] + [TB_TIE2] + TB_COMMON,
        "assumptions": ASSUME_COMMON + ["PARTIAL: text -> AST (crate qvnt-qasm) and text -> RPN (crate meval) are external and not modelled; they are explored by the fuzz suite under a watchdog (grammar-generated programs with token / character mutations, truncation, adversarial identifiers, numbers, nesting, recursion), which is exploration, not proof; three defects of that part are known findings (D16, D17, D21)"],
        "level_text": "Lean theorems (Props/C12.lean, 18): every place where the Rust interpreter could panic or loop (unwrap/expect of constructors, slice and HashMap indexing, the name recursion of gates::process, macro expansion) is an explicit `panic` outcome of the model, and NO such outcome is reachable: gates::process never panics for word-sized masks (each macro arm's popcount test is exactly the validity test of the constructor it calls, for all 22 rows of the regenerated table; the name recursion has enough fuel); macro expansion with the call stack check terminates for EVERY table, including mutually recursive definitions, and never indexes a missing formal; under the session invariant (established by the empty session, preserved by add_ast) add_ast returns a value or an error; an accepted program runs to completion for any sufficiently long outcome stream. Tied to the code by the fuzz suite (mutated sources: parse, interpret, execute; any panic / hang / crash of the implementation is a violation with the source as replay) and the intnu suite.",
        "level_note": "Trusted: Lean kernel + standard axioms; the external lexer/parser/expression parser (not modelled). Parameter values are not constrained to be finite in the model: D16 (NaN parameter panics at measurement) is a known finding.",
        "technique": tech_tie("interpreter functions of qasm/int/mod.rs (declarations, argument resolution, statement dispatch, gate application / definition / if, session entry points) are") + " (+ canonical-text tie for macros.rs / parse.rs, fuzzing of the unmodelled front end)",
        "design_ref": "DESIGN.md section 5, C12",
    },
    "C17": {
        "modules": ["Qvnt.Props.C17", "Qvnt.Props.Code.C18", "Qvnt.Props.Code.C17"],
        "tie": [tie3(r"int_process_(apply_gate|gate|if|node|nodes|node_apply)_eq|int_(ast_changes|add_ast|new)_eq|processNode_inv|processApply_macros|foldlM_process|regsOf_eq|argsOf_eq|macro_process(_nested)?_eq|macro_argument_name_eq|macro_new_eq|gate_arm_\w+_eq", r"UNSUPPORTED (mod\.rs: qasm/int/mod\.rs::(process_(apply_gate|gate|if|node|nodes)|ast_changes|add_ast|new):|macros\.rs|gates\.rs)"), tiec(r"sym_\w+"), tie2(r"extop_(push|append)_eq|sym_(finish|step|reset|new|get_class|get_probabilities)_eq|finish_as_foldlM", r"UNSUPPORTED (ext_op\.rs|sym\.rs)", creg=True), tie3(r"int_(append|prepend)_int_eq", r"UNSUPPORTED mod\.rs: qasm/int/mod\.rs::(append_int|prepend_int):")],
        "suites": [suite("c17", dict(count=500), dict(count=10000))],
        "mismatch_tags": INT_STRUCT,
        "spec_tags": [r"isame", r"iexpect\.asts", r"c10\.kinds"],
        "trusted_base": [TB_CANON] + [TB_TIE2] + TB_COMMON,
        "assumptions": ASSUME_COMMON,
        "level_text": "Lean theorems (Props/C17.lean, 15): processing a concatenation is processing the parts in turn; adding chunks one by one (add_ast, or ast_changes + append_int: the same function in the model after the repairs) is accepted iff the whole text is, fails with the same error, and yields an interpreter with equal registers, gate definitions, measurement mode and an observationally equivalent block queue (equal runs for every outcome stream); the record of accepted chunks lists each chunk once, in order; running is invariant under that equivalence; reset after a run restores exactly Sym::new, so re-running reproduces the run from |0...0>. Tied to the code by the c17 suite: every program is fed whole, chunk by chunk through add_ast, and through ast_changes + append_int (1..5 chunks, with and without xor mode), executed with the same seed and compared on final state and classical register; chunk counts checked; reset+finish and init compared with the first run.",
        "level_note": "Trusted: Lean kernel + standard axioms; model of add_ast / ast_changes / append_int (after the D18/D19 repairs), ext_op.rs append/push, sym.rs.",
        "technique": tech_tie("block queue (Op::push, Op::append), append_int / prepend_int and Sym::finish / reset are") + ' (incl. statement dispatch, gate application / definition / `if` statements and the session entry points process_node(s), process_apply_gate, process_gate, process_if, ast_changes, add_ast, Int::new of qasm/int/mod.rs, macros.rs and the arms of the gate! macro of gates.rs are translated as well; parse.rs, the gate-name table and the prefix arm of gates::process are hand-mirrored, tied by tools/canon.py and tools/extract.py)',
        "design_ref": "DESIGN.md section 5, C17 and Appendix B",
    },
    "C18": {
        "modules": ["Qvnt.Props.C18", "Qvnt.Props.Code.C18"],
        "tie": [tie3(r"int_process_(apply_gate|gate|if|node|nodes|node_apply)_eq|int_(ast_changes|add_ast|new)_eq|processNode_inv|processApply_macros|foldlM_process|regsOf_eq|argsOf_eq|macro_process(_nested)?_eq|macro_argument_name_eq|macro_new_eq|gate_arm_\w+_eq", r"UNSUPPORTED (mod\.rs: qasm/int/mod\.rs::(process_(apply_gate|gate|if|node|nodes)|ast_changes|add_ast|new):|macros\.rs|gates\.rs)"), tie3(r"int_(append|prepend)_int_eq|int_process_(qreg|creg)_eq", r"UNSUPPORTED mod\.rs: qasm/int/mod\.rs::(append_int|prepend_int|process_(qreg|creg)):")],
        "suites": [suite("c18", dict(count=700), dict(count=12000))],
        "mismatch_tags": [r"iadd\.(result|summary|blocks?\d*|tail)", r"inew.*"],
        "spec_tags": [r"iunchanged", r"isame", r"iexpect\.plant"],
        "trusted_base": [TB_TIE2] + TB_COMMON,
        "assumptions": ASSUME_COMMON + ["the theorem is immediate for a model that interprets a chunk into a delta and commits on success; its weight is on the correspondence, which shows that the real add_ast behaves like that model for failing chunks with the error after 0..7 accepted statements (also new registers / gate definitions) and for the continuation"],
        "level_text": "Lean theorems (Props/C18.lean): a rejected chunk returns the session unchanged and a later chunk behaves as if the attempt never happened (C18_rollback, C18_continue); statements before the failing one leave nothing behind (C18_prefix_discarded); the computed changes depend only on the session's registers and gate definitions. Tied to the code by the c18 suite: session, snapshot, failing chunk (20 kinds of violation after a prefix of good statements incl. fresh registers and gate definitions), check that Debug-level summary of the session is identical to the snapshot, then a continuation chunk, executed and compared with a session that never saw the failing chunk.",
        "level_note": "Trusted: Lean kernel + standard axioms; model of add_ast (after the D19 repair).",
        "technique": tech_tie("commit step append_int and the declaration functions are") + ' (incl. statement dispatch, gate application / definition / `if` statements and the session entry points process_node(s), process_apply_gate, process_gate, process_if, ast_changes, add_ast, Int::new of qasm/int/mod.rs, macros.rs and the arms of the gate! macro of gates.rs are translated as well; parse.rs, the gate-name table and the prefix arm of gates::process are hand-mirrored, tied by tools/canon.py and tools/extract.py)',
        "design_ref": "DESIGN.md section 5, C18",
    },
    "C19": {
        "modules": ["Qvnt.Props.C19"],
        "suites": [suite("c19", dict(count=40, timeout=200), dict(count=600, timeout=3000))],
        "mismatch_tags": [r"conc.*"],
        "spec_tags": [r"c19\..*"],
        "trusted_base": TB_COMMON + ["std::sync::RwLock: many readers xor one writer, not re-entrant, arbitrary choice among waiting acquirers (writer preference is not modelled); rayon: install runs the job on the pool and lets a waiting worker of another pool run other tasks of its own pool",
                                      "event-log hook (cfg qvnt_verif, src/verif.rs `pool`, enabled in src/threads.rs by shadowing RwLock / ThreadPool / ThreadPoolBuilder with logging stand-ins): every event is recorded under one mutex after the real lock was acquired and before it is released, so the logged order is a linearisation of the real one; the hook itself is trusted"],
        "assumptions": ASSUME_COMMON + ["PARTIAL by nature: rayon's scheduler, lock fairness and the OS cannot be enumerated; the transition system of Model/Pool.lean is tied to threads.rs by trace conformance (every event log the implementation produces in the c19 suite - OS threads, rayon tasks, nested private pool with differing counts, first-use race - must be a run of Pool.Step false that ends with every call returned; C19_trace_sound), and by the watchdog-supervised comparison of every task's result with the same calls made alone; schedules the suite does not produce are covered by the theorems only"],
        "level_text": "Lean theorems (Props/C19.lean) about the transition-system model of threads.rs after the repair (frames per caller thread, nested frames for workers that start a sibling task while waiting in install): the lock discipline holds in every reachable state; a lock holder is always the top frame of its thread and its next step (the release) is enabled; NO reachable state is stuck unless everything has returned (C19_progress), for any number of threads, any thread counts, any nesting; a measure decreases strictly along every step, so there is no infinite run and every call returns within measure(s) steps. The same model with the read guard held across install (the code before the repair) has a concrete reachable stuck state (C19_old_code_deadlocks), so the model can express the failure. C19_trace_sound: an event log accepted by the executable checker Pool.conforms is a run of that transition system from an initial state, so every state the implementation was observed in is Reachable. Tied to the code by replaying, on every run, the event log of every concurrency scenario (lock acquire / release with the pool size seen, global_install entry, install begin / end, per thread) through Pool.conforms: an install entered while the caller holds the lock, a write lock taken while anyone reads, a stored size the model does not predict, or a call that has not returned at the end is a correspondence failure even when no deadlock happens to manifest. Results equal to the calls made alone follow from ownership (registers are thread-owned) and C08, and are compared on every scenario.",
        "level_note": "Trusted: Lean kernel + standard axioms; the hand-written transition system, tied to the code by trace conformance through the event-log hook (not by translation).",
        "technique": "Lean 4 proof over a transition-system model + trace-conformance correspondence check (the implementation's lock / pool event log replayed through the model's step relation, soundness of the replay proved) + watchdog-supervised concurrency stress",
        "design_ref": "DESIGN.md section 5, C19 and A.4",
    },
    "C09": {
        "modules": ["Qvnt.Props.C09", "Qvnt.Props.Code.C09"],
        "tie": [tie2(r"pauli_\w+_eq|rotate_\w+_eq|swapmod_\w+_eq|op_\w+_eq|checked_eq|h_(loop|h)_eq|gate_arm_\w+_eq", r"UNSUPPORTED (mod\.rs: operator/mod\.rs|h\.rs|pauli\.rs|rotate\.rs|swap\.rs|gates\.rs|mod\.rs: operator/single/mod\.rs::(from|single_op_checked):)")],
        "suites": [
            suite("c09", dict(count=4000), dict(count=60000)),
            suite("int", dict(count=250), dict(count=3000)),
        ],
        "mismatch_tags": [r"igate.*", r"iadd.*", r"inew", r"ixor"],
        "spec_tags": [r"c09\..*"],
        "trusted_base": [TB_TIE2] + TB_COMMON + ["translator tools/extract.py: the gate-name table and the canonical-form flags of the gate! macro arms are regenerated from src/qasm/int/gates.rs on every run; C09_table_* / C09_arms_canonical are re-proved by decide over the regenerated table"],
        "assumptions": ASSUME_COMMON + ["qelib1.inc in the repository is an empty stub; the reference definitions (Spec/RefSem.lean, Spec.qelib) are transcribed by hand from the OpenQASM 2.0 paper and the standard qelib1.inc"],
        "level_text": "Lean theorems (Props/C09.lean, 39): the regenerated gate table has exactly the 22 expected names, each bound to the expected macro arm and constructor, upper case = lower case, every macro arm has the canonical text the model mirrors (all by decide over the generated file, so a rebound row, a swapped argument or a dropped .dgr() fails the build); for every table name Gates.process builds exactly what the operator-level program for that name builds (sdg/tdg the daggered gate, u2/u3 with parameters in written order), hence by build_refines the documented matrix; k leading c's take the first k arguments as controls and act as the base gate where all of them are 1 (C09_ctrl_k, C09_ctrl_block); arity errors are characterised; the 14 one-qubit standard names agree with their qelib1.inc definition over U(theta,phi,lambda) up to a global phase (over the reals). Tied to the code by calling the real gates::process on every accepted name (0-2 leading c, upper/lower case, random qubits and parameters) and comparing with the model; oracle: the qelib1.inc definition body evaluated on the same input, up to one global phase (cx cy cz ch ccx crz cu1 cu3 swap cswap included), and the documented matrix for extensions.",
        "level_note": "Trusted: Lean kernel + standard axioms; the translator for the table; hand-written model of the macro arms and the c-prefix recursion (validated by correspondence and by the canonical-text flags). Known finding D9: cu1 is controlled-RZ, not qelib1's controlled phase (C09_cu1_is_crz, C09_cu1_partial).",
        "technique": "Lean 4 proof over a model whose gate table is regenerated from the source and whose public gate constructors (operator/mod.rs, single/{pauli,rotate,swap}.rs, multi/h.rs) are proved equal to the Rust source translated on every run (tools/rs2lean2.py) + differential correspondence check",
        "design_ref": "DESIGN.md section 5, C09",
    },
    "C10": {
        "modules": ["Qvnt.Props.C10", "Qvnt.Props.Code.C11", "Qvnt.Props.Code.C10"],
        "tie": [tie3(r"int_process_(apply_gate|gate|if|node|nodes|node_apply)_eq|int_(ast_changes|add_ast|new)_eq|processNode_inv|processApply_macros|foldlM_process|regsOf_eq|argsOf_eq|macro_process(_nested)?_eq|macro_argument_name_eq|macro_new_eq|gate_arm_\w+_eq", r"UNSUPPORTED (mod\.rs: qasm/int/mod\.rs::(process_(apply_gate|gate|if|node|nodes)|ast_changes|add_ast|new):|macros\.rs|gates\.rs)"), tiec(r"parse_\w+"), tie2(r"extop_(push|append)_eq|sym_(finish|step|reset|new|get_class|get_probabilities)_eq|finish_as_foldlM", r"UNSUPPORTED (ext_op\.rs|sym\.rs)", creg=True), tie3(r"int_get_[qc]_idx_eq|fold_idx_eq|int_branch(_with_id)?_eq|int_process_(qreg|creg|barrier|opaque)_eq", r"UNSUPPORTED mod\.rs: qasm/int/mod\.rs::(get_idx_by_alias|get_[qc]_idx_with_context|branch|branch_with_id|process_(qreg|creg|barrier|opaque)):")],
        "suites": [suite("int", dict(count=800), dict(count=15000)), suite("c10e", dict(count=500), dict(count=6000)),
                   suite("c10f", dict(count=600), dict(count=12000)), suite("c17", dict(count=250), dict(count=3000))],
        "mismatch_tags": INT_STRUCT,
        "spec_tags": [r"refsem\.(psi|creg|run)", r"iexpect\.accept", r"c10\..*", r"isame"],
        "trusted_base": [TB_CANON] + [TB_TIE2] + TB_COMMON,
        "assumptions": ASSUME_COMMON + ["text -> AST (crate qvnt-qasm) and expression text -> RPN (crate meval) are external and not modelled: the model starts from the AST / RPN the real crates produced; the intended value of generated expressions is known to the generator and compared with what the pipeline applied"],
        "level_text": "Lean theorems (Props/C10.lean, 20): bit k of the alias mask is set iff the k-th declared (qu)bit belongs to that register, a register declared after `pre` occupies bits pre.length .. pre.length+n-1 and r[i] resolves to 2^(offset+i), distinct (qu)bits are disjoint; every accepted gate statement changes the queue by exactly one push of its operator and nothing else, measure/reset by exactly one separator block, barrier/declarations not at all, and statements compose in program order; one level of a user-defined gate is its body with formal qubits and parameters substituted, in body order. Tied to the code by the int suite (random programs with several registers, interleaved cregs, parameterised nested gate definitions, expression trees): interpreter state and executed result compared with the model, and the executed result compared with the statement-by-statement reference semantics (Spec/RefSem); by the c10f suite: programs with nested, repeatedly called and built-in-shadowing user gates are run against their flattened form (every expansion done by the generator with the actual qubits and parameter values) through the implementation itself, final states must agree.",
        "level_note": "Trusted: Lean kernel + standard axioms; hand-written model of int/mod.rs, macros.rs, parse.rs (RPN evaluation); external parsers as stated.",
        "technique": tech_tie("block queue (Op::push, Op::append), its execution (Sym::finish), and the interpreter's declarations / argument resolution / queue separators (check_*, process_qreg, process_creg, get_*_idx_with_context, branch) are") + ' (incl. statement dispatch, gate application / definition / `if` statements and the session entry points process_node(s), process_apply_gate, process_gate, process_if, ast_changes, add_ast, Int::new of qasm/int/mod.rs, macros.rs and the arms of the gate! macro of gates.rs are translated as well; parse.rs, the gate-name table and the prefix arm of gates::process are hand-mirrored, tied by tools/canon.py and tools/extract.py)',
        "design_ref": "DESIGN.md section 5, C10",
    },
    "C13": {
        "modules": ["Qvnt.Props.C13", "Qvnt.Props.Code.C13"],
        "tie": [tie3(r"int_process_(apply_gate|gate|if|node|nodes|node_apply)_eq|int_(ast_changes|add_ast|new)_eq|processNode_inv|processApply_macros|foldlM_process|regsOf_eq|argsOf_eq|macro_process(_nested)?_eq|macro_argument_name_eq|macro_new_eq|gate_arm_\w+_eq", r"UNSUPPORTED (mod\.rs: qasm/int/mod\.rs::(process_(apply_gate|gate|if|node|nodes)|ast_changes|add_ast|new):|macros\.rs|gates\.rs)"), tiec(r"parse_\w+"), tie3(r"int_check_(ident|reg_size|dup)_eq|int_process_(qreg|creg|measure|reset)_eq|int_get_[qc]_idx_eq|fold_idx_eq", r"UNSUPPORTED mod\.rs: qasm/int/mod\.rs::(check_(ident|reg_size|dup)|process_(qreg|creg|measure|reset)|get_[qc]_idx_with_context|get_idx_by_alias):")],
        "suites": [suite("c13", dict(count=1000), dict(count=20000))],
        "mismatch_tags": [r"iadd\.result"],
        "spec_tags": [r"iexpect\..*"],
        "trusted_base": [TB_CANON] + [TB_TIE2] + TB_COMMON,
        "assumptions": ASSUME_COMMON + ["statements the external parser itself rejects (e.g. a measure inside a gate body) surface as parse errors and are outside the model"],
        "level_text": "Lean theorems (Props/C13.lean, 52): the first error wins and nothing after it is looked at (a planted violation at any position is reported whatever follows); for each rule an iff-characterisation of when processNode returns that error with its exact payload and in which order the checks apply - undeclared / out-of-range register arguments, declaration limits (identifier length, register size, total size) and duplicates, measure size mismatch, non-gate under if, gate-body rules, unknown gate, register / parameter arity, control overlap, first unbound name in an expression; acceptance: a statement with no error condition is accepted and conversely (for programs using built-in gates). Tied to the code by the c13 suite: well-formed programs with exactly one planted violation (20 kinds) at a random position, expected variant checked on the implementation and payloads compared with the model; the same program without the violation must be accepted.",
        "level_note": "Trusted: Lean kernel + standard axioms; hand-written model of the interpreter's checks. Known finding: a zero-size register does not reserve its name (qreg a[0]; qreg a[1]; is accepted).",
        "technique": tech_tie("static checks of declarations and argument resolution (check_ident, check_reg_size, check_dup, process_qreg, process_creg, get_*_idx_with_context, process_measure, process_reset) are") + ' (incl. statement dispatch, gate application / definition / `if` statements and the session entry points process_node(s), process_apply_gate, process_gate, process_if, ast_changes, add_ast, Int::new of qasm/int/mod.rs, macros.rs and the arms of the gate! macro of gates.rs are translated as well; parse.rs, the gate-name table and the prefix arm of gates::process are hand-mirrored, tied by tools/canon.py and tools/extract.py)',
        "design_ref": "DESIGN.md section 5, C13",
    },
    "C15": {
        "modules": ["Qvnt.Props.C15", "Qvnt.Props.Code.C15"],
        "tie": [tie2(r"h_(loop|h)_eq|op_h_eq|qft_qft(_swapped)?_eq|op_qft(_swapped)?_eq|swapped_loop_eq|vec_eq", r"UNSUPPORTED (h\.rs|qft\.rs|mod\.rs: operator/mod\.rs::(h|qft|qft_swapped):|rotate\.rs: operator/single/rotate\.rs::rz:|swap\.rs: operator/single/swap\.rs::swap:)")],
        "suites": [suite("dft", dict(count=700, max_n=6), dict(count=6000, max_n=9))],
        "mismatch_tags": None,
        "spec_tags": [r"dft"],
        "trusted_base": [TB_TIE2] + TB_COMMON,
        "assumptions": ASSUME_COMMON + ["the theorem is over the reals with Real.cos / Real.sin; the implementation uses libm at f64"],
        "level_text": "Lean theorems (Props/C15.lean): for EVERY ascending list of selected bits (any 64-bit mask, contiguous or scattered) the circuit built by qft acts, on every state and index, as lam * DFT on the selected sub-register composed with the qubit reversal, and qft_swapped as lam * DFT, with |lam| = 1 and the identity on the other qubits; the swap layer is the reversal; each 'controlled RZ + RZ/2 on the control' pair is the controlled phase shift up to cis(-theta/4); qft followed by its dagger is the identity. Proved by radix-2 induction over the bit list (Lemmas/Dft*.lean) on top of Ctor.qft_apply (the model constructor builds exactly that circuit). Tied to the code by the dft suite: random masks and states, the implementation's output compared with the model and with the DFT matrix up to one global phase.",
        "level_note": "Trusted: Lean kernel + standard axioms; model of multi/qft.rs (after the D10 repair).",
        "technique": tech_tie("constructors multi::h::h, multi::qft::qft and qft_swapped are"),
        "design_ref": "DESIGN.md section 5, C15 and Appendix A",
    },
    "C14": {
        "modules": ["Qvnt.Props.C14", "Qvnt.Props.Code.C14"],
        "tie": [tie(r"creg_(tensor_prod|with_state|set_num|mask_of|num)_eq", sources=r"UNSUPPORTED class\.rs"), tie2(r"quant_(new|with_state|set_num|reset|tensor_prod|get_probabilities)_eq|creg_(mul|mul_assign|new)_eq", r"UNSUPPORTED (quant\.rs: register/quant\.rs::(new|with_state|set_num|reset|tensor_prod|get_probabilities):|class\.rs)", creg=True)],
        "suites": [suite("reg", dict(count=800, max_n=6), dict(count=10000, max_n=9))],
        "mismatch_tags": [r"qobs.*", r"tensor.*", r"setnum.*", r"probs", r"polar", r"qvreg", r"creg", r"ctensor", r"cmulassign", r"qstate", r"q2state", r"q2reg"],
        "spec_tags": [r"c14\..*"],
        "trusted_base": [TB_TIE2] + [TB_TIE_REG] + TB_COMMON,
        "assumptions": ASSUME_COMMON + ["get_polar (to_polar: hypot/atan2 from libm) is checked by the correspondence only: the polar pairs must reconstruct the model's amplitudes and there must be 2^n of them"],
        "level_text": "Lean theorems (Props/C14.lean) over the register model: with_state(n, s) is the basis state s mod 2^n in a buffer of max(2^n, 8) entries; the tensor product has amplitude a[i mod 2^na] * b[i div 2^na] below 2^(na+nb) and zero padding, sizes add, the empty register is neutral on both sides (quantum and classical); probabilities have 2^n entries and the vreg n entries for every n; growing keeps the amplitudes and adds |0> qubits, shrinking yields exactly QReg::new(n). All for every n, every state. Tied to the code by the reg suite (construction with indices >= 2^n, chains of products of 0..3-qubit registers in random states and threading models, grow/shrink sequences, observable sizes) executed on the real crate and the model, with the same statements as oracles on the implementation's outputs.",
        "level_note": "Trusted: Lean kernel + standard axioms; hand-written model of quant.rs/class.rs construction, tensor_prod and set_num (after the D3 repair), validated by the correspondence run.",
        "technique": tech_tie("quantum-register constructors, set_num, reset, tensor_prod and the classical-register constructors / products are"),
        "design_ref": "DESIGN.md section 5, C14",
    },
    "C16": {
        "modules": ["Qvnt.Props.C16", "Qvnt.Props.Code.C16"],
        "tie": [tie2(r"quant_sample_all_eq|surplus_loop_eq|updateSelected_eq_go|proposal_eq|quant_get_probabilities_eq", r"UNSUPPORTED quant\.rs: register/quant\.rs::(sample_all|get_probabilities):")],
        "suites": [suite("sample", dict(count=1000, max_n=6), dict(count=20000, max_n=10))],
        "mismatch_tags": [r"sample"],
        "spec_tags": [r"c16\..*"],
        "trusted_base": [TB_TIE2] + TB_COMMON,
        "assumptions": ASSUME_COMMON + ["the standard-normal draws are inputs of the model (for single-threaded registers the harness reproduces them from the seeded generator; with several threads the order of the draws is not reproducible and only the postconditions are checked)", "stage 1 (floating-point proposal) is modelled at Float; C16_zero assumes round(0) <= 0 and sqrt 0 * x = 0 as explicit hypotheses"],
        "level_text": "Lean theorems (Props/C16.lean) about the integer correction pass of sample_all (after the D4/D5 repair), for EVERY proposal vector, every positivity pattern and every shot count: the pass never indexes out of bounds and its surplus walk terminates within the stated fuel, the result has 2^n cells, sums to exactly the requested count whenever some outcome is possible, and cells of zero probability keep zero shots; lifted to sample_all with the Gaussian draws as an input list. Tied to the code by the sample suite: sparse states on 0..6 qubits (0..10 thorough), counts 0/1/odd/large, both threading models; for single-threaded registers the model reproduces the exact histogram from the same draws; the three postconditions are checked on every implementation output.",
        "level_note": "Trusted: Lean kernel + standard axioms; hand-written model of sample_all; rand_distr::StandardNormal and the seeded generator hook (cfg qvnt_verif) as the source of the draws.",
        "technique": tech_tie("whole of sample_all (Gaussian proposal with the normal draws as an input list, deficit distribution over the possible outcomes, surplus walk) is"),
        "design_ref": "DESIGN.md section 5, C16",
    },
    "C20": {
        "modules": ["Qvnt.Props.C20", "Qvnt.Props.Code.C20"],
        "tie": [tie(r"creg_.*_eq|notW_eq", sources=r"UNSUPPORTED class\.rs"), tie2(r"bits_(from|next)_eq|bitsCollect_eq|bitsList_eq|creg_(get_by_mask|mul|mul_assign|new|fmt)_eq|h_(loop|h)_eq|vreg_\w+_eq|quant_get_vreg(_by)?_eq", r"UNSUPPORTED (bits_iter\.rs|class\.rs|h\.rs|virtl\.rs|quant\.rs: register/quant\.rs::get_vreg)", creg=True)],
        "suites": [
            suite("bits", dict(count=1000, timeout=60), dict(count=20000, timeout=600)),
        ],
        "mismatch_tags": [r"bitsiter", r"countbits", r"vreg", r"vnew", r"vidx", r"vpred", r"vlist", r"creg", r"cnew", r"cset", r"cxor", r"cgetmask", r"creset", r"cdebug", r"ctensor", r"cmulassign", r"csetnum", r"qvreg", r"qvregby"],
        "spec_tags": [r"c20\..*", r"c14\.size\.vreg"],
        "trusted_base": [TB_TIE2] + [TB_TIE_REG] + TB_COMMON,
        "assumptions": ASSUME_COMMON + ["machine words are 64 bit (usize)", "CReg shifts by 64 or more (a Rust overflow panic in debug builds) are outside the model"],
        "level_text": "31 Lean theorems (Props/C20.lean): the Rust bit iterator, modelled with the wrapping `pos <<= 1` and explicit fuel, never runs out of fuel and returns exactly the ascending set bits for EVERY 64-bit mask (bit 63 included); VReg contents / every index form are the union of the selected bits; a view exists iff the mask lies inside the register; CReg keeps value < 2^n under with_state/set/xor (masks inside)/reset/set_num/product, updates change exactly the given bits, the product concatenates with the left factor low, the printed form is n binary digits; the h / qft_swapped cursor loops terminate on every word. Tied to the code by running the same operations (masks drawn from the whole word range, top bit set in >50% of cases) on the real crate and the model, plus spec oracles on the implementation's outputs.",
        "level_note": "Trusted: Lean kernel + propext/Classical.choice/Quot.sound; hand-written model of bits_iter.rs, class.rs, virtl.rs, multi/h.rs and multi/qft.rs loops, validated by the correspondence run on every check.",
        "technique": tech_tie("bit iterator (BitsIter::next), virtual registers (virtl.rs: construction and every index form, get_vreg / get_vreg_by), classical-register functions (class.rs incl. get_by_mask, *, *=) and the cursor loop of multi::h::h are"),
        "design_ref": "DESIGN.md section 5, C20",
    },
    "C01": {
        "modules": ["Qvnt.Props.C01", "Qvnt.Props.Code.C01"],
        "tie": [tie(r".*_(op|isValid|actsOn|new)_eq|rotate_eq|negWord_eq|yIPow_eq|forEach_eq|ctrlTest_iff|count_bits_eq", sources=r"UNSUPPORTED (?!class\.rs|dispatch\.rs: dispatch\.rs::for_each_par)"), tie2(r"single_(apply|from)_eq|multi_apply_eq|quant_apply_eq|h_(loop|h)_eq|pauli_\w+_eq|rotate_\w+_eq|swapmod_\w+_eq|op_\w+_eq|checked_eq|multi_matrix_eq|matrixArr_eq_matrix", r"UNSUPPORTED (mod\.rs: operator/|h\.rs|pauli\.rs|rotate\.rs|swap\.rs|applicable\.rs|quant\.rs: register/quant\.rs::apply:)")],
        "suites": [
            suite("c01x", dict(count=0, max_n=3), dict(count=0, max_n=4)),
            suite("c01", dict(count=1200, max_n=6), dict(count=20000, max_n=9)),
        ],
        "mismatch_tags": None,
        "spec_tags": [r"op", r"apply", r"applyeach", r"matrix"],
        "trusted_base": [TB_TIE2] + [TB_TIE] + TB_COMMON,
        "assumptions": ASSUME_COMMON + ["angles enter the theorems as half-angle phases (c, s) with c*c + s*s = 1; the conversion angle -> (cos(a/2), sin(a/2)) is one libm call on each side", "the constants satisfy 2*h*h = 1 (FRAC_1_SQRT_2) and 2*half = 1 exactly in the theorems; in f64 they hold to rounding"],
        "level_text": "Lean theorems (Props/C01.lean, via Lemmas/Kernels, Multi, Ctor, Refine, Matrix): every kernel of src/operator/atomic equals the action of its documented matrix (one-qubit gates for any mask bit, two-qubit gates for any two distinct bits), the multi-bit forms of x y z s t and h are that gate on each selected qubit for EVERY 64-bit mask (including the wrapped i-power arithmetic of y/s/t), u1/u2/u3 are the documented products, constructors needing one/two target bits refuse exactly the other masks, the reported matrix is the linear map performed (finite-sum statement) and the map preserves the norm; for every angle (unit-circle phase), every register size, every state. Tied to the code by an exhaustive small-scope run (all gate kinds x all masks x all basis states, n <= 3; n <= 4 thorough) plus random leaf programs up to 6 (9) qubits, compared against the model and against the documented-matrix reference semantics.",
        "level_note": "Trusted: Lean kernel + standard axioms; hand-written model of the 18 reachable atomic kernels, SingleOp/MultiOp and the constructors of operator/mod.rs, multi/h.rs; the doc-comment matrices transcribed into Spec/Gates.lean. Rounding error is outside the theorems (commutative-ring scalars).",
        "technique": tech_tie("atomic kernels, constructors, validity tests, element-wise sweep, SingleOp/MultiOp/QReg::apply, multi::h::h and Applicable::matrix (row construction + in-place transposition) are"),
        "design_ref": "DESIGN.md section 5, C01",
    },
    "C02": {
        "modules": ["Qvnt.Props.C02", "Qvnt.Props.Code.C02"],
        "tie": [tie(r"forEach_eq|ctrlTest_iff|.*_actsOn_eq", sources=r"UNSUPPORTED dispatch\.rs: dispatch\.rs::for_each:"), tie2(r"single_(c|act_on)_eq|multi_(c|act_on)_eq", r"UNSUPPORTED mod\.rs: operator/(single|multi)/mod\.rs::(c|act_on):")],
        "suites": [suite("c02", dict(count=1200, max_n=5), dict(count=20000, max_n=8))],
        "mismatch_tags": [r"op", r"metactrl", r"metactrl\.acton"],
        "spec_tags": [r"c02\..*"],
        "trusted_base": [TB_TIE2] + [TB_TIE] + TB_COMMON,
        "assumptions": ASSUME_COMMON,
        "level_text": "Lean theorems (Props/C02.lean): for every operator built from the public gate set and every control mask, .c(m) is refused exactly when m overlaps the qubits acted on or controlled by, otherwise every queue element gets the mask OR-ed into its controls, the reported support is the union, nested controls compose, and the controlled product applies the original map where all bits of m are 1 and leaves every other amplitude untouched (C02_block, proved from the read-locality of every kernel: controlling commutes with composition). Tied to the code by the c02 suite: random operators (products, daggers, already controlled, qft) x control masks (0-3 bits, disjoint and overlapping, nested), with a metamorphic oracle on the implementation's own outputs (E.c(m) on psi against E on the projected state).",
        "level_note": "Trusted: Lean kernel + standard axioms; model of dispatch.rs for_each control test (idx & ctrl == ctrl), SingleOp::c, MultiOp::c. The oracle compares the implementation with itself, so a kernel defect does not raise C02.",
        "technique": tech_tie("element-wise sweep with its control test and SingleOp::c / MultiOp::c / act_on are"),
        "design_ref": "DESIGN.md section 5, C02",
    },
    "C03": {
        "modules": ["Qvnt.Props.C03", "Qvnt.Props.Code.C03"],
        "tie": [tie(r".*_(dgr|op)_eq|rotate_eq|negWord_eq", sources=r"UNSUPPORTED (\w+\.rs: \w+\.rs::(atomic_op|dgr|this|struct)|math/mod\.rs)"), tie2(r"single_dgr_eq|multi_dgr_eq|multi_matrix_eq|matrixArr_eq_matrix", r"UNSUPPORTED (mod\.rs: operator/(single|multi)/mod\.rs::dgr|applicable\.rs)")],
        "suites": [suite("c03", dict(count=1200, max_n=5), dict(count=20000, max_n=8))],
        "mismatch_tags": [r"op", r"metadgr", r"metadgr\.(names|acton)"],
        "spec_tags": [r"c03\..*"],
        "trusted_base": [TB_TIE2] + [TB_TIE] + TB_COMMON,
        "assumptions": ASSUME_COMMON + ["phases on the unit circle, constants exact (see C01)"],
        "level_text": "Lean theorems (Props/C03.lean): for every operator built from the public gate set (parameterised, controlled, products, qft, u2/u3), with unit-circle phases: dgr(o) after o and o after dgr(o) are the identity on every state, o * dgr(o) applies as the identity, the dagger's matrix is the conjugate transpose of the operator's matrix, dgr(a*b) = dgr(b)*dgr(a), dgr is involutive and commutes with .c. Proved through the refinement build = denote carrying the operator and its dagger together, plus unitarity of every documented matrix. Tied to the code by the c03 suite (random operators up to depth 3, metamorphic oracles: E then E.dgr, E.dgr then E, E*E.dgr, conjugate-transposed matrices, reversed names).",
        "level_note": "Trusted: Lean kernel + standard axioms; model of AtomicOp::dgr for all kinds (after the D1 repair), SingleOp::dgr, MultiOp::dgr.",
        "technique": tech_tie("atomic kernels, their dgr(), SingleOp::dgr, MultiOp::dgr and Applicable::matrix are"),
        "design_ref": "DESIGN.md section 5, C03",
    },
    "C04": {
        "modules": ["Qvnt.Props.C04", "Qvnt.Props.Code.C04"],
        "tie": [tie2(r"multi_(apply|mul_assign)_eq|single_apply_eq|quant_apply_eq", r"UNSUPPORTED (mod\.rs: operator/(single|multi)/mod\.rs::(apply|mul_assign):|quant\.rs: register/quant\.rs::apply:)")],
        "suites": [
            suite("c04", dict(count=1000, max_n=5), dict(count=6000, max_n=8, long=1)),
            suite("ops", dict(count=500, max_n=5), dict(count=3000, max_n=7)),
        ],
        # structure of the built queue + the metamorphic product oracles; kernel-level
        # disagreements (apply / matrix lines) belong to C01
        "mismatch_tags": [r"op", r"metamul"],
        "spec_tags": [r"c04\..*"],
        "trusted_base": [TB_TIE2] + TB_COMMON,
        "assumptions": ASSUME_COMMON,
        "level_text": "Lean 4 theorems (Props/C04.lean) prove for every queue, state and scalar type that the model's MultiOp::apply - buffer ping-pong and final swap included - is the left fold of its elements, that * / *= / append are list concatenation (hence any grouping is the same operator, identity neutral) and that QReg::apply of a product is one sweep per element. The model is tied to the code on every run by executing generated products (0..400 elements, all assembly forms) on the real crate and on the model, plus metamorphic oracles on the implementation's own outputs (product vs one-by-one vs regrouped vs identity-padded, commuting disjoint factors).",
        "level_note": "Trusted: Lean kernel + propext/Quot.sound; the hand-written model of multi/mod.rs (validated by the correspondence run); rounding is outside the theorems. C04_commute (operators on disjoint qubits commute) is proved through the refinement to the reference circuit.",
        "technique": tech_tie("queue application with its buffer ping-pong (MultiOp::apply, SingleOp::apply, QReg::apply) and *= are"),
        "design_ref": "DESIGN.md section 5, C04",
    },
}
