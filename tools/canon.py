#!/usr/bin/env python3
"""
Canonical-text tie for the parts of /repo that the Lean model mirrors by hand and that neither
translator (rs2lean.py, rs2lean2.py) covers: qasm/int/parse.rs (the meval context,
eval_extended), the field lists of Int / Macro / Sym, Sym::new / init and its getters. (int/mod.rs itself is translated
by rs2lean2.py; its calls into these files go to the model functions named here.)

For every listed item the current source text is normalised (comments and white space removed, local
variable names replaced by v1, v2, .. in order of first occurrence, so that re-formatting, comments and
renaming of locals do not matter) and compared with the text the model was written against
(tools/canon.json). The result is lean/Qvnt/Generated/Canon.lean, a table `item -> still the mirrored text`;
Lemmas/GenCanon.lean proves one theorem per item by `decide`, so an edit of a hand-mirrored function breaks a
named proof obligation of exactly the properties that rely on that function. This says nothing about whether
the edit is harmful: ./check then searches for a failing input with the property's suites and reports
`no-failing-input-found` when there is none (the model has to be re-validated against the new text).

  tools/canon.py            regenerate Canon.lean (exit 2 if an item differs / is missing)
  tools/canon.py --accept   record the current text of every item as the mirrored one (after the model was
                            re-validated by hand against it)
"""
import hashlib, json, os, re, sys

REPO = os.environ.get("QVNT_REPO", os.environ.get("VERIF_REPO", "/repo"))
ROOT = os.path.dirname(os.path.dirname(os.path.abspath(__file__)))
OUT = os.path.join(ROOT, "lean", "Qvnt", "Generated", "Canon.lean")
DB = os.path.join(ROOT, "tools", "canon.json")

# (lean name, file, kind, rust name): kind fn = `fn name` .. matching brace; struct = `struct name` .. brace;
# block = a `name! {` .. brace macro invocation
ITEMS = [
    ("parse_context", "qasm/int/parse.rs", "block", "thread_local"),
    ("parse_eval_extended", "qasm/int/parse.rs", "fn", "eval_extended"),
    ("sym_init", "qasm/sym.rs", "fn", "init"),
]

KEYWORDS = set("""as break const continue crate else enum extern false fn for if impl in let loop match mod move mut
pub ref return self Self static struct super trait true type unsafe use where while async await dyn
usize u8 u16 u32 u64 i8 i16 i32 i64 isize f32 f64 bool str char""".split())

TOKEN = re.compile(r"""
    (?P<ws>\s+) | (?P<lc>//[^\n]*) | (?P<bc>/\*.*?\*/) |
    (?P<str>b?"(?:\\.|[^"\\])*") | (?P<chr>'(?:\\.|[^'\\])') | (?P<life>'[A-Za-z_][A-Za-z0-9_]*) |
    (?P<num>\d[\w.]*) | (?P<id>[A-Za-z_][A-Za-z0-9_]*) | (?P<op>::|->|=>|==|!=|<=|>=|&&|\|\||<<|>>|\.\.=|\.\.|[^\sA-Za-z0-9_])
""", re.X | re.S)


def tokens(src):
    out = []
    for m in TOKEN.finditer(src):
        k = m.lastgroup
        if k in ("ws", "lc", "bc"):
            continue
        out.append((k, m.group(0)))
    return out


def strip_cfg_verif(toks):
    """drop items / statements under #[cfg(qvnt_verif)] (hooks are not part of what the model mirrors)"""
    out, i = [], 0
    while i < len(toks):
        if [t for _, t in toks[i:i + 7]] == ["#", "[", "cfg", "(", "qvnt_verif", ")", "]"]:
            i += 7
            depth = 0
            while i < len(toks):
                t = toks[i][1]
                if t in "([{":
                    depth += 1
                elif t in ")]}":
                    depth -= 1
                    if depth == 0 and t == "}":
                        i += 1
                        break
                elif t == ";" and depth == 0:
                    i += 1
                    break
                i += 1
            continue
        out.append(toks[i]); i += 1
    return out


def find_item(toks, kind, name):
    """token range of the first item of that kind and name (cfg(test) modules come last in these files)"""
    n = len(toks)
    for i in range(n - 1):
        if kind == "fn" and toks[i][1] == "fn" and toks[i + 1][1] == name:
            start = i
        elif kind == "struct" and toks[i][1] == "struct" and toks[i + 1][1] == name:
            start = i
        elif kind == "block" and toks[i][1] == name and toks[i + 1][1] == "!":
            start = i
        else:
            continue
        j = start
        while j < n and toks[j][1] not in ("{", ";"):
            j += 1
        if j >= n:
            return None
        if toks[j][1] == ";":
            return toks[start:j + 1]
        depth = 0
        while j < n:
            if toks[j][1] == "{":
                depth += 1
            elif toks[j][1] == "}":
                depth -= 1
                if depth == 0:
                    return toks[start:j + 1]
            j += 1
        return None
    return None


def canon(toks):
    names, out = {}, []
    for i, (k, t) in enumerate(toks):
        if k == "id" and t not in KEYWORDS and t[0].islower() or (k == "id" and t[0] == "_" and len(t) > 1):
            prev = toks[i - 1][1] if i else ""
            nxt = toks[i + 1][1] if i + 1 < len(toks) else ""
            if prev in (".", "::", "fn", "'") or nxt in ("(", "!", "::", ":"):
                out.append(t)
            else:
                out.append(names.setdefault(t, f"v{len(names) + 1}"))
        else:
            out.append(t)
    return " ".join(out)


def main():
    accept = "--accept" in sys.argv
    db = json.load(open(DB)) if os.path.exists(DB) else {}
    rows, problems = [], []
    cache = {}
    for lean, file, kind, name in ITEMS:
        path = os.path.join(REPO, "src", file)
        if file not in cache:
            cache[file] = strip_cfg_verif(tokens(open(path).read())) if os.path.exists(path) else None
        toks = cache[file]
        item = find_item(toks, kind, name) if toks is not None else None
        text = canon(item) if item else None
        if accept:
            if text is None:
                print(f"canon: {file}::{name} not found"); return 1
            db[lean] = {"file": file, "item": f"{kind} {name}", "sha1": hashlib.sha1(text.encode()).hexdigest(), "text": text}
            continue
        want = db.get(lean)
        same = bool(want) and text is not None and hashlib.sha1(text.encode()).hexdigest() == want["sha1"]
        rows.append((lean, file, name, same))
        if not same:
            why = "not found" if text is None else "differs from the text the model mirrors"
            problems.append(f"{os.path.basename(file)}: {file}::{name}: {why}")
    if accept:
        json.dump(db, open(DB, "w"), indent=1, sort_keys=True)
        print(f"canon: recorded {len(db)} items")
        return 0
    text = "/- GENERATED by tools/canon.py from /repo/src — do not edit.\n" \
           "   `true` = the item still has (up to comments, layout and names of locals) the text the hand-written model mirrors. -/\n" \
           "namespace Qvnt.Generated\n\n"
    for lean, file, name, same in rows:
        text += f"/-- src/{file}: {name} -/\ndef canon_{lean} : Bool := {'true' if same else 'false'}\n"
    text += "\nend Qvnt.Generated\n"
    old = open(OUT).read() if os.path.exists(OUT) else None
    if old != text:
        open(OUT, "w").write(text)
    for p in problems:
        print("canon: UNSUPPORTED", p)
    print(f"canon: {len(rows)} items, {len(problems)} differ -> {OUT}")
    return 2 if problems else 0


if __name__ == "__main__":
    sys.exit(main())
