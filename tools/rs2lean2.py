#!/usr/bin/env python3
"""
rs2lean2 — second translator: the collection-level Rust of qvnt (iterator pipelines over Vec /
VecDeque buffers, `&mut self` methods, loops, Option) -> Lean definitions, regenerated from the
*current* /repo sources on every run into lean/Qvnt/Generated/Regs.lean.

Translated (see TARGETS): src/register/quant.rs (constructors, set_num, reset, collapse, rescale,
normalize, probabilities, measure_mask, reset_by_mask, tensor_prod), src/operator/multi/mod.rs
(apply with its buffer ping-pong, act_on, dgr, c, mul_assign), src/operator/single/mod.rs (apply,
act_on, dgr, c), src/math/bits_iter.rs (next), src/operator/multi/h.rs, src/register/virtl.rs,
src/register/class.rs (get_by_mask, mul_assign), src/qasm/int/ext_op.rs (push, append).
lean/Qvnt/Lemmas/GenRegs2.lean proves each generated definition equal to the hand-written MODEL
definition the property theorems are about.

Conventions of the translation (the trusted part; everything else is checked by Lean):
  * Vec<T>, VecDeque<T>, slices            -> List T         (`v[i]` reads `v.getD i 0`, writes `v.set i x`:
                                                              an out-of-bounds index, a Rust panic, is outside the model)
  * usize arithmetic                       -> Nat with explicit wrap (shlW / wrapSub / notW as in rs2lean.py)
  * `&mut self` / `&mut x` parameters      -> returned new values (result tuple: return value, then self, then the rest)
  * `x.unwrap()`, `expect`, unreachable    -> the function returns `Option`, `none` = panic
  * `while` / `loop`                       -> an auxiliary recursive definition with explicit fuel, `none` = out of fuel
  * `match self.th { Single => A, Multi(n) => global_install(n, || B) }` -> A, after checking that B is A with the
    rayon adaptors (`par_iter`, `par_iter_mut`, `into_par_iter`, `apply_sync`) replaced by their sequential twins;
    a parallel arm that is not the twin is reported (UNSUPPORTED ... parallel arm differs)
  * random draws (`thread_rng().sample(..)`) -> an extra input parameter of the function
  * statements under #[cfg(qvnt_verif)] are not part of the crate and are skipped
Anything outside the subset makes the translator fail loudly for that function: it never guesses.
"""
import os, re, sys

sys.path.insert(0, os.path.dirname(os.path.abspath(__file__)))
from rsparse import Unsupported, tokenize, skip_cfg_items, find_fn  # noqa: E402

REPO = os.environ.get("QVNT_REPO", "/repo")
ROOT = os.environ.get("VERIF_ROOT", os.path.dirname(os.path.dirname(os.path.abspath(__file__))))
OUT = os.path.join(ROOT, "lean", "Qvnt", "Generated", "Regs.lean")

INT_BITS = {"N": 64, "u64": 64, "u32": 32, "u8": 8, "u16": 16, "i32": 32}


def is_int(t):
    return isinstance(t, str) and t in INT_BITS


# ------------------------------------------------------------------------------------------
# types

STRUCTS = {
    # rust struct name (per file context) -> (lean type, fields [(name, type)] or None for transparent newtypes)
}


def lean_ty(t):
    if is_int(t):
        return "Nat"
    if t == "Z":
        return "Int"
    if t == "bool":
        return "Bool"
    if t == "R":
        return "R"
    if t == "C":
        return "Cx R"
    if t == "unit":
        return "Unit"
    if t == "str":
        return "String"
    if t == "Ast":
        return "Nat"              # an accepted source chunk: the model records its node count
    if isinstance(t, tuple):
        if t[0] == "fn":
            return " → ".join(atom(lean_ty(x)) for x in t[1] + [t[2]])
        if t[0] == "vec":
            return f"List {atom(lean_ty(t[1]))}"
        if t[0] == "opt":
            return f"Option {atom(lean_ty(t[1]))}"
        if t[0] == "res":
            return f"Except IntError {atom(lean_ty(t[1]))}"
        if t[0] == "resE":
            return f"Except EvalErr {atom(lean_ty(t[1]))}"
        if t[0] == "map":
            # HashMap<&str, V>: association list, later entries win (Model/Interp.lean, Rs.map*)
            v = ("struct", t[1]) if isinstance(t[1], str) and t[1] in STRUCT_LEAN else t[1]
            return f"List (String × {atom(lean_ty(v))})"
        if t[0] == "tup":
            return " × ".join(atom(lean_ty(x)) for x in t[1])
        if t[0] == "struct":
            return STRUCT_LEAN[t[1]]
    raise Unsupported(f"no Lean type for {t}")


STRUCT_LEAN = {"EvalErr": "EvalErr", "FuncErr": "FuncErr", "Call": "Call R", "MacroErr": "MacroErr", "AstNode": "Node R", "Inner": "Inner R", "PExpr": "PExpr R", "Macro": "Macro R", "QReg": "QRegG R", "CReg": "CRegG", "VReg": "VRegG", "SingleOp": "SingleOp R", "BitsIter": "BitsIterG",
               "Atom": "Atom R", "ExtOp": "ExtOp R", "Sep": "Sep", "MeasureOp": "MeasureOp", "Sym": "SymG R", "Int": "Interp R", "Argument": "Arg", "IntError": "IntError"}
STRUCT_FIELDS = {
    "QReg": [("psi", ("vec", "C")), ("q_num", "N"), ("q_mask", "N")],
    "CReg": [("value", "N"), ("q_num", "N"), ("q_mask", "N")],
    "SingleOp": [("act", "N"), ("ctrl", "N"), ("func", ("struct", "Atom"))],
    "BitsIter": [("bits", "N"), ("pos", "N")],
    "VReg": [("bits", ("vec", "N"))],
    "Int": [("m_op", ("struct", "MeasureOp")), ("q_reg", ("vec", "str")), ("c_reg", ("vec", "str")), ("q_ops", ("struct", "ExtOp")),
            ("macros", ("map", "Macro")), ("asts", ("vec", "Ast"))],
    "Sym": [("m_op", ("struct", "MeasureOp")), ("q_reg", ("struct", "QReg")), ("c_reg", ("struct", "CReg")), ("q_ops", ("struct", "ExtOp"))],
    "Macro": [("regs", ("vec", "str")), ("args", ("vec", "str")), ("nodes", ("vec", ("struct", "Call")))],
    "Call": [("name", "str"), ("regs", ("vec", ("struct", "Argument"))), ("args", ("vec", ("struct", "PExpr")))],
    "ExtOp": [("blocks", ("vec", ("tup", [("vec", ("struct", "SingleOp")), ("struct", "Sep")]))), ("tail", ("vec", ("struct", "SingleOp")))],
}
MULTIOP = ("vec", ("struct", "SingleOp"))


FIELD_LEAN = {"Int": {"m_op": "mOp", "q_reg": "qReg", "c_reg": "cReg", "q_ops": "qOps"}}


def zero_of(t):
    if t == "str":
        return '""'
    if is_int(t) or t in ("R", "Z"):
        return "0"
    if t == "C":
        return "(0 : Cx R)"
    if t == "bool":
        return "false"
    if isinstance(t, tuple) and t[0] == "vec":
        return f"([] : {lean_ty(t)})"
    raise Unsupported(f"no default element for {t}")


def atom(s):
    s = s.strip()
    if re.fullmatch(r"[\w.'ψ!?]+", s) or ((s[0] in "(⟨{") and balanced(s)):
        return s
    return "(" + s + ")"


def balanced(s):
    d = 0
    for i, ch in enumerate(s):
        if ch in "(⟨{":
            d += 1
        elif ch in ")⟩}":
            d -= 1
            if d == 0 and i != len(s) - 1:
                return False
    return d == 0


RESERVED = {"fun", "at", "from", "end", "do", "then", "else", "if", "let", "in", "where", "open", "show", "have", "by"}


def lname(n):
    if n == "self":
        return "self_"
    if n in RESERVED:
        return n + "_"
    return n


class Sig:
    def __init__(self, lean, params, ret, muts, inputs=(), monadic=False, self_struct=None, uses_draws=False):
        self.kind = "Option"          # "Except" for functions returning Result<'t, T>: callers get the Result value, `?` binds it
        self.uses_draws = uses_draws  # consumes the stream of drawn basis indices (`draws`, an extra &mut-like parameter)
        self.lean = lean              # lean function name
        self.params = params          # [(rust name, type)]  (self included as ("self", struct type))
        self.ret = ret                # rust-level return type ("unit" if none)
        self.muts = muts              # names of &mut params (in order)
        self.inputs = list(inputs)    # extra input parameters [(name, type)] (random draws)
        self.monadic = monadic
        self.self_struct = self_struct

    def result_types(self, env_types):
        out = []
        if self.ret != "unit":
            out.append(self.ret)
        for n in self.muts:
            out.append(dict(self.params)[n])
        return out


# ------------------------------------------------------------------------------------------
# AST utilities

def walk(e):
    """all sub-nodes of an AST (tuples)"""
    if isinstance(e, tuple):
        yield e
        for x in e:
            yield from walk(x)
    elif isinstance(e, list):
        for x in e:
            yield from walk(x)


def contains(e, kinds):
    return any(isinstance(n, tuple) and n and n[0] in kinds for n in walk(e))


def unparen(e):
    while isinstance(e, tuple) and e and e[0] == "paren":
        e = e[1]
    return e


def strip_parens(e):
    if isinstance(e, tuple):
        if e and e[0] == "paren":
            return strip_parens(e[1])
        return tuple(strip_parens(x) for x in e)
    if isinstance(e, list):
        return [strip_parens(x) for x in e]
    return e


def simplify_block(e):
    """{ e } -> e ; { e; } -> e (for comparing the sequential and the parallel arm)"""
    e = strip_parens(e)
    while isinstance(e, tuple) and e and e[0] == "block":
        if not e[1] and e[2] is not None:
            e = e[2]
        elif len(e[1]) == 1 and e[1][0][0] == "expr" and e[2] is None:
            e = e[1][0][1]
        else:
            break
    return e


PAR_TWINS = {"par_iter_mut": "iter_mut", "par_iter": "iter", "apply_sync": "apply"}


def seq_twin(e):
    """rewrite rayon adaptors to their sequential twins"""
    if isinstance(e, tuple):
        if e and e[0] == "mcall":
            recv = seq_twin(e[1])
            if e[2] == "into_par_iter" and not e[3]:
                return recv
            return ("mcall", recv, PAR_TWINS.get(e[2], e[2]), seq_twin(e[3]))
        return tuple(seq_twin(x) for x in e)
    if isinstance(e, list):
        return [seq_twin(x) for x in e]
    return e


def norm_rng(e):
    """`rand::thread_rng()` and a local `rng` bound to it are the same random source"""
    if isinstance(e, tuple):
        if e and e[0] == "call" and isinstance(e[1], tuple) and e[1] and e[1][0] == "path" and e[1][1][-1] == "thread_rng" and not e[2]:
            return ("path", ["rng"])
        if e and e[0] == "block":
            st = [norm_rng(x) for x in e[1]]
            st = [x for x in st if not (x[0] == "let" and x[1] == ("pid", "rng") and x[3] == ("path", ["rng"]))]
            return ("block", st, norm_rng(e[2]) if e[2] is not None else None)
        return tuple(norm_rng(x) for x in e)
    if isinstance(e, list):
        return [norm_rng(x) for x in e]
    return e


def norm_for_cmp(e):
    """structural normal form for the twin comparison"""
    e = simplify_block(e)
    if isinstance(e, tuple):
        if e and e[0] == "closure":
            return ("closure", norm_for_cmp(e[1]), norm_for_cmp(e[2]))
        if e and e[0] == "block":
            return ("block", [norm_for_cmp(s) for s in e[1]], norm_for_cmp(e[2]) if e[2] is not None else None)
        return tuple(norm_for_cmp(x) for x in e)
    if isinstance(e, list):
        return [norm_for_cmp(x) for x in e]
    return e


# ------------------------------------------------------------------------------------------
# emitter

FLOAT_NAMES = {"0.5": "Consts.half", "1e-15": "RegConsts.tiny", "1e-9": "RegConsts.close"}


class Emitter:
    def __init__(self, tr, where, self_struct=None):
        self.tr = tr                  # Translator (signature registry, aux defs)
        self.where = where
        self.self_struct = self_struct
        self.fresh = 0
        self.pending = []             # hoisted Option binds: (var, lean option expr)
        self.monadic = False
        self.inputs = []              # extra inputs discovered (name, type)
        self.twins = []               # (ok, description) for every `match self.th`
        self.aux = []                 # auxiliary definitions (loops)
        self.ret_ty = None
        self.fn_params = []
        self.uses_draws = False
        self.monad = "Option"

    def fail(self, msg):
        raise Unsupported(f"{self.where}: {msg}")

    def gensym(self, base):
        self.fresh += 1
        return f"{base}{self.fresh}"

    # ---------------- types of rust type text
    def ty_of_text(self, t):
        t = t.replace(" ", "")
        t = re.sub(r"^&(mut)?", "", t)
        t = re.sub(r"^(super|crate|self)::", "", t)
        t = re.sub(r"^(register|operator|math|bits_iter)::", "", t)
        if t == "F":
            return ("fn", ["N"], "bool")
        simple = {"N": "N", "usize": "N", "u8": "u8", "u32": "u32", "i32": "i32", "Z": "Z", "isize": "Z", "bool": "bool", "R": "R",
                  "f64": "R", "C": "C", "Self::Item": "N", "Self::Output": "N"}
        if t in simple:
            return simple[t]
        if t in ("Self",):
            if self.self_struct is None:
                self.fail("Self outside a struct context")
            return self.self_struct if isinstance(self.self_struct, tuple) and self.self_struct[0] != "struct" else self.self_struct
        if t in ("CReg", "VReg", "SingleOp", "BitsIter", "QReg", "ExtOp", "MeasureOp", "Sep"):
            return ("struct", t)
        if t in ("&'tstr", "&'astr", "&str", "str", "'tstr", "'astr"):
            return "str"
        if t.startswith("Argument"):
            return ("struct", "Argument")
        m = re.fullmatch(r"HashMap<&'tstr,(.*)>", t)
        if m:
            inner = m.group(1)
            return ("map", "Macro") if inner.startswith("Macro") else ("map", self.ty_of_text(inner))
        if t in ("Macro<'t>", "Macro"):
            return ("struct", "Macro")
        if t in ("AstNode<'t>", "AstNode"):
            return ("struct", "AstNode")
        if t in ("Box<AstNode<'t>>",):
            return ("struct", "Inner")        # the statement under `if`: a gate application or anything else (Model/Interp.lean)
        if t in ("Ast<'t>", "Ast"):
            return ("vec", ("struct", "AstNode"))
        m = re.fullmatch(r"(?:int::)?Result<'t,(.*)>", t)
        if m:
            inner = m.group(1)
            return ("res", "unit" if inner == "()" else self.ty_of_text(inner))
        if t.startswith("implIterator<Item="):
            return ("vec", self.ty_of_text(t[len("implIterator<Item="):-1]))
        if t == "Self" and False:
            pass
        if t in ("MultiOp", "Op") and self.tr.generic_op_is_multi or t == "MultiOp":
            return MULTIOP
        m = re.fullmatch(r"(?:Vec|VecDeque)<(.*)>", t)
        if m:
            return ("vec", self.ty_of_text(m.group(1)))
        m = re.fullmatch(r"\[(.*)\]", t)
        if m:
            return ("vec", self.ty_of_text(m.group(1)))
        m = re.fullmatch(r"Option<(.*)>", t)
        if m:
            return ("opt", self.ty_of_text(m.group(1)))
        m = re.fullmatch(r"\((.*),(.*)\)", t)
        if m:
            return ("tup", [self.ty_of_text(m.group(1)), self.ty_of_text(m.group(2))])
        self.fail(f"type {t}")

    # ---------------- expressions: (lean, type)
    def ex(self, e, env, want=None):
        k = e[0]
        if k == "paren":
            v, t = self.ex(e[1], env, want)
            return atom(v), t
        if k == "int":
            suf = e[2]
            if suf:
                ty = {"usize": "N", "u8": "u8", "u32": "u32", "i32": "i32", "u64": "N"}.get(suf)
                if ty is None:
                    self.fail(f"integer suffix {suf}")
                return str(e[1]), ty
            if want == "R":
                return self.float_lit(str(e[1])), "R"
            if want == "Z":
                return f"({e[1]} : Int)", "Z"
            return str(e[1]), (want if is_int(want) else "N")
        if k == "float":
            return self.float_lit(e[1]), "R"
        if k == "bool":
            return ("true" if e[1] else "false"), "bool"
        if k == "path":
            return self.path(e[1], env, want)
        if k == "field":
            return self.field(e, env)
        if k == "index":
            return self.index(e, env)
        if k in ("ref", "refmut"):
            return self.ex(e[1], env, want)
        if k == "un":
            return self.unary(e, env, want)
        if k == "as":
            return self.cast(e, env)
        if k == "bin":
            return self.binop(e, env, want)
        if k == "tuple":
            vs = [self.ex(x, env) for x in e[1]]
            return "(" + ", ".join(v for v, _ in vs) + ")", ("tup", [t for _, t in vs])
        if k == "mcall":
            return self.mcall(e, env, want)
        if k == "call":
            return self.call(e, env, want)
        if k == "struct":
            return self.struct(e, env)
        if k == "vecrep":
            x, tx = self.ex(e[1], env)
            n, tn = self.ex(e[2], env, "N")
            return f"List.replicate {atom(n)} {atom(x)}", ("vec", tx)
        if k == "veclist":
            vs = [self.ex(x, env) for x in e[1]]
            if not vs:
                if want is None or want[0] != "vec":
                    self.fail("empty vec! without a known element type")
                return "[]", want
            return "[" + ", ".join(v for v, _ in vs) + "]", ("vec", vs[0][1])
        if k == "array":
            vs = [self.ex(x, env) for x in e[1]]
            return "[" + ", ".join(v for v, _ in vs) + "]", ("vec", vs[0][1])
        if k == "format":
            # format!("a{}b", x) / write!(f, "a{}b", x): the text produced (Display of strings only)
            tmpl, args, target = e[1], e[2], e[3]
            parts = tmpl.split("{}")
            if len(parts) != len(args) + 1 or "{" in tmpl.replace("{}", "") or "\\" in tmpl:
                self.fail("format template with anything else than plain {} placeholders")
            vs = []
            for a in args:
                v, t = self.ex(a, env)
                if t != "str":
                    self.fail("format argument that is not a string")
                vs.append(v)
            out = []
            for i, p in enumerate(parts):
                if p:
                    out.append('"' + p + '"')
                if i < len(vs):
                    out.append(atom(vs[i]))
            return "(" + " ++ ".join(out or ['""']) + ")", "str"
        if k == "try":
            inner = unparen(e[1])
            if inner[0] == "mcall" and inner[2] == "collect" and not inner[3] and unparen(inner[1])[0] == "mcall" \
                    and unparen(inner[1])[2] == "map" and len(unparen(inner[1])[3]) == 1 and self.monad == "Except":
                # ITER.map(|x| -> Result<T, _>).collect::<Result<Vec<T>, _>>()? : the first error wins, in order
                src, clos = unparen(inner[1])[1], unparen(unparen(inner[1])[3][0])
                if clos[0] != "closure":
                    self.fail("map with something else than a closure")
                it = self.iter_of(src, env)
                if it["mut"] is not None:
                    self.fail("collect over iter_mut()")
                f, tf, mon = self.closure(clos, [it["elem"]], env)
                if mon or not (isinstance(tf, tuple) and tf[0] == "res"):
                    self.fail("collect into a Result of a closure that does not return a Result")
                u = self.gensym("u")
                self.pending.append((u, f"List.mapM ({f}) {atom(it['list'])}"))
                self.monadic = True
                self.nflush += 1
                return u, ("vec", tf[1])
            v, t = self.ex(e[1], env)
            if not (isinstance(t, tuple) and t[0] == "res"):
                self.fail("? on a value that is not a Result")
            if self.monad != "Except":
                self.fail("? in a function that does not return a Result")
            u = self.gensym("u")
            self.pending.append((u, v))
            self.monadic = True
            self.nflush += 1
            return ("()" if t[1] == "unit" else u), t[1]
        if k == "checked":
            # single_op_checked!(op) = match op { op if op.is_valid() => Some(op.into()), _ => None }  (text checked by the translator)
            if not self.tr.checked_macro_ok:
                self.fail("macro single_op_checked! does not have its canonical text")
            v, t = self.ex(e[1], env)
            if t != ("struct", "Atom"):
                self.fail("single_op_checked! of a non-atomic operator")
            sg = self.tr.sigs.get(("SingleOp", "from"))
            if sg is None:
                self.fail("From<Op> for SingleOp is not translated")
            return f"(if Atom.isValid {atom(v)} then some ({sg.lean} {atom(v)}) else none)", ("opt", ("struct", "SingleOp"))
        if k == "if":
            return self.if_expr(e, env, want)
        if k == "block":
            return self.block_value(e, env, want)
        if k == "unsafe":
            return self.block_value(e[1], env, want)
        if k == "match":
            return self.match_expr(e, env, want)
        self.fail(f"expression kind {k}")

    def float_lit(self, text):
        t = text.replace("_", "").replace("f64", "")
        try:
            x = float(t)
        except ValueError:
            self.fail(f"float literal {text}")
        if x == 0.0:
            return "0"
        if x == 1.0:
            return "1"
        for name, lean in FLOAT_NAMES.items():
            if float(name) == x:
                return lean
        self.fail(f"float literal {text} has no symbolic name")

    def path(self, segs, env, want):
        if len(segs) == 1 and segs[0] in env:
            if env[segs[0]][0] == "ALIAS":
                return self.ex(env[segs[0]][1], env[segs[0]][2], want)
            return env[segs[0]]
        last = segs[-1]
        if last == "C_ZERO":
            return "(0 : Cx R)", "C"
        if last == "C_ONE":
            return "(1 : Cx R)", "C"
        if last == "FRAC_PI_2":
            return "Rs.AngleConsts.fracPi2", "R"
        if last == "PI":
            return "Rs.AngleConsts.pi", "R"
        if last == "MIN_BUFFER_LEN":
            c = self.tr.consts.get("MIN_BUFFER_LEN")
            if c is None:
                self.fail("constant MIN_BUFFER_LEN not found")
            return str(c), "N"
        if segs[-2:] in (["N", "BITS"], ["usize", "BITS"]):
            return "64", "u32"
        if last == "None":
            if want is None or want[0] != "opt":
                self.fail("None without a known type")
            return f"(none : {lean_ty(want)})", want
        if segs[-2:] == ["Sep", "Nop"]:
            return "Sep.nop", ("struct", "Sep")
        if len(segs) >= 2 and segs[-2] in self.ENUMS and segs[-1] in self.ENUMS[segs[-2]] and not self.ENUMS[segs[-2]][segs[-1]][1]:
            return self.ENUMS[segs[-2]][segs[-1]][0], ("struct", segs[-2])
        self.fail(f"unknown name {'::'.join(segs)}")

    def field(self, e, env):
        b, bt = self.ex(e[1], env)
        name = e[2]
        if isinstance(bt, tuple) and bt[0] == "struct" and name in self.tr.ignored_fields.get(bt[1], ()):
            return "()", "thr"              # the threading model is not part of the state (property C08)
        if bt == MULTIOP and name == "0":
            return b, bt                      # transparent newtype MultiOp(VecDeque<SingleOp>)
        if isinstance(bt, tuple) and bt[0] == "struct":
            if bt[1] == "VReg" and name == "1":
                return f"{atom(b)}.bits", ("vec", "N")
            if bt[1] == "ExtOp" and name in ("0", "1"):
                return (f"{atom(b)}.blocks", ("vec", ("tup", [MULTIOP, ("struct", "Sep")]))) if name == "0" else (f"{atom(b)}.tail", MULTIOP)
            fs = dict(STRUCT_FIELDS.get(bt[1], []))
            if name in fs:
                return f"{atom(b)}.{FIELD_LEAN.get(bt[1], {}).get(name, name)}", fs[name]
            self.fail(f"unknown field .{name} of {bt[1]}")
        if isinstance(bt, tuple) and bt[0] == "tup" and name.isdigit():
            i, n = int(name), len(bt[1])
            if i >= n:
                self.fail("tuple index")
            if n == 2:
                return f"{atom(b)}.{i + 1}", bt[1][i]
            proj = ".2" * i + (".1" if i < n - 1 else "")
            return f"{atom(b)}{proj}", bt[1][i]
        if bt == "C" and name in ("re", "im"):
            return f"{atom(b)}.{name}", "R"
        self.fail(f"field .{name} of {bt}")

    def index(self, e, env):
        b, bt = self.ex(e[1], env)
        if isinstance(bt, tuple) and bt[0] == "map":
            # HashMap indexing panics on a missing key
            if self.monad != "Except":
                self.fail("HashMap indexing outside a function that returns a Result")
            kx, kt = self.ex(e[2], env, "str")
            if kt != "str":
                self.fail("HashMap indexed by something else than a name")
            vt = ("struct", bt[1]) if isinstance(bt[1], str) and bt[1] in STRUCT_LEAN else bt[1]
            u = self.gensym("u")
            base = unparen(e[1])
            label = (base[1][-1] if base[0] == "path" else "map") + "[&name]"
            self.pending.append((u, f"Interp.orPanic \"{label}\" (Rs.mapGet {atom(b)} {atom(kx)})"))
            self.monadic = True
            self.nflush += 1
            return u, vt
        if not (isinstance(bt, tuple) and bt[0] == "vec"):
            self.fail(f"indexing a {bt}")
        ie = unparen(e[2])
        if ie[0] == "range":
            lo, hi = ie[1], ie[2]
            if lo is None and hi is None:
                return b, bt
            v = b
            if hi is not None:
                h, th = self.ex(hi, env, "N")
                v = f"List.take {atom(h)} {atom(v)}"
            if lo is not None:
                l, tl = self.ex(lo, env, "N")
                v = f"List.drop {atom(l)} {atom(v)}"
            return v, bt
        i, it = self.ex(e[2], env, "N")
        if not is_int(it):
            self.fail("index is not an integer")
        return f"{atom(b)}.getD {atom(i)} {zero_of(bt[1])}", bt[1]

    def unary(self, e, env, want):
        op = e[1]
        if op == "*":
            return self.ex(e[2], env, want)
        v, t = self.ex(e[2], env, want)
        if op == "-":
            if t in ("R", "C", "Z"):
                return f"-{atom(v)}", t
            self.fail("negation of an unsigned integer")
        if op == "!":
            if t == "bool":
                return f"!{atom(v)}", "bool"
            if is_int(t):
                return f"notW {INT_BITS[t]} {atom(v)}", t
        self.fail(f"unary {op} on {t}")

    def cast(self, e, env):
        v, t = self.ex(e[1], env)
        to = {"N": "N", "usize": "N", "u8": "u8", "u32": "u32", "i32": "i32", "Z": "Z", "isize": "Z", "R": "R", "f64": "R"}.get(e[2])
        if to is None:
            self.fail(f"cast to {e[2]}")
        if is_int(t) and to == "i32":
            return v, "i32"
        if t == "i32" and to == "N":
            return v, "N"                    # an index produced by the external parser: non-negative                  # callers cast small non-negative values (a bit count)
        if is_int(t) and is_int(to):
            if INT_BITS[to] >= INT_BITS[t]:
                return v, to
            return f"{atom(v)} % 2 ^ {INT_BITS[to]}", to
        if is_int(t) and to == "R":
            return f"(HasRound.ofNat {atom(v)} : R)", "R"
        if is_int(t) and to == "Z":
            return f"(Int.ofNat {atom(v)})", "Z"          # values below 2^63 (a shot count / a histogram total)
        if t == "Z" and to == "N":
            return f"(Int.toNat {atom(v)})", "N"         # callers cast non-negative values only
        if t == "Zround" and to == "Z":
            return v, "Z"
        self.fail(f"cast {t} as {e[2]}")

    def binop(self, e, env, want):
        op = e[1]
        if op in ("==", "!=", "<", ">", "<=", ">="):
            a, ta = self.ex(e[2], env)
            b, tb = self.ex(e[3], env, ta)
            if unparen(e[2])[0] == "int" and unparen(e[2])[2] is None:
                a, ta = self.ex(e[2], env, tb)
            if is_int(ta) and is_int(tb):
                pass
            elif ta == tb and ta in ("bool", "R", "Z", "str"):
                pass
            elif ta == tb and isinstance(ta, tuple) and op in ("==", "!="):
                pass
            else:
                self.fail(f"comparison of {ta} and {tb}")
            if op in ("==", "!=") and ta != "R":
                return f"({a} {op} {b})", "bool"
            lop = {"<": "<", ">": ">", "<=": "≤", ">=": "≥", "==": "=", "!=": "≠"}[op]
            return f"decide ({a} {lop} {b})", "bool"
        if op in ("&&", "||"):
            a, ta = self.ex(e[2], env); b, tb = self.ex(e[3], env)
            if ta != "bool" or tb != "bool":
                self.fail("logical operator on non-bool")
            return f"({a} {op} {b})", "bool"
        a, ta = self.ex(e[2], env, want)
        b, tb = self.ex(e[3], env, ta if op not in ("<<", ">>") else None)
        if unparen(e[2])[0] == "int" and unparen(e[2])[2] is None and not is_int(tb):
            a, ta = self.ex(e[2], env, tb)
        if op in ("&", "|", "^"):
            if ta == tb == "bool":
                return f"({a} {{'&': '&&', '|': '||', '^': '^^'}}[op] {b})".replace("{'&': '&&', '|': '||', '^': '^^'}[op]", {"&": "&&", "|": "||", "^": "^^"}[op]), "bool"
            if not (is_int(ta) and ta == tb):
                self.fail(f"bit operator {op} on {ta}, {tb}")
            return f"({a} {{}} {b})".format({"&": "&&&", "|": "|||", "^": "^^^"}[op]), ta
        if op in ("<<", ">>"):
            if not (is_int(ta) and is_int(tb)):
                self.fail("shift of non-integers")
            if op == ">>":
                # a shift count >= the width is a panic (debug) / masked (release); callers stay below
                return f"({a} >>> {b})", ta
            return f"(shlW {INT_BITS[ta]} {atom(a)} {atom(b)})", ta
        if op == "*" and ta == MULTIOP and tb == ("struct", "SingleOp"):
            return f"({a} ++ MultiOp.ofSingle {atom(b)})", MULTIOP   # MulAssign<SingleOp> for MultiOp: self *= Self::from(rhs)
        if op == "*" and ta == MULTIOP and tb == MULTIOP:
            return f"({a} ++ {b})", MULTIOP         # Mul / MulAssign for MultiOp: queue concatenation (multi_mul_assign)
        if op in ("+", "-", "*", "/", "%"):
            if ta == tb and ta in ("R", "C") and op != "%":
                return f"({a} {op} {b})", ta
            if op == "*" and {ta, tb} == {"R", "C"}:
                c, r = (a, b) if ta == "C" else (b, a)
                return f"(Cx.scale {atom(c)} {atom(r)})", "C"
            if ta == tb == "Z" and op in ("+", "-"):
                return f"({a} {op} {b})", "Z"
            if is_int(ta) and ta == tb:
                if op == "+":
                    return f"({a} + {b})", ta        # overflow = panic in debug; callers stay below 2^64
                if op == "-":
                    return f"({a} - {b})", ta        # underflow = panic in debug; truncated subtraction (callers stay above)
                if op in ("/", "%"):
                    return f"({a} {op} {b})", ta     # division by zero = panic; Lean: n / 0 = 0 (callers pass non-zero)
                if op == "*":
                    return f"({a} * {b})", ta
        self.fail(f"operator {op} on {ta}, {tb}")

    # ---------------- iterators
    def iter_of(self, e, env):
        """translate an iterator-valued expression: returns dict(list=lean, elem=type, mut=place AST|None, enum=bool)"""
        e = unparen(e)
        if e[0] == "mcall":
            recv, name, args = e[1], e[2], e[3]
            if name in ("iter", "into_iter") and not args:
                r = unparen(recv)
                if r[0] == "range":
                    return self.iter_of(r, env)
                v, t = self.ex(recv, env)
                if not (isinstance(t, tuple) and t[0] == "vec"):
                    self.fail(f".{name}() of a {t}")
                return dict(list=v, elem=t[1], mut=None, enum=False)
            if name == "iter_mut" and not args:
                v, t = self.ex(recv, env)
                if not (isinstance(t, tuple) and t[0] == "vec"):
                    self.fail(f".iter_mut() of a {t}")
                return dict(list=v, elem=t[1], mut=recv, enum=False)
            it = self.iter_of(recv, env)
            if name == "enumerate" and not args:
                if it["enum"]:
                    self.fail("enumerate twice")
                if it["mut"] is not None:
                    return dict(it, enum=True)
                return dict(list=f"Rs.enumerate {atom(it['list'])}", elem=("tup", ["N", it["elem"]]), mut=None, enum=False)
            if it["mut"] is not None:
                self.fail(f"adaptor .{name} on iter_mut")
            if name == "rev" and not args:
                return dict(it, list=f"List.reverse {atom(it['list'])}")
            if name == "map" and len(args) == 1 and self.draws_normal(args[0]):
                # |x| { let rnd: R = rng.sample(StandardNormal); BODY }: one draw per element, in order: zip with the input list
                c = unparen(args[0])
                body = c[2]
                rest = ("block", body[1][1:], body[2])
                rn = body[1][0][1][1]
                self.need_input("normals", ("vec", "R"))
                c2 = ("closure", [("ptuple", [c[1][0], ("pid", rn)])], rest)
                f, tf, mon = self.closure(c2, [("tup", [it["elem"], "R"])], env)
                if mon:
                    self.fail("monadic closure in .map")
                return dict(it, list=f"List.map {atom(f)} (List.zip {atom(it['list'])} normals)", elem=tf)
            if name == "map" and len(args) == 1:
                f, tf, mon = self.closure(args[0], [it["elem"]], env)
                if mon:
                    self.fail("monadic closure in .map (only supported directly before .collect)")
                return dict(it, list=f"List.map {atom(f)} {atom(it['list'])}", elem=tf)
            if name == "filter" and len(args) == 1:
                f, tf, mon = self.closure(args[0], [it["elem"]], env)
                if tf != "bool" or mon:
                    self.fail("filter closure")
                return dict(it, list=f"List.filter {atom(f)} {atom(it['list'])}")
            if name == "filter_map" and len(args) == 1:
                f, tf, mon = self.closure(args[0], [it["elem"]], env)
                if mon or not (isinstance(tf, tuple) and tf[0] == "opt"):
                    self.fail("filter_map closure")
                return dict(it, list=f"List.filterMap {atom(f)} {atom(it['list'])}", elem=tf[1])
            if name == "flat_map" and len(args) == 1:
                f, tf, mon = self.closure(args[0], [it["elem"]], env)
                if not (isinstance(tf, tuple) and tf[0] == "vec"):
                    self.fail("flat_map closure does not yield a list")
                if mon:
                    u = self.gensym("u")
                    self.pending.append((u, f"List.mapM {atom(f)} {atom(it['list'])}"))
                    self.monadic = True
                    return dict(it, list=f"List.flatten {u}", elem=tf[1])
                return dict(it, list=f"List.flatMap {atom(f)} {atom(it['list'])}", elem=tf[1])
            if name in ("cloned", "copied") and not args:
                return it
            if name == "chain" and len(args) == 1:
                it2 = self.iter_of(args[0], env)
                if it2["mut"] is not None or it2["elem"] != it["elem"]:
                    self.fail("chain of a different element type")
                return dict(it, list=f"{atom(it['list'])} ++ {atom(it2['list'])}")
            if name == "zip" and len(args) == 1:
                it2 = self.iter_of(args[0], env)
                if it2["mut"] is not None:
                    self.fail("zip with iter_mut")
                return dict(it, list=f"List.zip {atom(it['list'])} {atom(it2['list'])}", elem=("tup", [it["elem"], it2["elem"]]))
            self.fail(f"iterator adaptor .{name}")
        if e[0] == "call" and unparen(e[1])[0] == "path" and unparen(e[1])[1][-2:] == ["BitsIter", "from"] and len(e[2]) == 1:
            if ("BitsIter", "next") not in self.tr.sigs:
                self.fail("BitsIter::next is not translated")
            m, tm = self.ex(e[2][0], env, "N")
            return dict(list=f"bitsList {atom(m)}", elem="N", mut=None, enum=False)
        if e[0] == "range":
            if e[1] is None or e[2] is None:
                self.fail("unbounded range as an iterator")
            lo, tl = self.ex(e[1], env, "N")
            hi, th = self.ex(e[2], env, "N")
            return dict(list=f"Rs.range {atom(lo)} {atom(hi)}", elem="N", mut=None, enum=False)
        v, t = self.ex(e, env)
        if isinstance(t, tuple) and t[0] == "vec":
            return dict(list=v, elem=t[1], mut=None, enum=False)
        self.fail("not an iterator")

    def draws_normal(self, c):
        c = unparen(c)
        if c[0] != "closure" or len(c[1]) != 1 or c[2][0] != "block" or not c[2][1]:
            return False
        st = c[2][1][0]
        return st[0] == "let" and st[1][0] == "pid" and st[3] is not None and "StandardNormal" in repr(st[3]) and "sample" in repr(st[3])

    def bind_pat(self, pat, val, ty, env, lets):
        """destructure `val : ty` by `pat`; extends env, appends lets"""
        if pat[0] == "pref":
            return self.bind_pat(pat[1], val, ty, env, lets)
        if pat[0] == "pwild":
            return
        if pat[0] == "pid":
            n = lname(pat[1])
            lets.append(f"let {n} := {val}")
            env[pat[1]] = (n, ty)
            return
        if pat[0] == "ptuple" and ty == ("struct", "Call") and len(pat[1]) == 3:
            # a body statement of a gate definition `(name, regs, args)`: the model's record `Call`
            for p, (fld, fty) in zip(pat[1], STRUCT_FIELDS["Call"]):
                self.bind_pat(p, f"{atom(val)}.{fld}", fty, env, lets)
            return
        if pat[0] == "ptuple":
            if not (isinstance(ty, tuple) and ty[0] == "tup" and len(ty[1]) == len(pat[1])):
                self.fail(f"tuple pattern against {ty}")
            n = len(pat[1])
            for i, p in enumerate(pat[1]):
                proj = f".{i + 1}" if n == 2 else ".2" * i + (".1" if i < n - 1 else "")
                self.bind_pat(p, f"{atom(val)}{proj}", ty[1][i], env, lets)
            return
        self.fail(f"pattern {pat[0]}")

    def closure(self, c, arg_tys, env):
        """(lean lambda, result type, monadic?)"""
        c = unparen(c)
        if c[0] == "path" and len(c[1]) == 1 and c[1][0] in env and isinstance(env[c[1][0]][1], tuple) and env[c[1][0]][1][0] == "fn":
            v, t = env[c[1][0]]
            return v, t[2], False
        if c[0] != "closure":
            self.fail("closure expected")
        if len(c[1]) != len(arg_tys):
            self.fail("closure arity")
        env2 = dict(env)
        names, lets = [], []
        for p, t in zip(c[1], arg_tys):
            a = self.gensym("a")
            if t in (("struct", "Inner"), ("struct", "PExpr"), ("struct", "Call")):
                names.append(f"({a} : {lean_ty(t)})")
            else:
                names.append(a)
            self.bind_pat(p, a, t, env2, lets)
        saved = self.pending
        self.pending = []
        body = c[2]
        if body[0] != "block":
            body = ("block", [], body)
        self.propagate += 1
        try:
            v, t = self.stmts(body[1], body[2], dict(env2), lambda env3, v: v, None)
        finally:
            self.propagate -= 1
        mon = bool(self.pending)
        if mon:
            # the body can panic: translate again with the binds flushed inside the lambda, result in Option
            self.pending = []
            keep, self.propagate = self.propagate, 0
            try:
                okc = "Except.ok" if self.monad == "Except" else "some"
                v, _ = self.stmts(body[1], body[2], dict(env2), lambda env3, v: (f"{okc} {atom(v[0])}", v[1]), None)
            finally:
                self.propagate = keep
        self.pending = saved
        return f"fun {' '.join(names)} => " + wrap(lets, v), t, mon

    nflush = 0

    def flush(self, inner):
        """wrap `inner` (an Option-valued lean expr) with the pending binds"""
        if self.pending:
            self.nflush += 1
        for var, oe in reversed(self.pending):
            inner = f"{self.monad}.bind {atom(oe)} (fun {var} => {inner})"
        self.pending = []
        return inner

    # ---------------- method calls
    def mcall(self, e, env, want):
        recv, name, args = e[1], e[2], e[3]
        r0 = unparen(recv)
        if name == "map_err" and len(args) == 1 and r0[0] == "mcall" and r0[2] == "collect" and unparen(r0[1])[0] == "mcall" \
                and unparen(r0[1])[2] == "map" and len(unparen(r0[1])[3]) == 1:
            # ITER.map(|a| parse::eval_extended(a, VARS.clone())).collect::<parse::Result<Vec<_>>>()
            #     .map_err(|e| super::Error::UnevaluatedArgument(NAME, e))          (parse.rs is mirrored by hand)
            mp = unparen(r0[1])
            c1, c2 = unparen(mp[3][0]), unparen(args[0])
            ok = c1[0] == "closure" and len(c1[1]) == 1 and c1[1][0][0] == "pid" and c2[0] == "closure" and len(c2[1]) == 1 and c2[1][0][0] == "pid"
            if ok:
                b1, b2 = unparen(c1[2]), unparen(c2[2])
                ok = b1[0] == "call" and unparen(b1[1]) == ("path", ["parse", "eval_extended"]) and len(b1[2]) == 2 \
                    and unparen(b1[2][0]) == ("path", [c1[1][0][1]]) and unparen(b1[2][1])[0] == "mcall" and unparen(b1[2][1])[2] == "clone" \
                    and b2[0] == "call" and unparen(b2[1])[1][-2:] == ["Error", "UnevaluatedArgument"] and len(b2[2]) == 2 \
                    and unparen(b2[2][1]) == ("path", [c2[1][0][1]])
            if not ok:
                self.fail("map_err after collect: not the evaluation of actual parameters")
            it = self.iter_of(mp[1], env)
            if it["elem"] != ("struct", "PExpr"):
                self.fail("eval_extended over something else than parameter expressions")
            vars_, tv = self.ex(unparen(b1[2][1])[1], env)
            if tv != ("vec", ("tup", ["str", "R"])):
                self.fail(f"eval_extended with variables of type {tv}")
            nm, tn = self.ex(b2[2][0], env)
            if tn != "str":
                self.fail("UnevaluatedArgument of something else than a name")
            return f"(Interp.evalArgsWith {atom(nm)} {atom(vars_)} {atom(it['list'])})", ("res", ("vec", "R"))
        if name == "map_err" and len(args) == 1 and r0[0] == "call" and unparen(r0[1]) == ("path", ["parse", "eval_extended"]) \
                and len(r0[2]) == 2 and unparen(r0[2][1]) == ("path", ["None"]):
            # parse::eval_extended(arg, None).map_err(|e| Error::UnevaluatedArgument(arg, e)): parse.rs is mirrored by hand
            # (Model/Interp.lean `evalExtended`, text tied by tools/canon.py); `Interp.evalArg` is exactly this composition
            c = unparen(args[0])
            x = unparen(r0[2][0])
            if c[0] == "closure" and len(c[1]) == 1 and c[1][0][0] == "pid" and \
                    unparen(c[2]) == ("call", ("path", ["Error", "UnevaluatedArgument"]), [x, ("path", [c[1][0][1]])]):
                xv, xt = self.ex(x, env)
                if xt != ("struct", "PExpr"):
                    self.fail("eval_extended of something else than a parameter expression")
                return f"(Interp.evalArg {atom(xv)})", ("res", "R")
            self.fail("map_err closure is not |e| Error::UnevaluatedArgument(arg, e)")
        # iterator sinks
        if name in ("collect", "sum", "fold", "count", "all", "for_each", "max", "min", "nth") and self.is_iter_expr(r0):
            return self.sink(e, env, want)
        # random draw: an input of the model
        if name == "sample" and contains(recv, ("call",)) and "thread_rng" in repr(recv):
            self.fail("random draw outside a `let name = ...` statement")
        v, t = self.ex(recv, env)
        if t == "thr" and name == "and" and len(args) == 1 and self.ex(args[0], env)[1] == "thr":
            return "()", "thr"
        if isinstance(t, tuple) and t[0] == "map" and name == "clone" and not args:
            return v, t
        if isinstance(t, tuple) and t[0] == "vec":
            if name == "len" and not args:
                return f"{atom(v)}.length", "N"
            if name == "is_empty" and not args:
                return f"{atom(v)}.isEmpty", "bool"
            if name in ("to_vec", "clone") and not args:
                return v, t
            if name == "contains" and len(args) == 1:
                a, ta = self.ex(args[0], env)
                return f"{atom(v)}.contains {atom(a)}", "bool"
        if t == "str":
            if name == "as_bytes" and not args:
                return v, "bytes"
            if name == "len" and not args:
                return f"{atom(v)}.utf8ByteSize", "N"
        if t == "bytes" and name == "len" and not args:
            return f"{atom(v)}.utf8ByteSize", "N"
        if is_int(t):
            if name == "wrapping_shl" and len(args) == 1:
                b, tb = self.ex(args[0], env)
                if not is_int(tb):
                    self.fail("wrapping_shl count")
                return f"shlW {INT_BITS[t]} {atom(v)} {atom(b)}", t          # the count is taken modulo the width
            if name == "count_ones" and not args:
                return f"popcount {atom(v)}", "u32"
            if name in ("wrapping_add", "wrapping_sub") and len(args) == 1:
                b, tb = self.ex(args[0], env, t)
                f = "wrapAdd" if name == "wrapping_add" else "wrapSub"
                return f"{f} {INT_BITS[t]} {atom(v)} {atom(b)}", t
            if name in ("max", "min") and len(args) == 1:
                b, tb = self.ex(args[0], env, t)
                return f"{name} {atom(v)} {atom(b)}", t
        if t == "R":
            if name == "sqrt" and not args:
                return f"HasSqrt.sqrt {atom(v)}", "R"
            if name == "powi" and len(args) == 1:
                n, tn = self.ex(args[0], env)
                if not is_int(tn):
                    self.fail("powi exponent")
                return f"Rs.powi {atom(v)} {atom(n)}", "R"      # callers pass non-negative exponents
            if name == "round" and not args:
                return f"HasRound.roundInt {atom(v)}", "Zround"      # only as `x.round() as Z`
        if t == "Z":
            if name == "max" and len(args) == 1:
                b, tb = self.ex(args[0], env, "Z")
                return f"max {atom(v)} {atom(b)}", "Z"
            if name == "unsigned_abs" and not args:
                return f"Int.natAbs {atom(v)}", "N"
        if t == "C":
            if name == "norm_sqr" and not args:
                return f"Cx.normSq {atom(v)}", "R"
            if name == "conj" and not args:
                return f"Cx.conj {atom(v)}", "C"
        if isinstance(t, tuple) and t[0] == "map":
            if name == "clone" and not args:
                return v, t
            if name == "contains_key" and len(args) == 1:
                kx, kt = self.ex(args[0], env, "str")
                if kt != "str":
                    self.fail("contains_key with a key that is not a name")
                return f"(Rs.mapContains {atom(v)} {atom(kx)})", "bool"
            if name == "get" and len(args) == 1:
                kx, kt = self.ex(args[0], env, "str")
                if kt != "str":
                    self.fail("get with a key that is not a name")
                vt = ("struct", t[1]) if isinstance(t[1], str) and t[1] in STRUCT_LEAN else t[1]
                return f"(Rs.mapGet {atom(v)} {atom(kx)})", ("opt", vt)
        if isinstance(t, tuple) and t[0] == "opt":
            if name in ("unwrap", "expect"):
                u = self.gensym("u")
                if self.monad == "Except":
                    # inside a function returning Result a failing unwrap / expect is the explicit panic exit
                    site = '"unwrap"' if name == "unwrap" or not args else self.ex(args[0], env, "str")[0]
                    self.pending.append((u, f"Interp.orPanic {atom(site)} {atom(v)}"))
                else:
                    self.pending.append((u, v))
                self.monadic = True
                return u, t[1]
            if name == "ok_or" and len(args) == 1:
                ev, et = self.ex(args[0], env)
                if et != ("struct", "IntError"):
                    self.fail("ok_or with something else than the interpreter's error type")
                return f"(match {v} with | some x => Except.ok x | none => Except.error {atom(ev)})", ("res", t[1])
            if name == "and_then" and len(args) == 1:
                f, tf, mon = self.closure(args[0], [t[1]], env)
                if mon or not (isinstance(tf, tuple) and tf[0] == "opt"):
                    self.fail("and_then closure")
                return f"Option.bind {atom(v)} {atom(f)}", tf
        if name == "into" and not args:
            if t == ("struct", "MacroErr"):
                return f"(IntError.macroError {atom(v)})", ("struct", "IntError")      # From<macros::Error> for Error
            if t == ("struct", "Atom"):
                sg = self.tr.sigs.get(("SingleOp", "from"))
                if sg is None:
                    self.fail("From<Op> for SingleOp is not translated")
                if want == MULTIOP:
                    inner = self.apply_sig(sg, [(v, t)], env)
                    return self.apply_sig(self.tr.sigs[("MultiOp", "from")], [inner], env)
                return self.apply_sig(sg, [(v, t)], env)
            if t == ("struct", "SingleOp") and (want == MULTIOP or want is None):
                return self.apply_sig(self.tr.sigs[("MultiOp", "from")], [(v, t)], env)
            if isinstance(t, tuple) and t[0] == "vec":
                return v, t
        if t == ("struct", "Atom"):
            if name == "this" and not args:
                return v, t
            if name == "acts_on" and not args:
                return f"Atom.actsOn {atom(v)}", "N"
        if t == MULTIOP:
            sig = self.tr.method("MultiOp", name)
            if sig is not None and not sig.muts:
                return self.apply_sig(sig, [(v, t)] + [self.ex(a, env, pt) for a, (pn, pt) in zip(args, sig.params[1:])], env)
        if t == ("struct", "BitsIter") and name == "collect" and not args:
            return f"(bitsCollect bitsFuel {atom(v)}).getD []", ("vec", "N")
        if isinstance(t, tuple) and t[0] == "struct":
            if name == "clone" and not args:
                return v, t
            sig = self.tr.method(t[1], name)
            if sig is not None:
                if sig.muts:
                    self.fail(f"mutating method .{name}() used as an expression")
                return self.apply_sig(sig, [(v, t)] + [self.ex(a, env, pt) for a, (pn, pt) in zip(args, sig.params[1:])], env)
        self.fail(f"method .{name}() on {t}")

    def apply_sig(self, sig, argvals, env):
        """call a translated function in expression position (no &mut params)"""
        args = [atom(v) for v, _ in argvals]
        for n, ty in sig.inputs:
            self.need_input(n, ty)
            args.append(n)
        call = f"{sig.lean} {' '.join(args)}" if args else sig.lean
        if sig.kind == "Except":
            return f"({call})" if args else call, ("res", sig.ret)
        if sig.monadic:
            u = self.gensym("u")
            self.pending.append((u, call))
            self.monadic = True
            self.nflush += 1
            return u, sig.ret
        if sig.ret == ("struct", "Atom"):
            return f"({call} : Atom R)", sig.ret
        return f"({call})" if args else call, sig.ret

    def need_input(self, n, ty):
        if (n, ty) not in self.inputs:
            self.inputs.append((n, ty))

    def is_iter_expr(self, e):
        e = unparen(e)
        if e[0] == "range":
            return True
        if e[0] == "mcall":
            if e[2] in ("iter", "iter_mut", "into_iter", "enumerate", "rev", "map", "filter", "filter_map", "zip", "flat_map", "chain", "cloned", "copied"):
                return True
        if e[0] == "path" and len(e[1]) == 1 and e[1][0] in getattr(self, "_iter_vars", ()):
            return True
        if e[0] == "call" and unparen(e[1])[0] == "path" and unparen(e[1])[1][-2:] == ["BitsIter", "from"]:
            return True
        return False

    def sink(self, e, env, want):
        recv, name, args = unparen(e[1]), e[2], e[3]
        # monadic map directly before collect:  it.map(|x| ... unwrap ...).collect()
        if name == "collect" and recv[0] == "mcall" and recv[2] == "map" and len(recv[3]) == 1 and not self.draws_normal(recv[3][0]):
            it = self.iter_of(recv[1], env)
            if it["mut"] is None:
                f, tf, mon = self.closure(recv[3][0], [it["elem"]], env)
                if mon:
                    u = self.gensym("u")
                    self.pending.append((u, f"List.mapM {atom(f)} {atom(it['list'])}"))
                    self.monadic = True
                    return u, ("vec", tf)
                return f"List.map {atom(f)} {atom(it['list'])}", ("vec", tf)
        it = self.iter_of(recv, env)
        if name == "for_each":
            self.fail("for_each used as a value")
        if it["mut"] is not None:
            self.fail(f".{name} on iter_mut")
        if name == "collect" and not args:
            if isinstance(want, tuple) and want[0] == "map":
                wv = ("struct", want[1]) if isinstance(want[1], str) and want[1] in STRUCT_LEAN else want[1]
                if it["elem"] != ("tup", ["str", wv]):
                    self.fail(f"collect of {it['elem']} into a map of {want[1]}")
                return it["list"], want            # later entries win on lookup, as in HashMap::from_iter
            return it["list"], ("vec", it["elem"])
        if name == "sum" and not args:
            if it["elem"] not in ("R", "N"):
                self.fail(f"sum of {it['elem']}")
            return f"Rs.sum {atom(it['list'])}", it["elem"]
        if name == "count" and not args:
            return f"{atom(it['list'])}.length", "N"
        if name == "fold" and len(args) == 2:
            init, ti = self.ex(args[0], env, want)
            f, tf, mon = self.closure(args[1], [ti, it["elem"]], env)
            if mon or tf != ti:
                self.fail("fold closure")
            return f"List.foldl {atom(f)} {atom(init)} {atom(it['list'])}", ti
        if name == "nth" and len(args) == 1:
            i, ti = self.ex(args[0], env, "N")
            return f"{atom(it['list'])}[{i}]?", ("opt", it["elem"])
        if name == "all" and len(args) == 1:
            f, tf, mon = self.closure(args[0], [it["elem"]], env)
            if mon or tf != "bool":
                self.fail("all closure")
            return f"List.all {atom(it['list'])} {atom(f)}", "bool"
        self.fail(f"iterator sink .{name}")

    # ---------------- calls
    def call(self, e, env, want):
        f, args = unparen(e[1]), e[2]
        if f[0] != "path":
            self.fail("call of a non-path")
        segs = f[1]
        last = segs[-1]
        if len(segs) >= 2 and segs[-2] in self.ENUMS and last in self.ENUMS[segs[-2]]:
            ctor, tys = self.ENUMS[segs[-2]][last]
            if len(tys) != len(args):
                self.fail(f"constructor {segs[-2]}::{last} arity")
            vs = [self.ex(a, env, ty) for a, ty in zip(args, tys)]
            for (v, t), ty in zip(vs, tys):
                if t != ty and not (is_int(t) and is_int(ty)):
                    self.fail(f"constructor {segs[-2]}::{last}: {t} where {ty} is expected")
            return f"({ctor} " + " ".join(atom(v) for v, _ in vs) + ")", ("struct", segs[-2])
        if segs == ["Error", last] and last[0].isupper() and getattr(self.tr, "macro_ctx", False):
            # inside macros.rs `Error` is macros::Error (the model's MacroErr); the interpreter's is `super::Error`
            vs = [self.ex(a, env) for a in args]
            if last == "DisallowedNodeInMacro":
                return "MacroErr.disallowedNodeInMacro", ("struct", "MacroErr")
            ctor = "MacroErr." + last[0].lower() + last[1:]
            return (f"({ctor} " + " ".join(atom(v) for v, _ in vs) + ")") if vs else ctor, ("struct", "MacroErr")
        if segs[-2:] == ["Error", last] and last[0].isupper():
            # the interpreter's error type: same constructor names, lower camel case, in the model
            if last == "DisallowedNodeInIf" and len(args) == 1:
                _, ta = self.ex(args[0], env)
                if ta != ("struct", "OtherNode"):
                    self.fail("DisallowedNodeInIf of something else than the unmatched statement")
                return "IntError.disallowedNodeInIf", ("struct", "IntError")      # the model does not keep the offending node
            vs = [self.ex(a, env) for a in args]
            vs = [((f"{atom(v)}.text", "str") if t == ("struct", "PExpr") else (v, t)) for v, t in vs]     # `&str` of a parameter expression
            ctor = "IntError." + last[0].lower() + last[1:]
            return (f"({ctor} " + " ".join(atom(v) for v, _ in vs) + ")") if vs else ctor, ("struct", "IntError")
        if segs[-2:] == ["parse", "eval_extended"] and len(args) == 2 and unparen(args[1]) == ("path", ["None"]):
            xv, xt = self.ex(args[0], env)
            if xt != ("struct", "PExpr"):
                self.fail("eval_extended of something else than a parameter expression")
            return f"(evalExtended {atom(xv)} [])", ("resE", "R")
        if last == "Ok" and len(args) == 1:
            a0 = unparen(args[0])
            if a0 == ("tuple", []):
                return "(Except.ok () : Except IntError Unit)", ("res", "unit")
            v, t = self.ex(args[0], env, want[1] if isinstance(want, tuple) and want[0] == "res" else None)
            return f"(Except.ok {atom(v)} : {lean_ty(('res', t))})", ("res", t)
        if last == "Err" and len(args) == 1:
            v, t = self.ex(args[0], env)
            if t != ("struct", "IntError"):
                self.fail("Err of something else than the interpreter's error type")
            if not (isinstance(want, tuple) and want[0] == "res"):
                if self.monad == "Except":
                    return f"(Except.error {atom(v)})", ("res", None)      # the type is fixed by the other arms / the context
                self.fail("Err(..) without a known result type")
            return f"(Except.error {atom(v)} : {lean_ty(want)})", want
        if last == "Some" and len(args) == 1:
            v, t = self.ex(args[0], env, want[1] if isinstance(want, tuple) and want[0] == "opt" else None)
            return f"some {atom(v)}", ("opt", t)
        if (segs == ["Self"] and self.self_struct == MULTIOP or segs == ["MultiOp"]) and len(args) == 1:
            return self.ex(args[0], env, MULTIOP)
        if last == "VReg" and len(args) == 2:
            b, tb = self.ex(args[1], env, ("vec", "N"))
            if tb != ("vec", "N"):
                self.fail("VReg(.., bits) with a non-list")
            return f"({{ bits := {b} }} : VRegG)", ("struct", "VReg")
        if segs == ["Self", "default"] and not args and self.self_struct == ("struct", "Int"):
            return "({} : Interp R)", ("struct", "Int")
        if segs[-2:] == ["MultiOp", "default"] and not args:
            return "([] : List (SingleOp R))", MULTIOP
        gen_t = ("vec", self.ty_of_text(f[2])) if len(f) > 2 and f[2] else None
        if last == "with_capacity" and segs[-2] in ("Vec", "VecDeque") and len(args) == 1:
            t = gen_t or (want if (isinstance(want, tuple) and want[0] == "vec") else ("vec", self.tr.default_elem))
            return f"([] : {lean_ty(t)})", t
        if last == "new" and segs[-2] in ("Vec", "VecDeque") and not args:
            t = gen_t or (want if (isinstance(want, tuple) and want[0] == "vec") else ("vec", self.tr.default_elem))
            return f"([] : {lean_ty(t)})", t
        if segs[-2:] == ["String", "new"] and not args:
            return '""', "str"
        if segs[-2:] == ["mem", "take"] and len(args) == 1:
            return self.ex(args[0], env, want)
        if last in ("unreachable_unchecked", "unreachable") :
            self.fail("unreachable in expression position")
        if len(segs) == 1 and segs[0] in env and isinstance(env[segs[0]][1], tuple) and env[segs[0]][1][0] == "fn":
            v, t = env[segs[0]]
            a = []
            for x, pt in zip(args, t[1]):
                if isinstance(pt, tuple) and pt[0] == "vec" and self.is_iter_expr(unparen(x)):
                    a.append(self.iter_of(x, env)["list"])
                else:
                    a.append(self.ex(x, env, pt)[0])
            return f"({v} {' '.join(atom(x) for x in a)})", t[2]
        if len(segs) >= 3 and segs[-2] == "Op" and last == "new":
            sig = self.tr.sigs.get((segs[-3], "new"))
        else:
            sig = self.tr.function(segs, self.self_struct)
        if sig is not None:
            if sig.muts:
                self.fail(f"call of {'::'.join(segs)} with &mut parameters in expression position")
            return self.apply_sig(sig, [self.ex(a, env, pt) for a, (pn, pt) in zip(args, sig.params)], env)
        self.fail(f"call of {'::'.join(segs)}")

    def struct(self, e, env):
        segs, fields, base = e[1], e[2], e[3]
        if segs == ["Self"] and isinstance(self.self_struct, tuple) and self.self_struct[0] == "struct":
            sname = self.self_struct[1]
            fs = STRUCT_FIELDS[sname]
            d = dict(fields)
            ignore = self.tr.ignored_fields.get(sname, set())
            extra = set(d) - {f for f, _ in fs} - ignore
            if extra:
                self.fail(f"unknown fields {sorted(extra)} in Self literal")
            parts = []
            b = None
            if base is not None:
                b, tb = self.ex(base, env)
                if tb != self.self_struct:
                    self.fail("struct update from another type")
            for fname, fty in fs:
                if fname in d:
                    v, t = self.ex(d[fname], env, fty)
                    if fty == ("vec", ("struct", "Call")) and t == ("vec", ("tup", [ft for _, ft in STRUCT_FIELDS["Call"]])):
                        # body statements `(name, regs, args)`: the model's record `Call`
                        v, t = f"List.map (fun t_ => ({{ name := t_.1, regs := t_.2.1, args := t_.2.2 }} : Call R)) {atom(v)}", fty
                    if t != fty:
                        self.fail(f"field {fname}: {t} instead of {fty}")
                    parts.append(f"{FIELD_LEAN.get(sname, {}).get(fname, fname)} := {v}")
                elif b is None:
                    self.fail(f"field {fname} missing in Self literal")
            if b is not None:
                return "{ " + atom(b) + " with " + ", ".join(parts) + " }", self.self_struct
            return "({ " + ", ".join(parts) + " } : " + lean_ty(self.self_struct) + ")", self.self_struct
        if segs == ["C"] and base is None and sorted(f for f, _ in fields) == ["im", "re"]:
            d = dict(fields)
            re_, tr_ = self.ex(d["re"], env, "R")
            im_, ti_ = self.ex(d["im"], env, "R")
            if tr_ != "R" or ti_ != "R":
                self.fail("complex literal with non-real components")
            return f"(({{ re := {re_}, im := {im_} }} : Cx R))", "C"
        self.fail(f"struct literal {'::'.join(segs)}")

    def if_expr(self, e, env, want):
        c, tc = self.ex(e[1], env)
        if tc != "bool":
            self.fail("condition is not a bool")
        if e[3] is None:
            self.fail("if without else used as a value")
        saved = self.pending
        def branch(blk, w):
            # a branch whose value is a Result may contain panicking sub-expressions: their binds stay inside the branch
            self.pending = []
            v, t = self.ex(blk, dict(env), w)
            if self.pending:
                if self.monad == "Except" and isinstance(t, tuple) and t[0] == "res":
                    v = self.flush(v)
                else:
                    self.fail("panicking expression inside a branch of an if expression")
            return v, t
        a, ta = branch(e[2], want)
        b, tb = branch(e[3], want if ta is None else ta)
        self.pending = saved
        if ta != tb:
            # None / Some typing: retry the first branch with the type of the second
            a, ta = self.ex(e[2], dict(env), tb)
            if ta != tb:
                self.fail(f"branches of different type {ta} / {tb}")
        return f"(if {c} then {a} else {b})", ta

    def match_to_if(self, e):
        """`match n { 0 => A, 1 => B, _ => C }` on an integer as an if / else-if chain;
        `match x.cmp(&0) { Ordering::Less => A, Ordering::Greater => B, _ => C }` likewise"""
        arms = e[2]
        sc = unparen(e[1])
        if sc[0] == "mcall" and sc[2] == "cmp" and len(sc[3]) == 1 and len(arms) == 3 and arms[2][0][0] == "pwild" \
           and all(a[1] is None for a in arms) and [a[0] for a in arms[:2]] == [("ppath", ["Ordering", "Less"], None), ("ppath", ["Ordering", "Greater"], None)]:
            x, y = sc[1], unparen(sc[3][0])
            if y[0] == "ref":
                y = y[1]
            def blk(b):
                return b if b[0] == "block" else ("block", [], b)
            return ("if", ("bin", "<", x, y), blk(arms[0][2]), ("if", ("bin", ">", x, y), blk(arms[1][2]), blk(arms[2][2])))
        if not arms or arms[-1][0][0] != "pwild" or any(a[1] is not None for a in arms):
            return None
        if not all(a[0][0] == "plit" for a in arms[:-1]):
            return None
        def blk(x):
            return x if x[0] == "block" else ("block", [], x)
        out = blk(arms[-1][2])
        for pat, g, body in reversed(arms[:-1]):
            out = ("if", ("bin", "==", e[1], pat[1]), blk(body), out)
        return out

    def match_expr(self, e, env, want):
        scrut = unparen(e[1])
        chain = self.match_to_if(e)
        if chain is not None:
            return self.if_expr(chain, env, want)
        # match self.th { Single => A, Multi(n) => global_install(n, || B) }
        if self.is_threading_match(e):
            return self.ex(self.threading_arm(e), env, want)
        arms = e[2]
        if len(arms) == 2 and all(a[1] is None for a in arms) and self.monad == "Except" \
                and arms[0][0][0] == "ppath" and arms[0][0][1] == ["Some"] and arms[0][0][2] and len(arms[0][0][2]) == 1 \
                and arms[0][0][2][0][0] == "pid" and arms[1][0] == ("ppath", ["None"], None) \
                and unparen(arms[0][2])[0] == "try" and unparen(arms[1][2])[0] == "try":
            # match OPT { Some(x) => A?, None => B? }  is  (match OPT { Some(x) => A, None => B })?
            sv, st = self.ex(scrut, env)
            if not (isinstance(st, tuple) and st[0] == "opt"):
                self.fail("match Some / None on something else than an Option")
            x = arms[0][0][2][0][1]
            env2 = dict(env); env2[x] = (lname(x), st[1])
            n0 = len(self.pending)
            a, ta = self.ex(unparen(arms[0][2])[1], env2)
            b, tb = self.ex(unparen(arms[1][2])[1], env)
            if len(self.pending) != n0:
                self.fail("match arms with hoisted effects")
            if ta != tb or not (isinstance(ta, tuple) and ta[0] == "res"):
                self.fail(f"match arms of types {ta} / {tb}")
            u = self.gensym("u")
            self.pending.append((u, f"(match {sv} with | some {lname(x)} => {a} | none => {b})"))
            self.monadic = True
            self.nflush += 1
            return u, ta[1]
        self.fail("match expression")

    def threading_arm(self, e):
        """the sequential arm of `match <threading model>`, after checking the parallel arm is its twin"""
        arms = e[2]
        single = [a for a in arms if a[0][0] == "ppath" and a[0][1][-1] == "Single"]
        multi = [a for a in arms if a[0][0] == "ppath" and a[0][1][-1] == "Multi"]
        if len(single) != 1 or len(multi) != 1 or len(arms) != 2:
            self.fail("match on the threading model with unexpected arms")
        sbody = single[0][2]
        mbody = unparen(multi[0][2])
        ok, why = False, ""
        if mbody[0] == "call" and unparen(mbody[1])[0] == "path" and unparen(mbody[1])[1][-1] == "global_install" and len(mbody[2]) == 2 \
           and unparen(mbody[2][1])[0] == "closure" and not unparen(mbody[2][1])[1]:
            pbody = unparen(mbody[2][1])[2]
            ok = norm_for_cmp(norm_rng(seq_twin(pbody))) == norm_for_cmp(norm_rng(sbody))
            if not ok:
                why = "the parallel arm is not the sequential arm with rayon adaptors"
        else:
            why = "the Multi arm is not `global_install(n, || ..)`"
        self.twins.append((ok, why))
        if not ok:
            self.fail("parallel arm differs: " + why)
        return sbody

    # ---------------- blocks as values (no control-flow escape)
    def block_value(self, b, env, want):
        """a block used as a value; hoisted binds propagate to the enclosing statement"""
        env = dict(env)
        n0 = len(self.pending)
        self.propagate += 1
        try:
            res = self.stmts(b[1], b[2], env, lambda env2, v: v, want)
        finally:
            self.propagate -= 1
        if len(self.pending) > n0 and b[1]:
            self.fail("panicking expression inside a block with its own bindings")
        if res is None:
            self.fail("block without a value")
        return res

    # ---------------- statements in continuation-passing style
    def stmts(self, stmts, tail, env, k, want=None):
        """translate `stmts; tail` then call k(env, (lean, type)|None) for the rest; returns (lean, type)"""
        if not stmts:
            if tail is None:
                return k(env, None)
            t = unparen(tail)
            if t[0] in ("if", "iflet", "match") and self.escapes(t):
                return self.control(t, env, k, want, is_tail=True)
            if t[0] == "if" and t[2][2] is None:
                return self.control(t, env, lambda env2, v: k(env2, None), want, is_tail=False)
            if t[0] == "iflet":
                return self.control(t, env, lambda env2, v: k(env2, None), want, is_tail=False)
            if t[0] == "if" and t[3] is not None and (t[2][1] or (t[3][0] == "block" and t[3][1]) or t[3][0] == "if"):
                return self.control(t, env, k, want, is_tail=True, dup=True)
            if t[0] == "match" and self.is_threading_match(t):
                return self.stmts([], self.threading_arm(t), env, k, want)
            if t[0] == "match" and self.match_to_if(t) is not None:
                return self.stmts([], self.match_to_if(t), env, k, want)
            if t[0] == "match" and not self.is_threading_match(t):
                return self.enum_match(t, env, k, want)
            if t[0] == "return":
                return self.do_return(t, env)
            if t[0] in ("block", "unsafe"):
                blk = t if t[0] == "block" else t[1]
                return self.stmts(blk[1], blk[2], env, k, want)
            if self.is_effect_expr(t, env):
                return self.stmts([("expr", t)], None, env, k, want)
            def fin(e2, env2):
                v = self.ex(e2, env2, want)
                return self.with_pending(lambda: k(env2, v))
            return self.hoist(tail, env, fin)
        s, rest = stmts[0], stmts[1:]
        cont = lambda env2: self.stmts(rest, tail, env2, k, want)
        if s[0] == "let":
            return self.let_stmt(s, env, cont)
        if s[0] == "fnitem":
            _, fname, fparams, fret, fbody = s
            sub = Emitter(self.tr, f"{self.where}::{fname}", self.self_struct)
            envf, ptys, binder = {}, [], ""
            for nm, ty in fparams:
                t = sub.ty_of_text(ty)
                ptys.append(t); envf[nm] = (lname(nm), t)
                binder += f" ({lname(nm)} : {lean_ty(t)})"
            rt = sub.ty_of_text(fret) if fret else "unit"
            v, tv = sub.stmts(fbody[1], fbody[2], envf, lambda env2, v: v, rt)
            if sub.pending or sub.monadic or sub.aux:
                self.fail(f"nested fn {fname} is not a plain expression")
            if tv != rt and not (is_int(tv) and is_int(rt)):
                self.fail(f"nested fn {fname} returns {tv} instead of {rt}")
            lean = f"{self.tr.cur_lean}_{fname}"
            self.aux.append(f"def {lean}{binder} : {lean_ty(rt)} :=\n  {v}\n")
            env = dict(env); env[fname] = (lean, ("fn", ptys, rt))
            return cont(env)
        if s[0] == "assign":
            lets = self.assign(s[1], s[2], s[3], env)
            return self.with_pending(lambda: self.wrap_lets(lets, cont(env)))
        if s[0] == "expr":
            e = unparen(s[1])
            if e[0] == "return":
                return self.do_return(e, env)
            if e[0] in ("break", "continue"):
                return self.do_jump(e[0], env)
            if e[0] in ("if", "iflet"):
                return self.control(e, env, lambda env2, v: cont(env2), want, is_tail=False)
            if e[0] == "match":
                if self.is_threading_match(e):
                    return self.stmts([("expr", self.threading_arm(e))] + rest, tail, env, k, want)
                chain = self.match_to_if(e)
                if chain is not None:
                    return self.control(chain, env, lambda env2, v: cont(env2), want, is_tail=False)
                return self.enum_match(e, env, lambda env2, v: cont(env2), want)
            if e[0] in ("block", "unsafe"):
                blk = e if e[0] == "block" else e[1]
                if blk[2] is not None:
                    return self.stmts(blk[1] + [("expr", blk[2])] + rest, tail, env, k, want)
                return self.stmts(blk[1] + rest, tail, env, k, want)
            if e[0] in ("while", "loop", "for"):
                return self.loop(e, env, cont)
            if e[0] == "macro":
                if e[1] in ("assert", "assert_eq", "debug_assert"):
                    return cont(env)
                self.fail(f"macro {e[1]}!")
            if e[0] == "try":
                if self.try_mut_sig(e, env) is not None:
                    return self.effect(e, env, cont)
                self.ex(e, env)
                return self.with_pending(lambda: cont(env))
            return self.effect(e, env, cont)
        self.fail(f"statement {s[0]}")

    def find_mut_call(self, e, env):
        """first (innermost, left-to-right) mutating method call used as a value inside e (not inside closures / blocks)"""
        e0 = e
        if not isinstance(e, tuple) or not e:
            return None
        if e[0] in ("closure", "block", "if", "iflet", "match", "while", "for", "loop", "unsafe"):
            return None
        for x in e[1:]:
            for y in (x if isinstance(x, list) else [x]):
                if isinstance(y, tuple):
                    r = self.find_mut_call(y, env)
                    if r is not None:
                        return r
        if e[0] == "mcall" and e[2] in self.tr.mut_method_names:
            try:
                v, t = self.ex(e[1], dict(env))
            except Unsupported:
                return None
            finally:
                pass
            if isinstance(t, tuple) and t[0] == "struct":
                sig = self.tr.method(t[1], e[2])
                if sig is not None and sig.muts and sig.ret != "unit":
                    return e, sig
        return None

    def subst(self, e, old, new):
        if e is old:
            return new
        if isinstance(e, tuple):
            return tuple(self.subst(x, old, new) for x in e)
        if isinstance(e, list):
            return [self.subst(x, old, new) for x in e]
        return e

    def hoist(self, e, env, then):
        """evaluate the mutating method calls inside e first (binding their results), then call then(e', env')"""
        saved = list(self.pending)
        found = self.find_mut_call(e, env)
        self.pending = saved
        if found is None:
            return then(e, env)
        node, sig = found
        tmp = "__t" + self.gensym("")
        def bind(env3, retv):
            env4 = dict(env3); env4[tmp] = retv
            return self.hoist(self.subst(e, node, ("path", [tmp])), env4, then)
        return self.call_mut(sig, node[1], node[3], env, None, bind)

    propagate = 0

    def with_pending(self, mk):
        """evaluate mk() (which yields the rest) under the binds hoisted so far"""
        if self.propagate:
            return mk()
        pend = self.pending
        self.pending = []
        v, t = mk()
        if pend:
            self.pending = pend
            v = self.flush(v)
        return v, t

    def wrap_lets(self, lets, vt):
        v, t = vt
        return wrap(lets, v), t

    def weights_arg(self, e0):
        """`thread_rng().sample(WeightedIndex::new(W).unwrap())`: the expression W"""
        def find(e):
            if isinstance(e, tuple):
                if e and e[0] == "call" and isinstance(e[1], tuple) and e[1] and e[1][0] == "path" and len(e[1][1]) >= 2 \
                        and e[1][1][-2:] == ["WeightedIndex", "new"] and len(e[2]) == 1:
                    return e[2][0]
                for x in e:
                    r = find(x)
                    if r is not None:
                        return r
            elif isinstance(e, list):
                for x in e:
                    r = find(x)
                    if r is not None:
                        return r
            return None
        w = find(e0)
        if w is None:
            self.fail("cannot find the weights of WeightedIndex::new")
        return w

    def is_threading_match(self, e):
        s = unparen(e[1])
        return (s[0] == "field" and s[2] == "th") or (s[0] == "path" and s[1] == ["th"]) or \
            (s[0] == "mcall" and s[2] == "and" and unparen(s[1])[0] == "field" and unparen(s[1])[2] == "th")

    def is_effect_expr(self, e, env=None):
        if e[0] == "mcall" and e[2] == "for_each":
            return True
        if e[0] in ("while", "loop", "for"):
            return True
        if e[0] == "call" and unparen(e[1])[0] == "path" and unparen(e[1])[1][-1] in ("swap", "unreachable_unchecked"):
            return True
        if e[0] == "try" and env is not None and self.try_mut_sig(e, env) is not None:
            return True
        if e[0] == "mcall" and e[2] in self.tr.mut_method_names and env is not None:
            saved = list(self.pending)
            try:
                v, t = self.ex(e[1], dict(env))
            except Unsupported:
                return False
            finally:
                self.pending = saved
            if isinstance(t, tuple) and t[0] == "struct":
                sig = self.tr.method(t[1], e[2])
                return sig is not None and bool(sig.muts) and sig.ret == "unit"
        return False

    def escapes(self, e):
        return contains(e, ("return", "break", "continue"))

    def final(self, v):
        """the function's final result from its return-value (lean, type)|None, given the current env: set by translate_fn"""
        raise NotImplementedError

    def do_return(self, e, env):
        if e[1] is None:
            return self.with_pending(lambda: self.on_return(env, None))
        if self.is_effect_expr(unparen(e[1]), env):
            return self.stmts([("expr", e[1]), ("expr", ("return", None))], None, env, lambda env2, v: self.fail("unreachable"), None)
        def fin(e2, env2):
            val = self.ex(e2, env2, self.ret_ty)
            return self.with_pending(lambda: self.on_return(env2, val))
        return self.hoist(e[1], env, fin)

    def do_jump(self, kind, env):
        h = self.loop_handlers[-1] if self.loop_handlers else None
        if h is None:
            self.fail(f"{kind} outside a loop")
        return h[kind](env)

    # ---- let
    def let_stmt(self, s, env, cont):
        _, pat, ty, e = s
        if e is None:
            self.fail("let without initialiser")
        want = self.ty_of_text(ty) if ty else None
        e0 = unparen(e)
        if e0[0] == "try" and pat[0] == "pid" and unparen(e0[1])[0] == "mcall" and unparen(e0[1])[2] in self.tr.mut_method_names \
                and self.monad == "Except":
            # `let x = RECV.method(.., &mut y, ..)?;` the method returns Result<T, _> and updates y
            call = unparen(e0[1])
            saved = list(self.pending)
            try:
                rv0, rt0 = self.ex(call[1], dict(env))
            except Unsupported:
                rv0, rt0 = None, None
            self.pending = saved
            sig = self.tr.method(rt0[1], call[2]) if isinstance(rt0, tuple) and rt0[0] == "struct" else None
            if sig is not None and sig.muts and sig.kind == "Except" and sig.ret != "unit":
                def bind(env3, retv):
                    env4 = dict(env3); env4[pat[1]] = retv
                    return cont(env4)
                return self.call_mut(sig, call[1], call[3], env, None, bind)
        if e0[0] == "match" and pat[0] == "pid" and self.monad == "Except" and len(e0[2]) == 2 and all(a[1] is None for a in e0[2]) \
                and e0[2][0][0][0] == "ppath" and e0[2][0][0][1] == ["Some"] and e0[2][0][0][2] and len(e0[2][0][0][2]) == 1 \
                and e0[2][0][0][2][0][0] == "pid" and e0[2][1][0] == ("ppath", ["None"], None) \
                and not (unparen(e0[2][0][2])[0] == "try" and unparen(e0[2][1][2])[0] == "try"):
            return self.optmatch_let(pat[1], e0, env, cont)
        # `let Op(ref mut a, ref mut b) = self;` : names for the two fields of an ExtOp place
        if pat[0] == "ppath" and pat[1] == ["Op"] and pat[2] is not None and len(pat[2]) == 2:
            if all(p[0] == "pidref" for p in pat[2]):
                vt = self.ex(e0, env)
                if vt[1] != ("struct", "ExtOp"):
                    self.fail("Op(..) pattern against a non-ExtOp value")
                env = dict(env)
                for i, p in enumerate(pat[2]):
                    env[p[1]] = ("ALIAS", ("field", e0, str(i)), dict(env))
                return cont(env)
            if all(p[0] == "pid" for p in pat[2]) and e0[0] == "call" and unparen(e0[1])[0] == "path" and unparen(e0[1])[1][-2:] == ["mem", "take"]:
                src = e0[2][0]
                v, t = self.ex(src, env)
                if t != ("struct", "ExtOp"):
                    self.fail("Op(..) pattern against a non-ExtOp value")
                env2 = dict(env)
                lets = []
                for i, p in enumerate(pat[2]):
                    fld = "blocks" if i == 0 else "tail"
                    n = lname(p[1])
                    lets.append(f"let {n} := {atom(v)}.{fld}")
                    env2[p[1]] = (n, dict(STRUCT_FIELDS["ExtOp"])[fld])
                # `mem::take` leaves the default value behind
                return self.wrap_lets(lets, self.set_place(src, "({ blocks := [], tail := [] } : ExtOp R)", env2, cont))
            self.fail("Op(..) pattern")
        if e0[0] == "call" and unparen(e0[1])[0] == "path" and unparen(e0[1])[1][-2:] == ["mem", "take"] and len(e0[2]) == 1 and pat[0] == "pid":
            place = e0[2][0]
            old, told = self.ex(place, env)
            if told == ("struct", "ExtOp"):
                n = lname(pat[1])
                env2 = dict(env); env2[pat[1]] = (n, told)
                # `mem::take` leaves `Op::default()` (no blocks, empty tail) behind
                return self.wrap_lets([f"let {n} := {old}"], self.set_place(place, "({ blocks := [], tail := [] } : ExtOp R)", env2, cont))
            if not (isinstance(told, tuple) and told[0] == "vec"):
                self.fail("mem::take of something else than a queue")
            n = lname(pat[1])
            env2 = dict(env); env2[pat[1]] = (n, told)
            return self.wrap_lets([f"let {n} := {old}"], self.set_place(place, f"([] : {lean_ty(told)})", env2, cont))
        if e0[0] == "call" and unparen(e0[1])[0] == "path" and unparen(e0[1])[1][-2:] == ["mem", "replace"] and len(e0[2]) == 2 and pat[0] == "pid":
            place, newv = e0[2]
            old, told = self.ex(place, env)
            nv, tnv = self.ex(newv, env, told)
            if tnv != told:
                self.fail("mem::replace with a value of another type")
            n = lname(pat[1])
            tmpn = self.gensym("new")
            env2 = dict(env); env2[pat[1]] = (n, told)
            return self.wrap_lets([f"let {tmpn} := {nv}", f"let {n} := {old}"], self.set_place(place, tmpn, env2, cont))
        # random draw -> input
        if e0[0] == "mcall" and e0[2] == "sample" and "thread_rng" in repr(e0[1]):
            if pat[0] != "pid":
                self.fail("random draw bound to a pattern")
            if "WeightedIndex" not in repr(e0):
                self.fail("random draw of an unsupported distribution")
            n = lname(pat[1])
            if "draws" not in env or not self.uses_draws:
                self.fail("random draw in a function that was not recognised as consuming the draw stream")
            if getattr(self, "weights_mode", False):
                # the companion definition `<fn>_weights`: the weight vector handed to WeightedIndex::new at this point
                w = self.weights_arg(e0)
                wv, wt = self.ex(w, env)
                if wt != ("vec", "R"):
                    self.fail(f"WeightedIndex over {wt}")
                return f"WSOME:{atom(wv)}", None
            env = dict(env); env[pat[1]] = (n, "N")
            d = env["draws"][0]
            env["draws"] = ("draws", ("vec", "N"))
            self.monadic = True
            self.nflush += 1
            v, t = cont(env)
            return f"(match {d} with | [] => none | {n} :: draws => {v})", t
        if e0[0] == "call" and unparen(e0[1])[0] == "path" and unparen(e0[1])[1][-1] == "thread_rng" and pat[0] == "pid":
            env = dict(env); env[pat[1]] = ("()", "rng")
            return cont(env)
        if e0[0] == "match" and self.is_threading_match(e0):
            e0 = self.threading_arm(e0)
            return self.let_stmt((s[0], pat, ty, e0), env, cont)
        if e0[0] in ("block", "unsafe") :
            blk = e0 if e0[0] == "block" else e0[1]
            return self.stmts(blk[1], blk[2], dict(env), lambda env2, v: self.bind_let(pat, v, want, env, cont), want)
        def fin(e2, env2):
            v = self.ex(e2, env2, want)
            return self.with_pending(lambda: self.bind_let(pat, v, want, env2, cont))
        return self.hoist(e, env, fin)

    def optmatch_let(self, x, e, env, cont):
        """`let x = match OPT { Some(p) => A, None => B };` in a function that returns a Result: the arms are statement
        blocks (they may use `?`, `return Err(..)`, update variables declared outside); both end in the value of x"""
        sv, st = self.ex(unparen(e[1]), env)
        if not (isinstance(st, tuple) and st[0] == "opt"):
            self.fail("match Some / None on something else than an Option")
        p = e[2][0][0][2][0][1]
        arms = []
        roots = []
        for arm_env_extra, body in ((True, e[2][0][2]), (False, e[2][1][2])):
            env2 = dict(env)
            if arm_env_extra:
                env2[p] = (lname(p), st[1])
            b = unparen(body)
            blk = b if b[0] == "block" else ("block", [], b)
            for r in self.assigned_roots(blk, env2):
                if r not in roots:
                    roots.append(r)
            arms.append((env2, blk))
        tys = [env[r][1] for r in roots]
        vals = []
        vty = [None]
        for env2, blk in arms:
            def k(env3, v):
                if v is None:
                    self.fail("match arm without a value")
                if vty[0] is None:
                    vty[0] = v[1]
                elif vty[0] != v[1] and not (is_int(vty[0]) and is_int(v[1])):
                    self.fail(f"match arms of types {vty[0]} / {v[1]}")
                comps = [v[0]] + [env3[r][0] for r in roots]
                packed = comps[0] if len(comps) == 1 else "(" + ", ".join(comps) + ")"
                return f"(Except.ok {atom(packed)})", None
            saved = self.pending; self.pending = []
            keep_ret, keep_rty = self.on_return, self.ret_ty
            def arm_return(env3, val):
                # `return Err(e)` inside an arm: the error of the whole match (and, through the bind, of what encloses it)
                m = re.fullmatch(r"\(Except\.error (.*) : [^:]*\)", val[0] if val else "", re.S)
                if not m:
                    self.fail("return of something else than Err(..) inside a match arm")
                return f"(Except.error {m.group(1)})", None
            self.on_return = arm_return
            self.ret_ty = ("res", "unit")
            try:
                a, _ = self.stmts(blk[1], blk[2], env2, k, None)
            finally:
                self.on_return, self.ret_ty = keep_ret, keep_rty
            if self.pending:
                self.fail("match arm with hoisted effects left")
            self.pending = saved
            vals.append(a)
        res = self.gensym("m")
        env4 = dict(env)
        lets = []
        comps_t = [vty[0]] + tys
        if len(comps_t) == 1:
            env4[x] = (res, vty[0])
        else:
            n = len(comps_t)
            for i, (nm, t) in enumerate(zip([x] + roots, comps_t)):
                proj = f".{i + 1}" if n == 2 else ".2" * i + (".1" if i < n - 1 else "")
                ln = lname(nm)
                lets.append(f"let {ln} := {res}{proj}")
                env4[nm] = (ln, t)
        self.monadic = True
        self.nflush += 1
        inner, t = self.wrap_lets(lets, cont(env4))
        sty = " × ".join(atom(lean_ty(t_)) for t_ in comps_t)
        return self.with_pending(lambda: (f"Except.bind ((match {sv} with | some {lname(p)} => {vals[0]} | none => {vals[1]}) : Except IntError ({sty})) (fun {res} => {inner})", t))

    def bind_let(self, pat, v, want, env, cont):
        if v is None:
            self.fail("let bound to a unit value")
        val, t = v
        if t == "thr" and pat[0] == "pid":
            env = dict(env); env[pat[1]] = ("()", "thr")
            return cont(env)
        if want is not None and t != want:
            if not (is_int(want) and is_int(t)):
                self.fail(f"let: {t} where {want} was declared")
        env = dict(env)
        lets = []
        if pat[0] == "pid":
            n = lname(pat[1])
            lets.append(f"let {n} := {val}")
            env[pat[1]] = (n, t)
        else:
            tmp = self.gensym("p")
            lets.append(f"let {tmp} := {val}")
            self.bind_pat(pat, tmp, t, env, lets)
        return self.wrap_lets(lets, cont(env))

    # ---- assignment
    def assign(self, place, op, rhs, env):
        """returns let-lines; mutates env"""
        place = unparen(place)
        if op != "=":
            rhs = ("bin", op[:-1], place, rhs)
            # `*v *= k` on a complex amplitude with a real factor is Complex::scale
        root, path = self.place_path(place, env)
        cur, t = env[root]
        newv = self.update(cur, t, path, rhs, env)
        n = lname(root)
        env[root] = (n, t)
        return [f"let {n} := {newv}"]

    def place_path(self, place, env):
        place = unparen(place)
        if place[0] == "un" and place[1] == "*":
            return self.place_path(place[2], env)
        if place[0] in ("ref", "refmut"):
            return self.place_path(place[1], env)
        if place[0] == "path" and len(place[1]) == 1:
            if place[1][0] not in env:
                self.fail(f"assignment to unknown {place[1][0]}")
            if env[place[1][0]][0] == "ALIAS":
                return self.place_path(env[place[1][0]][1], env[place[1][0]][2])
            return place[1][0], []
        if place[0] == "field":
            r, p = self.place_path(place[1], env)
            return r, p + [("f", place[2])]
        if place[0] == "index":
            r, p = self.place_path(place[1], env)
            if unparen(place[2]) == ("range", None, None):
                return r, p
            return r, p + [("i", place[2])]
        self.fail("assignment target")

    def update(self, cur, t, path, rhs, env):
        """lean expr for `cur` with the component at `path` replaced by rhs"""
        if not path:
            v, tv = self.ex(rhs, env, t)
            if tv != t:
                if t == "C" and tv == "C":
                    pass
                elif not (is_int(t) and is_int(tv)):
                    self.fail(f"assignment changes the type {t} -> {tv}")
            return v
        kind, key = path[0]
        if kind == "f":
            if t == MULTIOP and key == "0":
                return self.update(cur, t, path[1:], rhs, env)
            if isinstance(t, tuple) and t[0] == "struct":
                fs = dict(STRUCT_FIELDS.get(t[1], []))
                lf = key
                if t[1] == "VReg" and key == "1":
                    lf, ft = "bits", ("vec", "N")
                elif t[1] == "ExtOp" and key in ("0", "1"):
                    lf = "blocks" if key == "0" else "tail"
                    ft = fs[lf]
                elif key in fs:
                    ft = fs[key]
                    lf = FIELD_LEAN.get(t[1], {}).get(key, key)
                else:
                    self.fail(f"unknown field .{key}")
                inner = self.update(f"{atom(cur)}.{lf}", ft, path[1:], rhs, env)
                return "({ " + atom(cur) + f" with {lf} := {inner} }} : {lean_ty(t)})"
            if isinstance(t, tuple) and t[0] == "tup" and key.isdigit() and len(t[1]) == 2:
                i = int(key)
                inner = self.update(f"{atom(cur)}.{i + 1}", t[1][i], path[1:], rhs, env)
                return f"({inner}, {atom(cur)}.2)" if i == 0 else f"({atom(cur)}.1, {inner})"
            self.fail(f"assignment to field .{key} of {t}")
        if kind == "i":
            if not (isinstance(t, tuple) and t[0] == "vec"):
                self.fail("index assignment into a non-vector")
            i, it = self.ex(key, env, "N")
            inner = self.update(f"{atom(cur)}.getD {atom(i)} {zero_of(t[1])}", t[1], path[1:], rhs, env)
            return f"List.set {atom(cur)} {atom(i)} {atom(inner)}"
        self.fail("assignment path")

    # ---- effects: statements that are calls
    def try_mut_sig(self, e, env):
        """`RECV.method(.., &mut x, ..)?` where the method returns `Result<(), _>` and has `&mut` parameters"""
        if e[0] != "try":
            return None
        inner = unparen(e[1])
        if inner[0] != "mcall" or inner[2] not in self.tr.mut_method_names:
            return None
        saved = list(self.pending)
        try:
            rv0, rt0 = self.ex(inner[1], dict(env))
        except Unsupported:
            return None
        finally:
            self.pending = saved
        if isinstance(rt0, tuple) and rt0[0] == "struct":
            sig = self.tr.method(rt0[1], inner[2])
            if sig is not None and sig.muts and sig.kind == "Except" and sig.ret == "unit":
                return inner, sig
        return None

    def effect(self, e, env, cont):
        tm = self.try_mut_sig(e, env)
        if tm is not None:
            if self.monad != "Except":
                self.fail("? in a function that does not return a Result")
            inner, sig = tm
            return self.call_mut(sig, inner[1], inner[3], env, cont, None)
        if e[0] == "mcall":
            recv, name, args = unparen(e[1]), e[2], e[3]
            if name == "for_each" and self.is_iter_expr(recv):
                return self.for_each(recv, args, env, cont)
            rv, rt = None, None
            saved = list(self.pending)
            try:
                rv0, rt0 = self.ex(recv, dict(env))
            except Unsupported:
                rv0, rt0 = None, None
            self.pending = saved
            if rt0 == ("struct", "Atom") and name == "for_each" and len(args) == 3:
                # AtomicOp::for_each(&self, psi_i, psi_o, ctrl): the element-wise sweep of dispatch.rs
                pi, ti = self.ex(args[0], env); po, to = self.ex(args[1], env); c, tc = self.ex(args[2], env, "N")
                if ti != ("vec", "C") or to != ("vec", "C") or not is_int(tc):
                    self.fail("AtomicOp::for_each arguments")
                return self.set_place(args[1], f"atomForEach {atom(rv0)} {atom(pi)} {atom(po)} {atom(c)}", env, cont)
            if (isinstance(rt0, tuple) and rt0[0] == "struct") or rt0 == MULTIOP:
                sig0 = self.tr.method("MultiOp" if rt0 == MULTIOP else rt0[1], name)
                if sig0 is not None and sig0.muts and "self" not in sig0.muts:
                    return self.call_mut(sig0, recv, args, env, cont, None)
            try:
                root, path = self.place_path(recv, env)
            except Unsupported:
                root = None
            if root is not None:
                cur, t0 = env[root]
                rv, rt = self.ex(recv, env)
                # Vec / VecDeque mutators
                if isinstance(rt, tuple) and rt[0] == "vec":
                    if name == "set_len" and len(args) == 1:
                        # uninitialised memory: modelled as zeros (every element is written before it is read)
                        n, tn = self.ex(args[0], env, "N")
                        return self.set_place(recv, f"Rs.resize {atom(rv)} {atom(n)} {zero_of(rt[1])}", env, cont)
                    if name == "resize" and len(args) == 2:
                        n, tn = self.ex(args[0], env, "N"); x, tx = self.ex(args[1], env, rt[1])
                        return self.set_place(recv, f"Rs.resize {atom(rv)} {atom(n)} {atom(x)}", env, cont)
                    if name == "pop" and not args:
                        return self.set_place(recv, f"List.dropLast {atom(rv)}", env, cont)      # the popped element is not used
                    if name in ("reserve", "reserve_exact", "shrink_to_fit") :
                        return cont(env)          # capacity only
                    if name in ("push", "push_back") and len(args) == 1:
                        x, tx = self.ex(args[0], env, rt[1])
                        if rt[1] == "Ast":
                            # the record of accepted source chunks: the model keeps the node count of each chunk
                            if tx != ("vec", ("struct", "AstNode")):
                                self.fail("push of something else than an Ast onto the chunk record")
                            x = f"List.length {atom(x)}"
                        elif tx != rt[1] and not (is_int(tx) and is_int(rt[1])) and tx is not None:
                            self.fail(f"push of {tx} onto a vector of {rt[1]}")
                        return self.with_pending(lambda: self.set_place(recv, f"{atom(rv)} ++ [{x}]", env, cont))
                    if name == "append" and len(args) == 1:
                        other = unparen(args[0])
                        x, tx = self.ex(other, env, rt)
                        if tx != rt:
                            self.fail("append of a different type")
                        # `a.append(&mut b)` empties b (when b is a place and not a temporary)
                        def after(env2):
                            try:
                                self.place_path(other, env2)
                            except Unsupported:
                                return cont(env2)
                            return self.set_place(other, f"([] : {lean_ty(rt)})", env2, cont)
                        return self.with_pending(lambda: self.set_place(recv, f"{atom(rv)} ++ {atom(x)}", env, after))
                    if name == "extend" and len(args) == 1:
                        it = self.iter_of(args[0], env)
                        return self.with_pending(lambda: self.set_place(recv, f"{atom(rv)} ++ {atom(it['list'])}", env, cont))
                if isinstance(rt, tuple) and rt[0] == "map":
                    if name == "insert" and len(args) == 2:
                        kx, kt = self.ex(args[0], env, "str")
                        vx, vt = self.ex(args[1], env, ("struct", rt[1]))
                        if kt != "str" or vt != ("struct", rt[1]):
                            self.fail(f"insert of ({kt}, {vt}) into a map of {rt[1]}")
                        return self.with_pending(lambda: self.set_place(recv, f"Rs.mapInsert {atom(rv)} {atom(kx)} {atom(vx)}", env, cont))
                    if name == "extend" and len(args) == 1:
                        x, tx = self.ex(args[0], env, rt)
                        if tx != rt:
                            self.fail("extend of a different map type")
                        return self.with_pending(lambda: self.set_place(recv, f"Rs.mapExtend {atom(rv)} {atom(x)}", env, cont))
                if isinstance(rt, tuple) and rt[0] == "struct":
                    sig = self.tr.method(rt[1], name)
                    if sig is not None and sig.muts:
                        return self.call_mut(sig, recv, args, env, cont, None)
                if rt == MULTIOP and name == "mul_assign" and len(args) == 1:
                    x, tx = self.ex(args[0], env, rt)
                    return self.with_pending(lambda: self.set_place(recv, f"{atom(rv)} ++ {atom(x)}", env, cont))
            self.fail(f"statement call .{name}()")
        if e[0] == "call":
            f = unparen(e[1])
            if f[0] == "path" and f[1][-2:] == ["mem", "swap"]:
                a, b = e[2]
                va, ta = self.ex(a, env); vb, tb = self.ex(b, env)
                tmp = self.gensym("swap")
                def after(env2):
                    return self.set_place(b, tmp, env2, cont)
                r = self.set_place(a, vb, env, after)
                return self.wrap_lets([f"let {tmp} := {va}"], r)
            if f[0] == "path" and f[1][-1] == "unreachable_unchecked":
                self.monadic = True
                return "none", None          # reaching it is undefined behaviour: modelled as a panic
        self.fail(f"expression statement {e[0]}")

    def set_place(self, place, newval, env, cont):
        place = unparen(place)
        root, path = self.place_path(place, env)
        cur, t = env[root]
        env = dict(env)
        self._override = newval
        v = self.update_raw(cur, t, path, newval)
        n = lname(root)
        env[root] = (n, t)
        return self.wrap_lets([f"let {n} := {v}"], cont(env))

    def update_raw(self, cur, t, path, newval):
        if not path:
            return newval
        kind, key = path[0]
        if kind == "f":
            if t == MULTIOP and key == "0":
                return self.update_raw(cur, t, path[1:], newval)
            if isinstance(t, tuple) and t[0] == "struct":
                fs = dict(STRUCT_FIELDS.get(t[1], []))
                lf, ft = key, fs.get(key)
                if t[1] == "VReg" and key == "1":
                    lf, ft = "bits", ("vec", "N")
                if t[1] == "ExtOp" and key in ("0", "1"):
                    lf = "blocks" if key == "0" else "tail"
                    ft = fs[lf]
                if ft is not None and t[1] in FIELD_LEAN:
                    lf = FIELD_LEAN[t[1]].get(key, key)
                if ft is None:
                    self.fail(f"unknown field .{key}")
                inner = self.update_raw(f"{atom(cur)}.{lf}", ft, path[1:], newval)
                return "({ " + atom(cur) + f" with {lf} := {inner} }} : {lean_ty(t)})"
            if isinstance(t, tuple) and t[0] == "tup" and len(t[1]) == 2:
                i = int(key)
                inner = self.update_raw(f"{atom(cur)}.{i + 1}", t[1][i], path[1:], newval)
                return f"({inner}, {atom(cur)}.2)" if i == 0 else f"({atom(cur)}.1, {inner})"
        self.fail("place update")

    def call_mut(self, sig, recv, args, env, cont, bind_ret):
        """statement `recv.method(args)` / `f(args)` where some parameters are &mut (self and / or others)"""
        argv, mut_places = [], []
        all_args = ([recv] if recv is not None else []) + list(args)
        if sig.uses_draws:
            if "draws" not in env or not self.uses_draws:
                self.fail(f"{sig.lean} consumes the draw stream, the caller was not recognised as doing so")
            all_args = all_args + [("path", ["draws"])]
        if len(all_args) != len(sig.params):
            self.fail(f"call of {sig.lean} with {len(all_args)} arguments")
        for a, (pn, pt) in zip(all_args, sig.params):
            if isinstance(pt, tuple) and pt[0] == "vec" and pn not in sig.muts and self.is_iter_expr(unparen(a)):
                argv.append((self.iter_of(a, env)["list"], pt))      # `impl IntoIterator` parameter given an iterator
            else:
                argv.append(self.ex(a, env, pt))
            if pn in sig.muts:
                mut_places.append(a)
        largs = [atom(v) for v, _ in argv]
        for n, ty in sig.inputs:
            self.need_input(n, ty)
            largs.append(n)
        call = f"{sig.lean} {' '.join(largs)}"
        res_tys = ([sig.ret] if sig.ret != "unit" else []) + [dict(sig.params)[m] for m in sig.muts]
        names = [self.gensym("r") for _ in res_tys]
        def rest():
            env2 = dict(env)
            idx = 0
            retv = None
            if sig.ret != "unit":
                retv = (names[0], sig.ret); idx = 1
            def chain(i, env3):
                if i == len(mut_places):
                    return cont(env3) if bind_ret is None else bind_ret(env3, retv)
                return self.set_place(mut_places[i], names[idx + i], env3, lambda env4: chain(i + 1, env4))
            return chain(0, env2)
        pat = names[0] if len(names) == 1 else "(" + ", ".join(names) + ")"
        if sig.kind == "Except":
            self.monadic = True
            self.nflush += 1
            def mk():
                v, t = rest()
                return f"Except.bind ({call}) (fun {pat} => {v})", t
            return self.with_pending(mk)
        if sig.monadic:
            self.monadic = True
            self.nflush += 1
            def mk():
                v, t = rest()
                return f"Option.bind ({call}) (fun {pat} => {v})", t
            return self.with_pending(mk)
        return self.with_pending(lambda: self.wrap_lets([f"let {pat} := {call}"], rest()))

    # ---- for_each
    def assigned_roots(self, body, env, local=None):
        """rust variables (declared outside) assigned / mutated in an AST"""
        out = []
        local = set(local or ())
        def visit_block(b, local):
            local = set(local)
            for s in b[1]:
                visit_stmt(s, local)
            if b[2] is not None:
                visit_expr(b[2], local)
        def visit_stmt(s, local):
            if s[0] == "let":
                if s[3] is not None:
                    visit_expr(s[3], local)
                for n in walk(s[1]):
                    if isinstance(n, tuple) and n and n[0] == "pid":
                        local.add(n[1])
            elif s[0] == "assign":
                try:
                    r, p = self.place_path(s[1], {**env, **{l: (l, None) for l in local}})
                except Unsupported:
                    r = None
                if r is not None and r not in local and r not in out:
                    out.append(r)
                visit_expr(s[3], local)
            elif s[0] == "expr":
                visit_expr(s[1], local)
        def visit_expr(e, local):
            e = unparen(e)
            if not isinstance(e, tuple) or not e:
                return
            if e[0] == "block":
                visit_block(e, local); return
            if e[0] == "unsafe":
                visit_block(e[1], local); return
            if e[0] in ("if",):
                visit_expr(e[1], local); visit_block(e[2], local)
                if e[3] is not None:
                    visit_expr(e[3], local)
                return
            if e[0] == "iflet":
                visit_expr(e[2], local)
                sc = unparen(e[2])
                if sc[0] == "mcall" and sc[2] == "back_mut":
                    try:
                        r, p = self.place_path(sc[1], {**env, **{l: (l, None) for l in local}})
                        if r not in local and r not in out:
                            out.append(r)
                    except Unsupported:
                        pass
                visit_block(e[3], set(local) | {n[1] for n in walk(e[1]) if isinstance(n, tuple) and n and n[0] == "pid"})
                if e[4] is not None:
                    visit_expr(e[4], local)
                return
            if e[0] in ("while",):
                visit_expr(e[1], local); visit_block(e[2], local); return
            if e[0] == "loop":
                visit_block(e[1], local); return
            if e[0] == "for":
                visit_expr(e[2], local); visit_block(e[3], local); return
            if e[0] == "closure":
                visit_expr(e[2], local); return
            if e[0] == "match":
                visit_expr(e[1], local)
                for p, g, b in e[2]:
                    visit_expr(b, local)
                return
            if e[0] == "mcall":
                visit_expr(e[1], local)
                for a in e[3]:
                    visit_expr(a, local)
                if e[2] in ("iter_mut", "par_iter_mut"):
                    try:
                        r, p = self.place_path(e[1], {**env, **{l: (l, None) for l in local}})
                        if r not in local and r not in out:
                            out.append(r)
                    except Unsupported:
                        pass
                recv_mut = e[2] in ("push", "push_back", "append", "extend", "resize", "mul_assign") or \
                    (e[2] in self.tr.mut_method_names and (not self.tr.sigs_named(e[2]) or any("self" in sg.muts for sg in self.tr.sigs_named(e[2]))))
                if recv_mut:
                    try:
                        r, p = self.place_path(e[1], {**env, **{l: (l, None) for l in local}})
                        if r not in local and r not in out:
                            out.append(r)
                    except Unsupported:
                        pass
                for sg in self.tr.sigs_named(e[2]):
                    if sg.uses_draws and "draws" in env and "draws" not in out:
                        out.append("draws")
                    for a, (pn, pt) in zip(e[3], sg.params[1:]):
                        if pn in sg.muts:
                            try:
                                r, p = self.place_path(a, {**env, **{l: (l, None) for l in local}})
                                if r not in local and r not in out:
                                    out.append(r)
                            except Unsupported:
                                pass
                for a, isref in [(a, unparen(a)[0] == "refmut") for a in e[3]]:
                    if isref:
                        try:
                            r, p = self.place_path(a, {**env, **{l: (l, None) for l in local}})
                            if r not in local and r not in out:
                                out.append(r)
                        except Unsupported:
                            pass
                # a &mut parameter passed by name (reborrow): known signatures
                return
            if e[0] == "call":
                for a in e[2]:
                    visit_expr(a, local)
                    if unparen(a)[0] == "refmut":
                        try:
                            r, p = self.place_path(a, {**env, **{l: (l, None) for l in local}})
                            if r not in local and r not in out:
                                out.append(r)
                        except Unsupported:
                            pass
                return
            for x in e[1:]:
                if isinstance(x, (tuple, list)):
                    for y in (x if isinstance(x, list) else [x]):
                        if isinstance(y, tuple):
                            visit_expr(y, local)
        if isinstance(body, tuple) and body and body[0] == "block":
            visit_block(body, local)
        else:
            visit_expr(body, local)
        return out

    def for_each(self, recv, args, env, cont):
        if len(args) != 1 or unparen(args[0])[0] != "closure":
            self.fail("for_each without a closure")
        c = unparen(args[0])
        it = self.iter_of(recv, env)
        body = c[2] if c[2][0] == "block" else ("block", [("expr", c[2])], None)
        if body[2] is not None:
            body = ("block", body[1] + [("expr", body[2])], None)
        if it["mut"] is not None:
            # the closure updates the element in place: a map over the buffer
            pat = c[1][0]
            if it["enum"]:
                if pat[0] != "ptuple" or len(pat[1]) != 2 or pat[1][0][0] != "pid" or pat[1][1][0] != "pid":
                    self.fail("for_each over enumerate(): pattern is not (idx, elem)")
                idxn, eln = pat[1][0][1], pat[1][1][1]
            else:
                if pat[0] != "pid":
                    self.fail("for_each over iter_mut(): pattern is not a name")
                idxn, eln = None, pat[1]
            env2 = dict(env)
            params = []
            if idxn:
                env2[idxn] = (lname(idxn), "N"); params.append(lname(idxn))
            env2[eln] = (lname(eln), it["elem"]); params.append(lname(eln))
            outer = [r for r in self.assigned_roots(body, env2, local=[]) if r != eln]
            if outer:
                self.fail(f"for_each over iter_mut() also assigns {outer}")
            saved = self.pending; self.pending = []
            v, t = self.stmts(body[1], None, env2, lambda env3, _: (env3[eln][0], it["elem"]))
            if self.pending:
                self.fail("panicking expression inside for_each")
            self.pending = saved
            f = f"fun {' '.join(params)} => {v}"
            new = f"Rs.mapIdx {atom(it['list'])} ({f})" if idxn else f"List.map ({f}) {atom(it['list'])}"
            return self.set_place(it["mut"], new, env, cont)
        # the closure updates captured variables: a left fold over the state
        state = self.assigned_roots(body, env, local=[n[1] for n in walk(c[1]) if isinstance(n, tuple) and n and n[0] == "pid"])
        if not state:
            self.fail("for_each without effect")
        env2 = dict(env)
        st = self.gensym("st")
        a = self.gensym("a")
        lets = []
        tys = [env[r][1] for r in state]
        self.unpack_state(st, state, tys, env2, lets)
        self.bind_pat(c[1][0], a, it["elem"], env2, lets)
        saved = self.pending; self.pending = []
        v, t = self.stmts(body[1], None, env2, lambda env3, _: (self.pack_state(state, env3), None))
        if self.pending:
            self.fail("panicking expression inside for_each")
        self.pending = saved
        f = f"fun {st} {a} => " + wrap(lets, v)
        init = self.pack_state(state, env)
        res = self.gensym("st")
        env3 = dict(env)
        lets2 = [f"let {res} := List.foldl ({f}) {init} {atom(it['list'])}"]
        self.unpack_state(res, state, tys, env3, lets2)
        return self.wrap_lets(lets2, cont(env3))

    def pack_state(self, state, env):
        vs = [env[r][0] for r in state]
        if not vs:
            return "()"
        return vs[0] if len(vs) == 1 else "(" + ", ".join(vs) + ")"

    def unpack_state(self, var, state, tys, env, lets):
        n = len(state)
        for i, (r, t) in enumerate(zip(state, tys)):
            if n == 1:
                proj = ""
            elif n == 2:
                proj = f".{i + 1}"
            else:
                proj = ".2" * i + (".1" if i < n - 1 else "")
            ln = lname(r)
            lets.append(f"let {ln} := {var}{proj}")
            env[r] = (ln, t)

    # ---- if / if let / match as statements (possibly with control-flow escapes)
    def control(self, e, env, k, want, is_tail, dup=False):
        if e[0] == "if":
            c, tc = self.ex(e[1], env)
            if tc != "bool":
                self.fail("condition is not a bool")
            then, els = e[2], e[3]
            if els is not None and els[0] in ("if", "iflet"):
                els = ("block", [("expr", els)] if not is_tail else [], els if is_tail else None)
            if not self.escapes(e) and not dup:
                # merge by the tuple of assigned variables
                roots = self.assigned_roots(then, env)
                if els is not None:
                    for r in self.assigned_roots(els, env):
                        if r not in roots:
                            roots.append(r)
                if is_tail and (then[2] is not None):
                    # value-producing if in tail position
                    def br(blk):
                        return self.stmts(blk[1], blk[2], dict(env), lambda env2, v: (self.pack_state(roots, env2) + "|" + v[0], v[1]) if False else v, want)
                    if roots:
                        self.fail("value-producing if that also assigns variables")
                    a, ta = br(then)
                    if els is None:
                        self.fail("if without else in tail position with a value")
                    b, tb = br(els)
                    return self.with_pending(lambda: k(env, (f"(if {c} then {a} else {b})", ta)))
                if not roots:
                    # no effect on variables: only unit effects such as unreachable
                    a, ta = self.stmts(then[1], then[2], dict(env), lambda env2, v: ("()", None))
                    if a == "none" or (els is not None):
                        pass
                    if a.strip() == "none":
                        v, t = k(env, None)
                        return f"(if {c} then none else {v})", t
                    self.fail("if statement without effect")
                tys = [env[r][1] for r in roots]
                def br(blk):
                    if blk is None or (blk[0] == "block" and not blk[1] and blk[2] is None):
                        return self.pack_state(roots, env)
                    if blk[0] == "if":
                        blk = ("block", [("expr", blk)], None)
                    v, _ = self.stmts(blk[1], blk[2] if blk[2] is not None and False else None, dict(env),
                                      lambda env2, _v: (self.pack_state(roots, env2), None)) if blk[2] is None else \
                        self.stmts(blk[1] + [("expr", blk[2])], None, dict(env), lambda env2, _v: (self.pack_state(roots, env2), None))
                    return v
                saved = self.pending; self.pending = []
                a = br(then); b = br(els)
                if self.pending:
                    self.fail("panicking expression inside a branch (no escape)")
                self.pending = saved
                m = self.gensym("m")
                env2 = dict(env)
                lets = [f"let {m} := if {c} then {a} else {b}"]
                self.unpack_state(m, roots, tys, env2, lets)
                return self.with_pending(lambda: self.wrap_lets(lets, k(env2, None)))
            # some branch returns / breaks: duplicate the continuation
            def br2(blk):
                if blk is None:
                    return k(dict(env), None)
                return self.stmts(blk[1], blk[2], dict(env), k, want)
            def mk():
                a, ta = br2(then)
                b, tb = br2(els)
                return f"(if {c} then {a} else {b})", (ta if ta is not None else tb)
            return self.with_pending(mk)
        if e[0] == "iflet":
            return self.iflet(e, env, k, want, is_tail)
        if e[0] == "match":
            return self.enum_match(e, env, k, want)
        self.fail("match statement")

    ENUMS = {"Argument": {"Qubit": ("Arg.qubit", ["str", "i32"]), "Register": ("Arg.register", ["str"])},
             "Sep": {"Nop": ("Sep.nop", []), "Measure": ("Sep.measure", ["N", "N"]), "IfBranch": ("Sep.ifBranch", ["N", "N"]),
                     "Reset": ("Sep.reset", ["N"])},
             "MeasureOp": {"Set": ("MeasureOp.set", []), "Xor": ("MeasureOp.xor", [])},
             # qasm::AstNode as the model's `Node R` (Model/Interp.lean): the third component says how the Rust payload
             # maps onto the model constructor - "drop": the model constructor has no payload; ("record", fields): one
             # payload whose fields are the Rust components
             "AstNode": {"QReg": ("Node.qreg", ["str", "i32"]), "CReg": ("Node.creg", ["str", "i32"]),
                         "Barrier": ("Node.barrier", [("struct", "Argument")], "drop"),
                         "Reset": ("Node.reset", [("struct", "Argument")]),
                         "Measure": ("Node.measure", [("struct", "Argument"), ("struct", "Argument")]),
                         "ApplyGate": ("Node.apply", ["str", ("vec", ("struct", "Argument")), ("vec", ("struct", "PExpr"))],
                                       ("record", ["name", "regs", "args"])),
                         "Opaque": ("Node.opaque", ["str", ("vec", ("struct", "Argument")), ("vec", "str")], "drop"),
                         "Gate": ("Node.gate", ["str", ("vec", "str"), ("vec", "str"), ("vec", ("struct", "Inner"))]),
                         "If": ("Node.ifn", ["str", "i32", ("struct", "Inner")])}}

    def enum_match(self, e, env, k, want):
        """`match x { Enum::A(p, q) => S1, Enum::B => S2, .. }` on the interpreter's enums; every arm is a statement
        block that continues with the rest of the function"""
        scrut = unparen(e[1])
        if scrut[0] == "un" and scrut[1] == "*":
            scrut = unparen(scrut[2])
        if any(a[1] is not None or a[0][0] == "pwild" or any(isinstance(n, tuple) and n and n[0] in ("por", "pat_at") and n is not a[0]
               for n in walk(a[0])) for a in e[2]) or \
                (all(a[0][0] != "pat_at" for a in e[2]) and any(a[0][0] == "ppath" and a[0][1][-1] in ("Ok", "Err", "Some", "None") for a in e[2])):
            return self.general_match(e, env, k, want)
        v, t = self.ex(scrut, env)
        if t == ("struct", "Inner") and e[2][0][0][0] != "pat_at":
            return self.general_match(e, env, k, want)
        if t == ("struct", "Inner"):
            return self.inner_match(e, v, env, k, want)
        if not (isinstance(t, tuple) and t[0] == "struct" and t[1] in self.ENUMS):
            self.fail(f"match on a value of type {t}")
        variants = self.ENUMS[t[1]]
        arms, seen = [], []
        def mk():
            out = []
            for pat, guard, body in e[2]:
                if guard is not None or pat[0] != "ppath" or len(pat[1]) != 2 or pat[1][0] != t[1] or pat[1][1] not in variants:
                    self.fail("match arm pattern")
                ctor, tys = variants[pat[1][1]][:2]
                shape = variants[pat[1][1]][2] if len(variants[pat[1][1]]) > 2 else None
                subs = pat[2] or []
                if len(subs) != len(tys) or any(p[0] not in ("pid", "pwild") for p in subs):
                    self.fail("match arm payload pattern")
                env2 = dict(env)
                names = []
                if shape == "drop":
                    if any(p[0] != "pwild" for p in subs):
                        self.fail(f"{pat[1][1]}: the model constructor has no payload, the arm binds one")
                elif isinstance(shape, tuple) and shape[0] == "record":
                    rec = self.gensym("c")
                    names.append(rec)
                    for p, ty, fld in zip(subs, tys, shape[1]):
                        if p[0] == "pid":
                            env2[p[1]] = (f"{rec}.{fld}", ty)
                else:
                    for p, ty in zip(subs, tys):
                        n = lname(p[1]) if p[0] == "pid" else "_"
                        names.append(n)
                        if p[0] == "pid":
                            env2[p[1]] = (n, ty)
                seen.append(pat[1][1])
                if body[0] == "block":
                    bv, bt = self.stmts(body[1], body[2], env2, k, want)
                elif self.is_effect_expr(unparen(body), env2) or unparen(body)[0] in ("if", "match", "block"):
                    bv, bt = self.stmts([("expr", body)], None, env2, k, want)
                else:
                    bv, bt = self.stmts([], body, env2, k, want)
                out.append((f"| {ctor}{''.join(' ' + n for n in names)} => {bv}", bt))
            return out
        res = mk()
        if sorted(seen) != sorted(variants):
            self.fail(f"match does not list every variant exactly once: {seen}")
        ty = next((bt for _, bt in res if bt is not None), None)
        return self.with_pending(lambda: (f"(match {v} with " + " ".join(a for a, _ in res) + ")", ty))

    EVALERR = {"UnknownVariable": ("EvalErr.unknownVariable", ["str"], None), "Function": ("EvalErr.function", ["str", ("struct", "FuncErr")], None),
               "ParseError": ("EvalErr.parseError", [None], "drop"), "RPNError": ("EvalErr.rpnError", [None], "drop")}

    def pat_alts(self, pat, ty, env2):
        """Lean patterns (one per alternative of the or-patterns inside) for a Rust pattern against a value of type ty;
        binds the pattern's variables in env2"""
        k0 = pat[0]
        if k0 == "pwild":
            return ["_"]
        if k0 == "pref":
            return self.pat_alts(pat[1], ty, env2)
        if k0 == "pid":
            env2[pat[1]] = (lname(pat[1]), ty)
            return [lname(pat[1])]
        if k0 == "pat_at":
            env2[pat[1]] = (lname(pat[1]), ty)
            return [f"{lname(pat[1])}@({a})" for a in self.pat_alts(pat[2], ty, env2)]
        if k0 == "por":
            out = []
            for a in pat[1]:
                e3 = {}
                out += self.pat_alts(a, ty, e3)
                if e3:
                    self.fail("alternatives that bind variables")
            return out
        if k0 == "ptuple" and isinstance(ty, tuple) and ty[0] == "tup" and len(ty[1]) == len(pat[1]):
            subs = [self.pat_alts(p, t, env2) for p, t in zip(pat[1], ty[1])]
            out = [[]]
            for alts in subs:
                out = [o + [a] for o in out for a in alts]
            return ["(" + ", ".join(o) + ")" for o in out]
        if k0 == "ppath":
            segs, subs = pat[1], pat[2] or []
            last = segs[-1]
            def combine(ctor, tys):
                if len(subs) != len(tys):
                    self.fail(f"pattern {last}: arity")
                alts = [self.pat_alts(p, t, env2) for p, t in zip(subs, tys)]
                out = [[]]
                for al in alts:
                    out = [o + [a] for o in out for a in al]
                return [("(" + ctor + "".join(" " + x for x in o) + ")") if o else ctor for o in out]
            if isinstance(ty, tuple) and ty[0] in ("res", "resE") and last in ("Ok", "Err") and len(segs) == 1:
                if last == "Ok":
                    return combine(".ok", [ty[1]])
                return combine(".error", [("struct", "IntError" if ty[0] == "res" else "EvalErr")])
            if isinstance(ty, tuple) and ty[0] == "opt" and len(segs) == 1 and last in ("Some", "None"):
                return combine(".some", [ty[1]]) if last == "Some" else [".none"]
            if ty == ("struct", "EvalErr") and last in self.EVALERR:
                ctor, tys, shape = self.EVALERR[last]
                if shape == "drop":
                    if any(p[0] != "pwild" for p in subs):
                        self.fail(f"{last}: the model constructor has no payload")
                    return [ctor]
                return combine(ctor, tys)
            if ty == ("struct", "Inner") and segs[-2:] == ["AstNode", "ApplyGate"] and len(subs) == 3:
                c = self.gensym("c")
                for p, (fld, fty) in zip(subs, STRUCT_FIELDS["Call"]):
                    if p[0] == "pid":
                        env2[p[1]] = (f"{c}.{fld}", fty)
                    elif p[0] != "pwild":
                        self.fail("ApplyGate payload pattern")
                return [f"(Inner.call {c})"]
            if isinstance(ty, tuple) and ty[0] == "struct" and ty[1] in self.ENUMS and last in self.ENUMS[ty[1]]:
                v = self.ENUMS[ty[1]][last]
                if len(v) > 2:
                    self.fail(f"pattern {last} of {ty[1]} inside a nested pattern")
                return combine(v[0], v[1])
        self.fail(f"pattern {pat} against {ty}")

    def general_match(self, e, env, k, want):
        """`match V { P1 [if g1] => A1, .. }` with nested patterns, guards, `x @ p`, alternatives and a catch-all arm, every arm a
        statement block continuing with the rest of the function. An arm whose guard fails falls through to the later arms:
        `| P => if g then A else (match V with <later arms>)`"""
        scrut = unparen(e[1])
        if scrut[0] == "un" and scrut[1] == "*":
            scrut = unparen(scrut[2])
        if scrut[0] == "mcall" and scrut[2] == "clone" and not scrut[3]:
            scrut = unparen(scrut[1])
        v, t = self.ex(scrut, env)
        arms = e[2]
        def body_of(b, env2):
            b = unparen(b)
            if b[0] == "block":
                return self.stmts(b[1], b[2], env2, k, want)
            if b[0] in ("return", "continue", "break") or self.is_effect_expr(b, env2) or b[0] in ("if", "match"):
                return self.stmts([("expr", b)], None, env2, k, want)
            return self.stmts([], b, env2, k, want)
        tyres = [None]
        def ctors_of(ty):
            if isinstance(ty, tuple) and ty[0] == "struct" and ty[1] in self.ENUMS:
                return set(self.ENUMS[ty[1]])
            if isinstance(ty, tuple) and ty[0] == "opt":
                return {"Some", "None"}
            if isinstance(ty, tuple) and ty[0] in ("res", "resE"):
                return {"Ok", "Err"}
            return None
        def rest(i):
            alts = []
            covered = set()
            for j in range(i, len(arms)):
                pat, guard, body = arms[j]
                if ctors_of(t) is not None and covered >= ctors_of(t):
                    break          # every constructor has an alternative already: Lean rejects a redundant one
                if pat[0] == "ppath" and all(p[0] in ("pwild", "pid") for p in (pat[2] or [])):
                    covered.add(pat[1][-1])
                env2 = dict(env)
                if pat[0] == "pid" and t == ("struct", "Inner"):
                    env2[pat[1]] = ("OTHER_STATEMENT", ("struct", "OtherNode")); lps = ["_"]
                else:
                    lps = self.pat_alts(pat, t, env2)
                bv, bt = body_of(body, env2)
                tyres[0] = tyres[0] or bt
                if guard is not None:
                    g, tg = self.ex(guard, env2, "bool")
                    if tg != "bool":
                        self.fail("guard is not a bool")
                    if j + 1 >= len(arms):
                        self.fail("guarded last arm")
                    bv = f"(if {g} then {bv} else {rest(j + 1)})"
                for lp in lps:
                    alts.append(f"| {lp} => {bv}")
                if guard is None and (pat[0] in ("pwild", "pid")):
                    break
            return f"(match {v} with " + " ".join(alts) + ")"
        out = rest(0)
        return self.with_pending(lambda: (out, tyres[0]))

    def inner_match(self, e, v, env, k, want):
        """`match *if_block { x @ AstNode::ApplyGate(_, _, _) => A, y => B }` on the statement under `if`, which the model
        represents as `Inner.call c | Inner.other` (a gate application with its three components, or anything else)"""
        arms = e[2]
        if len(arms) != 2 or any(a[1] is not None for a in arms):
            self.fail("match on the statement under if: arms")
        (p1, _, b1), (p2, _, b2) = arms
        if not (p1[0] == "pat_at" and p1[2] == ("ppath", ["AstNode", "ApplyGate"], [("pwild",), ("pwild",), ("pwild",)]) and p2[0] == "pid"):
            self.fail("match on the statement under if: patterns")
        c = self.gensym("c")
        env1 = dict(env); env1[p1[1]] = (f"(Node.apply {c})", ("struct", "AstNode"))
        env2 = dict(env); env2[p2[1]] = ("OTHER_STATEMENT", ("struct", "OtherNode"))
        def arm(body, envx):
            if body[0] == "block":
                return self.stmts(body[1], body[2], envx, k, want)
            return self.stmts([], body, envx, k, want)
        a, ta = arm(b1, env1)
        b, tb = arm(b2, env2)
        return self.with_pending(lambda: (f"(match {v} with | Inner.call {c} => {a} | Inner.other => {b})", ta or tb))

    def iflet(self, e, env, k, want, is_tail):
        """`if let Some((x, Sep::Nop)) = V.back_mut() { A } else { B }`: A may update the last element through x"""
        _, pat, scrut, then, els = e
        scrut = unparen(scrut)
        if not (scrut[0] == "mcall" and scrut[2] == "back_mut" and not scrut[3]):
            self.fail("if let on something else than .back_mut()")
        if not (pat[0] == "ppath" and pat[1] == ["Some"] and pat[2] and len(pat[2]) == 1 and pat[2][0][0] == "ptuple"
                and len(pat[2][0][1]) == 2 and pat[2][0][1][0][0] == "pid" and pat[2][0][1][1] == ("ppath", ["Sep", "Nop"], None)):
            self.fail("if let pattern is not Some((name, Sep::Nop))")
        if self.escapes(e) or is_tail and then[2] is not None:
            self.fail("if let with a value / control-flow escape")
        vec = scrut[1]
        v, t = self.ex(vec, env)
        if t != dict(STRUCT_FIELDS["ExtOp"])["blocks"]:
            self.fail("back_mut() of something else than the block queue")
        x = pat[2][0][1][0][1]
        # variables assigned by either branch (the bound element excluded)
        env_then = dict(env); env_then[x] = (lname(x), MULTIOP)
        roots = [r for r in self.assigned_roots(then, env_then) if r != x]
        vroot, _ = self.place_path(vec, env)
        if vroot not in roots:
            roots.append(vroot)
        if els is not None:
            eb = els if els[0] == "block" else ("block", [("expr", els)], None)
            for r in self.assigned_roots(eb, env):
                if r not in roots:
                    roots.append(r)
        tys = [env[r][1] for r in roots]
        saved = self.pending; self.pending = []
        def then_k(env2, _v):
            # write the (possibly updated) element back as the last entry
            return self.set_place(vec, f"List.dropLast {atom(self.ex(vec, env2)[0])} ++ [({env2[x][0]}, Sep.nop)]", env2,
                                  lambda env3: (self.pack_state(roots, env3), None))
        a, _ = self.stmts(then[1] + ([("expr", then[2])] if then[2] is not None else []), None, env_then, then_k)
        if els is None:
            b = self.pack_state(roots, env)
        else:
            eb = els if els[0] == "block" else ("block", [("expr", els)], None)
            b, _ = self.stmts(eb[1] + ([("expr", eb[2])] if eb[2] is not None else []), None, dict(env),
                              lambda env2, _v: (self.pack_state(roots, env2), None))
        if self.pending:
            self.fail("panicking expression inside if let")
        self.pending = saved
        m = self.gensym("m")
        env2 = dict(env)
        lets = [f"let {m} := match List.getLast? {atom(v)} with | some ({lname(x)}, Sep.nop) => {a} | _ => {b}"]
        self.unpack_state(m, roots, tys, env2, lets)
        return self.with_pending(lambda: self.wrap_lets(lets, k(env2, None)))

    # ---- loops
    loop_handlers = []

    def loop(self, e, env, cont):
        if e[0] == "for":
            return self.for_loop(e, env, cont)
        if e[0] == "while":
            cond, body = e[1], e[2]
        else:
            cond, body = None, e[1]
        has_return = contains(body, ("return",))
        state = self.assigned_roots(body, env)
        if not state and not has_return:
            self.fail("loop without effect")
        tys = [env[r][1] for r in state]
        name = f"{self.tr.cur_lean}_loop{len(self.aux) + 1}"
        # fixed parameters: every other variable of the environment used in the loop
        used = []
        text = repr((cond, body))
        for r, (ln, t) in env.items():
            if r in state:
                continue
            if isinstance(t, tuple) and t and t[0] == "fn":
                continue
            if re.search(r"\['" + re.escape(r) + r"'\]", text):
                used.append(r)
        fixed = [(lname(r), env[r][1]) for r in used]
        st = "st"
        env2 = {r: (lname(r), env[r][1]) for r in used}
        lets = []
        self.unpack_state(st, state, tys, env2, lets) if state else None
        rec = f"{name} {' '.join(n for n, _ in fixed)} fuel".replace("  ", " ")
        st_ty = " × ".join(atom(lean_ty(t)) for t in tys) if state else "Unit"
        if has_return:
            if e[0] != "loop":
                self.fail("return inside a while/for loop")
            res_ty = self.final_lean_ty
            def on_continue(env3):
                return f"{rec} {atom(self.pack_state(state, env3)) if state else '()'}", None
            handlers = {"continue": on_continue, "break": lambda env3: self.fail("break in a loop that returns")}
            self.loop_handlers = self.loop_handlers + [handlers]
            v, t = self.stmts(body[1] + ([("expr", body[2])] if body[2] is not None else []), None, env2,
                              lambda env3, _v: on_continue(env3))
            self.loop_handlers = self.loop_handlers[:-1]
            binder = "".join(f" ({n} : {lean_ty(t)})" for n, t in fixed)
            self.aux.append(
                f"def {name}{self.tr.inst_binder()}{binder} : Nat → {st_ty} → {res_ty}\n"
                f"  | 0, _ => none\n  | fuel + 1, {st} => {wrap(lets, v)}\n")
            self.monadic = True
            # the loop never falls through: its value is the function's result
            fuel = self.tr.fuel_of(self.where)
            return f"{name} {' '.join(n for n, _ in fixed)} {fuel} {atom(self.pack_state(state, env)) if state else '()'}".replace("  ", " "), None
        def on_continue(env3):
            return f"{rec} {atom(self.pack_state(state, env3))}", None
        def on_break(env3):
            return f"some {atom(self.pack_state(state, env3))}", None
        handlers = {"continue": on_continue, "break": on_break}
        self.loop_handlers = self.loop_handlers + [handlers]
        saved = self.pending; self.pending = []
        v, t = self.stmts(body[1] + ([("expr", body[2])] if body[2] is not None else []), None, dict(env2),
                          lambda env3, _v: on_continue(env3))
        if cond is not None:
            c, tc = self.ex(cond, env2)
            v = f"if {c} then {v} else some {atom(self.pack_state(state, env2))}"
        if self.pending:
            self.fail("panicking expression at the top of a loop body")
        self.pending = saved
        self.loop_handlers = self.loop_handlers[:-1]
        binder = "".join(f" ({n} : {lean_ty(t)})" for n, t in fixed)
        self.aux.append(
            f"def {name}{self.tr.inst_binder()}{binder} : Nat → {st_ty} → Option ({st_ty})\n"
            f"  | 0, _ => none\n  | fuel + 1, {st} => {wrap(lets, v)}\n")
        self.monadic = True
        fuel = self.tr.fuel_of(self.where)
        res = self.gensym("st")
        env3 = dict(env)
        lets2 = []
        self.unpack_state(res, state, tys, env3, lets2)
        inner, t = self.wrap_lets(lets2, cont(env3))
        call = f"{name} {' '.join(n for n, _ in fixed)} {fuel} {atom(self.pack_state(state, env))}".replace("  ", " ")
        return f"Option.bind ({call}) (fun {res} => {inner})", t

    def filtered_enum_chain(self, it):
        """V.iter_mut().zip(Y.iter()).filter(|(_, &y)| P).map(|(x, _)| x).enumerate()  ->  (V, Y, filter closure)"""
        it = unparen(it)
        try:
            assert it[0] == "mcall" and it[2] == "enumerate" and not it[3]
            m = unparen(it[1]); assert m[0] == "mcall" and m[2] == "map" and len(m[3]) == 1
            mc = unparen(m[3][0])
            assert mc[0] == "closure" and mc[1] == [("ptuple", [("pid", mc[1][0][1][0][1]), ("pwild",)])] and unparen(mc[2]) == ("path", [mc[1][0][1][0][1]])
            f = unparen(m[1]); assert f[0] == "mcall" and f[2] == "filter" and len(f[3]) == 1
            fc = unparen(f[3][0]); assert fc[0] == "closure" and len(fc[1]) == 1 and fc[1][0][0] == "ptuple" and fc[1][0][1][0] == ("pwild",)
            z = unparen(f[1]); assert z[0] == "mcall" and z[2] == "zip" and len(z[3]) == 1
            v = unparen(z[1]); assert v[0] == "mcall" and v[2] == "iter_mut" and not v[3]
            y = unparen(z[3][0]); assert y[0] == "mcall" and y[2] == "iter" and not y[3]
            return v[1], y[1], ("closure", [fc[1][0][1][1]], fc[2])
        except (AssertionError, IndexError, TypeError):
            return None

    def for_loop(self, e, env, cont):
        pat, itexpr, body = e[1], unparen(e[2]), e[3]
        chain = self.filtered_enum_chain(itexpr)
        if chain is not None:
            # the selected elements are updated in place; the counter runs over the selected ones only
            vec, ys, fclos = chain
            if contains(body, ("return", "break", "continue")):
                self.fail("control-flow escape in a for over iter_mut()")
            if pat[0] != "ptuple" or len(pat[1]) != 2 or pat[1][0][0] != "pid" or pat[1][1][0] != "pid":
                self.fail("for over the filtered chain: pattern is not (idx, elem)")
            v, tv = self.ex(vec, env); y, ty = self.ex(ys, env)
            if not (isinstance(tv, tuple) and tv[0] == "vec" and isinstance(ty, tuple) and ty[0] == "vec"):
                self.fail("for over the filtered chain: not vectors")
            pf, tpf, mon = self.closure(fclos, [ty[1]], env)
            if mon or tpf != "bool":
                self.fail("filter closure")
            idxn, eln = pat[1][0][1], pat[1][1][1]
            env2 = dict(env)
            env2[idxn] = (lname(idxn), "N"); env2[eln] = (lname(eln), tv[1])
            outer = [r for r in self.assigned_roots(body, env2, local=[]) if r != eln]
            if outer:
                self.fail(f"for over iter_mut() also assigns {outer}")
            val, _ = self.stmts(body[1] + ([("expr", body[2])] if body[2] is not None else []), None, env2,
                                lambda env3, _v: (env3[eln][0], tv[1]))
            new = f"Rs.updateSelected {atom(v)} {atom(y)} ({pf}) (fun {lname(idxn)} {lname(eln)} => {val})"
            return self.set_place(vec, new, env, cont)
        if itexpr[0] == "range" and itexpr[2] is None and itexpr[1] is not None:
            return self.for_unbounded(e, env, cont)
        ret_err_only = self.monad == "Except" and not contains(body, ("break",)) and all(
            unparen(n[1] or ("x",))[0] == "call" and unparen(unparen(n[1])[1]) == ("path", ["Err"])
            for n in walk(body) if isinstance(n, tuple) and n and n[0] == "return")
        if contains(body, ("return", "break")) and not ret_err_only:
            self.fail("return / break inside a for loop")
        it = self.iter_of(itexpr, env)
        if it["mut"] is not None:
            self.fail("for over iter_mut()")
        state = self.assigned_roots(body, env, local=[n[1] for n in walk(pat) if isinstance(n, tuple) and n and n[0] == "pid"])
        if not state and not (self.monad == "Except" and contains(body, ("return",))):
            self.fail("for loop without effect")
        tys = [env[r][1] for r in state]
        stmts_ = body[1] + ([("expr", body[2])] if body[2] is not None else [])
        def translate(monadic):
            st, a = self.gensym("st"), self.gensym("a")
            env2 = dict(env)
            lets = []
            self.unpack_state(st, state, tys, env2, lets)
            self.bind_pat(pat, a, it["elem"], env2, lets)
            def on_continue(env3):
                p = self.pack_state(state, env3)
                if monadic and self.monad == "Except":
                    return f"(Except.ok {atom(p)} : Except IntError {atom(' × '.join(atom(lean_ty(t)) for t in tys) or 'Unit')})", None
                return (f"some {atom(p)}" if monadic else p), None
            self.loop_handlers = self.loop_handlers + [{"continue": on_continue, "break": None}]
            saved = self.pending; self.pending = []
            keep, self.propagate = self.propagate, (0 if monadic else 1)
            keep_ret, keep_rty = self.on_return, self.ret_ty
            if monadic and self.monad == "Except":
                # `return Err(e)` inside the body ends the fold with that error
                st_ty = " × ".join(atom(lean_ty(t)) for t in tys) or "Unit"
                def loop_return(env3, val):
                    if val is None or not (isinstance(val[1], tuple) and val[1][0] == "res"):
                        self.fail("return of something else than Err(..) inside a for loop")
                    m = re.fullmatch(r"\(Except\.error (.*) : [^:]*\)", val[0], re.S)
                    if not m:
                        self.fail("return of something else than Err(..) inside a for loop")
                    return f"(Except.error {m.group(1)} : Except IntError {atom(st_ty)})", None
                self.on_return = loop_return
                self.ret_ty = ("res", "unit")
            try:
                v, t = self.stmts(stmts_, None, env2, lambda env3, _v: on_continue(env3))
            finally:
                self.propagate = keep
                self.on_return, self.ret_ty = keep_ret, keep_rty
            left = self.pending
            self.pending = saved
            self.loop_handlers = self.loop_handlers[:-1]
            ab = f"({a} : {lean_ty(it['elem'])})" if it["elem"] in (("struct", "PExpr"), ("struct", "Call"), ("struct", "Inner"), ("struct", "Argument")) else a
            return f"fun {st} {ab} => " + wrap(lets, v), bool(left)
        n0 = self.nflush
        m0 = self.monadic
        def named(f, monadic):
            """emit the loop body as an auxiliary definition (so that proofs can refer to it)"""
            if not self.tr.name_for_bodies:
                return f"({f})"
            name = f"{self.tr.cur_lean}_for{len(self.aux) + 1}"
            used = []
            text = repr((body, itexpr))
            for r, (ln, t) in env.items():
                if r in state or ln == "ALIAS" or (isinstance(t, tuple) and t and t[0] == "fn") or t in ("thr", "rng"):
                    continue
                if re.search(r"\['" + re.escape(r) + r"'\]", text):
                    used.append(r)
            binder = "".join(f" ({env[r][0]} : {lean_ty(env[r][1])})" for r in used)
            st_ty = " × ".join(atom(lean_ty(t)) for t in tys)
            res_ty = (f"Except IntError ({st_ty})" if self.monad == "Except" else f"Option ({st_ty})") if monadic else st_ty
            self.aux.append(f"def {name}{binder} : {atom(st_ty)} → {atom(lean_ty(it['elem']))} → {res_ty} :=\n  {f}\n")
            return "(" + " ".join([name] + [env[r][0] for r in used]) + ")"
        has_ret = contains(body, ("return",))
        f, left = (None, True) if has_ret else translate(False)
        if left or self.nflush != n0:
            # the body can panic: a fold in the Option monad
            self.monadic = True
            f, left = translate(True)
            res = self.gensym("st")
            env3 = dict(env)
            lets2 = []
            self.unpack_state(res, state, tys, env3, lets2)
            inner, t = self.wrap_lets(lets2, cont(env3))
            return f"{self.monad}.bind (List.foldlM {named(f, True)} {self.pack_state(state, env)} {atom(it['list'])}) (fun {res} => {inner})", t
        self.monadic = m0 or self.monadic
        res = self.gensym("st")
        env3 = dict(env)
        lets2 = [f"let {res} := List.foldl {named(f, False)} {self.pack_state(state, env)} {atom(it['list'])}"]
        self.unpack_state(res, state, tys, env3, lets2)
        return self.wrap_lets(lets2, cont(env3))

    def for_unbounded(self, e, env, cont):
        """`for idx in LO.. { .. break .. continue .. }`: a fuel loop whose counter advances at the end of the body and at `continue`"""
        pat, itexpr, body = e[1], unparen(e[2]), e[3]
        if pat[0] != "pid" or contains(body, ("return",)):
            self.fail("for over an unbounded range: pattern / return")
        idxn = pat[1]
        lo, tl = self.ex(itexpr[1], env, "N")
        state = self.assigned_roots(body, env, local=[idxn])
        tys = [env[r][1] for r in state]
        name = f"{self.tr.cur_lean}_loop{len(self.aux) + 1}"
        used = []
        text = repr(body)
        for r, (ln, t) in env.items():
            if r in state or (isinstance(t, tuple) and t and t[0] == "fn") or ln == "ALIAS":
                continue
            if re.search(r"\['" + re.escape(r) + r"'\]", text):
                used.append(r)
        fixed = [(lname(r), env[r][1]) for r in used]
        env2 = {r: (lname(r), env[r][1]) for r in used}
        lets = []
        allst = [idxn] + state
        alltys = ["N"] + tys
        env2[idxn] = (lname(idxn), "N")
        self.unpack_state("st", allst, alltys, env2, lets)
        rec = f"{name} {' '.join(n for n, _ in fixed)} fuel".replace("  ", " ")
        def pack(env3, bump):
            i = env3[idxn][0]
            comps = [f"({i} + 1)" if bump else i] + [env3[r][0] for r in state]
            return "(" + ", ".join(comps) + ")"
        def on_continue(env3):
            return f"{rec} {pack(env3, True)}", None
        def on_break(env3):
            return f"some {pack(env3, False)}", None
        self.loop_handlers = self.loop_handlers + [{"continue": on_continue, "break": on_break}]
        saved = self.pending; self.pending = []
        v, t = self.stmts(body[1] + ([("expr", body[2])] if body[2] is not None else []), None, dict(env2),
                          lambda env3, _v: on_continue(env3))
        if self.pending:
            self.fail("panicking expression at the top of a loop body")
        self.pending = saved
        self.loop_handlers = self.loop_handlers[:-1]
        st_ty = " × ".join(atom(lean_ty(t)) for t in alltys)
        binder = "".join(f" ({n} : {lean_ty(t)})" for n, t in fixed)
        self.aux.append(
            f"def {name}{binder} : Nat → {st_ty} → Option ({st_ty})\n"
            f"  | 0, _ => none\n  | fuel + 1, st => {wrap(lets, v)}\n")
        self.monadic = True
        fuel = self.tr.fuel_of(self.where)
        res = self.gensym("st")
        env3 = dict(env)
        lets2 = []
        tmp_env = dict(env3)
        self.unpack_state(res, allst, alltys, tmp_env, lets2)
        for r in state:
            env3[r] = tmp_env[r]
        inner, t = self.wrap_lets(lets2, cont(env3))
        init = "(" + ", ".join([lo] + [env[r][0] for r in state]) + ")"
        call = f"{name} {' '.join(n for n, _ in fixed)} {fuel} {init}".replace("  ", " ")
        return f"Option.bind ({call}) (fun {res} => {inner})", t


def wrap(lets, v):
    if not lets:
        return v
    return "(" + "; ".join(lets) + "; " + v + ")"


# ------------------------------------------------------------------------------------------
# translator: targets, signatures, output

class Translator:
    def __init__(self):
        self.sigs = {}              # (struct|None, rust fn name) -> Sig
        self.consts = {}
        self.ignored_fields = {"QReg": {"th"}}
        self.mut_method_names = set()
        self.cur_lean = ""
        self.problems = []
        self.twins = []             # (lean name, ok)
        self.out = []
        self.fuels = {}
        self.default_elem = "C"
        self.checked_macro_ok = False
        self.in_opmod = False
        self.name_for_bodies = False
        self.good_sigs = {}
        shapes = os.path.join(os.path.dirname(os.path.abspath(__file__)), "rs2lean2.shapes.json")
        try:
            import json
            self.prev_sigs = json.load(open(shapes))
        except (OSError, ValueError):
            self.prev_sigs = {}
        self.generic_op_is_multi = False

    def inst_binder(self):
        return ""

    def fuel_of(self, where):
        return self.fuels.get(self.cur_lean, "(W + 2)")

    def method(self, struct, name):
        return self.sigs.get((struct, name))

    def sigs_named(self, name):
        return [s for (st, n), s in self.sigs.items() if n == name]

    def function(self, segs, self_struct):
        last = segs[-1]
        if len(segs) == 1 and ("opmod", last) in self.sigs and self.in_opmod:
            return self.sigs[("opmod", last)]
        if len(segs) >= 2:
            owner = segs[-2]
            owner = {"Self": self_struct[1] if isinstance(self_struct, tuple) and self_struct[0] == "struct" else None,
                     "CReg": "CReg", "VReg": "VReg", "BitsIter": "BitsIter"}.get(owner, owner)
            s = self.sigs.get((owner, last))
            if s is not None:
                return s
        return self.sigs.get((None, last))

    def register(self, struct, rust, sig):
        self.sigs[(struct, rust)] = sig
        if sig.muts:
            self.mut_method_names.add(rust)

    def stub_value(self, t, env):
        """some inhabitant of a type (for the stub of an untranslatable function)"""
        if is_int(t):
            return "0"
        if t == "Z":
            return "(0 : Int)"
        if t == "bool":
            return "false"
        if t == "R":
            return "(0 : R)"
        if t == "C":
            return "(0 : Cx R)"
        if isinstance(t, tuple):
            if t[0] == "vec":
                return f"([] : {lean_ty(t)})"
            if t[0] == "opt":
                return f"(none : {lean_ty(t)})"
            if t[0] == "tup":
                return "(" + ", ".join(self.stub_value(x, env) for x in t[1]) + ")"
            if t[0] == "struct":
                for n, (ln, ty) in env.items():
                    if ty == t:
                        return ln
                if t[1] == "Atom":
                    return "(Atom.id : Atom R)"
                if t[1] in STRUCT_FIELDS:
                    return "({ " + ", ".join(f"{f} := {self.stub_value(ft, env)}" for f, ft in STRUCT_FIELDS[t[1]]) + " } : " + lean_ty(t) + ")"
                if t[1] == "Sep":
                    return "Sep.nop"
                if t[1] == "MeasureOp":
                    return "MeasureOp.set"
        raise Unsupported(f"no stub value for {t}")

    def emit_stub(self, toks, file, rust, lean, struct, impl, nth, param_types):
        """the function could not be translated: emit a definition with its signature and an arbitrary value, so that
        the definitions and equalities that do not concern it still build (its own equality with the model fails)"""
        try:
            params, ret, body = find_fn(toks, rust, impl=impl, nth=nth)
            self_ty = MULTIOP if struct == "MultiOp" else (("struct", struct) if struct else None)
            em = Emitter(self, f"{file}::{rust}", self_ty)
            env, ps, muts = {}, [], []
            for nm, ty in params:
                if nm == "self":
                    ps.append(("self", self_ty)); env["self"] = ("self_", self_ty)
                    if ty == "&mut Self":
                        muts.append("self")
                    continue
                t = (param_types or {}).get(nm) or em.ty_of_text(ty)
                ps.append((nm, t)); env[nm] = (lname(nm), t)
                if ty.replace(" ", "").startswith("&mut"):
                    muts.append(nm)
            prev = self.prev_sigs.get(lean)
            text = repr(body)
            uses_draws = bool(prev and prev.get("uses_draws")) or ("thread_rng" in text and "WeightedIndex" in text)
            if uses_draws:
                ps.append(("draws", ("vec", "N"))); env["draws"] = ("draws", ("vec", "N")); muts.append("draws")
            if ret is None or ret.replace(" ", "") == "&mutSelf":
                rty = "unit"
            else:
                rty = em.ty_of_text(ret)
            if isinstance(rty, tuple) and rty[0] == "res":
                # a function returning Result: the placeholder is an error value no Rust error maps to
                rty = rty[1]
                res_tys = ([rty] if rty != "unit" else []) + [dict(ps)[m] for m in muts]
                res_lean = " × ".join(atom(lean_ty(t)) for t in res_tys) if res_tys else "Unit"
                binder = " (fuel0 : Nat)" if getattr(self, "recursive_fuel", None) == lean else (" (fuel : Nat)" if self.fuels.get(lean) == "fuel" else "")
                binder += "".join(f" ({lname(n)} : {lean_ty(t)})" for n, t in ps)
                self.out.append(f"/-- `{file}`: `{rust}` — NOT TRANSLATED (outside the subset): placeholder with the function's signature -/\n"
                                f"def {lean}{binder} : Except IntError ({res_lean}) :=\n  Except.error (Interp.panicErr \"not translated\")\n")
                sig = Sig(lean, ps, rty, muts, [], True, self_ty, uses_draws=uses_draws)
                sig.kind = "Except"
                self.register(struct, rust, sig)
                return
            res_tys = ([rty] if rty != "unit" else []) + [dict(ps)[m] for m in muts]
            if not res_tys:
                return
            monadic = bool(prev and prev.get("monadic")) or contains(body, ("while", "loop")) or "unwrap" in text or "expect" in text or uses_draws
            comps = [self.stub_value(t, env) for t in res_tys]
            # &mut parameters keep their value
            k0 = 0 if rty == "unit" else 1
            for i, m in enumerate(muts):
                comps[k0 + i] = env[m][0]
            val = comps[0] if len(comps) == 1 else "(" + ", ".join(comps) + ")"
            res_lean = " × ".join(atom(lean_ty(t)) for t in res_tys)
            def tup(x):
                return tuple(tup(y) for y in x) if isinstance(x, list) else x
            inputs = [(n, tup(t) if not (isinstance(t, list) and t and t[0] == "tup") else ("tup", [tup(y) for y in t[1]]))
                      for n, t in (prev.get("inputs", []) if prev else [])]
            binder = " (fuel : Nat)" if self.fuels.get(lean) == "fuel" else ""
            binder += "".join(f" ({lname(n)} : {lean_ty(t)})" for n, t in ps)
            binder += "".join(f" ({n} : {lean_ty(t)})" for n, t in inputs)
            rtxt = f"Option ({res_lean})" if monadic else res_lean
            self.out.append(f"/-- `{file}`: `{rust}` — NOT TRANSLATED (outside the subset): placeholder with the function's signature -/\n"
                            f"def {lean}{binder} : {rtxt} :=\n  {'some ' + atom(val) if monadic else val}\n")
            self.register(struct, rust, Sig(lean, ps, rty, muts, inputs, monadic, self_ty, uses_draws=uses_draws))
        except (Unsupported, IndexError, KeyError, TypeError, AttributeError):
            self.emit_stub_from_shape(file, rust, lean, struct)

    def emit_stub_from_shape(self, file, rust, lean, struct):
        """the signature itself is outside the subset (a parameter of an unknown type, ..): fall back to the signature the
        function had when it was last translated (tools/rs2lean2.shapes.json, committed), so that callers still build"""
        prev = self.prev_sigs.get(lean)
        if not prev or "ps" not in prev:
            return
        def tup(x):
            return tuple(tup(y) if isinstance(y, list) else y for y in x) if isinstance(x, list) else x
        try:
            ps = [(n, tup(t)) for n, t in prev["ps"]]
            rty = tup(prev["rty"])
            muts = list(prev["muts"])
            inputs = [(n, tup(t)) for n, t in prev.get("inputs", [])]
            self_ty = tup(prev["self_ty"]) if prev.get("self_ty") else None
            env = {n: (("self_" if n == "self" else lname(n)), t) for n, t in ps}
            res_tys = ([rty] if rty != "unit" else []) + [dict(ps)[m] for m in muts]
            binder = prev.get("fuel_binder", "")
            binder += "".join(f" ({'self_' if n == 'self' else lname(n)} : {lean_ty(t)})" for n, t in ps)
            binder += "".join(f" ({n} : {lean_ty(t)})" for n, t in inputs)
            if prev.get("kind") == "Except":
                res_lean = " × ".join(atom(lean_ty(t)) for t in res_tys) if res_tys else "Unit"
                rtxt, val = f"Except IntError ({res_lean})", 'Except.error (Interp.panicErr "not translated")'
            else:
                comps = [self.stub_value(t, env) for t in res_tys]
                k0 = 0 if rty == "unit" else 1
                for i, m in enumerate(muts):
                    comps[k0 + i] = env[m][0]
                v = comps[0] if len(comps) == 1 else "(" + ", ".join(comps) + ")"
                res_lean = " × ".join(atom(lean_ty(t)) for t in res_tys)
                rtxt = f"Option ({res_lean})" if prev.get("monadic") else res_lean
                val = ("some " + atom(v)) if prev.get("monadic") else v
            self.out.append(f"/-- `{file}`: `{rust}` — NOT TRANSLATED (its signature is outside the subset): placeholder with the last "
                            f"translated signature -/\ndef {lean}{binder} : {rtxt} :=\n  {val}\n")
            sig = Sig(lean, ps, rty, muts, inputs, bool(prev.get("monadic")), self_ty, uses_draws=bool(prev.get("uses_draws")))
            sig.kind = prev.get("kind") or "Option"
            self.register(struct, rust, sig)
        except (Unsupported, IndexError, KeyError, TypeError, AttributeError):
            pass

    def infer_empty_vecs(self, body, ret):
        """`let mut v = vec![];` without a type: the element type is read off the function's return type when `v` is
        the value of the function, or off a later `v.resize(n, X)` / `v.push(X)` in the same block with `X` a variable
        declared with a type (`const O: C = ..`)"""
        if not (isinstance(body, tuple) and body and body[0] == "block"):
            return body
        def fix_block(b, typed, is_fn_body):
            typed = dict(typed)
            stmts = []
            for i, st in enumerate(b[1]):
                if st[0] == "let" and st[1][0] == "pid" and st[2] is not None:
                    typed[st[1][1]] = st[2]
                if st[0] == "let" and st[1][0] == "pid" and st[2] is None and unparen(st[3]) == ("veclist", []):
                    x = st[1][1]
                    ty = None
                    if is_fn_body and ret is not None and b[2] is not None and unparen(b[2]) == ("path", [x]):
                        ty = ret
                    else:
                        for later in b[1][i + 1:]:
                            for n in walk(later):
                                if isinstance(n, tuple) and n and n[0] == "mcall" and unparen(n[1]) == ("path", [x]) and n[2] in ("resize", "push") and n[3]:
                                    a = unparen(n[3][-1])
                                    if a[0] == "path" and len(a[1]) == 1 and a[1][0] in typed:
                                        ty = f"Vec<{typed[a[1][0]]}>"
                                        break
                            if ty:
                                break
                    if ty is not None:
                        st = ("let", st[1], ty, st[3])
                stmts.append(deep(st, typed))
            return ("block", stmts, deep(b[2], typed)) + tuple(b[3:])
        def deep(x, typed):
            if isinstance(x, tuple):
                if x and x[0] == "block":
                    return fix_block(x, typed, False)
                return tuple(deep(y, typed) for y in x)
            if isinstance(x, list):
                return [deep(y, typed) for y in x]
            return x
        return fix_block(body, {}, True)

    def tail_mut_calls(self, body):
        """a `Result<(), _>`-valued call of a method with `&mut` parameters in tail position (`self.process_qreg(changes, ..)`,
        possibly as the value of every arm of a tail `match`) is read as `{ CALL?; Ok(()) }` - the same value"""
        OK = ("call", ("path", ["Ok"]), [("tuple", [])])
        def is_mut_call(e):
            e = unparen(e)
            return e[0] == "mcall" and e[2] in self.mut_method_names and unparen(e[1]) == ("path", ["self"]) and \
                any((sg.kind == "Except" and sg.ret == "unit") for sg in self.sigs_named(e[2]))
        def is_mut_res_call(e):
            e = unparen(e)
            return e[0] == "mcall" and e[2] in self.mut_method_names and any(sg.kind == "Except" for sg in self.sigs_named(e[2]))
        def fix(e):
            if e is None:
                return e
            u = unparen(e)
            if is_mut_call(u):
                return ("block", [("expr", ("try", u))], OK)
            if u[0] == "block" and u[2] is not None:
                return ("block", u[1], fix(u[2]))
            if u[0] == "match" and is_mut_call(u[1]) and len(u[2]) == 2:
                # match CALL { Ok(_) => A, Err(err) => Err(err) }  is  { CALL?; A }
                (p1, g1, b1), (p2, g2, b2) = u[2]
                if g1 is None and g2 is None and p1 == ("ppath", ["Ok"], [("pwild",)]) and p2[0] == "ppath" and p2[1] == ["Err"] \
                        and p2[2] and len(p2[2]) == 1 and p2[2][0][0] == "pid" \
                        and unparen(b2) == ("call", ("path", ["Err"]), [("path", [p2[2][0][1]])]):
                    a = unparen(b1)
                    if a[0] == "block":
                        return ("block", [("expr", ("try", unparen(u[1])))] + a[1], a[2])
                    return ("block", [("expr", ("try", unparen(u[1])))], a)
            if u[0] == "match":
                return ("match", u[1], [(pat, guard, fix(b)) for pat, guard, b in u[2]]) + tuple(u[3:])
            return e
        def early_try(b):
            """`let res = CALL(&mut x); S..; res?;` (S.. not mentioning res) is `CALL(&mut x)?; S..`: on Err the function
            returns Err either way and a `Result`-returning translation carries no state on Err"""
            if not (isinstance(b, tuple) and b and b[0] == "block"):
                return b
            stmts = list(b[1])
            tl = unparen(b[2]) if b[2] is not None else None
            if tl and tl[0] == "try" and unparen(tl[1])[0] == "path" and len(unparen(tl[1])[1]) == 1:
                # `let r = CALL(&mut x); S..; r?` (tail): `let r = CALL(&mut x)?; S..; r`
                r = unparen(tl[1])[1][0]
                for i, st in enumerate(stmts):
                    if st[0] == "let" and st[1] == ("pid", r) and st[3] is not None and is_mut_res_call(st[3]) and \
                            not any(n == ("path", [r]) for x in stmts[i + 1:] for n in walk(x)):
                        stmts[i] = ("let", st[1], st[2], ("try", unparen(st[3])))
                        b = ("block", stmts, ("path", [r])) + tuple(b[3:])
                        break
            for i, st in enumerate(stmts):
                if st[0] == "let" and st[1][0] == "pid" and st[3] is not None and is_mut_call(st[3]):
                    r = st[1][1]
                    for j in range(i + 1, len(stmts)):
                        if stmts[j] == ("expr", ("try", ("path", [r]))):
                            mid = stmts[i + 1:j] + stmts[j + 1:]
                            if not any(n == ("path", [r]) for x in mid + [b[2]] for n in walk(x)):
                                stmts = stmts[:i] + [("expr", ("try", unparen(st[3])))] + stmts[i + 1:j] + stmts[j + 1:]
                            break
                    break
            return ("block", [deep(x) for x in stmts], deep(b[2])) + tuple(b[3:])
        def deep(x):
            if isinstance(x, tuple):
                if x and x[0] == "block":
                    return early_try(x)
                return tuple(deep(y) for y in x)
            if isinstance(x, list):
                return [deep(y) for y in x]
            return x
        def try_fold_tail(b):
            """tail `ITER.try_fold(INIT, |acc, PAT| { S..; Ok(X) })` is `let mut acc_ = INIT; for PAT in ITER { let acc = acc_;
            S..; acc_ = X; } Ok(acc_)` with the closure's `return Err(e)` / `?` leaving the function (same value either way)"""
            t = unparen(b[2]) if b[2] is not None else None
            if not (t and t[0] == "mcall" and t[2] == "try_fold" and len(t[3]) == 2):
                return b
            init, clo = t[3][0], unparen(t[3][1])
            if not (clo[0] == "closure" and len(clo[1]) == 2 and clo[1][0][0] == "pid" and unparen(clo[2])[0] == "block"):
                return b
            cb = unparen(clo[2])
            tail = unparen(cb[2]) if cb[2] is not None else None
            if not (tail and tail[0] == "call" and unparen(tail[1]) == ("path", ["Ok"]) and len(tail[2]) == 1):
                return b
            acc, accv = clo[1][0][1], "acc_fold_"
            loop_body = ("block", [("let", ("pid", acc), None, ("path", [accv]))] + list(cb[1]) +
                         [("assign", ("path", [accv]), "=", tail[2][0])], None)
            return ("block", list(b[1]) + [("let", ("pid", accv), None, init), ("expr", ("for", clo[1][1], t[1], loop_body))],
                    ("call", ("path", ["Ok"]), [("path", [accv])])) + tuple(b[3:])
        def tail_res_call(b):
            """tail `self.m(.., &mut TEMP)` of a method returning `Result<T, _>` with `&mut` parameters:
            `let mut t_ = TEMP; let r_ = self.m(.., &mut t_)?; Ok(r_)`"""
            t = unparen(b[2]) if b[2] is not None else None
            if not (t and t[0] == "mcall" and t[2] in self.mut_method_names and unparen(t[1]) == ("path", ["self"])
                    and any(sg.kind == "Except" and sg.ret != "unit" for sg in self.sigs_named(t[2]))):
                return b
            lets, args = [], []
            for i, a in enumerate(t[3]):
                ua = unparen(a)
                if ua[0] == "refmut" and unparen(ua[1])[0] != "path":
                    nm = f"tmp{i}_"
                    lets.append(("let", ("pid", nm), None, ua[1]))
                    args.append(("refmut", ("path", [nm])))
                else:
                    args.append(a)
            call = ("mcall", t[1], t[2], args)
            return ("block", list(b[1]) + lets + [("let", ("pid", "res_"), None, ("try", call))],
                    ("call", ("path", ["Ok"]), [("path", ["res_"])])) + tuple(b[3:])
        if body[0] == "block":
            body = ("block", body[1], fix(body[2])) + tuple(body[3:])
            body = try_fold_tail(body)
            body = tail_res_call(body)
            return early_try(body)
        return body

    def scratch_cell(self, body):
        """virtl.rs returns a reference to a value by parking it in the register's scratch cell:
        `self.0.replace(X); unsafe { self.0.as_ptr().as_ref().unwrap() }` denotes X"""
        st, tail = body[1], body[2]
        if tail is not None and tail[0] == "unsafe" and st and st[-1][0] == "expr":
            e = unparen(st[-1][1])
            want_tail = ("unsafe", ("block", [], ("mcall", ("mcall", ("mcall", ("field", ("path", ["self"]), "0"), "as_ptr", []), "as_ref", []), "unwrap", [])))
            if e[0] == "mcall" and e[2] == "replace" and e[1] == ("field", ("path", ["self"]), "0") and len(e[3]) == 1 and strip_parens(tail) == want_tail:
                return ("block", st[:-1], e[3][0])
        return body

    def emit_weights(self, where, file, rust, lean, body, self_ty, ps, env, rty):
        """companion of a function that draws from `WeightedIndex::new(W)`: `<lean>_weights` = `some W` (evaluated at the
        draw, in the state the function has there) or `none` when the function returns without drawing. The draw itself is
        an input of `<lean>`; this definition is what ties the *distribution* of that input to the source."""
        ps2 = [(n, t) for n, t in ps if n != "draws"]
        binder = "".join(f" ({lname(n)} : {lean_ty(t)})" for n, t in ps2)
        where = where + "[weights]"       # problems of the companion concern the distribution of the draw only
        try:
            em = Emitter(self, where, self_ty)
            em.uses_draws = True
            em.weights_mode = True
            em.monadic = True
            em.ret_ty = rty if rty != "unit" else None
            em.final_lean_ty = "Option (List R)"
            em.on_return = lambda env2, v: ("WNONE", None)
            v, _ = em.stmts(body[1], body[2], dict(env), em.on_return, em.ret_ty)
            if em.aux or "RET:" in v or "draws" in re.sub(r"WSOME|WNONE", "", v):
                raise Unsupported(f"{where}: weights companion: unexpected shape")
            v = v.replace("WNONE", "none").replace("WSOME:", "some ")
            self.out.append(f"/-- `{file}`: `{rust}`: the weights handed to `WeightedIndex::new` (`none`: no draw) -/\n"
                            f"def {lean}_weights{binder} : Option (List R) :=\n  {v}\n")
        except (Unsupported, IndexError, KeyError, TypeError, AttributeError) as ex:
            self.out.append(f"/-- `{file}`: `{rust}`: weights (NOT TRANSLATED) -/\n"
                            f"def {lean}_weights{binder} : Option (List R) :=\n  none\n")
            msg = str(ex) if isinstance(ex, Unsupported) else f"{where}: weights companion: internal: {ex!r}"
            if not msg.startswith(where):
                msg = f"{where}: " + msg.split(": ", 1)[-1]
            self.problems.append(f"{os.path.basename(file)}: {msg}")

    def translate_fn(self, toks, file, rust, lean, struct=None, impl=None, fuel=None, nth=0, ret_override=None, doc=None, param_types=None, default_elem=None):
        self.cur_lean = lean
        self.default_elem = default_elem or "C"
        if fuel:
            self.fuels[lean] = fuel
        where = f"{file}::{rust}"
        try:
            params, ret, body = find_fn(toks, rust, impl=impl, nth=nth)
            body = self.scratch_cell(body)
            body = self.tail_mut_calls(body)
            body = self.infer_empty_vecs(body, ret)
            self_ty = MULTIOP if struct == "MultiOp" else (("struct", struct) if struct else None)
            em = Emitter(self, where, self_ty)
            env, ps, muts = {}, [], []
            text = repr(body)
            em.uses_draws = ("thread_rng" in text and "WeightedIndex" in text) or any(
                sg.uses_draws and re.search(r"'mcall', .{0,400}?'" + re.escape(nm) + "'", text) is not None
                for (st_, nm), sg in self.sigs.items())
            for nm, ty in params:
                if nm == "self":
                    if self_ty is None:
                        raise Unsupported(f"{where}: self outside a struct")
                    ps.append(("self", self_ty)); env["self"] = ("self_", self_ty)
                    if ty == "&mut Self":
                        muts.append("self")
                    continue
                if not isinstance(nm, str):
                    raise Unsupported(f"{where}: pattern parameter")
                if ty is None:
                    raise Unsupported(f"{where}: parameter {nm} without a type")
                t = (param_types or {}).get(nm) or em.ty_of_text(ty)
                if t == "fmtr":
                    continue                 # the fmt::Formatter: the function's value is the text written to it
                ps.append((nm, t)); env[nm] = (lname(nm), t)
                if ty.replace(" ", "").startswith("&mut"):
                    muts.append(nm)
            if em.uses_draws:
                ps.append(("draws", ("vec", "N"))); env["draws"] = ("draws", ("vec", "N")); muts.append("draws")
            rty = "unit" if ret is None else (ret_override or None)
            if ret is not None and rty is None:
                r = ret.replace(" ", "")
                if r in ("&mutSelf",):
                    rty = "unit"          # `-> &mut Self` of a builder-style method: the new self is the result
                else:
                    rty = em.ty_of_text(ret)
                    if isinstance(rty, tuple) and rty[0] == "res":
                        em.monad = "Except"
                        em.monadic = True
                        rty = rty[1]
            em.ret_ty = rty if rty != "unit" else None
            if em.monad == "Except":
                em.ret_ty = ("res", rty)
            res_tys = ([rty] if rty != "unit" else []) + [dict(ps)[m] for m in muts]
            if not res_tys:
                if em.monad != "Except":
                    raise Unsupported(f"{where}: function without a result")
                res_tys = ["unit"]
            res_lean = " × ".join(atom(lean_ty(t)) for t in res_tys)
            em.final_lean_ty = f"{'Except IntError' if em.monad == 'Except' else 'Option'} ({res_lean})"

            def finish(env2, v):
                comps = []
                if em.monad == "Except":
                    # the returned expression is itself a Result: on Ok the &mut parameters are returned with it
                    if v is None or not (isinstance(v[1], tuple) and v[1][0] == "res"):
                        raise Unsupported(f"{where}: returns {v[1] if v else 'nothing'} instead of a Result")
                    if v[1][1] != rty and not (is_int(v[1][1]) and is_int(rty)):
                        raise Unsupported(f"{where}: returns Result of {v[1][1]} instead of {rty}")
                    ms = [env2[m][0] for m in muts]
                    if not ms:
                        return "RETRAW:" + atom(v[0]), None
                    if rty == "unit":
                        val = ms[0] if len(ms) == 1 else "(" + ", ".join(ms) + ")"
                        return f"RETRAW:(Except.bind {atom(v[0])} (fun _ => Except.ok {atom(val)}))", None
                    val = "(" + ", ".join(["rv_"] + ms) + ")"
                    return f"RETRAW:(Except.bind {atom(v[0])} (fun rv_ => Except.ok {val}))", None
                if rty != "unit":
                    if v is None:
                        raise Unsupported(f"{where}: missing return value")
                    if v[1] != rty and not (is_int(v[1]) and is_int(rty)):
                        # `self` returned from a `-> &mut Self` method
                        raise Unsupported(f"{where}: returns {v[1]} instead of {rty}")
                    comps.append(v[0])
                for m in muts:
                    comps.append(env2[m][0])
                val = atom(comps[0]) if len(comps) == 1 else "(" + ", ".join(comps) + ")"
                return ("RET:" + val), None
            em.on_return = finish
            v, _ = em.stmts(body[1], body[2], env, finish, em.ret_ty)
            # resolve RET markers according to monadicity
            if em.monad == "Except":
                v = v.replace("RETRAW:", "")
                rtxt = f"Except IntError ({res_lean})"
                aux = [a.replace("RETRAW:", "") for a in em.aux]
            elif em.monadic:
                v = re.sub(r"RET:", "some ", v)
                # `some (a, b)` needs parentheses around non-atomic payloads
                v = fix_some(v)
                rtxt = f"Option ({res_lean})"
                aux = [a.replace("RET:", "some ") for a in em.aux]
                aux = [fix_some(a) for a in aux]
            else:
                v = v.replace("RET:", "")
                rtxt = res_lean
                aux = em.aux
            if getattr(self, "recursive_fuel", None) == lean:
                # a self-recursive function: structural recursion on an explicit fuel (the model's definition has the same shape)
                v = f"match fuel0 with\n  | 0 => (Except.error (Interp.panicErr \"{getattr(self, 'recursive_label', 'depth')}\") : {rtxt})\n  | fuel + 1 =>\n  {v}"
                binder = " (fuel0 : Nat)"
            else:
                binder = " (fuel : Nat)" if self.fuels.get(lean) == "fuel" else ""
            binder += "".join(f" ({lname(n)} : {lean_ty(t)})" for n, t in ps)
            binder += "".join(f" ({n} : {lean_ty(t)})" for n, t in em.inputs)
            d = doc or f"`{file}`: `{rust}`"
            for a in aux:
                self.out.append(a)
            self.out.append(f"/-- {d} -/\ndef {lean}{binder} : {rtxt} :=\n  {v}\n")
            sig = Sig(lean, ps, rty, muts, em.inputs, em.monadic, self_ty, uses_draws=em.uses_draws)
            sig.kind = em.monad
            fuel_binder = " (fuel0 : Nat)" if getattr(self, "recursive_fuel", None) == lean else (" (fuel : Nat)" if self.fuels.get(lean) == "fuel" else "")
            self.good_sigs[lean] = {"monadic": em.monadic, "inputs": [[n, t] for n, t in em.inputs], "uses_draws": em.uses_draws,
                                    "ps": [[n, t] for n, t in ps], "rty": rty, "muts": list(muts), "self_ty": self_ty,
                                    "kind": em.monad, "fuel_binder": fuel_binder}
            self.register(struct, rust, sig)
            for ok, why in em.twins:
                self.twins.append((lean, ok))
            if "thread_rng" in text and "WeightedIndex" in text:
                self.emit_weights(where, file, rust, lean, body, self_ty, ps, env, rty)
            return sig
        except (Unsupported, IndexError, KeyError, TypeError, AttributeError) as ex:
            self.emit_stub(toks, file, rust, lean, struct, impl, nth, param_types)
            if os.environ.get("RS2LEAN_DEBUG") and not isinstance(ex, Unsupported):
                import traceback; traceback.print_exc()
            msg = str(ex) if isinstance(ex, Unsupported) else f"{where}: internal: {ex!r}"
            if not msg.startswith(where) and not msg.startswith(file):
                msg = f"{where}: {msg}"
            self.problems.append(f"{os.path.basename(file)}: {msg}")
            if "parallel arm differs" in msg:
                self.twins.append((lean, False))
            return None


def fix_some(v):
    """`some x, y` cannot occur; payloads were atoms or parenthesised tuples already"""
    return v


HEADER = '''/- GENERATED by tools/rs2lean2.py from /repo — do not edit.
Every definition is a mechanical translation of the named Rust function (current working tree). -/
import Qvnt.Generated.Kernels
import Qvnt.Model.RustStd
import Qvnt.Model.Interp

set_option linter.unusedVariables false

namespace Qvnt.Gen2
open Qvnt Qvnt.Gen
open Qvnt.QReg (HasRound)

variable {R : Type} [Add R] [Sub R] [Mul R] [Div R] [Neg R] [Zero R] [One R] [Consts R] [Trig R] [Rs.AngleConsts R]
  [LE R] [DecidableLE R] [LT R] [DecidableLT R] [HasSqrt R] [RegConsts R] [HasRound R]

/-- `AtomicOp::for_each(&self, psi_i, psi_o, ctrl)`: `psi_o.iter_mut().enumerate().for_each(|(idx, psi)| *psi = E)`
(that shape is checked by rs2lean.py) with `E` the translated closure body `Gen.forEach` -/
def atomForEach (f : Atom R) (psi_i psi_o : List (Cx R)) (ctrl : Nat) : List (Cx R) :=
  Rs.mapIdx psi_o (fun idx _ => Gen.forEach f.op (fun i => psi_i.getD i 0) ctrl idx)

'''


BITS_GLUE = """/-- `Iterator::collect` and the adaptors over `BitsIter`: the items `next` yields until `None`
(fuel bounds the total number of loop iterations; the same shape as the model's `BitsIter.collect`) -/
def bitsCollect : Nat → BitsIterG → Option (List Nat)
  | 0, _ => none
  | fuel + 1, it =>
    match bits_next (fuel + 1) it with
    | none => none
    | some (none, _) => some []
    | some (some p, it') => (bitsCollect fuel it').map (p :: ·)

/-- the items of `BitsIter::from(m)` -/
def bitsList (m : Nat) : List Nat := (bitsCollect bitsFuel (bits_from m)).getD []
"""


def load(file):
    return skip_cfg_items(tokenize(open(os.path.join(REPO, "src", file)).read()))


def struct_fields(toks, name):
    """[(field, type text)] of `struct name { .. }`"""
    for i in range(len(toks) - 2):
        if toks[i] == ("id", "struct") and toks[i + 1] == ("id", name) and toks[i + 2][1] in ("{", "<"):
            from rsparse import Parser
            p = Parser(toks, i + 2)
            if p.at("<"):
                p.eat(); p._skip_generic()
            p.eat("{")
            out = []
            while not p.at("}"):
                p.skip_attrs()
                if p.at("pub"):
                    p.eat()
                    if p.at("("):
                        while not p.at(")"):
                            p.eat()
                        p.eat(")")
                nm = p.eat()[1]
                p.eat(":")
                out.append((nm, p.parse_type(stop=(",", "}"))))
                if p.at(","):
                    p.eat()
            return out
    raise Unsupported(f"struct {name} not found")


def struct_fields_tuple(toks, name):
    """field types of a tuple struct `struct name(pub T0, pub T1);`"""
    from rsparse import Parser
    for i in range(len(toks) - 2):
        if toks[i] == ("id", "struct") and toks[i + 1] == ("id", name) and toks[i + 2][1] == "(":
            p = Parser(toks, i + 3)
            out = []
            while not p.at(")"):
                p.skip_attrs()
                if p.at("pub"):
                    p.eat()
                    if p.at("("):
                        while not p.at(")"):
                            p.eat()
                        p.eat(")")
                out.append(p.parse_type(stop=(",", ")")))
                if p.at(","):
                    p.eat()
            return out
    raise Unsupported(f"tuple struct {name} not found")


def emit_struct(tr, toks, file, rust, key, lean, typarams=""):
    """check the fields of the Rust struct against the translation's view of it and emit the Lean structure"""
    try:
        fs = struct_fields(toks, rust)
        em = Emitter(tr, f"{file}::struct {rust}")
        seen = []
        for nm, ty in fs:
            if nm in tr.ignored_fields.get(key, ()):
                continue
            seen.append((nm, em.ty_of_text(ty)))
        if seen != STRUCT_FIELDS[key]:
            raise Unsupported(f"{file}::struct {rust}: fields are {seen}, the translation expects {STRUCT_FIELDS[key]}")
        body = "\n".join(f"  {n} : {lean_ty(t)}" for n, t in seen)
        tr.out.append(f"/-- `{file}`: `struct {rust}` -/\nstructure {lean}{typarams} where\n{body}\n")
    except Unsupported as ex:
        tr.problems.append(f"{os.path.basename(file)}: {ex}")


def find_const(toks, name):
    for i in range(len(toks) - 5):
        if toks[i] == ("id", "const") and toks[i + 1] == ("id", name):
            j = i
            while toks[j][1] != "=":
                j += 1
            if toks[j + 1][0] == "int" and toks[j + 2][1] == ";":
                return int(re.match(r"\d+", toks[j + 1][1]).group(0))
    return None


def main():
    tr = Translator()
    out = [HEADER]
    T = tr.translate_fn
    S = lambda lean, ps, ret, muts=(): Sig(lean, ps, ret, list(muts))
    ATOM, SINGLE, CREG = ("struct", "Atom"), ("struct", "SingleOp"), ("struct", "CReg")

    def group(file, body):
        try:
            body(load(file))
        except (OSError, Unsupported) as ex:
            tr.problems.append(f"{os.path.basename(file)}: {file}: {ex}")

    # ---- math/bits_iter.rs
    def bits(t):
        emit_struct(tr, t, "math/bits_iter.rs", "BitsIter", "BitsIter", "BitsIterG")
        T(t, "math/bits_iter.rs", "from", "bits_from", struct="BitsIter")
        if T(t, "math/bits_iter.rs", "next", "bits_next", struct="BitsIter", fuel="fuel") is not None:
            tr.out.append(BITS_GLUE)
    group("math/bits_iter.rs", bits)

    # ---- operator/single/mod.rs, operator/multi/mod.rs
    tr.register("Atom", "dgr", S("Atom.dgr", [("self", ATOM)], ATOM))
    def single(t):
        T(t, "operator/single/mod.rs", "from", "single_from", struct="SingleOp", impl=r"impl < Op : AtomicOp > From < Op > for SingleOp", param_types={"op": ATOM})
        for rust in ["act_on", "dgr", "c", "apply"]:
            T(t, "operator/single/mod.rs", rust, "single_" + rust, struct="SingleOp", impl=r"impl Applicable for SingleOp")
    group("operator/single/mod.rs", single)
    # `From<SingleOp> for MultiOp` compares the printed name with "Id": taken from the model (MultiOp.ofSingle)
    tr.register("MultiOp", "from", S("MultiOp.ofSingle", [("single", SINGLE)], MULTIOP))
    def multi(t):
        for rust in ["act_on", "dgr", "c", "apply"]:
            T(t, "operator/multi/mod.rs", rust, "multi_" + rust, struct="MultiOp", impl=r"impl Applicable for MultiOp")
        T(t, "operator/multi/mod.rs", "mul_assign", "multi_mul_assign", struct="MultiOp", impl=r"impl MulAssign for MultiOp")
    group("operator/multi/mod.rs", multi)

    # ---- operator/applicable.rs: the default method `matrix` of the trait, at the queue type (`self.apply` is MultiOp::apply)
    def applicable(t):
        T(t, "operator/applicable.rs", "matrix", "multi_matrix", struct="MultiOp")
    group("operator/applicable.rs", applicable)

    # ---- operator/single/{pauli,rotate,swap}.rs: the checked constructors (atom constructors come from rs2lean.py)
    for k in ["x", "y", "z", "s", "t", "swap", "sqrt_swap", "i_swap", "sqrt_i_swap"]:
        tr.register(k, "new", S(f"Gen.{k}_new", [("a_mask", "N")], ATOM))
    for k in ["rx", "ry", "rz", "rxx", "ryy", "rzz"]:
        tr.register(k, "new", S(f"Gen.{k}_new", [("a_mask", "N"), ("phase", "R")], ATOM))
    def single_ctors(t):
        txt = " ".join(x[1] for x in t)
        canon = "macro_rules ! single_op_checked { ( $ op : expr ) => { match $ op { op if op . is_valid ( ) => Some ( op . into ( ) ) , _ => None , } } ; }"
        tr.checked_macro_ok = canon in txt
        if not tr.checked_macro_ok:
            tr.problems.append("mod.rs: operator/single/mod.rs::single_op_checked: the macro does not have its canonical text")
    group("operator/single/mod.rs", single_ctors)
    def pauli(t):
        for k in ["x", "y", "z", "s", "t"]:
            T(t, "operator/single/pauli.rs", k, "pauli_" + k)
            tr.sigs[("pauli", k)] = tr.sigs.pop((None, k), None) or tr.sigs.get(("pauli", k))
    group("operator/single/pauli.rs", pauli)
    def rotate(t):
        for k in ["rx", "ry", "rz", "rxx", "ryy", "rzz"]:
            T(t, "operator/single/rotate.rs", k, "rotate_" + k)
            tr.sigs[("rotate", k)] = tr.sigs.pop((None, k), None) or tr.sigs.get(("rotate", k))
    group("operator/single/rotate.rs", rotate)
    def swapf(t):
        for k in ["swap", "sqrt_swap", "i_swap", "sqrt_i_swap"]:
            T(t, "operator/single/swap.rs", k, "swapmod_" + k)
            tr.sigs[("swap", k)] = tr.sigs.pop((None, k), None) or tr.sigs.get(("swap", k))
    group("operator/single/swap.rs", swapf)

    # ---- operator/multi/h.rs (atom constructors come from rs2lean.py)
    tr.register("h1", "new", S("Gen.h1_new", [("a_mask", "N")], ATOM))
    tr.register("h2", "new", S("Gen.h2_new", [("a_mask", "N"), ("b_mask", "N")], ATOM))
    def hfile(t):
        T(t, "operator/multi/h.rs", "h1", "h_h1")
        T(t, "operator/multi/h.rs", "h2", "h_h2")
        T(t, "operator/multi/h.rs", "h", "h_h", fuel="(W + 2)")
    group("operator/multi/h.rs", hfile)

    # ---- operator/multi/qft.rs
    def qftfile(t):
        for k in ["rz"]:
            tr.sigs[(None, k)] = tr.sigs[("rotate", k)]
        SO = ("struct", "SingleOp")
        sg = T(t, "operator/multi/qft.rs", "qft", "qft_qft", default_elem=SO)
        if sg is not None:
            tr.sigs[("qft", "qft")] = sg
        T(t, "operator/multi/qft.rs", "qft_swapped", "qft_qft_swapped", default_elem="N", fuel="(W + 2)")
        tr.sigs.pop((None, "rz"), None)
    if ("rotate", "rz") in tr.sigs and ("h", "h") in tr.sigs or (None, "h") in tr.sigs:
        if ("h", "h") not in tr.sigs:
            tr.sigs[("h", "h")] = tr.sigs[(None, "h")]
        group("operator/multi/qft.rs", qftfile)

    # ---- operator/mod.rs: the public constructors
    def opmod(t):
        tr.in_opmod = True
        if ("h", "h") not in tr.sigs and (None, "h") in tr.sigs:
            tr.sigs[("h", "h")] = tr.sigs[(None, "h")]
        for k in ["id", "x", "y", "z", "s", "t", "rx", "ry", "rz", "rxx", "ryy", "rzz", "swap", "sqrt_swap", "i_swap", "sqrt_i_swap", "h", "u1", "u2", "u3", "qft", "qft_swapped"]:
            sg = T(t, "operator/mod.rs", k, "op_" + k)
            if sg is not None:
                tr.sigs[("opmod", k)] = sg
            tr.sigs.pop((None, k), None) if k not in ("h", "qft", "qft_swapped") else None
        tr.in_opmod = False
    hsig = tr.sigs.get((None, "h"))
    group("operator/mod.rs", opmod)
    if hsig is not None:
        tr.sigs[(None, "h")] = hsig

    # ---- register/class.rs: the straight-line functions come from rs2lean.py (Generated/Kernels.lean)
    tr.register("CReg", "with_state", S("Gen.creg_with_state", [("q_num", "N"), ("state", "N")], CREG))
    tr.register("CReg", "get", S("Gen.creg_get", [("self", CREG)], "N"))
    tr.register("CReg", "tensor_prod", S("Gen.creg_tensor_prod", [("self", CREG), ("other", CREG)], CREG))
    tr.register("CReg", "set", S("Gen.creg_set", [("self", CREG), ("bit", "bool"), ("mask", "N")], "unit", ["self"]))
    tr.register("CReg", "xor", S("Gen.creg_xor", [("self", CREG), ("bit", "bool"), ("mask", "N")], "unit", ["self"]))
    tr.register("CReg", "reset", S("Gen.creg_reset", [("self", CREG), ("i_state", "N")], "unit", ["self"]))
    def creg(t):
        T(t, "register/class.rs", "new", "creg_new", struct="CReg")
        T(t, "register/class.rs", "get_by_mask", "creg_get_by_mask", struct="CReg")
        T(t, "register/class.rs", "mul", "creg_mul", struct="CReg", impl=r"impl Mul for Reg")
        T(t, "register/class.rs", "mul_assign", "creg_mul_assign", struct="CReg", impl=r"impl MulAssign for Reg")
        T(t, "register/class.rs", "fmt", "creg_fmt", struct="CReg", impl=r"impl fmt :: Debug for Reg", param_types={"f": "fmtr"}, ret_override="str")
    group("register/class.rs", creg)

    # ---- register/virtl.rs
    def virtl(t):
        fs = struct_fields_tuple(t, "Reg")
        if [f.replace(" ", "") for f in fs] != ["Ptr<N>", "Vec<N>"]:
            raise Unsupported(f"struct virtl::Reg has fields {fs}")
        tr.out.append("/-- `register/virtl.rs`: `struct Reg(Ptr<N>, Vec<N>)`; the scratch cell is not state -/\nstructure VRegG where\n  bits : List Nat\n")
        T(t, "register/virtl.rs", "new_with_mask", "vreg_new_with_mask", struct="VReg")
        T(t, "register/virtl.rs", "new", "vreg_new", struct="VReg")
        T(t, "register/virtl.rs", "index", "vreg_index", struct="VReg", impl=r"impl Index < N > for Reg")
        T(t, "register/virtl.rs", "index", "vreg_index_by", struct="VReg", impl=r"impl < F > Index < F > for Reg .*")
    group("register/virtl.rs", virtl)

    # ---- qasm/int/ext_op.rs (the model's record type is used for the queue: its two fields are the tuple fields)
    def extop(t):
        fs = struct_fields_tuple(t, "Op")
        if [f.replace(" ", "") for f in fs] != ["VecDeque<(MultiOp,Sep)>", "MultiOp"]:
            raise Unsupported(f"struct Op has fields {fs}")
        T(t, "qasm/int/ext_op.rs", "push", "extop_push", struct="ExtOp", impl=r"impl Op")
        T(t, "qasm/int/ext_op.rs", "append", "extop_append", struct="ExtOp", impl=r"impl Op")
    group("qasm/int/ext_op.rs", extop)

    # ---- register/quant.rs
    tr.register("operator", "x", S("Op.x", [("a_mask", "N")], MULTIOP))
    def quant(q):
        tr.consts["MIN_BUFFER_LEN"] = find_const(q, "MIN_BUFFER_LEN")
        emit_struct(tr, q, "register/quant.rs", "Reg", "QReg", "QRegG", " (R : Type)")
        for rust in ["new", "with_state", "reset", "set_num", "get_absolute", "get_probabilities", "collapse_mask",
                     "rescale", "normalize", "measure_mask", "measure", "tensor_prod"]:
            T(q, "register/quant.rs", rust, "quant_" + rust, struct="QReg", impl=r"impl Reg")
        tr.generic_op_is_multi = True
        T(q, "register/quant.rs", "apply", "quant_apply", struct="QReg", impl=r"impl Reg")
        tr.generic_op_is_multi = False
        T(q, "register/quant.rs", "reset_by_mask", "quant_reset_by_mask", struct="QReg", impl=r"impl Reg")
        T(q, "register/quant.rs", "sample_all", "quant_sample_all", struct="QReg", impl=r"impl Reg", fuel="fuel")
        T(q, "register/quant.rs", "get_vreg", "quant_get_vreg", struct="QReg", impl=r"impl Reg")
        T(q, "register/quant.rs", "get_vreg_by", "quant_get_vreg_by", struct="QReg", impl=r"impl Reg")
    group("register/quant.rs", quant)

    # ---- register/quant.rs: the threading model (`threading::Model::and`, `QReg::num_threads`). The register record of the
    # translation has no `th` field (thread-model independence is the twin check), so these two are emitted on the model
    # type `ThG` directly: the arms of `and` as a Lean match, `num_threads` as the model it installs (`Self { th: X, ..self }`
    # read as X; `rayon::current_num_threads()` is the input `avail`)
    def threadfile(t):
        def th_term(e, env):
            e = unparen(e)
            if e[0] == "path" and e[1][-1] == "Single":
                return "ThG.single"
            if e[0] == "call" and unparen(e[1])[0] == "path" and unparen(e[1])[1][-1] == "Multi" and len(e[2]) == 1:
                a = unparen(e[2][0])
                if a[0] == "path" and len(a[1]) == 1 and a[1][0] in env:
                    return f"ThG.multi {a[1][0]}"
                if a[0] == "mcall" and a[2] == "max" and len(a[3]) == 1 and unparen(a[1])[0] == "path" and unparen(a[3][0])[0] == "path":
                    x, y = unparen(a[1])[1][0], unparen(a[3][0])[1][0]
                    if x in env and y in env:
                        return f"ThG.multi (max {x} {y})"
            raise Unsupported(f"register/quant.rs::and: threading model expression {e}")
        def th_pat(pt, env):
            if pt == ("ppath", ["Single"], None):
                return "ThG.single"
            if pt[0] == "ppath" and pt[1] == ["Multi"] and pt[2] and len(pt[2]) == 1 and pt[2][0][0] == "pid":
                env.add(pt[2][0][1])
                return f"ThG.multi {pt[2][0][1]}"
            raise Unsupported("register/quant.rs::and: pattern")
        params, ret, body = find_fn(t, "and")
        mt = unparen(body[2]) if body[0] == "block" and not body[1] else None
        if not (mt and mt[0] == "match" and unparen(mt[1]) == ("tuple", [("path", ["self"]), ("path", ["other"])])):
            raise Unsupported("register/quant.rs::and: not a match on (self, other)")
        arms = []
        for pat, guard, b in mt[2]:
            if guard is not None or pat[0] != "ptuple" or len(pat[1]) != 2:
                raise Unsupported("register/quant.rs::and: arm")
            env = set()
            l, r = th_pat(pat[1][0], env), th_pat(pat[1][1], env)
            arms.append(f"  | {l}, {r} => {th_term(b, env)}")
        tr.out.append("/-- `register/quant.rs`: `threading::Model` -/\ninductive ThG where\n  | single\n  | multi (n : Nat)\nderiving DecidableEq, Repr\n")
        tr.out.append("/-- `register/quant.rs`: `threading::Model::and` -/\ndef th_and (self_ other : ThG) : ThG :=\n  match self_, other with\n" + "\n".join(arms) + "\n")
        params, ret, body = find_fn(t, "num_threads")
        def lit(e):
            e = unparen(e)
            return e[0] == "int" and e[1]
        def walk_if(e):
            e = unparen(e)
            if e[0] == "block" and not e[1]:
                return walk_if(e[2])
            if e[0] == "if":
                c = unparen(e[1])
                def cond(c):
                    c = unparen(c)
                    if c[0] == "bin" and c[1] == "||":
                        return f"({cond(c[2])} || {cond(c[3])})"
                    if c[0] == "bin" and c[1] in ("==", ">"):
                        def side(x):
                            x = unparen(x)
                            if x[0] == "int":
                                return str(x[1])
                            if x == ("path", ["num_threads"]):
                                return "num_threads"
                            if x[0] == "call" and unparen(x[1]) == ("path", ["rayon", "current_num_threads"]) and not x[2]:
                                return "avail"
                            raise Unsupported("register/quant.rs::num_threads: operand")
                        op = "==" if c[1] == "==" else ">"
                        return f"decide ({side(c[2])} {'=' if op == '==' else '>'} {side(c[3])})"
                    raise Unsupported("register/quant.rs::num_threads: condition")
                return f"if {cond(c)} then {walk_if(e[2])} else {walk_if(e[3])}"
            if e == ("path", ["None"]):
                return "none"
            if e[0] == "call" and unparen(e[1]) == ("path", ["Some"]) and len(e[2]) == 1:
                st = unparen(e[2][0])
                if st[0] == "struct" and st[1] == ["Self"] and [f for f, _ in st[2]] == ["th"] and unparen(st[3]) == ("path", ["self"]):
                    return f"some ({th_term(st[2][0][1], {'num_threads'})})"
            raise Unsupported("register/quant.rs::num_threads: shape")
        tr.out.append("/-- `register/quant.rs`: `num_threads` (the threading model it installs; `avail` = `rayon::current_num_threads()`) -/\n"
                      f"def quant_num_threads (num_threads avail : Nat) : Option ThG :=\n  {walk_if(body)}\n")
    group("register/quant.rs", threadfile)

    # ---- qasm/int/mod.rs: declarations, argument resolution, measure / reset statements, queue separators
    # (the model's record `Interp R` is used for the interpreter state; gate application / definitions, which
    # need the macro table and the external AST, stay hand-modelled)
    def intfile(t):
        fs = struct_fields(t, "Int")
        want = ["m_op", "q_reg", "c_reg", "q_ops", "macros", "asts"]
        if [n for n, _ in fs] != want:
            raise Unsupported(f"struct Int has fields {[n for n, _ in fs]}, the translation expects {want}")
        I = r"impl < 't > Int < 't >"
        for k in ["check_ident", "check_reg_size", "check_dup", "branch", "branch_with_id", "xor", "get_idx_by_alias",
                  "get_q_idx_with_context", "get_c_idx_with_context", "process_qreg", "process_creg", "process_barrier",
                  "process_opaque", "process_reset", "process_measure", "append_int", "prepend_int"]:
            T(t, "qasm/int/mod.rs", k, "int_" + k, struct="Int", impl=I, default_elem="str")
    group("qasm/int/mod.rs", intfile)

    # ---- qasm/sym.rs
    def symfile(t):
        emit_struct(tr, t, "qasm/sym.rs", "Sym", "Sym", "SymG", " (R : Type)")
        tr.generic_op_is_multi = True
        T(t, "qasm/sym.rs", "new", "sym_new", struct="Sym", impl=r"impl Sym", param_types={"int": ("struct", "Int")})
        T(t, "qasm/sym.rs", "get_class", "sym_get_class", struct="Sym", impl=r"impl Sym")
        T(t, "qasm/sym.rs", "get_probabilities", "sym_get_probabilities", struct="Sym", impl=r"impl Sym")
        T(t, "qasm/sym.rs", "reset", "sym_reset", struct="Sym", impl=r"impl Sym")
        T(t, "qasm/sym.rs", "measure", "sym_measure", struct="Sym", impl=r"impl Sym")
        tr.name_for_bodies = True
        T(t, "qasm/sym.rs", "finish", "sym_finish", struct="Sym", impl=r"impl Sym")
        tr.name_for_bodies = False
        tr.generic_op_is_multi = False
    group("qasm/sym.rs", symfile)

    # ---- qasm/int/macros.rs: user-defined gates
    def macrosfile(t):
        fs = struct_fields(t, "Macro")
        if [n for n, _ in fs] != ["regs", "args", "nodes"]:
            raise Unsupported(f"struct Macro has fields {[n for n, _ in fs]}, the translation expects regs, args, nodes")
        tr.out.append("section macros\nvariable [ExprFns R] [AngleFns R]\n")
        tr.macro_ctx = True
        M = r"impl < 't > Macro < 't >"
        gproc = Sig("Gates.processE", [("name", "str"), ("regs", ("vec", "N")), ("args", ("vec", "R"))], MULTIOP, [])
        gproc.kind = "Except"; gproc.monadic = True
        tr.register("gates", "process", gproc)
        T(t, "qasm/int/macros.rs", "argument_name", "macro_argument_name", param_types={"reg": ("struct", "Argument")})
        T(t, "qasm/int/macros.rs", "new", "macro_new", struct="Macro", impl=M, default_elem="str",
          param_types={"nodes": ("vec", ("struct", "Inner"))})
        # process_nested calls itself: registered beforehand, with the fuel of the recursive definition as first argument
        rec = Sig("macro_process_nested fuel", [("self", ("struct", "Macro")), ("name", "str"), ("regs", ("vec", "N")), ("args", ("vec", "R")),
                                                 ("macros", ("map", "Macro")), ("stack", ("vec", "str"))], MULTIOP, ["stack"])
        rec.kind = "Except"; rec.monadic = True
        tr.register("Macro", "process_nested", rec)
        tr.recursive_fuel = "macro_process_nested"
        tr.recursive_label = "macro-depth"
        T(t, "qasm/int/macros.rs", "process_nested", "macro_process_nested", struct="Macro", impl=M, default_elem="str")
        tr.recursive_fuel = None
        # Macro::process: the expansion starts with the call stack [name]; the recursion of process_nested is bounded by the
        # number of gate definitions (a name is never entered twice), the fuel given here is that bound + 2 (Props/C12)
        top = Sig("macro_process_nested (List.length macros + 2)", rec.params, MULTIOP, ["stack"])
        top.kind = "Except"; top.monadic = True
        tr.register("Macro", "process_nested", top)
        T(t, "qasm/int/macros.rs", "process", "macro_process", struct="Macro", impl=M, default_elem="str")
        tr.macro_ctx = False
        tr.out.append("end macros\n")
    group("qasm/int/macros.rs", macrosfile)

    # ---- qasm/int/gates.rs: the arms of `macro_rules! gate`. Each arm is expanded into a function of its macro parameters
    # (`$name`, `$regs`, `$args`, `$num`; the constructor call `op::$op(..)` / `op::u1(..)` becomes a call of a function
    # parameter `opf`, its implicit panic an `expect(site)`), and that function is translated like any other. The table
    # `name -> (arm, constructor)` and the prefix arm of `process` are read by tools/extract.py.
    def gatesfile(_t):
        src = open(os.path.join(REPO, "src", "qasm/int/gates.rs")).read()
        src = re.sub(r"//[^\n]*", "", src)
        m = re.search(r"macro_rules!\s*gate\s*\{(.*?)\n\}\n", src, re.S)
        if not m:
            raise Unsupported("macro_rules! gate not found")
        arms = re.findall(r"\(\s*\$name:expr,\s*(.*?),\s*\$regs:expr,\s*\$args:expr\s*\)\s*=>\s*\{\{(.*?)\}\};", m.group(1), re.S)
        want = {"any, $op:ident": ("any", 0, None), "dgr, $op:ident": ("dgr", 0, None), "2, $op:ident": ("two", 0, None),
                "r($num:expr), $op:ident": ("r", 1, None), "u1": ("u1", 1, "u1"), "u2": ("u2", 2, "u2"), "u3": ("u3", 3, "u3")}
        seen = {}
        for pat, body in arms:
            key = re.sub(r"\s+", " ", pat.strip())
            if key not in want:
                tr.problems.append(f"gates.rs: qasm/int/gates.rs::gate!: an arm `{key}` that the translation does not know")
                continue
            seen[key] = body
        tr.register("math", "count_bits", S("Gen.count_bits", [("n", "N")], "N"))
        for key, (nm, nreal, fixed) in want.items():
            lean = "gate_arm_" + nm
            pt = {"opf": ("fn", ["R"] * nreal + ["N"], ("opt", MULTIOP))}
            extra = ", num: N" if nm == "r" else ""
            body = seen.get(key)
            if body is None:
                body = " unreachable_arm_missing() "
            t = body.replace("$name", "name").replace("$regs", "regs").replace("$args", "args").replace("$num", "num")
            ctor_pat = r"op::\$op" if fixed is None else "op::" + fixed
            t, nsub = re.subn(ctor_pat + r"\(([^()]*)\)", r"opf(\1).expect(site)", t)
            if "$" in t or "op::" in t or nsub != 1:
                t = " unsupported_macro_body() "
            fn = f"fn arm_{nm}<'t>(name: &'t str, site: &'t str, opf: OPF{extra}, regs: Vec<N>, args: Vec<R>) -> Result<'t, MultiOp> {{ {t} }}\n"
            try:
                toks = skip_cfg_items(tokenize(fn))
            except Unsupported as ex:
                toks = skip_cfg_items(tokenize(fn.replace(t, " unsupported_macro_body() ")))
            T(toks, "qasm/int/gates.rs", "arm_" + nm, lean, param_types=pt, default_elem="str",
              doc=f"`qasm/int/gates.rs`: the arm `{key}` of `macro_rules! gate`, as a function of its macro parameters")
    try:
        gatesfile(None)
    except (OSError, Unsupported) as ex:
        tr.problems.append(f"gates.rs: qasm/int/gates.rs: {ex}")

    # ---- qasm/int/mod.rs, second part: statement dispatch and the session entry points. Gate application / definition / `if`
    # are handed on to the model's functions (glue `Interp.ext*` in Model/Interp.lean) as long as they are mirrored by hand
    # (tools/canon.py ties their text)
    def intfile2(t):
        I = r"impl < 't > Int < 't >"
        tr.out.append("section intstmts\nvariable [ExprFns R] [AngleFns R]\n")
        INT, ARG = ("struct", "Int"), ("struct", "Argument")
        def ext(rust, lean, ps):
            sg = Sig(lean, [("self", INT), ("changes", INT)] + ps, "unit", ["changes"])
            sg.kind = "Except"; sg.monadic = True
            tr.register("Int", rust, sg)
        # Macro::process is the translated `macro_process` (group macrosfile above)
        gproc = Sig("Gates.processE", [("name", "str"), ("regs", ("vec", "N")), ("args", ("vec", "R"))], MULTIOP, [])
        gproc.kind = "Except"; gproc.monadic = True
        tr.register("gates", "process", gproc)
        T(t, "qasm/int/mod.rs", "process_apply_gate", "int_process_apply_gate", struct="Int", impl=I, default_elem="str",
          param_types={"args": ("vec", ("struct", "PExpr"))})
        # process_if calls process_node on the gate application it guards, and process_node calls process_if: the cycle is cut
        # by translating that call through `int_process_node_apply` (process_node restricted to `ApplyGate`, whose arm is
        # checked here to be the plain call of process_apply_gate; Lemmas/GenInt.lean proves it equal to int_process_node)
        pn = find_fn(t, "process_node", impl=I)[2]
        arm = [b for pat, g, b in unparen(pn[2])[2] if pat[0] == "ppath" and pat[1] == ["AstNode", "ApplyGate"]
               and pat[2] == [("pid", "name"), ("pid", "regs"), ("pid", "args")]]
        want_arm = ("mcall", ("path", ["self"]), "process_apply_gate", [("path", ["changes"]), ("path", ["name"]), ("path", ["regs"]), ("path", ["args"])])
        if len(arm) != 1 or strip_parens(arm[0] if arm[0][0] != "block" or arm[0][1] else arm[0][2]) != want_arm:
            raise Unsupported("qasm/int/mod.rs::process_if: the ApplyGate arm of process_node is not `self.process_apply_gate(changes, name, regs, args)`")
        tr.out.append("/-- `process_node` on a gate application (its `ApplyGate` arm) -/\n"
                      "def int_process_node_apply (self_ : Interp R) (changes : Interp R) (node : Node R) : Except IntError (Interp R) :=\n"
                      "  match node with | Node.apply c => int_process_apply_gate self_ changes c.name c.regs c.args | _ => Except.ok changes\n")
        pna = Sig("int_process_node_apply", [("self", INT), ("changes", INT), ("node", ("struct", "AstNode"))], "unit", ["changes"])
        pna.kind = "Except"; pna.monadic = True
        tr.register("Int", "process_node", pna)
        T(t, "qasm/int/mod.rs", "process_if", "int_process_if", struct="Int", impl=I, default_elem="str")
        # Macro::new is the translated `macro_new` (group macrosfile above)
        T(t, "qasm/int/mod.rs", "process_gate", "int_process_gate", struct="Int", impl=I, default_elem="str",
          param_types={"nodes": ("vec", ("struct", "Inner"))})
        NODES = ("vec", ("struct", "AstNode"))
        T(t, "qasm/int/mod.rs", "process_node", "int_process_node", struct="Int", impl=I, default_elem="str")
        T(t, "qasm/int/mod.rs", "process_nodes", "int_process_nodes", struct="Int", impl=I, default_elem="str", param_types={"nodes": NODES})
        T(t, "qasm/int/mod.rs", "ast_changes", "int_ast_changes", struct="Int", impl=I, default_elem="str")
        T(t, "qasm/int/mod.rs", "add_ast", "int_add_ast", struct="Int", impl=I, default_elem="str")
        # A `Result`-returning translation carries no state on Err: for `add_ast(&mut self, ..)` that is right only if nothing
        # has touched `self` when an error leaves the function. Checked on the statement list: no assignment to `self` /
        # `&mut self` argument / mutating method on `self` precedes a `?` or `return Err`.
        body = find_fn(t, "add_ast", impl=I)[2]
        touched, keeps = False, True
        def mutates_self(x):
            for n in walk(x):
                if isinstance(n, tuple) and n:
                    if n[0] == "assign" and ("path", ["self"]) in list(walk(n[1])):
                        return True
                    if n[0] == "refmut" and unparen(n[1]) == ("path", ["self"]):
                        return True
                    if n[0] == "mcall" and unparen(n[1]) == ("path", ["self"]) and n[2] in tr.mut_method_names and \
                            any("self" in sg.muts for sg in tr.sigs_named(n[2])):
                        return True
                    if n[0] == "mcall" and n[2] not in ("clone", "iter", "len", "ast_changes") and unparen(n[1])[0] == "field" and \
                            unparen(unparen(n[1])[1]) == ("path", ["self"]) and n[2] in ("push", "append", "extend", "insert", "clear", "pop", "push_back"):
                        return True
            return False
        for st in body[1]:
            exits = contains(st, ("try", "return"))
            if exits and (touched or (mutates_self(st) and st[0] != "assign")):
                keeps = False
            if mutates_self(st):
                touched = True
        tl = unparen(body[2]) if body[2] is not None else None
        if touched and not (tl and tl[0] == "call" and unparen(tl[1]) == ("path", ["Ok"])):
            keeps = False        # the value of the function is computed after `self` was touched and may be an Err
        tr.out.append("/-- `add_ast`: no statement has touched `self` when a `?` / `return Err` leaves the function (syntactic check of the "
                      "statement list), so the session of a rejected chunk is the session as it was -/\n"
                      f"def int_add_ast_err_keeps_self : Bool := {'true' if keeps else 'false'}\n")
        T(t, "qasm/int/mod.rs", "new", "int_new", struct="Int", impl=I, default_elem="str")
        tr.out.append("end intstmts\n")
    group("qasm/int/mod.rs", intfile2)
    # twins table
    text = "\n".join(out + tr.out)
    text += "\n/-- every `match` on the threading model whose parallel arm is the sequential arm with rayon adaptors -/\n"
    text += "def parTwins : List (String × Bool) := [" + ", ".join(f'("{n}", {"true" if ok else "false"})' for n, ok in tr.twins) + "]\n"
    text += "\nend Qvnt.Gen2\n"
    if tr.problems:
        for p in tr.problems:
            print("rs2lean2: UNSUPPORTED", p)
        text += "\n/- translator problems:\n" + "\n".join(tr.problems) + "\n-/\n"
    old = open(OUT).read() if os.path.exists(OUT) else None
    if old != text:
        os.makedirs(os.path.dirname(OUT), exist_ok=True)
        open(OUT, "w").write(text)
    if "--write-shapes" in sys.argv and not tr.problems:
        import json
        json.dump(tr.good_sigs, open(os.path.join(os.path.dirname(os.path.abspath(__file__)), "rs2lean2.shapes.json"), "w"), indent=0, sort_keys=True)
    print(f"rs2lean2: {len(tr.out)} definitions, {len(tr.problems)} problems -> {OUT}")
    return 2 if tr.problems else 0


if __name__ == "__main__":
    sys.exit(main())
