"""
rsparse — a recursive-descent parser for the Rust subset used by tools/rs2lean2.py.

It parses *function bodies* (statements, expressions, closures, patterns, match, loops, the
`vec!` macro, ranges, casts, struct literals) into tuples.  Items (impl blocks, traits) are not
parsed: functions are located by name inside an optional `impl ... for Type` context by
scanning tokens.  Anything outside the subset raises Unsupported: the translator never guesses.

Expression nodes
  ("int", value, suffix|None) ("float", text) ("bool", b) ("str", text)
  ("path", [segments]) ("field", e, name) ("index", e, idx)
  ("mcall", recv, name, [args]) ("call", f, [args])
  ("un", op, e) ("bin", op, a, b) ("as", e, type) ("ref", e) ("refmut", e)
  ("tuple", [items]) ("array", [items]) ("range", lo|None, hi|None)
  ("struct", [segments], [(field, e)], base|None)
  ("if", cond, block, else|None) ("iflet", pat, e, block, else|None) ("block", [stmts], tail|None)
  ("closure", [patterns], body) ("match", e, [(pat, guard|None, body)])
  ("vecrep", elem, n) ("veclist", [items])
  ("while", cond, block) ("for", pat, iter, block) ("loop", block)
  ("return", e|None) ("break",) ("continue",) ("macro", name)
Statements
  ("let", pat, type|None, e|None) ("assign", place, op, rhs) ("expr", e)
Patterns
  ("pid", name) ("ptuple", [pats]) ("pwild",) ("pref", pat) ("ppath", [segments], [pats]|None) ("plit", e)
"""
import re


class Unsupported(Exception):
    pass


TOK = re.compile(r"""
    (?P<ws>\s+|//[^\n]*|/\*.*?\*/)
  | (?P<attr>\#!?\[(?:[^\[\]]|\[[^\]]*\])*\])
  | (?P<float>\d[\d_]*\.\d[\d_]*(?:[eE][+-]?\d+)?(?:_?f64)?|\d[\d_]*\.(?![\w.])|\d[\d_]*[eE][+-]?\d+|\d[\d_]*f64)
  | (?P<int>0b[01_]+(?:_?[ui](?:8|16|32|64|size))?|0x[0-9a-fA-F_]+(?:_?[ui](?:8|16|32|64|size))?|\d[\d_]*(?:_?[ui](?:8|16|32|64|size))?)
  | (?P<str>"(?:[^"\\]|\\.)*")
  | (?P<life>'[a-z_]+\b(?!'))
  | (?P<id>[A-Za-z_][A-Za-z0-9_]*)
  | (?P<op><<=|>>=|\.\.=|\.\.|::|->|=>|==|!=|<=|>=|&&|\|\||<<|>>|\+=|-=|\*=|/=|\^=|\|=|&=|%=|[-+*/%&|^!<>=.,;:(){}\[\]#?@$])
""", re.X | re.S)


def tokenize(src):
    out, i = [], 0
    while i < len(src):
        m = TOK.match(src, i)
        if not m:
            raise Unsupported(f"cannot tokenize at {src[i:i+30]!r}")
        i = m.end()
        k = m.lastgroup
        if k == "ws":
            continue
        out.append((k, m.group(k)))
    return out


BINPREC = [("..",), ("||",), ("&&",), ("==", "!=", "<", ">", "<=", ">="), ("|",), ("^",), ("&",), ("<<", ">>"),
           ("+", "-"), ("*", "/", "%")]
ASSIGN_OPS = ("=", "+=", "-=", "*=", "/=", "^=", "|=", "&=", "<<=", ">>=", "%=")


def attr_kind(text):
    t = re.sub(r"\s+", "", text)
    if t == "#[cfg(qvnt_verif)]":
        return "verif"
    if t == "#[cfg(test)]":
        return "test"
    return "other"


class Parser:
    def __init__(self, toks, i=0):
        self.t, self.i = toks, i

    def peek(self, k=0):
        return self.t[self.i + k] if self.i + k < len(self.t) else ("eof", "")

    def at(self, v):
        return self.peek()[1] == v and self.peek()[0] in ("op", "id")

    def eat(self, v=None):
        tok = self.peek()
        if v is not None and tok[1] != v:
            raise Unsupported(f"expected {v!r}, found {tok[1]!r}")
        self.i += 1
        return tok

    def skip_attrs(self):
        """skips attributes; returns True if one of them is #[cfg(qvnt_verif)]"""
        verif = False
        while self.peek()[0] == "attr":
            if attr_kind(self.peek()[1]) == "verif":
                verif = True
            self.i += 1
        return verif

    # ---- types: recorded as text
    def parse_type(self, stop=(",", ")", "{", "=", ";", ">", "|")):
        depth, out = 0, []
        while True:
            k, v = self.peek()
            if k == "eof":
                break
            if depth == 0 and k == "op" and v in stop:
                break
            if v in ("<", "(", "["):
                depth += 1
            if v in (">", ")", "]"):
                depth -= 1
            if v == ">>":
                depth -= 2
            out.append(v + " " if v in ("mut", "dyn") else v); self.i += 1
        return "".join(out)

    # ---- patterns
    def parse_pat(self):
        if self.at("&"):
            self.eat()
            if self.at("mut"):
                self.eat()
            return ("pref", self.parse_pat())
        if self.at("&&"):
            self.eat()
            return ("pref", ("pref", self.parse_pat()))
        if self.at("("):
            self.eat()
            items = []
            alts = None
            while not self.at(")"):
                items.append(self.parse_pat())
                if self.at("|") and len(items) == 1:
                    # `(A | B | C)`: alternatives
                    alts = [items[0]]
                    while self.at("|"):
                        self.eat(); alts.append(self.parse_pat())
                    break
                if self.at(","):
                    self.eat()
            self.eat(")")
            if alts is not None:
                return ("por", alts)
            return items[0] if len(items) == 1 else ("ptuple", items)
        k, v = self.peek()
        if k == "id" and v == "_":
            self.eat()
            return ("pwild",)
        if k in ("int", "float") or (k == "id" and v in ("true", "false")):
            return ("plit", self.parse_primary(True))
        if k == "id":
            if v in ("ref", "mut"):
                self.eat()
                if self.at("mut"):
                    self.eat()
                p = self.parse_pat()
                if v == "ref" and p[0] == "pid":
                    return ("pidref", p[1])
                return p
            segs = [self.eat()[1]]
            while self.at("::"):
                self.eat(); segs.append(self.eat()[1])
            if self.at("("):
                self.eat()
                subs = []
                while not self.at(")"):
                    subs.append(self.parse_pat())
                    if self.at(","):
                        self.eat()
                self.eat(")")
                return ("ppath", segs, subs)
            if len(segs) == 1 and not segs[0][0].isupper():
                if self.at("@"):
                    self.eat()
                    return ("pat_at", segs[0], self.parse_pat())
                return ("pid", segs[0])
            return ("ppath", segs, None)
        raise Unsupported(f"pattern starting with {v!r}")

    # ---- blocks
    def parse_block(self):
        self.eat("{")
        stmts, tail = [], None
        while not self.at("}"):
            if self.peek()[0] == "attr":
                if self.skip_attrs():
                    # a statement compiled only under --cfg qvnt_verif: not part of the crate
                    self.parse_stmt_into([], allow_tail=False)
                continue
            if self.at(";"):
                self.eat(); continue
            t = self.parse_stmt_into(stmts, allow_tail=True)
            if t is not None:
                tail = t
                break
        self.eat("}")
        return ("block", stmts, tail)

    def parse_stmt_into(self, stmts, allow_tail):
        """parses one statement; returns the tail expression if the block ends with it"""
        if self.at("let"):
            self.eat()
            pat = self.parse_pat()
            ty = None
            if self.at(":"):
                self.eat(); ty = self.parse_type(stop=("=", ";"))
            e = None
            if self.at("="):
                self.eat(); e = self.parse_expr()
            self.eat(";")
            stmts.append(("let", pat, ty, e))
            return None
        if self.at("use"):
            while not self.at(";"):
                self.eat()
            self.eat(";")
            return None
        if self.at("const") and self.peek(1)[0] == "id":
            # a local constant: `const NAME: T = EXPR;` reads as an immutable let
            self.eat()
            name = self.eat()[1]
            ty = None
            if self.at(":"):
                self.eat(); ty = self.parse_type(stop=("=", ";"))
            self.eat("=")
            e = self.parse_expr()
            self.eat(";")
            stmts.append(("let", ("pid", name), ty, e))
            return None
        if self.at("fn"):
            self.eat()
            name = self.eat()[1]
            if self.at("<"):
                self.eat(); self._skip_generic()
            self.eat("(")
            params = []
            while not self.at(")"):
                if self.at("mut"):
                    self.eat()
                nm = self.eat()[1]
                self.eat(":")
                params.append((nm, self.parse_type(stop=(",", ")"))))
                if self.at(","):
                    self.eat()
            self.eat(")")
            ret = None
            if self.at("->"):
                self.eat(); ret = self.parse_type(stop=("{", "where"))
            body = self.parse_block()
            stmts.append(("fnitem", name, params, ret, body))
            return None
        blocklike = self.peek()[1] in ("if", "match", "while", "for", "loop", "unsafe", "{") and self.peek()[0] in ("id", "op")
        e = self.parse_expr(stmt=True)
        if self.peek()[0] == "op" and self.peek()[1] in ASSIGN_OPS:
            op = self.eat()[1]
            rhs = self.parse_expr()
            stmts.append(("assign", e, op, rhs))
            if self.at(";"):
                self.eat()
            elif not self.at("}"):
                raise Unsupported("missing ; after assignment")
            return None
        if self.at(";"):
            self.eat()
            stmts.append(("expr", e))
            return None
        if self.at("}"):
            if not allow_tail:
                raise Unsupported("tail expression not allowed here")
            if e[0] in ("while", "for", "loop", "return", "break", "continue"):
                stmts.append(("expr", e))
                return None
            return e
        if blocklike:
            stmts.append(("expr", e))
            return None
        raise Unsupported(f"unexpected token {self.peek()[1]!r} after expression")

    # ---- expressions
    def parse_expr(self, stmt=False, nostruct=False):
        if self.at("return"):
            self.eat()
            if self.at(";") or self.at("}"):
                return ("return", None)
            return ("return", self.parse_expr(nostruct=nostruct))
        if self.at("break"):
            self.eat()
            return ("break",)
        if self.at("continue"):
            self.eat()
            return ("continue",)
        if stmt and self.peek()[0] in ("id", "op") and self.peek()[1] in ("if", "match", "while", "for", "loop", "unsafe"):
            # a block-like expression in statement position ends the statement, unless a method call follows
            e = self.parse_primary(nostruct)
            if self.at("."):
                return self.parse_postfix_from(e, nostruct)
            return e
        return self.parse_bin(0, nostruct)

    def parse_bin(self, lvl, nostruct):
        if lvl == len(BINPREC):
            return self.parse_cast(nostruct)
        if BINPREC[lvl] == ("..",):
            if self.at(".."):
                self.eat()
                if self.peek()[1] in (")", "]", ",", ";", "}") or self.peek()[0] == "eof":
                    return ("range", None, None)
                return ("range", None, self.parse_bin(lvl + 1, nostruct))
            lhs = self.parse_bin(lvl + 1, nostruct)
            if self.at(".."):
                self.eat()
                if self.peek()[1] in (")", "]", ",", ";", "}", "{") or self.peek()[0] == "eof":
                    return ("range", lhs, None)
                return ("range", lhs, self.parse_bin(lvl + 1, nostruct))
            return lhs
        lhs = self.parse_bin(lvl + 1, nostruct)
        while self.peek()[0] == "op" and self.peek()[1] in BINPREC[lvl]:
            op = self.eat()[1]
            rhs = self.parse_bin(lvl + 1, nostruct)
            lhs = ("bin", op, lhs, rhs)
        return lhs

    def parse_cast(self, nostruct):
        e = self.parse_unary(nostruct)
        while self.at("as"):
            self.eat()
            k, v = self.eat()
            if k != "id":
                raise Unsupported("cast target")
            e = ("as", e, v)
        return e

    def parse_unary(self, nostruct):
        if self.peek()[0] == "op" and self.peek()[1] in ("-", "!", "*"):
            op = self.eat()[1]
            return ("un", op, self.parse_unary(nostruct))
        if self.at("&") or self.at("&&"):
            n = 2 if self.at("&&") else 1
            self.eat()
            if self.at("mut"):
                self.eat()
                e = ("refmut", self.parse_unary(nostruct))
            else:
                e = ("ref", self.parse_unary(nostruct))
            return ("ref", e) if n == 2 else e
        if self.at("|") or self.at("||") or self.at("move"):
            return self.parse_closure(nostruct)
        return self.parse_postfix_from(self.parse_primary(nostruct), nostruct)

    def parse_closure(self, nostruct):
        if self.at("move"):
            self.eat()
        pats = []
        if self.at("||"):
            self.eat()
        else:
            self.eat("|")
            while not self.at("|"):
                p = self.parse_pat()
                if self.at(":"):
                    self.eat(); self.parse_type(stop=(",", "|"))
                pats.append(p)
                if self.at(","):
                    self.eat()
            self.eat("|")
        body = self.parse_expr(nostruct=nostruct)
        if self.peek()[0] == "op" and self.peek()[1] in ASSIGN_OPS:
            op = self.eat()[1]
            rhs = self.parse_expr(nostruct=nostruct)
            body = ("block", [("assign", body, op, rhs)], None)
        return ("closure", pats, body)

    def parse_args(self):
        self.eat("(")
        args = []
        while not self.at(")"):
            args.append(self.parse_expr())
            if self.at(","):
                self.eat()
        self.eat(")")
        return args

    def parse_postfix_from(self, e, nostruct):
        while True:
            if self.at("."):
                self.eat()
                k, v = self.eat()
                if k == "int":
                    e = ("field", e, v)
                elif k == "float":
                    # `x.0.1` lexes `0.1` as a float
                    a, b = v.split(".")
                    e = ("field", ("field", e, a), b)
                elif k == "id":
                    if self.at("::"):
                        self.eat(); self.eat("<"); self._skip_generic()
                    if self.at("("):
                        e = ("mcall", e, v, self.parse_args())
                    else:
                        e = ("field", e, v)
                else:
                    raise Unsupported("postfix .")
            elif self.at("["):
                self.eat()
                idx = self.parse_expr()
                self.eat("]")
                e = ("index", e, idx)
            elif self.at("("):
                e = ("call", e, self.parse_args())
            elif self.at("?"):
                self.eat()
                e = ("try", e)
            else:
                return e

    def _skip_generic(self):
        """after `::<` : skip to the matching `>`"""
        depth = 1
        while depth:
            k, v = self.eat()
            if v == "<":
                depth += 1
            elif v == ">":
                depth -= 1
            elif v == ">>":
                depth -= 2
            elif k == "eof":
                raise Unsupported("unterminated generic arguments")

    def parse_primary(self, nostruct):
        k, v = self.peek()
        if k == "int":
            self.eat()
            m = re.match(r"(0b[01_]+|0x[0-9a-fA-F_]+|\d[\d_]*?)_?((?:[ui](?:8|16|32|64|size))?)$", v)
            return ("int", int(m.group(1).replace("_", ""), 0), m.group(2) or None)
        if k == "float":
            self.eat()
            return ("float", v)
        if k == "str":
            self.eat()
            return ("str", v[1:-1])
        if k == "id" and v in ("true", "false"):
            self.eat()
            return ("bool", v == "true")
        if k == "id" and v == "if":
            return self.parse_if()
        if k == "id" and v == "match":
            return self.parse_match()
        if k == "id" and v == "while":
            self.eat()
            c = self.parse_expr(nostruct=True)
            return ("while", c, self.parse_block())
        if k == "id" and v == "for":
            self.eat()
            pat = self.parse_pat()
            self.eat("in")
            it = self.parse_expr(nostruct=True)
            return ("for", pat, it, self.parse_block())
        if k == "id" and v == "loop":
            self.eat()
            return ("loop", self.parse_block())
        if k == "id" and v == "unsafe":
            self.eat()
            return ("unsafe", self.parse_block())
        if k == "op" and v == "{":
            return self.parse_block()
        if k == "op" and v == "[":
            self.eat()
            items = []
            while not self.at("]"):
                items.append(self.parse_expr())
                if self.at(";"):
                    raise Unsupported("array repeat expression")
                if self.at(","):
                    self.eat()
            self.eat("]")
            return ("array", items)
        if k == "op" and v == "(":
            self.eat()
            items, trailing = [], False
            while not self.at(")"):
                items.append(self.parse_expr())
                trailing = False
                if self.at(","):
                    self.eat(); trailing = True
            self.eat(")")
            if len(items) == 1 and not trailing:
                return ("paren", items[0])
            return ("tuple", items)
        if k == "id":
            segs = [self.eat()[1]]
            generic = None
            while self.at("::"):
                self.eat()
                if self.at("<"):
                    self.eat()
                    g0 = self.i
                    self._skip_generic()
                    generic = "".join(t[1] for t in self.t[g0:self.i - 1])
                    continue
                segs.append(self.eat()[1])
            if self.at("!"):
                self.eat()
                return self.parse_macro(segs[-1])
            e = ("path", segs) if generic is None else ("path", segs, generic)
            if self.at("{") and not nostruct and segs[-1][0].isupper():
                return self.parse_struct(segs)
            return e
        raise Unsupported(f"unexpected token {v!r}")

    def parse_macro(self, name):
        if name == "vec":
            self.eat("[")
            if self.at("]"):
                self.eat()
                return ("veclist", [])
            first = self.parse_expr()
            if self.at(";"):
                self.eat()
                n = self.parse_expr()
                self.eat("]")
                return ("vecrep", first, n)
            items = [first]
            while self.at(","):
                self.eat()
                if self.at("]"):
                    break
                items.append(self.parse_expr())
            self.eat("]")
            return ("veclist", items)
        if name in ("format", "write"):
            self.eat("(")
            target = None
            if name == "write":
                target = self.parse_expr()
                self.eat(",")
            k, v = self.eat()
            if k != "str":
                raise Unsupported(f"{name}! without a literal template")
            args = []
            while self.at(","):
                self.eat()
                if self.at(")"):
                    break
                args.append(self.parse_expr())
            self.eat(")")
            return ("format", v[1:-1], args, target)
        if name == "single_op_checked":
            self.eat("(")
            e = self.parse_expr()
            self.eat(")")
            return ("checked", e)
        # any other macro: skip its delimited argument
        open_ = self.eat()[1]
        close = {"(": ")", "[": "]", "{": "}"}.get(open_)
        if close is None:
            raise Unsupported(f"macro {name}!")
        depth = 1
        while depth:
            k, v = self.eat()
            if v == open_:
                depth += 1
            elif v == close:
                depth -= 1
            elif k == "eof":
                raise Unsupported("unterminated macro")
        return ("macro", name)

    def parse_struct(self, segs):
        self.eat("{")
        fields, base = [], None
        while not self.at("}"):
            self.skip_attrs()
            if self.at(".."):
                self.eat()
                base = self.parse_expr()
            else:
                name = self.eat()[1]
                if self.at(":"):
                    self.eat()
                    fields.append((name, self.parse_expr()))
                else:
                    fields.append((name, ("path", [name])))
            if self.at(","):
                self.eat()
        self.eat("}")
        return ("struct", segs, fields, base)

    def parse_if(self):
        self.eat("if")
        if self.at("let"):
            self.eat()
            pat = self.parse_pat()
            self.eat("=")
            e = self.parse_expr(nostruct=True)
            then = self.parse_block()
            els = None
            if self.at("else"):
                self.eat()
                els = self.parse_if() if self.at("if") else self.parse_block()
            return ("iflet", pat, e, then, els)
        cond = self.parse_expr(nostruct=True)
        then = self.parse_block()
        els = None
        if self.at("else"):
            self.eat()
            els = self.parse_if() if self.at("if") else self.parse_block()
        return ("if", cond, then, els)

    def parse_match(self):
        self.eat("match")
        e = self.parse_expr(nostruct=True)
        self.eat("{")
        arms = []
        while not self.at("}"):
            self.skip_attrs()
            pats = [self.parse_pat()]
            while self.at("|"):
                self.eat(); pats.append(self.parse_pat())     # `A | B => body`: one arm per alternative, same body
            guard = None
            if self.at("if"):
                self.eat(); guard = self.parse_expr(nostruct=True)
            self.eat("=>")
            body = self.parse_expr(stmt=True)
            pat = pats[0]
            extra_arms = [(p2, guard, None) for p2 in pats[1:]]
            if self.at(","):
                self.eat()
            arms.append((pat, guard, body))
            for p2, g2, _ in extra_arms:
                arms.append((p2, g2, body))
        self.eat("}")
        return ("match", e, arms)


# ------------------------------------------------------------------------------------------
# locating functions

def _match_close(toks, j):
    """index just past the `}` matching the `{` at toks[j]"""
    d = 0
    while True:
        v = toks[j][1] if toks[j][0] == "op" else None
        if v == "{":
            d += 1
        elif v == "}":
            d -= 1
            if d == 0:
                return j + 1
        j += 1


def impl_ranges(toks):
    """[(header text, start, end)] for every top-level-ish `impl ... {` block (headers as joined tokens)"""
    out, i = [], 0
    while i < len(toks):
        if toks[i] == ("id", "impl"):
            j = i
            while toks[j][1] != "{" or toks[j][0] != "op":
                j += 1
            end = _match_close(toks, j)
            out.append((" ".join(t[1] for t in toks[i:j]), j, end))
            i = j + 1
        else:
            i += 1
    return out


def skip_cfg_items(toks):
    """drop items (fn / impl / mod / use / statements) guarded by #[cfg(qvnt_verif)] or #[cfg(test)] at item level"""
    out, i = [], 0
    while i < len(toks):
        k, v = toks[i]
        if k == "attr" and attr_kind(v) in ("verif", "test"):
            # skip following attrs, then one item: up to `;` at depth 0 or a balanced {...}
            j = i + 1
            while toks[j][0] == "attr":
                j += 1
            d = 0
            while True:
                tv = toks[j][1] if toks[j][0] == "op" else None
                if tv in ("(", "[", "{"):
                    d += 1
                elif tv in (")", "]", "}"):
                    d -= 1
                    if d == 0 and tv == "}":
                        j += 1
                        break
                elif tv == ";" and d == 0:
                    j += 1
                    break
                j += 1
            i = j
            continue
        out.append(toks[i]); i += 1
    return out


def find_fn(toks, name, impl=None, nth=0):
    """(params [(name, type)], ret type text|None, body AST) of `fn name`, optionally inside the impl block whose
    header matches the regex `impl`; raises Unsupported if absent"""
    lo, hi = 0, len(toks)
    if impl is not None:
        rs = [(a, b) for h, a, b in impl_ranges(toks) if re.fullmatch(impl, h)]
        if not rs:
            raise Unsupported(f"impl block /{impl}/ not found")
    else:
        rs = [(lo, hi)]
    seen = 0
    for lo, hi in rs:
        i = lo
        while i < hi - 1:
            if toks[i] == ("id", "fn") and toks[i + 1] == ("id", name):
                if seen < nth:
                    seen += 1; i += 1; continue
                p = Parser(toks, i + 2)
                if p.at("<"):
                    p.eat(); p._skip_generic()
                p.eat("(")
                params = []
                while not p.at(")"):
                    p.skip_attrs()
                    ref = False
                    if p.at("&"):
                        p.eat(); ref = True
                        if p.peek()[0] == "life":
                            p.eat()
                    mut = False
                    if p.at("mut"):
                        p.eat(); mut = True
                    if p.at("("):
                        pat = p.parse_pat()
                        nm = pat
                    else:
                        nm = p.eat()[1]
                    ty = None
                    if p.at(":"):
                        p.eat(); ty = p.parse_type(stop=(",", ")"))
                    elif nm == "self":
                        ty = "&mut Self" if (ref and mut) else ("&Self" if ref else "Self")
                    params.append((nm, ty))
                    if p.at(","):
                        p.eat()
                p.eat(")")
                ret = None
                if p.at("->"):
                    p.eat(); ret = p.parse_type(stop=("{", "where"))
                if p.at("where"):
                    while not p.at("{"):
                        p.eat()
                body = p.parse_block()
                return params, ret, body
            i += 1
    raise Unsupported(f"fn {name} not found" + (f" in impl /{impl}/" if impl else ""))
