#!/usr/bin/env python3
"""
Split a Lean lemma file into one module per top-level declaration (development tool, run by hand).

  tools/lean_split.py lean/Qvnt/Lemmas/GenQuant.lean [...]

Why: the equalities `translated source = model` are obligations of different properties. Lean compiles a module as a
whole, so one equality that no longer holds made every other equality of the same file (and of every file importing it)
uncheckable, and properties that do not rely on the broken one reported a violation as well. After the split each
declaration D of `X.lean` lives in `X/D.lean`, importing the external imports of `X.lean` and the modules of the earlier
declarations of `X.lean` whose names occur in D; `X.lean` becomes an umbrella importing all of them. A property then
depends on a broken equality exactly when one of the equalities it names is (transitively) proved from it.

The context of a declaration (`namespace`, `open`, `variable`, `set_option`, `section`) is replayed in its module.
`macro` / `syntax` / `notation` declarations are not handled: keep them in a file of their own.
"""
import os, re, sys

KW = r"(?:@\[[^\]]*\]\s*)*(?:private\s+|protected\s+|noncomputable\s+)*(theorem|lemma|def|abbrev|instance|structure|inductive|example)\b"


def split_file(path):
    src = open(path).read()
    lines = src.split("\n")
    base = os.path.splitext(path)[0]
    modbase = os.path.relpath(base, os.path.join(os.path.dirname(path), "..", "..")).replace(os.sep, ".")
    # ---- tokenise into top-level items
    items = []           # (kind, text)
    i = 0
    n = len(lines)
    def is_start(l):
        return bool(re.match(r"(/--|/-!|/-|import |namespace |end\b|section\b|open |variable|set_option |omit |" + KW + ")", l))
    while i < n:
        l = lines[i]
        if not l.strip():
            i += 1; continue
        j = i
        if l.startswith("/-"):
            # comment block (doc or not) up to its end
            depth = 0
            while j < n:
                depth += lines[j].count("/-") - lines[j].count("-/")
                j += 1
                if depth <= 0:
                    break
            items.append(("comment", "\n".join(lines[i:j]))); i = j; continue
        # a command: until the next column-0 start line
        j = i + 1
        while j < n and not (lines[j] and not lines[j][0].isspace() and is_start(lines[j])):
            j += 1
        text = "\n".join(lines[i:j]).rstrip()
        m = re.match(KW, l)
        if l.startswith("import "):
            kind = "import"
        elif m:
            kind = "decl"
        elif re.match(r"(macro|syntax|notation|elab)\b", l):
            raise SystemExit(f"{path}: {l.split()[0]} declarations are not handled; move them to a file of their own")
        else:
            kind = "ctx"
        items.append((kind, text)); i = j
    # ---- walk, keeping the context stack
    imports = [t for k, t in items if k == "import"]
    header_comment = items[0][1] if items and items[0][0] == "comment" and items[0][1].startswith("/-\n") else None
    ctx = []             # list of scopes; each scope = list of context lines (first = opener or None)
    ctx.append([])
    decls = []           # (name, modname, text_with_doc, context_text, closers)
    pending_doc = None
    for k, t in items:
        if k == "import":
            continue
        if k == "comment":
            pending_doc = t if t.startswith("/--") else None
            continue
        if k == "ctx":
            head = t.split()[0]
            if head in ("section", "namespace"):
                ctx.append([t])
            elif head == "end":
                ctx.pop()
            else:
                ctx[-1].append(t)
            pending_doc = None
            continue
        m = re.match(KW + r"\s+([^\s:({\[]+)", t)
        if not m:
            raise SystemExit(f"{path}: cannot find the name of: {t[:80]}")
        name = m.group(2)
        fname = name.replace("'", "_p").replace(".", "_")
        opens, closes = [], []
        for sc in ctx:
            for line in sc:
                opens.append(line)
            if sc and sc[0].split()[0] in ("section", "namespace"):
                parts = sc[0].split()
                closes.append("end" + ((" " + parts[1]) if len(parts) > 1 else ""))
        decls.append({"name": name, "file": fname, "text": ((pending_doc + "\n") if pending_doc else "") + t,
                      "open": "\n".join(opens), "close": "\n".join(reversed(closes))})
        pending_doc = None
    # ---- dependencies by name
    outdir = base
    os.makedirs(outdir, exist_ok=True)
    for f in os.listdir(outdir):
        if f.endswith(".lean"):
            os.remove(os.path.join(outdir, f))
    seen = {}
    for d in decls:
        deps = []
        body = d["text"]
        for prev in decls:
            if prev is d:
                break
            last = prev["name"].split(".")[-1]
            if re.search(r"(?<![\w.'])" + re.escape(prev["name"]) + r"(?![\w'])", body) or \
               ("." in prev["name"] and re.search(r"\." + re.escape(last) + r"(?![\w'])", body)):
                deps.append(prev)
        if d["file"] in seen:
            raise SystemExit(f"{path}: two declarations named {d['name']}")
        seen[d["file"]] = 1
        out = f"/- `{d['name']}` of {os.path.basename(path)} (one module per declaration, tools/lean_split.py) -/\n"
        out += "\n".join(imports) + "\n"
        out += "".join(f"import {modbase}.{p['file']}\n" for p in deps)
        out += "\n" + d["open"] + "\n\n" + d["text"] + "\n\n" + d["close"] + "\n"
        open(os.path.join(outdir, d["file"] + ".lean"), "w").write(out)
    umb = (header_comment + "\n") if header_comment else ""
    umb += "".join(f"import {modbase}.{d['file']}\n" for d in decls)
    open(path, "w").write(umb)
    print(f"{path}: {len(decls)} modules under {outdir}/")


if __name__ == "__main__":
    for p in sys.argv[1:]:
        split_file(p)
