#!/usr/bin/env python3
"""
Split a Lean lemma file into one module per top-level declaration (development tool, run by hand).

  tools/lean_split.py FILE.lean [...]      files in dependency order; `=FILE.lean` only narrows the imports of FILE

Why: the equalities `translated source = model` are obligations of different properties. Lean compiles a module as a
whole, so one equality that no longer holds made every other equality of the same file (and of every file importing it)
uncheckable, and properties that do not rely on the broken one reported a violation as well. After the split each
declaration D of `X.lean` lives in `X/D.lean`, importing the external imports of `X.lean` and the modules of the earlier
declarations of `X.lean` whose names occur in D; `X.lean` becomes an umbrella importing all of them. A property then
depends on a broken equality exactly when one of the equalities it names is (transitively) proved from it.

The context of a declaration (`namespace`, `open`, `variable`, `set_option`, `section`) is replayed in its module.
`macro` / `syntax` / `notation` declarations are not handled: keep them in a file of their own.
"""
import os, re, sys

KW = r"(?:@\[[^\]]*\]\s*)*(?:private\s+|protected\s+|noncomputable\s+)*(theorem|lemma|def|abbrev|instance|structure|inductive|example)\b"


REGISTRY = {}      # umbrella module -> {"decls": [(name, chunk module)], "imports": [module names]}


def occurs(name, body):
    last = name.split(".")[-1]
    return bool(re.search(r"(?<![\w.'])" + re.escape(name) + r"(?![\w'])", body)) or \
        ("." in name and bool(re.search(r"\." + re.escape(last) + r"(?![\w'])", body)))


def resolve(mod, body, acc):
    """the modules to import instead of the umbrella `mod`: its chunks whose names occur in `body`, and (recursively) what
    the umbrella itself imports from outside"""
    if mod not in REGISTRY:
        if mod not in acc:
            acc.append(mod)
        return
    r = REGISTRY[mod]
    for i in r["imports"]:
        resolve(i, body, acc)
    if r.get("self") and mod not in acc:
        acc.append(mod)
    for name, cm in r["decls"]:
        if occurs(name, body) and cm not in acc:
            acc.append(cm)


def narrow_imports(path):
    """keep the file, replace imports of split umbrellas by the chunks it names"""
    src = open(path).read()
    imps = re.findall(r"^import (\S+)", src, re.M)
    body = re.sub(r"^import \S+\n", "", src, flags=re.M)
    acc = []
    for i in imps:
        resolve(i, body, acc)
    modname = os.path.relpath(os.path.splitext(path)[0], os.path.join(os.path.dirname(path), "..", "..")).replace(os.sep, ".")
    REGISTRY[modname] = {"decls": [], "imports": imps, "self": True}
    head_end = src.index("import ")
    open(path, "w").write(src[:head_end] + "".join(f"import {m}\n" for m in acc) + body[head_end:])
    print(f"{path}: imports narrowed to {len(acc)} modules")


def split_file(path):
    src = open(path).read()
    lines = src.split("\n")
    base = os.path.splitext(path)[0]
    modbase = os.path.relpath(base, os.path.join(os.path.dirname(path), "..", "..")).replace(os.sep, ".")
    # ---- tokenise into top-level items
    items = []           # (kind, text)
    i = 0
    n = len(lines)
    def is_start(l):
        return bool(re.match(r"(/--|/-!|/-|import |namespace |end\b|section\b|open |variable|set_option |omit |" + KW + ")", l))
    while i < n:
        l = lines[i]
        if not l.strip():
            i += 1; continue
        j = i
        if l.startswith("/-"):
            # comment block (doc or not) up to its end
            depth = 0
            while j < n:
                depth += lines[j].count("/-") - lines[j].count("-/")
                j += 1
                if depth <= 0:
                    break
            items.append(("comment", "\n".join(lines[i:j]))); i = j; continue
        # a command: until the next column-0 start line
        j = i + 1
        while j < n and not (lines[j] and not lines[j][0].isspace() and is_start(lines[j])):
            j += 1
        text = "\n".join(lines[i:j]).rstrip()
        m = re.match(KW, l)
        if re.match(r"(omit|open)\b.*\bin\s*$", l) and j == i + 1 and j < n:
            # `omit [..] in` / `open .. in`: a prefix of the next declaration
            k2 = j + 1
            while k2 < n and not (lines[k2] and not lines[k2][0].isspace() and is_start(lines[k2])):
                k2 += 1
            items.append(("decl", "\n".join(lines[i:k2]).rstrip())); i = k2; continue
        if l.startswith("import "):
            kind = "import"
        elif m:
            kind = "decl"
        elif re.match(r"(macro|syntax|notation|elab)\b", l):
            raise SystemExit(f"{path}: {l.split()[0]} declarations are not handled; move them to a file of their own")
        else:
            kind = "ctx"
        items.append((kind, text)); i = j
    # ---- walk, keeping the context stack
    imports = [t.split()[1] for k, t in items if k == "import"]
    header_comment = items[0][1] if items and items[0][0] == "comment" and items[0][1].startswith("/-\n") else None
    ctx = []             # list of scopes; each scope = list of context lines (first = opener or None)
    ctx.append([])
    decls = []           # (name, modname, text_with_doc, context_text, closers)
    pending_doc = None
    for k, t in items:
        if k == "import":
            continue
        if k == "comment":
            pending_doc = t if t.startswith("/--") else None
            continue
        if k == "ctx":
            head = t.split()[0]
            if head in ("section", "namespace"):
                ctx.append([t])
            elif head == "end":
                ctx.pop()
            else:
                ctx[-1].append(t)
            pending_doc = None
            continue
        m = re.match(r"(?:(?:omit|open)\b[^\n]*\bin\s*\n)?" + KW + r"\s+([^\s:({\[]+)", t)
        if not m:
            raise SystemExit(f"{path}: cannot find the name of: {t[:80]}")
        name = m.group(2)
        fname = name.replace("'", "_p").replace(".", "_").replace("?", "_q")
        opens, closes = [], []
        for sc in ctx:
            for line in sc:
                opens.append(line)
            if sc and sc[0].split()[0] in ("section", "namespace"):
                parts = sc[0].split()
                closes.append("end" + ((" " + parts[1]) if len(parts) > 1 else ""))
        decls.append({"name": name, "file": fname, "text": ((pending_doc + "\n") if pending_doc else "") + t,
                      "open": "\n".join(opens), "close": "\n".join(reversed(closes))})
        pending_doc = None
    # ---- dependencies by name
    outdir = base
    os.makedirs(outdir, exist_ok=True)
    for f in os.listdir(outdir):
        if f.endswith(".lean"):
            os.remove(os.path.join(outdir, f))
    seen = {}
    for d in decls:
        body = d["open"] + "\n" + d["text"]
        deps = [prev for prev in decls[:decls.index(d)] if occurs(prev["name"], d["text"])]
        if d["file"] in seen:
            raise SystemExit(f"{path}: two declarations named {d['name']}")
        seen[d["file"]] = 1
        acc = []
        for i in imports:
            resolve(i, body, acc)
        out = f"/- `{d['name']}` of {os.path.basename(path)} (one module per declaration, tools/lean_split.py) -/\n"
        out += "".join(f"import {m}\n" for m in acc)
        out += "".join(f"import {modbase}.{p['file']}\n" for p in deps)
        out += "\n" + d["open"] + "\n\n" + d["text"] + "\n\n" + d["close"] + "\n"
        open(os.path.join(outdir, d["file"] + ".lean"), "w").write(out)
    REGISTRY[modbase] = {"decls": [(d["name"], f"{modbase}.{d['file']}") for d in decls], "imports": imports}
    umb = (header_comment + "\n") if header_comment else ""
    umb += "".join(f"import {modbase}.{d['file']}\n" for d in decls)
    open(path, "w").write(umb)
    print(f"{path}: {len(decls)} modules under {outdir}/")


if __name__ == "__main__":
    for p in sys.argv[1:]:
        if p.startswith("="):
            narrow_imports(p[1:])
        else:
            split_file(p)
