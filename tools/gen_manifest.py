#!/usr/bin/env python3
"""Rewrite /verif/MANIFEST.json from tools/props.py (claimed checks) and properties.jsonl."""
import json, os, subprocess, sys
ROOT = os.path.dirname(os.path.dirname(os.path.abspath(__file__)))
sys.path.insert(0, os.path.join(ROOT, "tools"))
from props import PROPS
try:
    from props import NOT_APPLICABLE
except ImportError:
    NOT_APPLICABLE = {}

ids = [json.loads(l)["id"] for l in open(os.path.join(ROOT, "properties.jsonl"))]
hooks = subprocess.run(["git", "-C", "/repo", "log", "--format=%H %s"], capture_output=True, text=True).stdout.splitlines()
hook_commits = [l.split()[0] for l in hooks if l.split(" ", 1)[1].startswith("verif hooks")]
checks = []
for pid in ids:
    if pid not in PROPS:
        continue
    c = PROPS[pid]
    checks.append({
        "property_id": pid,
        "quick_cmd": f"./check {pid} --tier quick",
        "thorough_cmd": f"./check {pid} --tier thorough",
        "evidence_file": f"/verif/evidence/{pid}.json",
        "replay_cmd_template": f"./check {pid} --replay {{path}}",
        "engine": "lean4-proof+correspondence",
        "level_claimed": {"category": "proof", "text": c["level_text"], "design_ref": c.get("design_ref", "DESIGN.md section 5")},
        "level_note": c["level_note"],
        "technique": c["technique"],
    })
na = []
for pid in ids:
    if pid not in PROPS:
        na.append({"property_id": pid, "reason": NOT_APPLICABLE.get(pid,
            "not claimed yet: the Lean model / correspondence for this property is still being built (DESIGN.md section 8 gives the order of work); the technique applies")})
m = {
    "version": 1,
    "setup_cmd": "./setup.sh",
    "hooks": {
        "guard": "qvnt_verif",
        "enable": "RUSTFLAGS --cfg qvnt_verif, set in /verif/harness/.cargo/config.toml; ./check builds /verif/harness (path dependency on /repo) with it",
        "baseline_off_cmd": "cd /repo && cargo test --workspace --no-fail-fast --offline",
        "source_commits": hook_commits,
        "add_only": False,
        "note": "every hook is new code under #[cfg(qvnt_verif)] except one rewritten line: `use std::sync::{Arc, RwLock};` in src/threads.rs is split into `use std::sync::Arc;` + `#[cfg(not(qvnt_verif))] use std::sync::RwLock;` so that the lock can be replaced by the logging stand-in of verif::pool when the guard is on (an explicit import cannot be shadowed); with the guard off the module is token-for-token what it was",
    },
    "engines": [{
        "name": "lean4-proof+correspondence",
        "path": "/verif/check",
        "serves_properties": [c["property_id"] for c in checks],
        "kind_free_text": "Lean 4 theorems about a hand-written model (lean/Qvnt/Model) and reference semantics (lean/Qvnt/Spec); model tied to /repo on every run by a differential correspondence check (harness/ + lean/Driver.lean) and by translators: tools/rs2lean.py regenerates the atomic kernels, the sweep of dispatch.rs, math::rotate and the classical-register functions from the Rust source on every run and Lemmas/GenKernels.lean, GenRegs.lean prove them equal to the model; tools/rs2lean2.py regenerates the register operations of quant.rs, SingleOp / MultiOp (apply with its buffer ping-pong, act_on, dgr, c, *=), BitsIter::next, multi::h::h and the remaining class.rs functions, and Lemmas/GenRegs2.lean proves each equal to the model; tools/extract.py regenerates the interpreter's gate table and constants; the thread-pool transition system (Model/Pool.lean) is tied to src/threads.rs by trace conformance: the event log of the cfg(qvnt_verif) lock / pool stand-ins is replayed through the model's step relation on every run (Pool.conforms, soundness C19_trace_sound)",
    }],
    "checks": checks,
    "notes": "See DESIGN.md. Genuine defects found are repaired by 'fix:' commits in /repo or listed in KNOWN_FINDINGS.json.",
    "not_applicable": na,
}
json.dump(m, open(os.path.join(ROOT, "MANIFEST.json"), "w"), indent=1)
print("claimed:", [c["property_id"] for c in checks])
