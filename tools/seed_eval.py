#!/usr/bin/env python3
"""
Confirm a seeded change and run the checks against it.

  tools/seed_eval.py harvest <worktree> <name> <property>   copy patch + demo from a scratch
        worktree into /verif/seeded/<name>/, after confirming there that the crate builds, the
        existing tests pass and the demo fails with / passes without the change
  tools/seed_eval.py run <name> [PROP ...]                   apply seeded/<name>/patch.diff to
        /repo, run the quick checks (all claimed, or the listed ones), undo, record verdicts
"""
import json, os, subprocess, sys, time
ROOT = os.path.dirname(os.path.dirname(os.path.abspath(__file__)))
ENV = dict(os.environ, CARGO_NET_OFFLINE="true", RUST_BACKTRACE="0",
           VERIF_EVIDENCE_DIR=os.path.join(ROOT, "work", "seed_evidence"), VERIF_REPLAYS_DIR=os.path.join(ROOT, "work", "seed_replays"))


def sh(cmd, cwd=None, timeout=3600):
    p = subprocess.run(cmd, cwd=cwd, env=ENV, shell=isinstance(cmd, str), stdout=subprocess.PIPE, stderr=subprocess.STDOUT, text=True, timeout=timeout)
    return p.returncode, p.stdout


def harvest(wt, name, prop):
    out = os.path.join(ROOT, "seeded", name)
    os.makedirs(out, exist_ok=True)
    log = []
    rc, diff = sh("git diff -- src Cargo.toml", cwd=wt)
    if not diff.strip():
        print("no source change in", wt); sys.exit(1)
    open(os.path.join(out, "patch.diff"), "w").write(diff)
    demo = os.path.join(wt, "tests", "demo_mutation.rs")
    feats = "--features multi-thread,interpreter"
    ran = []
    def run(label, cmd, expect_ok):
        rc, o = sh(cmd.split(" 2>&1")[0], cwd=wt)
        o = "\n".join(o.splitlines()[-40:])
        ok = (rc == 0) == expect_ok
        tail = [l for l in o.splitlines() if l.startswith("test result") or "panicked" in l or "error" in l.lower()][:6]
        ran.append({"what": label, "cmd": cmd, "rc": rc, "as_expected": ok, "tail": tail})
        print(("ok   " if ok else "FAIL ") + label, "rc=", rc)
        return ok
    good = True
    # keep the demo out of the way while running the existing suite
    good &= run("existing unit tests pass with the change (default features)", "cargo test --offline --lib", True)
    good &= run("existing doc tests pass with the change (default features)", "cargo test --offline --doc", True)
    good &= run("crate builds with all features", f"cargo build --offline {feats} 2>&1 | tail -5", True)
    good &= run("existing tests pass with the change (all features)", f"cargo test --offline --lib {feats} 2>&1 | tail -30", True)
    if os.path.exists(demo):
        import shutil
        shutil.copy(demo, os.path.join(out, "demo_mutation.rs"))
        good &= run("demo fails with the change", f"cargo test --offline {feats} --test demo_mutation 2>&1 | tail -30", False)
        # (no git stash: the stash is shared by all worktrees of the repository)
        sh(["git", "apply", "-R", os.path.join(out, "patch.diff")], cwd=wt)
        good &= run("demo passes without the change", f"cargo test --offline {feats} --test demo_mutation 2>&1 | tail -30", True)
        sh(["git", "apply", os.path.join(out, "patch.diff")], cwd=wt)
    else:
        good = False
        print("no demo file")
    md = os.path.join(wt, "MUTATION.md")
    if os.path.exists(md):
        import shutil
        shutil.copy(md, os.path.join(out, "MUTATION.md"))
    meta = {"name": name, "breaks_property": prop, "confirmed": good, "confirmation_runs": ran,
            "needs_to_manifest": "see MUTATION.md", "check_results": {}}
    json.dump(meta, open(os.path.join(out, "meta.json"), "w"), indent=1)
    print("harvested into", out, "confirmed =", good)
    return good


def run(name, props):
    d = os.path.join(ROOT, "seeded", name)
    meta = json.load(open(os.path.join(d, "meta.json")))
    rc, st = sh("git status --porcelain", cwd="/repo")
    if st.strip():
        print("/repo is not clean:", st); sys.exit(1)
    rc, o = sh(["git", "-C", "/repo", "apply", os.path.join(d, "patch.diff")])
    if rc != 0:
        print("patch does not apply:", o); sys.exit(1)
    try:
        if not props:
            sys.path.insert(0, os.path.join(ROOT, "tools"))
            from props import PROPS
            props = sorted(PROPS)
        for p in props:
            t0 = time.time()
            rc, o = sh([os.path.join(ROOT, "check"), p, "--tier", "quick"], cwd=ROOT, timeout=3600)
            viol = [l for l in o.splitlines() if l.startswith("VIOLATION")]
            meta["check_results"][p] = {"exit": rc, "violation_line": viol[0] if viol else None, "wall_s": round(time.time() - t0, 1)}
            print(p, "exit", rc, viol[0] if viol else "")
            if viol:
                # keep the replay next to the seed
                path = viol[0].split("replay=")[1].split()[0]
                if os.path.exists(path):
                    import shutil
                    shutil.copy(path, os.path.join(d, f"replay-{p}.trace"))
    finally:
        sh("git -C /repo checkout -- .")
        sh("git -C /repo clean -fdq tests", cwd="/repo")
    meta["caught_by"] = sorted(p for p, r in meta["check_results"].items() if r["exit"] != 0)
    json.dump(meta, open(os.path.join(d, "meta.json"), "w"), indent=1)
    print("caught by:", meta["caught_by"])


def evalcopy(names, props):
    """run the quick checks against seeded changes in a private copy of /verif and a scratch worktree of /repo
    (so that /repo and /verif stay free meanwhile); results go to seeded/<name>/meta.json as with `run`"""
    base = os.environ.get("VERIF_EVAL_DIR", "/tmp/evalcopy")
    vr, rp = os.path.join(base, "verif"), os.path.join(base, "repo")
    os.makedirs(base, exist_ok=True)
    if os.path.exists(rp):
        sh(["git", "-C", "/repo", "worktree", "remove", "--force", rp])
    sh(["git", "-C", "/repo", "worktree", "add", "--detach", rp, "HEAD"])
    sh(["rsync", "-a", "--delete", "--exclude", "work", "--exclude", ".git", ROOT + "/", vr + "/"])
    ct = os.path.join(vr, "harness", "Cargo.toml")
    txt = open(ct).read().replace('path = "/repo"', f'path = "{rp}"')
    open(ct, "w").write(txt)
    env = dict(ENV, VERIF_REPO=rp, QVNT_REPO=rp,
               VERIF_EVIDENCE_DIR=os.path.join(vr, "work", "seed_evidence"), VERIF_REPLAYS_DIR=os.path.join(vr, "work", "seed_replays"))
    explicit = bool(props)
    if not props:
        sys.path.insert(0, os.path.join(ROOT, "tools"))
        from props import PROPS
        props = sorted(PROPS)
    for name in names:
        d = os.path.join(ROOT, "seeded", name)
        meta = json.load(open(os.path.join(d, "meta.json")))
        p0 = subprocess.run(["git", "-C", rp, "apply", os.path.join(d, "patch.diff")], capture_output=True, text=True)
        if p0.returncode != 0:
            print(name, "patch does not apply:", p0.stderr[:300]); continue
        if explicit:
            meta.setdefault("check_results", {})     # re-evaluation of some checks: the others keep their recorded result
        else:
            meta["check_results"] = {}
        for p in props:
            t0 = time.time()
            q = subprocess.run([os.path.join(vr, "check"), p, "--tier", "quick"], cwd=vr, env=env, stdout=subprocess.PIPE, stderr=subprocess.STDOUT, text=True, timeout=3600)
            viol = [l for l in q.stdout.splitlines() if l.startswith("VIOLATION")]
            meta["check_results"][p] = {"exit": q.returncode, "violation_line": viol[0].replace(vr, ROOT) if viol else None, "wall_s": round(time.time() - t0, 1)}
            if viol:
                path = viol[0].split("replay=")[1].split()[0]
                if os.path.exists(path):
                    import shutil
                    shutil.copy(path, os.path.join(d, f"replay-{p}.trace"))
        subprocess.run(["git", "-C", rp, "checkout", "--", "."])
        meta["caught_by"] = sorted(p for p, r in meta["check_results"].items() if r["exit"] != 0)
        meta["evaluated_in"] = "private copy of /verif + scratch worktree of /repo (tools/seed_eval.py evalcopy)"
        json.dump(meta, open(os.path.join(d, "meta.json"), "w"), indent=1)
        print(name, "breaks", meta.get("breaks_property"), "caught by:", meta["caught_by"], flush=True)
    sh(["git", "-C", "/repo", "worktree", "remove", "--force", rp])
    sh(["rm", "-rf", base])


if __name__ == "__main__":
    if sys.argv[1] == "evalcopy":
        names = [a for a in sys.argv[2:] if not (a.startswith("C") and len(a) == 3)]
        evalcopy(names, [a for a in sys.argv[2:] if a.startswith("C") and len(a) == 3])
        sys.exit(0)
    if sys.argv[1] == "harvest":
        sys.exit(0 if harvest(sys.argv[2], sys.argv[3], sys.argv[4]) else 1)
    elif sys.argv[1] == "run":
        run(sys.argv[2], sys.argv[3:])
