#!/usr/bin/env python3
"""
rs2lean — a translator for the straight-line subset of Rust that qvnt's kernels are written in.

It regenerates, on every run, Lean definitions from the *current* text of
  src/operator/atomic/{id,x,y,z,s,t,rx,ry,rz,rxx,ryy,rzz,h1,h2,swap,i_swap,sqrt_swap,sqrt_i_swap}.rs
      (new, atomic_op, is_valid, acts_on, dgr),
  src/math/mod.rs (rotate, count_bits),
  src/operator/atomic/dispatch.rs (the closure bodies of for_each / for_each_par),
  src/register/class.rs (mask_of, with_state, set_num, reset, set, xor, tensor_prod, get)
into lean/Qvnt/Generated/Kernels.lean.  lean/Qvnt/Lemmas/GenKernels.lean then proves every
generated definition equal to the hand-written MODEL definition the property theorems are about
(over any commutative ring), so a change of a kernel's arithmetic breaks a proof obligation at
build time.

Supported Rust: `let [mut] x [: T] = e;`, tuples (scalar-replaced), assignments and compound
assignments to variables / fields / tuple components, `if` as statement and as expression,
`std::mem::swap(&mut a, &mut b)`, struct literals with shorthand and `..base`, method calls
count_ones / wrapping_add / wrapping_sub / conj / scale / cos / sin, `as` casts between integer
types, the operators `+ - * / & | ^ << >> ! == != < <= > >= && ||`, slices indexed by an integer.
Anything else makes the translator fail loudly (exit 2, message naming file and function): it
never guesses.
"""
import os, re, sys

REPO = os.environ.get("QVNT_REPO", "/repo")
ROOT = os.path.dirname(os.path.dirname(os.path.abspath(__file__)))
OUT = os.path.join(ROOT, "lean", "Qvnt", "Generated", "Kernels.lean")


class Unsupported(Exception):
    pass


# ------------------------------------------------------------------------------------------
# tokens

TOK = re.compile(r"""
    (?P<ws>\s+|//[^\n]*|/\*.*?\*/)
  | (?P<attr>\#!?\[[^\]]*\])
  | (?P<float>\d[\d_]*\.\d[\d_]*(?:[eE][+-]?\d+)?(?:_?f64)?|\d[\d_]*\.(?![\w.])|\d[\d_]*[eE][+-]?\d+)
  | (?P<int>0b[01_]+(?:_?[ui](?:8|16|32|64|size))?|0x[0-9a-fA-F_]+(?:_?[ui](?:8|16|32|64|size))?|\d[\d_]*(?:_?[ui](?:8|16|32|64|size))?)
  | (?P<str>"(?:[^"\\]|\\.)*")
  | (?P<life>'[a-z_]+\b(?!'))
  | (?P<id>[A-Za-z_][A-Za-z0-9_]*)
  | (?P<op><<=|>>=|\.\.=|\.\.|::|->|=>|==|!=|<=|>=|&&|\|\||<<|>>|\+=|-=|\*=|/=|\^=|\|=|&=|%=|[-+*/%&|^!<>=.,;:(){}\[\]#?@])
""", re.X | re.S)


def tokenize(src):
    out, i = [], 0
    while i < len(src):
        m = TOK.match(src, i)
        if not m:
            raise Unsupported(f"cannot tokenize at {src[i:i+30]!r}")
        i = m.end()
        k = m.lastgroup
        if k in ("ws", "attr"):
            continue
        out.append((k, m.group(k)))
    return out


# ------------------------------------------------------------------------------------------
# parser (expressions with Rust's precedences, blocks, statements)

BINPREC = [("||",), ("&&",), ("==", "!=", "<", ">", "<=", ">="), ("|",), ("^",), ("&",), ("<<", ">>"),
           ("+", "-"), ("*", "/", "%")]
ASSIGN_OPS = ("=", "+=", "-=", "*=", "/=", "^=", "|=", "&=", "<<=", ">>=", "%=")


class Parser:
    def __init__(self, toks):
        self.t, self.i = toks, 0

    def peek(self, k=0):
        return self.t[self.i + k] if self.i + k < len(self.t) else ("eof", "")

    def at(self, v):
        return self.peek()[1] == v and self.peek()[0] in ("op", "id")

    def eat(self, v=None):
        tok = self.peek()
        if v is not None and tok[1] != v:
            raise Unsupported(f"expected {v!r}, found {tok[1]!r}")
        self.i += 1
        return tok

    # ---- types (only skipped / recorded as text)
    def parse_type(self):
        depth, out = 0, []
        while True:
            k, v = self.peek()
            if depth == 0 and v in (",", ")", "{", "=", ";", ">") and k == "op":
                break
            if k == "eof":
                break
            if v in ("<", "(", "["):
                depth += 1
            if v in (">", ")", "]"):
                depth -= 1
            out.append(v); self.i += 1
        return "".join(out)

    # ---- blocks
    def parse_block(self):
        self.eat("{")
        stmts, tail = [], None
        while not self.at("}"):
            if self.at(";"):
                self.eat(); continue
            if self.at("let"):
                self.eat()
                mut = False
                if self.at("mut"):
                    self.eat(); mut = True
                k, name = self.eat()
                if k != "id":
                    raise Unsupported("pattern in let")
                ty = None
                if self.at(":"):
                    self.eat(); ty = self.parse_type()
                self.eat("=")
                e = self.parse_expr()
                self.eat(";")
                stmts.append(("let", name, mut, ty, e))
                continue
            if self.at("return"):
                self.eat()
                e = self.parse_expr()
                if self.at(";"):
                    self.eat()
                if not self.at("}"):
                    raise Unsupported("early return")
                tail = e
                break
            if self.at("use"):
                while not self.at(";"):
                    self.eat()
                self.eat(";")
                continue
            if self.at("if"):
                # an `if` in statement position ends the statement (no postfix / binary continuation)
                e = self.parse_if()
                if self.at("}"):
                    tail = e
                else:
                    stmts.append(("expr", e))
                continue
            e = self.parse_expr(stmt=True)
            if self.peek()[1] in ASSIGN_OPS and self.peek()[0] == "op":
                op = self.eat()[1]
                rhs = self.parse_expr()
                stmts.append(("assign", e, op, rhs))
                if self.at(";"):
                    self.eat()
                elif not self.at("}"):
                    raise Unsupported("missing ; after assignment")
                continue
            if self.at(";"):
                self.eat()
                stmts.append(("expr", e))
            elif self.at("}"):
                tail = e
            elif e[0] in ("if", "block"):
                stmts.append(("expr", e))
            else:
                raise Unsupported(f"unexpected token {self.peek()[1]!r} after expression")
        self.eat("}")
        return ("block", stmts, tail)

    # ---- expressions
    def parse_expr(self, stmt=False, nostruct=False):
        return self.parse_bin(0, nostruct)

    def parse_bin(self, lvl, nostruct):
        if lvl == len(BINPREC):
            return self.parse_cast(nostruct)
        lhs = self.parse_bin(lvl + 1, nostruct)
        while self.peek()[0] == "op" and self.peek()[1] in BINPREC[lvl]:
            # `a << b` vs compound assignment tokens are distinct tokens already
            op = self.eat()[1]
            rhs = self.parse_bin(lvl + 1, nostruct)
            lhs = ("bin", op, lhs, rhs)
        return lhs

    def parse_cast(self, nostruct):
        e = self.parse_unary(nostruct)
        while self.at("as"):
            self.eat()
            ty = self.parse_type_simple()
            e = ("as", e, ty)
        return e

    def parse_type_simple(self):
        k, v = self.eat()
        if k != "id":
            raise Unsupported("cast target")
        return v

    def parse_unary(self, nostruct):
        if self.peek()[0] == "op" and self.peek()[1] in ("-", "!", "*"):
            op = self.eat()[1]
            return ("un", op, self.parse_unary(nostruct))
        if self.at("&"):
            self.eat()
            if self.at("mut"):
                self.eat()
                return ("refmut", self.parse_unary(nostruct))
            return ("ref", self.parse_unary(nostruct))
        return self.parse_postfix(nostruct)

    def parse_args(self):
        self.eat("(")
        args = []
        while not self.at(")"):
            args.append(self.parse_expr())
            if self.at(","):
                self.eat()
        self.eat(")")
        return args

    def parse_postfix(self, nostruct):
        e = self.parse_primary(nostruct)
        while True:
            if self.at("."):
                self.eat()
                k, v = self.eat()
                if k == "int":
                    e = ("field", e, v)
                elif k == "float":      # psi.0.re lexes `0.` as a float only if followed by non-word; handled by regex
                    raise Unsupported("tuple index lexed as float")
                elif k == "id":
                    if self.at("("):
                        e = ("mcall", e, v, self.parse_args())
                    else:
                        e = ("field", e, v)
                else:
                    raise Unsupported("postfix .")
            elif self.at("["):
                self.eat()
                idx = self.parse_expr()
                self.eat("]")
                e = ("index", e, idx)
            elif self.at("("):
                e = ("call", e, self.parse_args())
            elif self.at("?"):
                raise Unsupported("? operator")
            else:
                return e

    def parse_primary(self, nostruct):
        k, v = self.peek()
        if k == "int":
            self.eat()
            m = re.match(r"(0b[01_]+|0x[0-9a-fA-F_]+|\d[\d_]*)_?((?:[ui](?:8|16|32|64|size))?)$", v)
            return ("int", int(m.group(1).replace("_", ""), 0), m.group(2) or None)
        if k == "float":
            self.eat()
            return ("float", v)
        if k == "id" and v in ("true", "false"):
            self.eat()
            return ("bool", v == "true")
        if k == "id" and v == "if":
            return self.parse_if()
        if k == "op" and v == "{":
            return self.parse_block()
        if k == "op" and v == "(":
            self.eat()
            items = []
            trailing = False
            while not self.at(")"):
                items.append(self.parse_expr())
                trailing = False
                if self.at(","):
                    self.eat(); trailing = True
            self.eat(")")
            if len(items) == 1 and not trailing:
                return items[0]
            return ("tuple", items)
        if k == "id":
            segs = [self.eat()[1]]
            while self.at("::"):
                self.eat()
                segs.append(self.eat()[1])
            e = ("path", segs)
            if self.at("{") and not nostruct and (segs[-1][0].isupper()):
                return self.parse_struct(segs)
            return e
        raise Unsupported(f"unexpected token {v!r}")

    def parse_struct(self, segs):
        self.eat("{")
        fields, base = [], None
        while not self.at("}"):
            if self.at(".."):
                self.eat()
                base = self.parse_expr()
            else:
                name = self.eat()[1]
                if self.at(":"):
                    self.eat()
                    fields.append((name, self.parse_expr()))
                else:
                    fields.append((name, ("path", [name])))
            if self.at(","):
                self.eat()
        self.eat("}")
        return ("struct", segs, fields, base)

    def parse_if(self):
        self.eat("if")
        cond = self.parse_expr(nostruct=True)
        then = self.parse_block()
        els = None
        if self.at("else"):
            self.eat()
            els = self.parse_if() if self.at("if") else self.parse_block()
        return ("if", cond, then, els)


def find_fn(toks, name, start=0, end=None):
    """returns (params [(name, mut, type)], ret type text, body AST) of the first `fn name` in toks[start:end]"""
    end = len(toks) if end is None else end
    i = start
    while i < end - 1:
        if toks[i] == ("id", "fn") and toks[i + 1] == ("id", name):
            p = Parser(toks)
            p.i = i + 2
            if p.at("<"):
                raise Unsupported("generic function")
            p.eat("(")
            params = []
            while not p.at(")"):
                if p.at("&"):
                    p.eat()
                    if p.peek()[0] == "life":
                        p.eat()
                if p.at("mut"):
                    p.eat(); mut = True
                else:
                    mut = False
                nm = p.eat()[1]
                ty = None
                if p.at(":"):
                    p.eat(); ty = p.parse_type()
                params.append((nm, mut, ty))
                if p.at(","):
                    p.eat()
            p.eat(")")
            ret = None
            if p.at("->"):
                p.eat(); ret = p.parse_type()
            body = p.parse_block()
            return params, ret, body
        i += 1
    return None


def find_struct(toks, name="Op"):
    """fields [(name, type)] of `struct name {..}`; [] for a unit struct"""
    for i in range(len(toks) - 2):
        if toks[i] == ("id", "struct") and toks[i + 1] == ("id", name):
            if toks[i + 2][1] == ";":
                return []
            p = Parser(toks); p.i = i + 2
            p.eat("{")
            fields = []
            while not p.at("}"):
                if p.at("pub"):
                    p.eat()
                    if p.at("("):
                        while not p.at(")"):
                            p.eat()
                        p.eat(")")
                nm = p.eat()[1]
                p.eat(":")
                fields.append((nm, p.parse_type()))
                if p.at(","):
                    p.eat()
            return fields
    return None


def find_consts(toks):
    """`const NAME: T = expr;` items of a file -> {NAME: (type, expr AST)}"""
    out = {}
    for i in range(len(toks) - 1):
        if toks[i] == ("id", "const") and toks[i + 1][0] == "id" and toks[i + 1][1] != "fn":
            p = Parser(toks); p.i = i + 1
            nm = p.eat()[1]
            p.eat(":")
            ty = p.parse_type()
            p.eat("=")
            try:
                e = p.parse_expr()
            except Unsupported:
                continue
            out[nm] = (ty, e)
    return out


# ------------------------------------------------------------------------------------------
# emitter

INT_BITS = {"N": 64, "usize": 64, "u64": 64, "u32": 32, "u8": 8, "u16": 16}
TYMAP = {"N": "N", "usize": "N", "u32": "u32", "u8": "u8", "bool": "bool", "R": "R", "f64": "R", "C": "C",
         "&[C]": "slice", "Self": "Self", "&Self": "Self"}
LEANTY = {"N": "Nat", "u32": "Nat", "u8": "Nat", "bool": "Bool", "R": "R", "C": "Cx R", "slice": "State R"}
FLOATS = {0.5: "Consts.half", 2.0: "Trig.two", 0.0: "0", 1.0: "1"}
CONST_PATHS = {"FRAC_1_SQRT_2": ("Consts.invSqrt2", "R")}


def is_int(t):
    return t in ("N", "u32", "u8")


class Emitter:
    """translates one function body; env: rust name -> (lean expr, type) ; tuple vars are scalar-replaced"""

    def __init__(self, where, self_fields=None, consts=None, self_ctor=None, field_order=None):
        self.where = where
        self.self_fields = self_fields or {}       # field -> (lean, type)
        self.consts = consts or {}
        self.self_ctor = self_ctor                  # lean constructor name for `Self {..}` (e.g. "Atom.rx")
        self.field_order = field_order or []
        self.fresh = 0

    def fail(self, msg):
        raise Unsupported(f"{self.where}: {msg}")

    # ---- expressions: returns (lean, type)
    def ex(self, e, env, want=None):
        k = e[0]
        if k == "int":
            suf = e[2]
            ty = TYMAP.get(suf, None) if suf else (want if is_int(want) else ("R" if want == "R" else "N"))
            if ty == "R":
                return self.float_lit(float(e[1])), "R"
            return str(e[1]), ty
        if k == "float":
            return self.float_lit(float(e[1].replace("_", "").replace("f64", ""))), "R"
        if k == "bool":
            return ("true" if e[1] else "false"), "bool"
        if k == "path":
            segs = e[1]
            if len(segs) == 1 and segs[0] in env:
                v = env[segs[0]]
                if isinstance(v[1], tuple):
                    self.fail(f"tuple variable {segs[0]} used as a whole")
                return v
            if len(segs) == 1 and segs[0] == "self":
                return "self", "Self"
            if segs[-1] in CONST_PATHS:
                return CONST_PATHS[segs[-1]]
            if segs[-1] in self.consts:
                ty, ce = self.consts[segs[-1]]
                return self.ex(ce, {}, TYMAP.get(ty))
            if segs[-2:] == ["N", "BITS"] or segs[-2:] == ["usize", "BITS"]:
                return "64", "u32"
            self.fail(f"unknown name {'::'.join(segs)}")
        if k == "field":
            base, name = e[1], e[2]
            if base == ("path", ["self"]):
                if name not in self.self_fields:
                    self.fail(f"unknown field self.{name}")
                return self.self_fields[name]
            if base[0] == "path" and len(base[1]) == 1 and base[1][0] in env and isinstance(env[base[1][0]][1], tuple):
                comps = env[base[1][0]][1]
                if not name.isdigit() or int(name) >= len(comps):
                    self.fail("tuple index")
                return comps[int(name)]
            b, bt = self.ex(base, env)
            if bt == "C" and name in ("re", "im"):
                return f"{atom(b)}.{name}", "R"
            if bt == "CReg" and name in dict(self.field_order):
                return f"{atom(b)}.{name}", dict(self.field_order)[name]
            self.fail(f"field .{name} of a {bt}")
        if k == "index":
            b, bt = self.ex(e[1], env)
            i, it = self.ex(e[2], env, "N")
            if bt != "slice" or not is_int(it):
                self.fail("indexing")
            return f"{atom(b)} {atom(i)}", "C"
        if k == "tuple":
            self.fail("tuple expression outside a let")
        if k == "un":
            op = e[1]
            v, t = self.ex(e[2], env, want)
            if op == "-":
                if t in ("R", "C"):
                    return f"-{atom(v)}", t
                self.fail("negation of an integer")
            if op == "!":
                if t == "bool":
                    return f"!{atom(v)}", "bool"
                if is_int(t):
                    return f"notW {INT_BITS[t]} {atom(v)}", t
            self.fail(f"unary {op} on {t}")
        if k == "as":
            v, t = self.ex(e[1], env)
            to = TYMAP.get(e[2])
            if not (is_int(t) and is_int(to)):
                self.fail(f"cast {t} as {e[2]}")
            if INT_BITS[to] >= INT_BITS[t]:
                return v, to            # widening keeps the value
            return f"{atom(v)} % 2 ^ {INT_BITS[to]}", to
        if k == "bin":
            return self.binop(e, env, want)
        if k == "mcall":
            return self.mcall(e, env)
        if k == "call":
            return self.call(e, env)
        if k == "struct":
            return self.struct(e, env)
        if k == "if":
            return self.if_expr(e, env, want)
        if k == "block":
            return self.block(e, env, want)
        if k in ("ref", "refmut"):
            return self.ex(e[1], env, want)
        self.fail(f"expression kind {k}")

    def float_lit(self, x):
        if x in FLOATS:
            return FLOATS[x]
        self.fail(f"float literal {x} has no symbolic name")

    def binop(self, e, env, want):
        op = e[1]
        if op in ("==", "!=", "<", ">", "<=", ">="):
            a, ta = self.ex(e[2], env)
            b, tb = self.ex(e[3], env, ta)
            if e[2][0] == "int" and e[2][2] is None:
                a, ta = self.ex(e[2], env, tb)
            if not ((is_int(ta) and is_int(tb)) or ta == tb == "bool"):
                self.fail(f"comparison of {ta} and {tb}")
            if op in ("==", "!="):
                return f"({a} {op} {b})", "bool"
            lop = {"<": "<", ">": ">", "<=": "≤", ">=": "≥"}[op]
            return f"decide ({a} {lop} {b})", "bool"
        if op in ("&&", "||"):
            a, ta = self.ex(e[2], env); b, tb = self.ex(e[3], env)
            if ta != "bool" or tb != "bool":
                self.fail("logical operator on non-bool")
            return f"({a} {op} {b})", "bool"
        a, ta = self.ex(e[2], env, want)
        b, tb = self.ex(e[3], env, ta if op not in ("<<", ">>") else None)
        if e[2][0] in ("int",) and e[2][2] is None and not is_int(tb):
            a, ta = self.ex(e[2], env, tb)
        if op in ("&", "|", "^"):
            if ta == tb == "bool":
                lop = {"&": "&&", "|": "||", "^": "^^"}[op]
                return f"({a} {lop} {b})", "bool"
            if not (is_int(ta) and ta == tb):
                self.fail(f"bit operator {op} on {ta}, {tb}")
            lop = {"&": "&&&", "|": "|||", "^": "^^^"}[op]
            return f"({a} {lop} {b})", ta
        if op in ("<<", ">>"):
            if not (is_int(ta) and is_int(tb)):
                self.fail("shift of non-integers")
            if op == ">>":
                return f"({a} >>> {b})", ta
            # `<<` keeps the low bits of the word; a shift count >= the width is a panic in debug
            # builds and is masked in release builds: modelled as the masked count
            w = INT_BITS[ta]
            return f"(shlW {w} {atom(a)} {atom(b)})", ta
        if op in ("+", "-", "*", "/"):
            if ta == tb and ta in ("R", "C"):
                return f"({a} {op} {b})", ta
            if op == "*" and {ta, tb} == {"R", "C"}:
                # num_complex: Complex * f64 and f64 * Complex scale both parts
                c, r = (a, b) if ta == "C" else (b, a)
                return f"(Cx.scale {atom(c)} {atom(r)})", "C"
            if is_int(ta) and ta == tb:
                if op == "+":
                    return f"({a} + {b})", ta          # overflow = panic in debug; callers stay below
                self.fail(f"integer {op}")
        self.fail(f"operator {op} on {ta}, {tb}")

    def mcall(self, e, env):
        recv, name, args = e[1], e[2], e[3]
        if recv == ("path", ["self"]) and name == "atomic_op":
            a = [self.ex(x, env)[0] for x in args]
            return f"op {' '.join(atom(x) for x in a)}", "C"
        v, t = self.ex(recv, env)
        if name == "count_ones" and is_int(t) and not args:
            return f"popcount {atom(v)}", "u32"
        if name in ("wrapping_add", "wrapping_sub") and is_int(t) and len(args) == 1:
            b, tb = self.ex(args[0], env, t)
            f = "wrapAdd" if name == "wrapping_add" else "wrapSub"
            return f"{f} {INT_BITS[t]} {atom(v)} {atom(b)}", t
        if name == "conj" and t == "C" and not args:
            return f"Cx.conj {atom(v)}", "C"
        if name == "scale" and t == "C" and len(args) == 1:
            b, tb = self.ex(args[0], env, "R")
            if tb != "R":
                self.fail("scale by non-real")
            return f"Cx.scale {atom(v)} {atom(b)}", "C"
        if name in ("cos", "sin") and t == "R" and not args:
            return f"Trig.{name} {atom(v)}", "R"
        self.fail(f"method .{name}() on {t}")

    def call(self, e, env):
        f, args = e[1], e[2]
        if f[0] != "path":
            self.fail("call of a non-path")
        segs = f[1]
        if segs[-1] == "rotate":
            z, tz = self.ex(args[0], env); q, tq = self.ex(args[1], env, "N")
            return f"Gen.rotate {atom(z)} {atom(q)}", "C"
        if segs[-2:] == ["C", "new"]:
            a, ta = self.ex(args[0], env, "R"); b, tb = self.ex(args[1], env, "R")
            return f"(⟨{a}, {b}⟩ : Cx R)", "C"
        if segs[-2:] == ["Self", "mask_of"]:
            a, ta = self.ex(args[0], env, "N")
            return f"Gen.creg_mask_of {atom(a)}", "N"
        if segs[-2:] == ["Self", "with_state"]:
            a, _ = self.ex(args[0], env, "N"); b, _ = self.ex(args[1], env, "N")
            return f"Gen.creg_with_state {atom(a)} {atom(b)}", "Self"
        if segs[-2] == "AtomicOpDispatch" if len(segs) >= 2 else False:
            v, t = self.ex(args[0], env)
            if t != "Self":
                self.fail("dispatch variant of a non-Self value")
            self.variant = segs[-1]
            return v, "Self"
        self.fail(f"call of {'::'.join(segs)}")

    def struct(self, e, env):
        segs, fields, base = e[1], e[2], e[3]
        if segs == ["C"]:
            d = dict(fields)
            if set(d) != {"re", "im"} or base is not None:
                self.fail("C literal")
            a, ta = self.ex(d["re"], env, "R"); b, tb = self.ex(d["im"], env, "R")
            if ta != "R" or tb != "R":
                self.fail("C literal with non-real parts")
            return f"(⟨{a}, {b}⟩ : Cx R)", "C"
        if segs == ["Self"]:
            d = dict(fields)
            vals = []
            for fname, fty in self.field_order:
                if fname in d:
                    vals.append(atom(self.ex(d[fname], env, fty)[0]))
                elif base == ("path", ["self"]):
                    vals.append(atom(self.self_fields[fname][0]))
                else:
                    self.fail(f"field {fname} missing in Self literal")
            extra = set(d) - {f for f, _ in self.field_order}
            if extra:
                self.fail(f"unknown fields {extra}")
            return self.mk_self(vals), "Self"
        self.fail(f"struct literal {'::'.join(segs)}")

    def mk_self(self, vals):
        if self.self_ctor is None:
            self.fail("Self literal without a constructor")
        return f"({self.self_ctor} {' '.join(vals)})" if vals else self.self_ctor

    def self_value(self):
        return self.mk_self([atom(self.self_fields[f][0]) for f, _ in self.field_order])

    def if_expr(self, e, env, want):
        c, tc = self.ex(e[1], env)
        if tc != "bool":
            self.fail("condition is not a bool")
        if e[3] is None:
            self.fail("if without else used as a value")
        a, ta = self.ex(e[2], dict(env), want)
        b, tb = self.ex(e[3], dict(env), want)
        if ta != tb:
            self.fail(f"branches of different type {ta} / {tb}")
        return f"(if {c} then {a} else {b})", ta

    # ---- blocks and statements
    def block(self, b, env, want=None):
        env = dict(env)
        lets = self.stmts(b[1], env)
        if b[2] is None:
            self.fail("block without a value")
        v, t = self.ex(b[2], env, want)
        return wrap(lets, v), t

    def stmts(self, stmts, env):
        """translate statements, mutating env; returns the list of `let` lines"""
        lets = []
        for s in stmts:
            if s[0] == "let":
                _, name, mut, ty, e = s
                if e[0] == "tuple":
                    comps = []
                    for j, ce in enumerate(e[1]):
                        v, t = self.ex(ce, env)
                        ln = f"{name}_{j}"
                        lets.append(f"let {ln} := {v}")
                        comps.append((ln, t))
                    env[name] = (None, tuple(comps))
                else:
                    v, t = self.ex(e, env, TYMAP.get(ty) if ty else None)
                    ln = lean_name(name)
                    lets.append(f"let {ln} := {v}")
                    env[name] = (ln, t)
            elif s[0] == "assign":
                lets += self.assign(s[1], s[2], s[3], env)
            elif s[0] == "expr":
                e = s[1]
                if e[0] == "if":
                    lets += self.if_stmt(e, env)
                elif e[0] == "call" and e[1][0] == "path" and e[1][1][-2:] == ["mem", "swap"]:
                    a, b = e[2]
                    if a[0] != "refmut" or b[0] != "refmut":
                        self.fail("mem::swap arguments")
                    va, ta = self.ex(a[1], env)
                    self.fresh += 1
                    tmp = f"swap_tmp{self.fresh}"
                    lets.append(f"let {tmp} := {va}")
                    lets += self.assign(a[1], "=", b[1], env)
                    env2 = dict(env); env2["__tmp"] = (tmp, ta)
                    lets += self.assign(b[1], "=", ("path", ["__tmp"]), env2)
                    for k2 in env2:
                        if k2 != "__tmp":
                            env[k2] = env2[k2]
                else:
                    self.fail("expression statement")
            else:
                self.fail(f"statement {s[0]}")
        return lets

    def place_root(self, place, env):
        """(rust var, lean name, type, path) for an assignable place"""
        if place[0] == "path" and len(place[1]) == 1:
            n = place[1][0]
            if n not in env:
                self.fail(f"assignment to unknown {n}")
            return n, None
        if place[0] == "field":
            base = place[1]
            if base == ("path", ["self"]):
                return "self." + place[2], None
            if base[0] == "path" and len(base[1]) == 1 and base[1][0] in env:
                return base[1][0], place[2]
            if base[0] == "field" and base[1] == ("path", ["self"]):
                return "self." + base[2], place[2]
        if place[0] == "un" and place[1] == "*":
            return self.place_root(place[2], env)
        self.fail("assignment target")

    def assign(self, place, op, rhs, env):
        root, sub = self.place_root(place, env)
        if op != "=":
            rhs = ("bin", op[:-1], place, rhs)
        if root.startswith("self."):
            f = root[5:]
            if f not in self.self_fields:
                self.fail(f"unknown field {root}")
            cur, t = self.self_fields[f]
            if sub is None:
                v, tv = self.ex(rhs, env, t)
                ln = "s_" + f
                self.self_fields = dict(self.self_fields); self.self_fields[f] = (ln, t)
                return [f"let {ln} := {v}"]
            self.fail("assignment to a part of a field")
        cur = env[root]
        if isinstance(cur[1], tuple):
            if sub is None or not sub.isdigit():
                self.fail("assignment to a whole tuple")
            j = int(sub)
            ln, t = cur[1][j]
            v, tv = self.ex(rhs, env, t)
            return [f"let {ln} := {v}"]
        ln, t = cur
        if sub is None:
            v, tv = self.ex(rhs, env, t)
            if tv != t:
                self.fail(f"assignment changes the type {t} -> {tv}")
            return [f"let {ln} := {v}"]
        if t == "C" and sub in ("re", "im"):
            v, tv = self.ex(rhs, env, "R")
            return [f"let {ln} : Cx R := " + (f"⟨{v}, {ln}.im⟩" if sub == "re" else f"⟨{ln}.re, {v}⟩")]
        self.fail("assignment target")

    def assigned(self, block, env):
        """lean variables assigned in a block (not declared inside it)"""
        out, local = [], set()
        for s in block[1] + ([("tail", block[2])] if block[2] is not None else []):
            if s[0] == "let":
                local.add(s[1])
            elif s[0] in ("assign",):
                root, sub = self.place_root(s[1], env)
                if root in local:
                    continue
                out.append((root, sub))
            elif s[0] == "expr" and s[1][0] == "if":
                out += self.assigned(s[1][2], env)
                if s[1][3] is not None:
                    out += self.assigned(s[1][3] if s[1][3][0] == "block" else ("block", [("expr", s[1][3])], None), env)
            elif s[0] == "expr" and s[1][0] == "call":
                for a in s[1][2]:
                    if a[0] == "refmut":
                        out.append(self.place_root(a[1], env))
            elif s[0] == "tail":
                if s[1] is not None and s[1][0] == "if":
                    out += self.assigned(("block", [("expr", s[1])], None), env)
        return out

    def lean_of(self, root, sub, env):
        if root.startswith("self."):
            return "s_" + root[5:]
        cur = env[root]
        if isinstance(cur[1], tuple):
            return cur[1][int(sub)][0]
        return cur[0]

    def if_stmt(self, e, env):
        c, tc = self.ex(e[1], env)
        if tc != "bool":
            self.fail("condition is not a bool")
        then = e[2]
        els = e[3]
        if els is not None and els[0] == "if":
            els = ("block", [("expr", els)], None)
        # a block whose tail is an assignment was parsed as a statement already
        vars_ = []
        for blk in [then] + ([els] if els else []):
            if blk[2] is not None:
                self.fail("value of an if statement is discarded")
            for r, s in self.assigned(blk, env):
                ln = self.lean_of(r, s, env)
                if ln not in vars_:
                    vars_.append(ln)
        if not vars_:
            self.fail("if statement without effect")
        # make sure self-field shadows exist before the branch
        pre = []
        for blk in [then] + ([els] if els else []):
            for r, s in self.assigned(blk, env):
                if r.startswith("self."):
                    f = r[5:]
                    cur, t = self.self_fields[f]
                    if cur != "s_" + f:
                        pre.append(f"let s_{f} := {cur}")
                        self.self_fields = dict(self.self_fields); self.self_fields[f] = ("s_" + f, t)
        tup = vars_[0] if len(vars_) == 1 else "(" + ", ".join(vars_) + ")"
        saved = self.self_fields
        env1 = dict(env)
        a = wrap(self.stmts(then[1], env1), tup)
        self.self_fields = saved
        if els:
            env2 = dict(env)
            b = wrap(self.stmts(els[1], env2), tup)
            self.self_fields = saved
        else:
            b = tup
        return pre + [f"let {tup} := if {c} then {a} else {b}"]


def lean_name(n):
    return {"psi": "psi'", "fun": "fun'", "at": "at'"}.get(n, n)


def atom(s):
    s = s.strip()
    if re.fullmatch(r"[\w.'ψ]+", s) or (s.startswith("(") and balanced(s)):
        return s
    return "(" + s + ")"


def balanced(s):
    d = 0
    for i, ch in enumerate(s):
        if ch in "(⟨":
            d += 1
        elif ch in ")⟩":
            d -= 1
            if d == 0 and i != len(s) - 1:
                return False
    return d == 0


def wrap(lets, v):
    if not lets:
        return v
    return "(" + "; ".join(lets) + "; " + v + ")"


# ------------------------------------------------------------------------------------------
# what is translated

ATOMS = [  # file, dispatch variant, Atom constructor
    ("id", "Id", "id"), ("x", "X", "x"), ("y", "Y", "y"), ("z", "Z", "z"), ("s", "S", "s"), ("t", "T", "t"),
    ("rx", "RX", "rx"), ("ry", "RY", "ry"), ("rz", "RZ", "rz"), ("rxx", "RXX", "rxx"), ("ryy", "RYY", "ryy"),
    ("rzz", "RZZ", "rzz"), ("h1", "H1", "h1"), ("h2", "H2", "h2"), ("swap", "Swap", "swap"),
    ("i_swap", "ISwap", "iSwap"), ("sqrt_swap", "SqrtSwap", "sqrtSwap"), ("sqrt_i_swap", "SqrtISwap", "sqrtISwap"),
]


def pretty(defn):
    return defn


def model_ctor_args():
    """argument lists [(name, lean type)] of the constructors of the model's `inductive Atom` (Model/Atom.lean)"""
    src = open(os.path.join(os.path.dirname(os.path.dirname(os.path.abspath(__file__))), "lean", "Qvnt", "Model", "Atom.lean")).read()
    m = re.search(r"inductive Atom \(R : Type\) where\n((?:  \| .*\n)+)", src)
    out = {}
    for line in m.group(1).splitlines():
        mm = re.match(r"  \| (\w+)(.*)", line)
        args = []
        for names, ty in re.findall(r"\(([^:()]+):\s*([^()]+)\)", mm.group(2)):
            for n in names.split():
                args.append((n, ty.strip()))
        out[mm.group(1)] = args
    return out


def gen_atoms(problems):
    """per atomic-operator file: atomic_op, is_valid, acts_on, dgr, new. A function outside the subset is reported
    (UNSUPPORTED <file>: <file>::<fn>: ..) and replaced by a placeholder with its signature, so that the definitions
    and equalities that do not concern it still build"""
    out = []
    model_args = model_ctor_args()
    for fname, variant, ctor in ATOMS:
        path = os.path.join(REPO, "src", "operator", "atomic", fname + ".rs")
        toks = None
        try:
            toks = tokenize(open(path).read())
            fields = find_struct(toks, "Op")
            if fields is None:
                raise Unsupported("struct Op not found")
            consts = find_consts(toks)
            ftys = []
            for n, t in fields:
                if t not in TYMAP:
                    raise Unsupported(f"field type {t}")
                ftys.append((n, TYMAP[t]))
            if [LEANTY[t] for _, t in ftys] != [t for _, t in model_args[ctor]]:
                raise Unsupported(f"fields ({', '.join(n + ': ' + LEANTY[t] for n, t in ftys)}) are not those of the model's Atom.{ctor} "
                                  f"({', '.join(n + ': ' + t for n, t in model_args[ctor])})")
        except (Unsupported, OSError) as ex:
            # the operator's record is not the one the model (and every other generated definition) is written for: all of
            # its functions become placeholders with the model's signature, so that the rest of the file still builds
            problems.append(f"{fname}.rs: {fname}.rs::struct: {ex}")
            mb = "".join(f" (s_{n} : {t})" for n, t in model_args[ctor])
            for fn, sig, stub in (("atomic_op", f"def {fname}_op{mb} (ψ : State R) (idx : Nat) : Cx R", "ψ idx"),
                                  ("is_valid", f"def {fname}_isValid{mb} : Bool", "true"),
                                  ("acts_on", f"def {fname}_actsOn{mb} : Nat", "0"),
                                  ("dgr", f"def {fname}_dgr{mb} : Atom R", "Atom.id")):
                problems.append(f"{fname}.rs: {fname}.rs::{fn}: not translated (struct Op differs from the model's record)")
                out.append(f"/-- `{fname}.rs`: `{fn}` — NOT TRANSLATED (struct Op differs from the model's record): placeholder -/\n{sig} :=\n  {stub}\n")
            try:
                f = find_fn(toks, "new") if toks else None
            except Unsupported:
                f = None
            if f is not None and all(ty in TYMAP for _, _, ty in f[0]):
                b2 = "".join(f" ({lean_name(n)} : {LEANTY[TYMAP[ty]]})" for n, _, ty in f[0])
                problems.append(f"{fname}.rs: {fname}.rs::new: not translated (struct Op differs from the model's record)")
                out.append(f"/-- `{fname}.rs`: `new` — NOT TRANSLATED: placeholder -/\ndef {fname}_new{b2} : Atom R :=\n  Atom.id\n")
            continue
        sf = {n: ("s_" + n, t) for n, t in ftys}
        binder = "".join(f" (s_{n} : {LEANTY[t]})" for n, t in ftys)
        mk = lambda fn: Emitter(f"{fname}.rs::{fn}", sf, consts, "Atom." + ctor, ftys)

        def attempt(fn, sig, stub, build):
            try:
                v = build()
            except (Unsupported, OSError, TypeError, IndexError, KeyError) as ex:
                msg = str(ex)
                if not msg.startswith(f"{fname}.rs::{fn}"):
                    msg = f"{fname}.rs::{fn}: {msg}"
                problems.append(f"{fname}.rs: {msg}")
                out.append(f"/-- `{fname}.rs`: `{fn}` — NOT TRANSLATED (outside the subset): placeholder -/\n{sig} :=\n  {stub}\n")
                return
            out.append(f"/-- `{fname}.rs`: `{fn}` -/\n{sig} :=\n  {v}\n")

        # atomic_op
        def b_op():
            f = find_fn(toks, "atomic_op")
            if f is None:
                raise Unsupported("atomic_op not found")
            params, ret, body = f
            pn = [p for p in params if p[0] != "self"]
            if [p[2] for p in pn] != ["&[C]", "N"]:
                raise Unsupported(f"atomic_op signature {pn}")
            env = {pn[0][0]: ("ψ", "slice"), pn[1][0]: ("idx", "N")}
            v, t = mk("atomic_op").block(body, env, "C")
            if t != "C":
                raise Unsupported("atomic_op does not return C")
            return v
        attempt("atomic_op", f"def {fname}_op{binder} (ψ : State R) (idx : Nat) : Cx R", "ψ idx", b_op)

        # is_valid (trait default: true)
        def b_valid():
            f = find_fn(toks, "is_valid")
            if f is None:
                return "true"
            v, t = mk("is_valid").block(f[2], {}, "bool")
            if t != "bool":
                raise Unsupported("is_valid type")
            return v
        attempt("is_valid", f"def {fname}_isValid{binder} : Bool", "true", b_valid)

        # acts_on
        def b_acts():
            f = find_fn(toks, "acts_on")
            if f is None:
                raise Unsupported("acts_on not found")
            v, t = mk("acts_on").block(f[2], {}, "N")
            if not is_int(t):
                raise Unsupported("acts_on type")
            return v
        attempt("acts_on", f"def {fname}_actsOn{binder} : Nat", "0", b_acts)

        # dgr
        def b_dgr():
            f = find_fn(toks, "dgr")
            if f is None:
                raise Unsupported("dgr not found")
            em = mk("dgr"); em.variant = None
            env = {"self": (em.self_value(), "Self")}
            em_ex = em.block(f[2], env)
            if em_ex[1] != "Self" or em.variant != variant:
                raise Unsupported(f"dgr returns variant {em.variant}, expected {variant}")
            return em_ex[0]
        attempt("dgr", f"def {fname}_dgr{binder} : Atom R", "Atom.id", b_dgr)

        # this
        try:
            f = find_fn(toks, "this")
            em = mk("this"); em.variant = None
            if f is not None:
                env = {"self": (em.self_value(), "Self")}
                em_ex = em.block(f[2], env)
                if em.variant != variant:
                    raise Unsupported(f"this returns variant {em.variant}")
        except (Unsupported, TypeError) as ex:
            problems.append(f"{fname}.rs: {fname}.rs::this: {ex}")

        # new
        f = None
        try:
            f = find_fn(toks, "new")
        except Unsupported as ex:
            problems.append(f"{fname}.rs: {fname}.rs::new: {ex}")
        if f is not None:
            params, ret, body = f
            b2, env, okp = "", {}, True
            for n, mut, ty in params:
                if ty not in TYMAP:
                    problems.append(f"{fname}.rs: {fname}.rs::new: parameter type {ty}")
                    okp = False
                    break
                env[n] = (lean_name(n), TYMAP[ty])
                b2 += f" ({lean_name(n)} : {LEANTY[TYMAP[ty]]})"
            if okp:
                def b_new():
                    em = Emitter(f"{fname}.rs::new", {}, consts, "Atom." + ctor, ftys)
                    v, t = em.block(body, dict(env))
                    if t != "Self":
                        raise Unsupported("new does not return Self")
                    return v
                attempt("new", f"def {fname}_new{b2} : Atom R", "Atom.id", b_new)
    return out


def gen_math(problems):
    """`math::rotate`, `math::count_bits`; a function outside the subset becomes a placeholder with its signature (and is
    reported), so that the rest of the file still builds"""
    out = []
    path = os.path.join(REPO, "src", "math", "mod.rs")
    try:
        toks = tokenize(open(path).read())
    except (Unsupported, OSError) as ex:
        problems.append(f"math/mod.rs: {ex}")
        toks = None
    def one(name, build, sig, stub):
        try:
            if toks is None:
                raise Unsupported("file not readable")
            v = build()
            out.append(f"/-- `math::{name}` -/\n{sig} :=\n  {v}\n")
        except (Unsupported, OSError, TypeError, IndexError, KeyError) as ex:
            if toks is not None:
                problems.append(f"math/mod.rs: math/mod.rs::{name}: {ex}")
            out.append(f"/-- `math::{name}` — NOT TRANSLATED (outside the subset): placeholder -/\n{sig} :=\n  {stub}\n")
    def b_rotate():
        params, ret, body = find_fn(toks, "rotate")
        if [(p[0], p[2]) for p in params] != [("z", "C"), ("q", "N")]:
            raise Unsupported("rotate signature")
        v, t = Emitter("math/mod.rs::rotate").block(body, {"z": ("z", "C"), "q": ("q", "N")}, "C")
        return v
    def b_count():
        params, ret, body = find_fn(toks, "count_bits")
        v, t = Emitter("math/mod.rs::count_bits").block(body, {params[0][0]: ("n", "N")}, "N")
        return v
    one("rotate", b_rotate, "def rotate (z : Cx R) (q : Nat) : Cx R", "z")
    one("count_bits", b_count, "def count_bits (n : Nat) : Nat", "0")
    return out


def closure_after(toks, start, end):
    """the expression assigned by `*psi = <expr>` inside the first closure in toks[start:end]"""
    for i in range(start, end - 2):
        if toks[i] == ("op", "*") and toks[i + 1] == ("id", "psi") and toks[i + 2] == ("op", "="):
            p = Parser(toks); p.i = i + 3
            return p.parse_expr(), p.i
    raise Unsupported("closure `*psi = ...` not found")


def fn_range(toks, name):
    for i in range(len(toks) - 1):
        if toks[i] == ("id", "fn") and toks[i + 1] == ("id", name):
            j = i
            while toks[j][1] != "{":
                j += 1
            d, k = 0, j
            while True:
                if toks[k][1] == "{":
                    d += 1
                elif toks[k][1] == "}":
                    d -= 1
                    if d == 0:
                        return i, k + 1
                k += 1
    raise Unsupported(f"fn {name} not found")


def gen_dispatch(problems):
    out = []
    path = os.path.join(REPO, "src", "operator", "atomic", "dispatch.rs")
    try:
        toks = tokenize(open(path).read())
    except (Unsupported, OSError) as ex:
        problems.append(f"dispatch.rs: dispatch.rs::for_each: {ex}")
        problems.append(f"dispatch.rs: dispatch.rs::for_each_par: {ex}")
        toks = []
    bodies = {}
    def stub(fn, nm):
        # outside the subset: a placeholder with the signature, so that everything else still builds (its equality fails)
        out.append(f"/-- `dispatch.rs`: `AtomicOp::{fn}` — NOT TRANSLATED (outside the subset): placeholder -/\n"
                   f"def {nm} (op : State R → Nat → Cx R) (psi_i : State R) (ctrl idx : Nat) : Cx R :=\n  psi_i idx\n")
    for fn in ("for_each", "for_each_par"):
        try:
            a, b = fn_range(toks, fn)
            # shape: if ctrl != 0 { <iter>.for_each(|(idx, psi)| { *psi = E1 }) } else { <iter>.for_each(|(idx, psi)| *psi = E2) }
            p = Parser(toks); p.i = a
            while not p.at("{"):
                p.eat()
            p.eat("{")
            while p.at("use"):
                while not p.at(";"):
                    p.eat()
                p.eat(";")
            p.eat("if")
            cond = p.parse_expr(nostruct=True)
            # then-branch
            d0 = p.i
            e1, after1 = closure_after(toks, d0, b)
            # find `else` at depth of the if
            depth, k = 0, d0
            while True:
                if toks[k][1] == "{":
                    depth += 1
                elif toks[k][1] == "}":
                    depth -= 1
                    if depth == 0:
                        break
                k += 1
            if toks[k + 1] != ("id", "else"):
                raise Unsupported("else branch not found")
            e2, after2 = closure_after(toks, k + 1, b)
            if after1 > k:
                raise Unsupported("first closure not in the then-branch")
            # the function body is this one `if` and nothing else
            depth, k2 = 0, k + 2
            while True:
                if toks[k2][1] == "{":
                    depth += 1
                elif toks[k2][1] == "}":
                    depth -= 1
                    if depth == 0:
                        break
                k2 += 1
            if k2 + 2 != b:
                raise Unsupported("statements after the if")
            # the iteration must be over every (index, output element) pair of psi_o
            text = " ".join(t[1] for t in toks[a:b])
            it = "psi_o . iter_mut ( ) . enumerate ( ) . for_each" if fn == "for_each" else "psi_o . into_par_iter ( ) . enumerate ( ) . for_each"
            if text.count(it + " ( | ( idx , psi ) |") != 2:
                raise Unsupported(f"iteration is not `{it.replace(' ', '')}(|(idx, psi)| ..)` in both branches")
            em = Emitter(f"dispatch.rs::{fn}")
            env = {"psi_i": ("psi_i", "slice"), "idx": ("idx", "N"), "ctrl": ("ctrl", "N")}
            whole = ("if", cond, ("block", [], e1), ("block", [], e2))
            v, t = em.ex(whole, env, "C")
            bodies[fn] = v
            nm = "forEach" if fn == "for_each" else "forEachPar"
            out.append(f"/-- `dispatch.rs`: the value `AtomicOp::{fn}` writes to `psi_o[idx]` -/\n"
                       f"def {nm} (op : State R → Nat → Cx R) (psi_i : State R) (ctrl idx : Nat) : Cx R :=\n  {v}\n")
        except (Unsupported, IndexError, TypeError, KeyError) as ex:
            msg = str(ex)
            if not msg.startswith(f"dispatch.rs::{fn}"):
                msg = f"dispatch.rs::{fn}: {msg}"
            if toks:
                problems.append(f"dispatch.rs: {msg}")
            stub(fn, "forEach" if fn == "for_each" else "forEachPar")
    if len(bodies) != 2:
        out.append("/-- the sweeps could not both be translated: not known to be twins -/\ndef forEachTwins : Bool := false\n")
    if len(bodies) == 2:
        out.append(f"/-- the sequential and the parallel sweep compute every element by the same expression (token-identical closures) -/\n"
                   f"def forEachTwins : Bool := {'true' if bodies['for_each'] == bodies['for_each_par'] else 'false'}\n")
    return out


CREG_FNS = ["mask_of", "with_state", "set_num", "reset", "set", "xor", "tensor_prod", "get", "num"]


def gen_creg(problems):
    out = []
    path = os.path.join(REPO, "src", "register", "class.rs")
    try:
        toks = tokenize(open(path).read())
        fields = find_struct(toks, "Reg")
        ftys = [(n, TYMAP[t]) for n, t in fields]
        if [n for n, _ in ftys] != ["value", "q_num", "q_mask"]:
            raise Unsupported(f"fields of class::Reg are {ftys}")
        out.append("structure CRegG where\n  value : Nat\n  q_num : Nat\n  q_mask : Nat\nderiving Repr, DecidableEq\n")
        for fn in CREG_FNS:
            binder, rty = "", "CRegG"
            try:
                f = find_fn(toks, fn)
                if f is None:
                    raise Unsupported(f"fn {fn} not found")
                params, ret, body = f
                em = Emitter(f"class.rs::{fn}", {}, {}, "CRegG.mk", ftys)
                env = {}
                for n, mut, ty in params:
                    if n == "self":
                        binder += " (self : CRegG)"
                        em.self_fields = {fn_: (f"self.{fn_}", t) for fn_, t in ftys}
                        continue
                    if ty in ("Self",):
                        binder += f" ({n} : CRegG)"
                        env[n] = (n, "CReg")
                        continue
                    if ty not in TYMAP:
                        raise Unsupported(f"{fn}: parameter type {ty}")
                    env[n] = (lean_name(n), TYMAP[ty])
                    binder += f" ({lean_name(n)} : {LEANTY[TYMAP[ty]]})"
                rty = "CRegG" if ret is None else {"Self": "CRegG", "N": "Nat", "bool": "Bool"}.get(TYMAP.get(ret, ret), None)
                if ret is None:
                    # &mut self method: the new value of self
                    lets = em.stmts(body[1], env)
                    if body[2] is not None:
                        if body[2][0] == "if":
                            lets += em.if_stmt(body[2], env)
                        else:
                            raise Unsupported(f"{fn}: unit function with a tail expression")
                    v = wrap(lets, em.self_value())
                    rty = "CRegG"
                else:
                    v, t = em.block(body, env, TYMAP.get(ret))
                    rty = {"Self": "CRegG", "N": "Nat", "bool": "Bool"}.get(t)
                    if rty is None:
                        raise Unsupported(f"{fn}: return type {t}")
                out.append(f"/-- `class.rs`: `Reg::{fn}` -/\ndef creg_{fn}{binder} : {rty} :=\n  {v}\n")
            except (Unsupported, TypeError, KeyError, IndexError) as ex:
                msg = str(ex)
                if not msg.startswith(f"class.rs::{fn}"):
                    msg = f"class.rs::{fn}: {msg}"
                problems.append(f"class.rs: {msg}")
                # placeholder with the signature of the last known shape of the function
                sigs = {"mask_of": (" (q_num : Nat)", "Nat", "0"), "with_state": (" (q_num : Nat) (state : Nat)", "CRegG", "CRegG.mk 0 0 0"),
                        "set_num": (" (self : CRegG) (q_num : Nat)", "CRegG", "self"), "reset": (" (self : CRegG) (i_state : Nat)", "CRegG", "self"),
                        "set": (" (self : CRegG) (bit : Bool) (mask : Nat)", "CRegG", "self"), "xor": (" (self : CRegG) (bit : Bool) (mask : Nat)", "CRegG", "self"),
                        "tensor_prod": (" (self : CRegG) (other : CRegG)", "CRegG", "self"), "get": (" (self : CRegG)", "Nat", "0"),
                        "num": (" (self : CRegG)", "Nat", "0")}
                b, r, v = sigs[fn]
                out.append(f"/-- `class.rs`: `Reg::{fn}` — NOT TRANSLATED (outside the subset): placeholder -/\ndef creg_{fn}{b} : {r} :=\n  {v}\n")
    except (Unsupported, OSError, TypeError, KeyError) as ex:
        problems.append(f"class.rs: {ex!r}")
    return out


HEADER = '''/- GENERATED by tools/rs2lean.py from /repo — do not edit.
Every definition is a mechanical translation of the named Rust function (current working tree). -/
import Qvnt.Model.Atom
import Qvnt.Model.Word

set_option linter.unusedVariables false

namespace Qvnt.Gen
open Qvnt

'''


def main():
    problems = []
    parts = [HEADER]
    parts.append("section math\nvariable {R : Type} [Neg R]\n")
    parts += gen_math(problems)
    parts.append("end math\n")
    parts.append("section kernels\nvariable {R : Type} [Add R] [Sub R] [Mul R] [Div R] [Neg R] [Consts R] [Trig R]\n")
    parts += gen_atoms(problems)
    parts.append("end kernels\n")
    parts.append("section dispatch\nvariable {R : Type}\n")
    parts += gen_dispatch(problems)
    parts.append("end dispatch\n")
    parts.append("section creg\n")
    parts += gen_creg(problems)
    parts.append("end creg\n")
    parts.append("end Qvnt.Gen\n")
    text = "\n".join(parts)
    if problems:
        for p in problems:
            print("rs2lean: UNSUPPORTED", p)
        text += "\n/- translator problems:\n" + "\n".join(problems) + "\n-/\n"
    old = open(OUT).read() if os.path.exists(OUT) else None
    if old != text:
        open(OUT, "w").write(text)
    print(f"rs2lean: {len(parts)} items, {len(problems)} problems -> {os.path.relpath(OUT, ROOT)}")
    return 2 if problems else 0


if __name__ == "__main__":
    sys.exit(main())
