import Qvnt.Model.Cx
import Qvnt.Model.Bits
import Qvnt.Model.Atom
import Qvnt.Model.Op
