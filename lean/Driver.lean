/-
`driver` — replays a trace written by the Rust harness (`corr`) through the Lean MODEL and
the SPEC oracles at `Float`, and reports every line on which the implementation's
observation differs.

  MISMATCH <case> <line> <cmd> model=… impl=…      model ≠ implementation (correspondence)
  SPECFAIL <case> <line> <cmd> spec=… impl=…       spec  ≠ implementation (a failing input)
  DONE cases=… lines=… mismatches=… specfails=… speclines=…

Only core / Std and the model files are imported, so this links as a native executable.
-/
import Qvnt.Model.Reg
import Qvnt.Model.OpExpr
import Qvnt.Spec.Denote
import Qvnt.Spec.Dft
import Qvnt.Model.Interp
import Qvnt.Spec.RefSem
import Qvnt.Model.Pool

open Qvnt

/-! ### scalar instance: IEEE binary64, the same operations in the same order as the Rust kernels -/

instance : Consts Float := ⟨0.5, Float.ofBits 0x3FE6A09E667F3BCD⟩   -- FRAC_1_SQRT_2
instance : HasSqrt Float := ⟨Float.sqrt⟩
instance : RegConsts Float := ⟨1e-15, 1e-9⟩
instance : QReg.HasRound Float := ⟨Float.ofNat, fun x => (Float.round x).toInt64.toInt⟩

def piF : Float := Float.ofBits 0x400921FB54442D18
def fracPi2 : Float := Float.ofBits 0x3FF921FB54442D18

/-- `Op::new(mask, angle)`: `phase /= 2; C::new(phase.cos(), phase.sin())` -/
def halfPhase (θ : Float) : Cx Float := let h := θ / 2; ⟨Float.cos h, Float.sin h⟩

/-- the angles `PI * 0.5f64.powi(j)` that `qft` hands to `rz` -/
def qftPhase (j : Nat) : Cx Float := halfPhase (piF * Float.ofScientific 1 false 0 / Float.ofNat (2 ^ j))

/-! ### parsing -/

def tokNat (s : String) : Option Nat := s.toNat?
def tokFloat (s : String) : Option Float := s.toNat?.map (fun n => Float.ofBits n.toUInt64)

def parseCVec : List String → Option (Array (Cx Float) × List String)
  | [] => none
  | n :: rest => do
    let n ← tokNat n
    let rec go : Nat → List String → Array (Cx Float) → Option (Array (Cx Float) × List String)
      | 0, r, acc => some (acc, r)
      | k + 1, re :: im :: r, acc => do
        let re ← tokFloat re
        let im ← tokFloat im
        go k r (acc.push ⟨re, im⟩)
      | _, _, _ => none
    go n rest (Array.mkEmpty n)

def closeF (a b : Float) : Bool :=
  if a.isNaN || b.isNaN then a.isNaN && b.isNaN else Float.abs (a - b) ≤ 1e-9

def closeC (a b : Cx Float) : Bool := closeF a.re b.re && closeF a.im b.im

def closeVec (a b : Array (Cx Float)) : Bool :=
  a.size == b.size && (List.range a.size).all (fun i => closeC (a.getD i 0) (b.getD i 0))

/-- equal up to one unit-modulus scalar: the ratio is read off at the largest entry -/
def closeUpToPhase (spec impl : Array (Cx Float)) : Bool :=
  if spec.size != impl.size then false else
  let best := (List.range spec.size).foldl (fun b i =>
    if (spec.getD i 0).normSq > (spec.getD b 0).normSq then i else b) 0
  let s := spec.getD best 0
  let m := impl.getD best 0
  let d := s.normSq
  if d < 1e-12 then closeVec spec impl else
  -- lam = m / s
  let lam : Cx Float := ⟨(m.re * s.re + m.im * s.im) / d, (m.im * s.re - m.re * s.im) / d⟩
  closeF lam.normSq 1.0 && closeVec (spec.map (fun z => lam * z)) impl

def showC (z : Cx Float) : String := s!"({z.re},{z.im})"

def showVec (a : Array (Cx Float)) : String :=
  let l := a.toList.take 16 |>.map showC
  s!"[{a.size}:" ++ String.intercalate " " l ++ (if a.size > 16 then " …]" else "]")

/-- first differing position -/
def firstDiff (a b : Array (Cx Float)) : String :=
  if a.size != b.size then s!"len {a.size} vs {b.size}"
  else match (List.range a.size).find? (fun i => !closeC (a.getD i 0) (b.getD i 0)) with
    | some i => s!"at {i}: {showC (a.getD i 0)} vs {showC (b.getD i 0)}"
    | none => "none"

/-! ### operator programs -/

/-- outcome class of a freshly formed sub-program, if it is not a value -/
def failKind (e : OpExpr Float) : Option String :=
  match OpExpr.build qftPhase e with
  | .ok _ => none
  | .refused => some "refused"
  | .panic => some "panic"

/-- Parse a postfix construction program into an `OpExpr` tree. The harness executes the tokens one after the
other and stops at the first refusal / panic; `ff` is that first failure in TOKEN order (for `pushfront` the tree
order of `OpExpr.build` is the other one, and a program with a refusal in one operand and a panic in the other would
otherwise be classified differently). -/
partial def parseProgF (toks : List String) (st : List (OpExpr Float)) (ff : Option String) :
    Option (OpExpr Float × Option String) :=
  let push (e : OpExpr Float) (rest : List String) :=
    parseProgF rest (e :: st) (if ff.isSome then ff else failKind e)
  match toks with
  | [] => match st with
    | [e] => some (e, ff)
    | _ => none
  | "id" :: r => push .id r
  | "x" :: m :: r => do push (.g1 .x (← tokNat m)) r
  | "y" :: m :: r => do push (.g1 .y (← tokNat m)) r
  | "z" :: m :: r => do push (.g1 .z (← tokNat m)) r
  | "s" :: m :: r => do push (.g1 .s (← tokNat m)) r
  | "t" :: m :: r => do push (.g1 .t (← tokNat m)) r
  | "h" :: m :: r => do push (.g1 .h (← tokNat m)) r
  | "qft" :: m :: r => do push (.qft (← tokNat m)) r
  | "qfts" :: m :: r => do push (.qftSwapped (← tokNat m)) r
  | "swap" :: m :: r => do push (.two .swap (← tokNat m)) r
  | "sqrt_swap" :: m :: r => do push (.two .sqrtSwap (← tokNat m)) r
  | "i_swap" :: m :: r => do push (.two .iSwap (← tokNat m)) r
  | "sqrt_i_swap" :: m :: r => do push (.two .sqrtISwap (← tokNat m)) r
  | "rx" :: a :: m :: r => do push (.rot1 .rx (halfPhase (← tokFloat a)) (← tokNat m)) r
  | "ry" :: a :: m :: r => do push (.rot1 .ry (halfPhase (← tokFloat a)) (← tokNat m)) r
  | "rz" :: a :: m :: r => do push (.rot1 .rz (halfPhase (← tokFloat a)) (← tokNat m)) r
  | "u1" :: a :: m :: r => do push (.rot1 .u1 (halfPhase (← tokFloat a)) (← tokNat m)) r
  | "rxx" :: a :: m :: r => do push (.rot2 .rxx (halfPhase (← tokFloat a)) (← tokNat m)) r
  | "ryy" :: a :: m :: r => do push (.rot2 .ryy (halfPhase (← tokFloat a)) (← tokNat m)) r
  | "rzz" :: a :: m :: r => do push (.rot2 .rzz (halfPhase (← tokFloat a)) (← tokNat m)) r
  | "u2" :: phi :: lam :: m :: r => do
    push (.u3 (halfPhase fracPi2) (halfPhase (← tokFloat phi)) (halfPhase (← tokFloat lam)) (← tokNat m)) r
  | "u3" :: the :: phi :: lam :: m :: r => do
    push (.u3 (halfPhase (← tokFloat the)) (halfPhase (← tokFloat phi)) (halfPhase (← tokFloat lam))
      (← tokNat m)) r
  | "c" :: m :: r => do
    let m ← tokNat m
    match st with
    | a :: st' => parseProgF r (.c m a :: st') (if ff.isSome then ff else failKind (.c m a))
    | _ => none
  | "dgr" :: r => match st with
    | a :: st' => parseProgF r (.dgr a :: st') ff
    | _ => none
  | op :: r =>
    if op == "mul" || op == "mulassign" || op == "append" || op == "pushall" || op == "cycle" then
      match st with
      | b :: a :: st' => parseProgF r (.mul a b :: st') ff
      | _ => none
    else if op == "pushfront" then
      -- `for g in b.rev() { a.push_front(g) }`: the queue b followed by the queue a
      match st with
      | b :: a :: st' => parseProgF r (.mul b a :: st') ff
      | _ => none
    else none

def parseProg (toks : List String) (st : List (OpExpr Float)) : Option (OpExpr Float) :=
  (parseProgF toks st none).map (·.1)

def atomName : Atom Float → String
  | .id => "Id"
  | .x a => s!"X{a}"
  | .y a _ => s!"Y{a}"
  | .z a => s!"Z{a}"
  | .s a _ => s!"S{a}"
  | .t a _ => s!"T{a}"
  | .rx a _ => s!"RX{a}"
  | .ry a _ => s!"RY{a}"
  | .rz a _ => s!"RZ{a}"
  | .rxx a _ => s!"RXX{a}"
  | .ryy a _ => s!"RYY{a}"
  | .rzz a _ => s!"RZZ{a}"
  | .h1 a => s!"H{a}"
  | .h2 a b _ => s!"H{a ||| b}"
  | .swap ab => s!"SWAP{ab}"
  | .iSwap ab _ => s!"iSWAP{ab}"
  | .sqrtSwap ab _ => s!"sqrt(SWAP{ab})"
  | .sqrtISwap ab _ => s!"sqrt(iSWAP{ab})"

def singleName (g : SingleOp Float) : String :=
  if g.ctrl != 0 then s!"C{g.ctrl}_" ++ atomName g.func else atomName g.func

def opNames (o : MultiOp Float) : String :=
  if o.isEmpty then "-" else String.intercalate "," (o.map singleName)

def builtObs : Built Float → String
  | .ok o => s!"ok {o.length} {MultiOp.actOn o} {opNames o}"
  | .refused => "refused"
  | .panic => "panic"

/-- SPEC circuit on a buffer: one sweep per spec gate -/
def specApply (gs : List (Spec.SGate Float)) (a : Array (Cx Float)) : Array (Cx Float) :=
  gs.foldl (fun a g => Array.ofFn (n := a.size) (fun i => g.act (bufFn a) i.val)) a

/-! ### driver state and the command interpreter -/

structure DSt where
  caseId : String := "?"
  op : Option (MultiOp Float) := none
  q : Option (QReg Float) := none
  /-- reference circuit of the current op (SPEC side) -/
  spec : Option (List (Spec.SGate Float)) := none
  /-- what the implementation reported for the current op -/
  implActOn : Nat := 0
  implNames : List String := []
  q2 : Option (QReg Float) := none
  c : Option CReg := none
  v : Option VReg := none
  /-- the implementation's own last observed buffer of the current register -/
  implPsi : Array (Cx Float) := #[]
  int : Option (Interp Float) := none
  sym : Option (Sym Float) := none
  /-- implementation-side observations used by the interpreter oracles -/
  lastRes : String := ""
  /-- kind and name of every top-level statement of the chunk interpreted last, in order -/
  lastKinds : List String := []
  lastSummary : List String := []
  snap : List String := []
  lastFinish : Array (Cx Float) × String := (#[], "")
  marks : List (String × (Array (Cx Float) × String)) := []
  /-- nodes of the chunks the implementation accepted in this session (SPEC side) -/
  progNodes : List (Node Float) := []
  /-- the simulator was created / reset just before (so a finish starts from |0…0>) -/
  symFresh : Bool := false
  /-- `rayon::current_num_threads()` as reported by the implementation -/
  avail : Nat := 0
  /-- no operator of this case has (so far) acted differently in the model and in the
  implementation: while this holds, differences in what the block queue / runner does with
  the operators are attributed to the queue / runner; once an operator itself differs they
  are tagged `.opsdiffer` -/
  opsAgree : Bool := true

structure Report where
  msgs : Array String := #[]
  mismatches : Nat := 0
  specfails : Nat := 0
  speclines : Nat := 0
  lines : Nat := 0
  cases : Nat := 0

def Report.mismatch (r : Report) (st : DSt) (ln : Nat) (cmd model impl : String) : Report :=
  { r with mismatches := r.mismatches + 1,
           msgs := r.msgs.push s!"MISMATCH {st.caseId} {ln} {cmd} model={model} impl={impl}" }

def Report.specfail (r : Report) (st : DSt) (ln : Nat) (cmd spec impl : String) : Report :=
  { r with specfails := r.specfails + 1,
           msgs := r.msgs.push s!"SPECFAIL {st.caseId} {ln} {cmd} spec={spec} impl={impl}" }

def implPanicked (obs : List String) : Bool := obs.head? == some "panic"

/-- a panic of the harness itself on a malformed case (a command issued without the object it needs: `expect("no int")`,
`"no qreg"`, ..), e.g. after the shrinker dropped the line that created it: not an observation about the implementation -/
def harnessMisuse (obs : List String) : Bool :=
  obs.head? == some "panic" && ["no_int", "no_op", "no_qreg", "no_q2", "no_creg", "no_sym", "no_vreg"].contains (obs.getD 2 "")

/-- does an operator of the interpreter's queue carry a non-finite parameter (a NaN / infinite half-angle phase)?
Such a program is the known finding D16 (accepted, panics when measured); the tag keeps it apart from any other panic -/
def atomNonFinite : Atom Float → Bool
  | .rx _ p | .ry _ p | .rz _ p | .rxx _ p | .ryy _ p | .rzz _ p => !(p.re.isFinite && p.im.isFinite)
  | _ => false

def queueNonFinite (e : ExtOp Float) : Bool :=
  e.blocks.any (fun b => b.1.any (fun g => atomNonFinite g.func)) || e.tail.any (fun g => atomNonFinite g.func)

/-- Compare a model buffer with the observed one. -/
def cmpVec (r : Report) (st : DSt) (ln : Nat) (cmd : String) (model : Array (Cx Float))
    (obs : List String) : Report :=
  match parseCVec obs with
  | some (impl, _) =>
    if closeVec model impl then r
    else r.mismatch st ln cmd (firstDiff model impl) (showVec impl)
  | none => r.mismatch st ln cmd (showVec model) (String.intercalate " " (obs.take 6))

def cmpSpecVec (r : Report) (st : DSt) (ln : Nat) (cmd : String) (spec : Array (Cx Float))
    (obs : List String) : Report :=
  let r := { r with speclines := r.speclines + 1 }
  match parseCVec obs with
  | some (impl, _) =>
    if closeVec spec impl then r
    else r.specfail st ln cmd (firstDiff spec impl) (showVec impl)
  | none => r.specfail st ln cmd (showVec spec) (String.intercalate " " (obs.take 6))

/-- SPEC (C02): `.c(m)` is refused exactly when `m` overlaps the qubits the operator already
acts on or is controlled by (as reported by the implementation for the uncontrolled
operator). -/
def specCtrlRefusal (r : Report) (st : DSt) (ln : Nat) (m : Nat) (e : MultiOp Float)
    (implRefused : Bool) : Report :=
  let r := { r with speclines := r.speclines + 1 }
  let want := !e.isEmpty && (st.implActOn &&& m != 0) || (e.isEmpty && false)
  if want == implRefused then r
  else r.specfail st ln "c02.refuse" (if want then "refused" else "accepted")
    (if implRefused then "refused" else "accepted")

/-! ### interpreter: Float instances, decoding of the serialised AST -/

instance : ExprFns Float where
  pi := piF
  pow := Float.pow
  rem := fun a b => a - b * (if a / b ≥ 0 then Float.floor (a / b) else Float.ceil (a / b))
  sqrt := Float.sqrt
  exp := Float.exp
  ln := Float.log
  abs := Float.abs
  floor := Float.floor
  ceil := Float.ceil
  round := Float.round
  atan2 := Float.atan2
  max := fun a b => if a.isNaN then b else if b.isNaN then a else if a ≥ b then a else b
  min := fun a b => if a.isNaN then b else if b.isNaN then a else if a ≤ b then a else b
  negInf := -(1.0 / 0.0)
  posInf := 1.0 / 0.0

instance : AngleFns Float where
  halfPhase := halfPhase
  quarter := halfPhase fracPi2
  qftPhase := qftPhase

def hexVal (c : Char) : Nat :=
  if c.isDigit then c.toNat - '0'.toNat else if c ≥ 'a' && c ≤ 'f' then c.toNat - 'a'.toNat + 10 else 0

def unhex (h : String) : String :=
  if h == "_" then "" else
  let cs := h.toList
  let rec go : List Char → List UInt8 → List UInt8
    | a :: b :: r, acc => go r ((hexVal a * 16 + hexVal b).toUInt8 :: acc)
    | _, acc => acc.reverse
  match String.fromUTF8? ⟨(go cs []).toArray⟩ with
  | some s => s
  | none => "\uFFFD"

abbrev Toks := List String

def pArg : Toks → Option (Arg × Toks)
  | "q" :: n :: i :: r => do some (.qubit (unhex n) (← tokNat i), r)
  | "r" :: n :: r => some (.register (unhex n), r)
  | _ => none

def pRpnTok (t : String) : Option (RpnTok Float) :=
  match t.toList with
  | 'n' :: r => (String.ofList r).toNat?.map (fun b => .num (Float.ofBits b.toUInt64))
  | 'v' :: r => some (.var (unhex (String.ofList r)))
  | ['b', '+'] => some (.bin .plus) | ['b', '-'] => some (.bin .minus) | ['b', '*'] => some (.bin .times)
  | ['b', '/'] => some (.bin .div) | ['b', '%'] => some (.bin .rem) | ['b', '^'] => some (.bin .pow)
  | ['u', '+'] => some (.un .plus) | ['u', '-'] => some (.un .minus)
  | 'f' :: r =>
    match (String.ofList r).splitOn ":" with
    | [n, k] => k.toNat?.map (fun k => .func (unhex n) k)
    | _ => none
  | _ => none

def pPExpr : Toks → Option (PExpr Float × Toks)
  | t :: "P" :: r => some (⟨unhex t, .error .parseError⟩, r)
  | t :: "S" :: r => some (⟨unhex t, .error .rpnError⟩, r)
  | t :: "K" :: k :: r => do
    let k ← tokNat k
    if r.length < k then none
    else
      let toks ← (r.take k).mapM pRpnTok
      some (⟨unhex t, .ok toks⟩, r.drop k)
  | _ => none

def pMany {α : Type} (p : Toks → Option (α × Toks)) : Nat → Toks → List α → Option (List α × Toks)
  | 0, r, acc => some (acc.reverse, r)
  | k + 1, r, acc => do
    let (a, r') ← p r
    pMany p k r' (a :: acc)

def pCall : Toks → Option (Call Float × Toks)
  | n :: nr :: r => do
    let (regs, r) ← pMany pArg (← tokNat nr) r []
    match r with
    | na :: r => do
      let (args, r) ← pMany pPExpr (← tokNat na) r []
      some (⟨unhex n, regs, args⟩, r)
    | _ => none
  | _ => none

def pInner : Toks → Option (Inner Float × Toks)
  | "c" :: r => do let (c, r) ← pCall r; some (.call c, r)
  | "o" :: r => some (.other, r)
  | _ => none

def pHexName : Toks → Option (String × Toks)
  | n :: r => some (unhex n, r)
  | _ => none

def pNode : Toks → Option (Node Float × Toks)
  | "Q" :: n :: s :: r => do some (.qreg (unhex n) (← tokNat s), r)
  | "C" :: n :: s :: r => do some (.creg (unhex n) (← tokNat s), r)
  | "B" :: r => some (.barrier, r)
  | "O" :: r => some (.opaque, r)
  | "R" :: r => do let (a, r) ← pArg r; some (.reset a, r)
  | "M" :: r => do let (q, r) ← pArg r; let (c, r) ← pArg r; some (.measure q c, r)
  | "A" :: r => do let (c, r) ← pCall r; some (.apply c, r)
  | "G" :: n :: nr :: r => do
    let (regs, r) ← pMany pHexName (← tokNat nr) r []
    match r with
    | na :: r => do
      let (args, r) ← pMany pHexName (← tokNat na) r []
      match r with
      | nb :: r => do
        let (body, r) ← pMany pInner (← tokNat nb) r []
        some (.gate (unhex n) regs args body, r)
      | _ => none
    | _ => none
  | "I" :: l :: v :: r => do let (b, r) ← pInner r; some (.ifn (unhex l) (← tokNat v) b, r)
  | _ => none

def hexStr (s : String) : String :=
  if s.isEmpty then "_" else
  String.join (s.toUTF8.toList.map (fun b =>
    let d (n : Nat) : Char := if n < 10 then Char.ofNat (48 + n) else Char.ofNat (87 + n)
    String.ofList [d (b.toNat / 16), d (b.toNat % 16)]))

def evalErrStr : EvalErr → String
  | .unknownVariable v => "UnknownVariable:" ++ hexStr v
  | .function n e => "Function:" ++ hexStr n ++ ":" ++ (match e with
      | .tooFew => "TooFew" | .tooMany => "TooMany" | .numberArgs k => s!"NumberArgs{k}"
      | .unknownFunction => "UnknownFunction")
  | .parseError => "ParseError"
  | .rpnError => "RPNError"

/-- kind and name of a top-level statement, as the generators spell it (`tools`: harness `expected_kinds`) -/
def nodeKind (n : Node Float) : String :=
  match n with
  | .qreg a k => s!"qreg:{a}:{k}"
  | .creg a k => s!"creg:{a}:{k}"
  | .barrier => "barrier"
  | .reset _ => "reset"
  | .measure _ _ => "measure"
  | .apply c => "apply:" ++ c.name
  | .opaque => "opaque"
  | .gate name _ _ _ => "gate:" ++ name
  | .ifn _ _ body => "if:" ++ (match body with | .call c => c.name | .other => "?")

def intErrStr : IntError → String
  | .noQReg n => s!"NoQReg {hexStr n}"
  | .noCReg n => s!"NoCReg {hexStr n}"
  | .dupQReg n k => s!"DupQReg {hexStr n} {k}"
  | .dupCReg n k => s!"DupCReg {hexStr n} {k}"
  | .idxOutOfRange n k => s!"IdxOutOfRange {hexStr n} {k}"
  | .unknownGate n => s!"UnknownGate {hexStr n}"
  | .invalidControlMask c a => s!"InvalidControlMask {c} {a}"
  | .unevaluatedArgument w e => s!"UnevaluatedArgument {hexStr w} {evalErrStr e}"
  | .wrongRegNumber n k => s!"WrongRegNumber {hexStr n} {k}"
  | .wrongArgNumber n k => s!"WrongArgNumber {hexStr n} {k}"
  | .unmatchedRegSize a b => s!"UnmatchedRegSize {a} {b}"
  | .macroError e => "MacroError " ++ (match e with
      | .disallowedNodeInMacro => "DisallowedNodeInMacro"
      | .disallowedRegister n k => s!"DisallowedRegister {hexStr n} {k}"
      | .unknownReg n => s!"UnknownReg {hexStr n}"
      | .unknownArg n => s!"UnknownArg {hexStr n}"
      | .recursiveMacro n => s!"RecursiveMacro {hexStr n}")
  | .macroAlreadyDefined n => s!"MacroAlreadyDefined {hexStr n}"
  | .disallowedNodeInIf => "DisallowedNodeInIf"
  | .identIsTooLarge n k => s!"IdentIsTooLarge {hexStr n} {k}"
  | .registerIsTooLarge n k => s!"RegisterIsTooLarge {hexStr n} {k}"

def probeState (n : Nat) : Array (Cx Float) :=
  Array.ofFn (n := max (2 ^ n) 8) (fun i =>
    if i.val < 2 ^ n then
      ⟨(Float.ofNat ((i.val * 7 + 3) % 11) - 5.0) / 16.0, (Float.ofNat ((i.val * 5 + 1) % 13) - 6.0) / 16.0⟩
    else 0)

def namesList (l : List String) : String :=
  if l.isEmpty then "-" else String.intercalate "," (l.map hexStr)

def sepStr : Sep → String
  | .nop => "nop" | .measure q c => s!"measure:{q}:{c}" | .ifBranch c v => s!"if:{c}:{v}" | .reset q => s!"reset:{q}"

/-- the (names, probe) view of one queue of the block structure -/
def opView (o : MultiOp Float) (nq : Nat) : String × Option (Array (Cx Float)) :=
  (opNames o,
   if nq > 6 || MultiOp.actOn o ≥ max (2 ^ nq) 8 then none
   else some (MultiOp.applyArr o (probeState nq)))

/-- compare the implementation's summary of an interpreter with the model's -/
def cmpSummary (r : Report) (st : DSt) (ln : Nat) (tag : String) (int : Interp Float) (obs : Toks) : Report :=
  let nq := int.qReg.length
  let sortedMacros := (int.macros.map (fun p => hexStr p.1)).toArray.qsort (· < ·) |>.toList
  let head := [s!"mop={if int.mOp == .set then "set" else "xor"}", s!"q={namesList int.qReg}",
               s!"c={namesList int.cReg}",
               s!"macros={if sortedMacros.isEmpty then "-" else String.intercalate "," sortedMacros}",
               s!"asts={int.asts.length}", "blocks", toString int.qOps.blocks.length]
  if obs.take 7 != head then
    r.mismatch st ln (tag ++ ".summary") (String.intercalate " " head) (String.intercalate " " (obs.take 7))
  else
    let rec goBlocks (bs : List (MultiOp Float × Sep)) (o : Toks) (r : Report) (k : Nat) : Report × Toks :=
      match bs with
      | [] => (r, o)
      | (op, sep) :: rest =>
        match o with
        | sp :: nm :: o' =>
          let (names, probe) := opView op nq
          let r := if sp == sepStr sep && nm == names then r
                   else r.mismatch st ln (tag ++ s!".block{k}") s!"{sepStr sep} {names}" s!"{sp} {nm}"
          match probe with
          | none => goBlocks rest (o'.drop 1) r (k + 1)
          | some pv =>
            match parseCVec o' with
            | some (iv, o'') =>
              let r := if closeVec pv iv then r else r.mismatch st ln (tag ++ s!".block{k}.probe") (firstDiff pv iv) (showVec iv)
              goBlocks rest o'' r (k + 1)
            | none => (r.mismatch st ln (tag ++ s!".block{k}.probe") "cvec" "unparsable", [])
        | _ => (r.mismatch st ln (tag ++ ".blocks") "more blocks" "end of observation", [])
    let (r, o) := goBlocks int.qOps.blocks (obs.drop 7) r 0
    match o with
    | "tail" :: nm :: o' =>
      let (names, probe) := opView int.qOps.tail nq
      let r := if nm == names then r else r.mismatch st ln (tag ++ ".tail") names nm
      match probe, parseCVec o' with
      | some pv, some (iv, _) => if closeVec pv iv then r else r.mismatch st ln (tag ++ ".tail.probe") (firstDiff pv iv) (showVec iv)
      | _, _ => r
    | _ => r


/-! ### C19: the event log of `threads.rs` against the transition system -/

def parsePoolEv (tok : String) : Option (Nat × Pool.Ev) :=
  let optNat (a : String) : Option (Option Nat) := if a == "-" then some none else a.toNat?.map some
  match tok.splitOn ":" with
  | [t, "C", n] => do some (← t.toNat?, .call (← n.toNat?))
  | [t, "RA"] => do some (← t.toNat?, .readAcq)
  | [t, "RR", a] => do some (← t.toNat?, .readRel (← optNat a))
  | [t, "WA"] => do some (← t.toNat?, .writeAcq)
  | [t, "WR", a] => do some (← t.toNat?, .writeRel (← optNat a))
  | [t, "IB", _] => do some (← t.toNat?, .installBegin)
  | [t, "IE"] => do some (← t.toNat?, .installEnd)
  | _ => none

def showPoolEv : Nat × Pool.Ev → String
  | (t, e) => s!"{t}:{reprStr e}"

/-- `none` = the log conforms; `some (expected, got)` otherwise -/
def poolTraceCheck (toks : List String) : Option (String × String) :=
  match toks.mapM parsePoolEv with
  | none => some ("a parsable event log", String.intercalate " " (toks.take 6))
  | some raw =>
    -- dense thread indices in order of first appearance
    let tids := raw.foldl (fun acc p => if acc.contains p.1 then acc else acc ++ [p.1]) ([] : List Nat)
    let log := raw.map (fun p => (tids.idxOf p.1, p.2))
    -- the stored pool before the log: what the first read saw, unless something was written before
    let pool0 := (log.findSome? (fun p => match p.2 with
      | .readRel seen => some seen
      | .writeRel _ => some none
      | _ => none)).getD none
    let n := tids.length
    match Pool.replay (Pool.initOf pool0 n log) log 0 with
    | .error i =>
      let ctx := (log.drop (i - min i 6)).take (min i 6 + 1)
      some (s!"a move of Pool.Step at event {i}", s!"threads={n} pool0={reprStr pool0} ... " ++ String.intercalate " " (ctx.map showPoolEv))
    | .ok s =>
      if s.threads.flatten.isEmpty && s.pending.isEmpty then none
      else some ("every call returned at the end of the log", s!"{s.threads.flatten.length} call(s) still in progress")

/-! ### register commands -/

def parseNVec : List String → Option (List Nat × List String)
  | [] => none
  | n :: rest => do
    let n ← tokNat n
    if rest.length < n then none
    else
      let xs ← (rest.take n).mapM tokNat
      some (xs, rest.drop n)

def parseFVec : List String → Option (List Float × List String)
  | [] => none
  | n :: rest => do
    let n ← tokNat n
    if rest.length < n then none
    else
      let xs ← (rest.take n).mapM tokFloat
      some (xs, rest.drop n)

def closeList (a b : List Float) : Bool :=
  a.length == b.length && (a.zip b).all (fun p => closeF p.1 p.2)

def normSqArr (a : Array (Cx Float)) : Float := a.foldl (fun acc z => acc + z.normSq) 0

def qobsStr (q : QReg Float) : String := s!"{q.qNum} {q.qMask}"

/-- compare `num qmask cvec` -/
def cmpQObs (r : Report) (st : DSt) (ln : Nat) (cmd : String) (q : QReg Float) (obs : List String) :
    Report × Array (Cx Float) :=
  match obs with
  | num :: mask :: rest =>
    let r := if s!"{num} {mask}" == qobsStr q then r else r.mismatch st ln (cmd ++ ".shape") (qobsStr q) s!"{num} {mask}"
    match parseCVec rest with
    | some (impl, _) => (if closeVec q.psi impl then r else r.mismatch st ln cmd (firstDiff q.psi impl) (showVec impl), impl)
    | none => (r.mismatch st ln cmd "cvec" "unparsable", #[])
  | _ => (r.mismatch st ln cmd "num mask cvec" (String.intercalate " " (obs.take 3)), #[])

def specCheck (r : Report) (st : DSt) (ln : Nat) (tag : String) (ok : Bool) (want got : String) : Report :=
  let r := { r with speclines := r.speclines + 1 }
  if ok then r else r.specfail st ln tag want got

/-- C05: unit norm, zero padding, finite -/
def specValid (r : Report) (st : DSt) (ln : Nat) (n : Nat) (impl : Array (Cx Float)) : Report :=
  let size := 2 ^ n
  let nrm := normSqArr impl
  let r := specCheck r st ln "c05.norm" (Float.abs (nrm - 1.0) ≤ 1e-6) "1" (toString nrm)
  let r := specCheck r st ln "c05.len" (impl.size == max size 8) (toString (max size 8)) (toString impl.size)
  let padOk := (List.range impl.size).all (fun i => i < size || ((impl.getD i 0).re == 0.0 && (impl.getD i 0).im == 0.0))
  let r := specCheck r st ln "c05.pad" padOk "zero padding" (showVec impl)
  let fin := impl.all (fun z => z.re.isFinite && z.im.isFinite)
  specCheck r st ln "c05.finite" fin "finite" (showVec impl)

def cobsStr (c : CReg) : String := s!"{c.value} {c.qNum} {c.qMask}"

def vobsStr (v : VReg) : String :=
  s!"{v.idxAll} {v.bits.length}" ++ String.join (v.bits.map (fun b => s!" {b}"))

/-- C20 spec for a virtual register built from `mask`: ascending set bits -/
def specVReg (r : Report) (st : DSt) (ln : Nat) (mask : Nat) (obs : List String) : Report :=
  let want := bitsOf mask
  let wantStr := s!"{mask % 2 ^ 64} {want.length}" ++ String.join (want.map (fun b => s!" {b}"))
  specCheck r st ln "c20.vreg" (wantStr == String.intercalate " " obs) wantStr (String.intercalate " " (obs.take 8))

def stepReg (st : DSt) (r : Report) (ln : Nat) (cmd obs : List String) : Option (DSt × Report) :=
  match cmd with
  | ["q2reg", n, _] => do
    let n ← tokNat n
    some ({ st with q2 := if obs == ["ok"] then some (QReg.new n) else none }, r)
  | ["q2state", n, s, _] => do
    let n ← tokNat n; let s ← tokNat s
    some ({ st with q2 := if obs == ["ok"] then some (QReg.withState n s) else none }, r)
  | "set2psi" :: v => do
    let (a, _) ← parseCVec v
    let q2 ← st.q2
    some ({ st with q2 := some { q2 with psi := a } }, r)
  | "tensor" :: _ => do
    let a ← st.q; let b ← st.q2
    let t := a.tensorProd b
    let (r, impl) := cmpQObs r st ln "tensor" t obs
    -- SPEC (C14): left factor in the low-order bits, sizes add, padding zero
    let n := a.qNum + b.qNum
    let want : Array (Cx Float) := Array.ofFn (n := max (2 ^ n) 8) (fun i =>
      if i.val < 2 ^ n then a.psi.getD (i.val % 2 ^ a.qNum) 0 * b.psi.getD (i.val / 2 ^ a.qNum) 0 else 0)
    let r := specCheck r st ln "c14.tensor" (closeVec want impl) (showVec want) (showVec impl)
    let r := specCheck r st ln "c14.tensor.num" (obs.head? == some (toString n)) (toString n) (obs.head?.getD "")
    some ({ st with q := some t, q2 := none, implPsi := impl }, r)
  | ["valid"] => do
    let q ← st.q
    let r := cmpVec r st ln "valid" q.psi obs
    let impl := (parseCVec obs).map (·.1) |>.getD #[]
    some ({ st with implPsi := impl }, specValid r st ln q.qNum impl)
  | ["qobs"] => do
    let q ← st.q
    let (r, impl) := cmpQObs r st ln "qobs" q obs
    some ({ st with implPsi := impl }, r)
  | "measure" :: mtok :: _ => do
    let q ← st.q
    let mask ← if mtok == "all" then some q.qMask else tokNat mtok
    match obs with
    | value :: num :: qm :: drawn :: rest =>
      let drawnN := (tokNat drawn).getD 0
      let (q', c') := q.measureMask mask drawnN
      let r := if cobsStr c' == s!"{value} {num} {qm}" then r else r.mismatch st ln "measure.creg" (cobsStr c') s!"{value} {num} {qm}"
      let r := cmpVec r st ln "measure" q'.psi rest
      let impl := (parseCVec rest).map (·.1) |>.getD #[]
      -- SPEC (C06)
      let pre := st.implPsi
      let size := 2 ^ q.qNum
      let m' := mask % 2 ^ 64 &&& (size - 1)
      let v := (tokNat value).getD 0
      let r := specCheck r st ln "c06.bits" (v &&& m' == v) s!"within {m'}" value
      let r :=
        if m' == 0 then
          specCheck r st ln "c06.empty" (v == 0 && closeVec pre impl) "unchanged" (showVec impl)
        else
          let pv := (List.range size).foldl (fun acc i =>
            if i &&& m' == v then acc + (pre.getD i 0).normSq else acc) 0
          let r := specCheck r st ln "c06.possible" (pv > 0) "positive probability" (toString pv)
          let zeros := (List.range impl.size).all (fun i =>
            (i ^^^ v) &&& m' == 0 || ((impl.getD i 0).re == 0.0 && (impl.getD i 0).im == 0.0))
          let r := specCheck r st ln "c06.zero" zeros "inconsistent amplitudes exactly 0" (showVec impl)
          -- consistent amplitudes: one common positive factor
          let best := (List.range size).foldl (fun b i =>
            if i &&& m' == v && (pre.getD i 0).normSq > (pre.getD b 0).normSq then i
            else if b &&& m' != v then i else b) 0
          let lam := Float.sqrt ((impl.getD best 0).normSq / (pre.getD best 0).normSq)
          let ratios := (List.range size).all (fun i =>
            i &&& m' != v || closeC ((pre.getD i 0).scale lam) (impl.getD i 0))
          let r := specCheck r st ln "c06.ratio" (pv ≤ 1e-20 || ratios) s!"pre * {lam}" (showVec impl)
          -- SPEC (C07, sequential measurements): the state left behind carries the Born distribution conditioned on the
          -- returned value - |pre_i|^2 / P(v) on the consistent basis states, 0 elsewhere
          let implNorm := (List.range impl.size).foldl (fun acc i => acc + (impl.getD i 0).normSq) 0
          let condOK := (List.range size).all (fun i =>
            let want := if i &&& m' == v then (pre.getD i 0).normSq / pv else 0
            Float.abs (want - (impl.getD i 0).normSq / implNorm) ≤ 1e-7)
          let r := specCheck r st ln "c07.conditional" (pv ≤ 1e-12 || (implNorm > 0 && condOK))
            "Born distribution conditioned on the outcome" (showVec impl)
          r
      let r := specValid r st ln q.qNum impl
      some ({ st with q := some q', c := some c', implPsi := impl }, r)
    | _ => some (st, r.mismatch st ln "measure" "value num mask drawn cvec" (String.intercalate " " (obs.take 4)))
  | "resetmask" :: mask :: _ => do
    let mask ← tokNat mask
    let q ← st.q
    match obs with
    | drawn :: rest =>
      let q' := q.resetByMask mask ((tokNat drawn).getD 0)
      let r := cmpVec r st ln "resetmask" q'.psi rest
      let impl := (parseCVec rest).map (·.1) |>.getD #[]
      -- SPEC (C11): the named qubits end in |0>
      let size := 2 ^ q.qNum
      let m' := mask % 2 ^ 64 &&& (size - 1)
      let zero := (List.range size).all (fun i => i &&& m' == 0 || (impl.getD i 0).normSq ≤ 1e-18)
      let r := specCheck r st ln "c11.reset.zero" zero "named qubits in |0>" (showVec impl)
      let r := specValid r st ln q.qNum impl
      some ({ st with q := some q', implPsi := impl }, r)
    | _ => none
  | "vlist" :: l => do
    let l ← l.mapM tokNat
    let v ← st.v
    let model := toString (v.idxList l)
    let implS := String.intercalate " " obs
    let r := if model == implS then r else r.mismatch st ln "vlist" model implS
    let want := (List.range v.bits.length).foldl (fun acc i =>
      if l.contains i then acc ||| v.bits.getD i 0 else acc) 0
    let r := specCheck r st ln "c20.vidx" (toString want == implS) (toString want) implS
    some (st, r)
  | [c, n] =>
    if c == "setnum" || c == "setnumnr" then do
      let n ← tokNat n
      let q ← st.q
      let q' := q.setNum n
      let (r, impl) := cmpQObs r st ln c q' obs
      -- SPEC (C14): growing keeps the amplitudes and adds |0> qubits; shrinking gives |0…0>
      let want : Array (Cx Float) := Array.ofFn (n := max (2 ^ n) 8) (fun i =>
        if n < q.qNum then (if i.val = 0 then 1 else 0)
        else if i.val < 2 ^ q.qNum then st.implPsi.getD i.val 0 else 0)
      let r := specCheck r st ln "c14.setnum" (closeVec want impl) (showVec want) (showVec impl)
      some ({ st with q := some q', implPsi := impl }, r)
    else if c == "reset" then do
      let i ← tokNat n
      let q ← st.q
      let q' := q.reset i
      let r := cmpVec r st ln "reset" q'.psi obs
      let impl := (parseCVec obs).map (·.1) |>.getD #[]
      let r := specValid r st ln q.qNum impl
      some ({ st with q := some q', implPsi := impl }, r)
    else if c == "qvregby" then do
      let m ← tokNat n
      let q ← st.q
      let model := match q.getVRegBy m with
        | some v => "some " ++ vobsStr v
        | none => "none"
      let implS := String.intercalate " " obs
      let r := if model == implS then r else r.mismatch st ln "qvregby" model implS
      -- SPEC (C20): a view exists exactly when the mask lies inside the register
      let inside := m &&& (2 ^ 64 - 1 - (2 ^ q.qNum - 1)) == 0
      let r := specCheck r st ln "c20.view" (inside == (obs.head? == some "some")) (toString inside) (obs.head?.getD "")
      let r := if inside && obs.head? == some "some" then specVReg r st ln m (obs.drop 1) else r
      some (st, r)
    else if c == "cnew" then do
      let n ← tokNat n
      let cr := CReg.new n
      let implS := String.intercalate " " obs
      let r := if cobsStr cr == implS then r else r.mismatch st ln "cnew" (cobsStr cr) implS
      some ({ st with c := some cr }, r)
    else if c == "creset" || c == "csetnum" then do
      let x ← tokNat n
      let cr ← st.c
      let cr' := if c == "creset" then cr.reset x else cr.setNum x
      let implS := String.intercalate " " obs
      let r := if cobsStr cr' == implS then r else r.mismatch st ln c (cobsStr cr') implS
      let v := (obs.head?.bind tokNat).getD 0
      let r := specCheck r st ln "c20.creg.range" (v < 2 ^ cr'.qNum) s!"< 2^{cr'.qNum}" (toString v)
      some ({ st with c := some cr' }, r)
    else if c == "cgetmask" then do
      let m ← tokNat n
      let cr ← st.c
      let model := toString (cr.getByMask m)
      let implS := String.intercalate " " obs
      let r := if model == implS then r else r.mismatch st ln c model implS
      -- SPEC: the bits of value selected by mask (inside the register), packed low
      let sel := bitsOf (m &&& (2 ^ cr.qNum - 1))
      let want := (List.range sel.length).foldl (fun acc i =>
        if cr.value &&& sel.getD i 0 ≠ 0 then acc + 2 ^ i else acc) 0
      let r := specCheck r st ln "c20.creg.getmask" (toString want == implS) (toString want) implS
      some (st, r)
    else if c == "vreg" || c == "vnew" then do
      let x ← tokNat n
      let v := if c == "vreg" then VReg.ofMask x else VReg.new x
      let implS := String.intercalate " " obs
      let r := if vobsStr v == implS then r else r.mismatch st ln c (vobsStr v) implS
      let mask := if c == "vreg" then x else (if x ≥ 64 then 2 ^ 64 - 1 else 2 ^ x - 1)
      let r := specVReg r st ln mask obs
      some ({ st with v := some v }, r)
    else if c == "vidx" then do
      let i ← tokNat n
      let v ← st.v
      let model := match v.idx i with | some b => toString b | none => "panic"
      let implS := if implPanicked obs then "panic" else String.intercalate " " obs
      let r := if model == implS then r else r.mismatch st ln c model implS
      some (st, r)
    else if c == "vpred" then do
      let bits ← tokNat n
      let v ← st.v
      let model := toString (v.idxBy (fun i => bits.testBit i))
      let implS := String.intercalate " " obs
      let r := if model == implS then r else r.mismatch st ln c model implS
      -- SPEC (C20): union of the selected positions' bits
      let want := (List.range v.bits.length).foldl (fun acc i =>
        if bits.testBit i then acc ||| v.bits.getD i 0 else acc) 0
      let r := specCheck r st ln "c20.vidx" (toString want == implS) (toString want) implS
      some (st, r)
    else if c == "bitsiter" then do
      let m ← tokNat n
      let l := bitsIterList m
      let model := s!"{l.length}" ++ String.join (l.map (fun b => s!" {b}"))
      let implS := String.intercalate " " obs
      let r := if model == implS then r else r.mismatch st ln c model implS
      let w := bitsOf m
      let want := s!"{w.length}" ++ String.join (w.map (fun b => s!" {b}"))
      let r := specCheck r st ln "c20.bits" (want == implS) want implS
      some (st, r)
    else if c == "countbits" then do
      let m ← tokNat n
      let model := toString (popcount m)
      let implS := String.intercalate " " obs
      some (st, if model == implS then r else r.mismatch st ln c model implS)
    else none
  | ["probs"] => do
    let q ← st.q
    let model := q.getProbabilities
    let (impl, _) ← parseFVec obs
    let r := if closeList model impl then r else r.mismatch st ln "probs" (toString model) (toString impl)
    -- SPEC (C07/C05/C14): |ψ_i|² / ‖ψ‖², 2^n entries, non-negative, summing to 1
    let nrm := normSqArr st.implPsi
    let want := (List.range (2 ^ q.qNum)).map (fun i => (st.implPsi.getD i 0).normSq / nrm)
    let r := specCheck r st ln "c07.reported" (closeList want impl) (toString (want.take 8)) (toString (impl.take 8))
    let r := specCheck r st ln "c14.size.probs" (impl.length == 2 ^ q.qNum) (toString (2 ^ q.qNum)) (toString impl.length)
    let sum := impl.foldl (· + ·) 0
    let r := specCheck r st ln "c05.probs" (impl.all (fun x => x ≥ 0 && x.isFinite) && Float.abs (sum - 1) ≤ 1e-6) "sum 1" (toString sum)
    some (st, r)
  | ["absolute"] => do
    let q ← st.q
    let (impl, _) ← parseFVec obs
    let r := if closeList [q.getAbsolute] impl then r else r.mismatch st ln "absolute" (toString q.getAbsolute) (toString impl)
    some (st, r)
  | ["polar"] => do
    let q ← st.q
    let (impl, _) ← parseFVec obs
    -- the polar form must reconstruct the amplitudes; 2^n entries
    let r := specCheck r st ln "c14.size.polar" (impl.length == 2 * 2 ^ q.qNum) (toString (2 ^ q.qNum)) (toString (impl.length / 2))
    let ok := (List.range (2 ^ q.qNum)).all (fun i =>
      let rr := impl.getD (2 * i) 0; let th := impl.getD (2 * i + 1) 0
      closeC ⟨rr * Float.cos th, rr * Float.sin th⟩ (q.psi.getD i 0))
    let r := if ok then r else r.mismatch st ln "polar" (showVec q.psi) (toString (impl.take 8))
    some (st, r)
  | ["collapse", idy, mask] => do
    let idy ← tokNat idy; let mask ← tokNat mask
    let q ← st.q
    let q' := q.collapseMask idy mask
    let r := cmpVec r st ln "collapse" q'.psi obs
    let impl := (parseCVec obs).map (·.1) |>.getD #[]
    some ({ st with q := some q', implPsi := impl }, r)
  | ["normalize"] => do
    let q ← st.q
    let q' := q.normalize
    let r := cmpVec r st ln "normalize" q'.psi obs
    let impl := (parseCVec obs).map (·.1) |>.getD #[]
    some ({ st with q := some q', implPsi := impl }, r)
  | ["sample", count, _] | ["samplex", count, _] => do
    let count ← tokNat count
    let q ← st.q
    let (normals, rest) ← parseFVec obs
    let (hist, _) ← parseNVec rest
    let r :=
      if normals.isEmpty then r
      else match q.sampleAll count normals with
        | some h =>
          if h == hist then r
          else
            -- a register with several threads sums its probabilities / draws in another order than the model: the sums
            -- agree to rounding only, and a proposal that sits on a rounding boundary (x.5) may then round the other way.
            -- Such a near-tie explains a different histogram; anything else is a disagreement.
            let p := q.getProbabilities
            let c : Float := Float.ofNat count
            let cs := Float.sqrt c
            let nn := (p.zip normals).map (fun pg => Float.sqrt pg.1 * pg.2)
            let ns := nn.foldl (· + ·) 0
            let nearTie := (p.zip nn).any (fun pn =>
              let x := c * pn.1 + cs * (pn.2 - ns * pn.1)
              Float.abs (Float.abs (x - Float.floor x) - 0.5) < 1e-6)
            if nearTie then r else r.mismatch st ln "sample" (toString (h.take 16)) (toString (hist.take 16))
        | none => r.mismatch st ln "sample" "model-panic" (toString (hist.take 16))
    -- SPEC (C16/C14): 2^n cells, exact total, no shots on impossible outcomes
    let size := 2 ^ q.qNum
    let r := specCheck r st ln "c16.len" (hist.length == size) (toString size) (toString hist.length)
    let r := specCheck r st ln "c16.total" (hist.foldl (· + ·) 0 == count) (toString count) (toString (hist.foldl (· + ·) 0))
    let zeroOk := (List.range size).all (fun i =>
      (st.implPsi.getD i 0).normSq != 0.0 || hist.getD i 0 == 0)
    let r := specCheck r st ln "c16.zero" zeroOk "no shots where p = 0" (toString (hist.take 16))
    some (st, r)
  | ["bornstat", mask, shots] => do
    -- SPEC (C07, supporting statistics): observed frequencies of measure_mask against
    -- sum of |psi_i|^2 over the consistent basis states; chi-square far beyond any
    -- plausible fluctuation (threshold ~ p < 1e-12), and no outcome of probability zero
    let mask ← tokNat mask; let shots ← tokNat shots
    let q ← st.q
    let size := 2 ^ q.qNum
    let m' := mask &&& (size - 1)
    let nrm := normSqArr st.implPsi
    let k ← obs.head?.bind tokNat
    let pairs := (List.range k).filterMap (fun i =>
      match tokNat (obs.getD (1 + 2 * i) ""), tokNat (obs.getD (2 + 2 * i) "") with
      | some v, some c => some (v, c) | _, _ => none)
    let probOf (v : Nat) : Float := (List.range size).foldl (fun acc i =>
      if i &&& m' == v then acc + (st.implPsi.getD i 0).normSq / nrm else acc) 0
    let values := ((List.range size).map (· &&& m')).eraseDups
    let possible := values.filter (fun v => probOf v > 1e-12)
    let impossibleHit := pairs.any (fun p => probOf p.1 ≤ 1e-15 && p.2 > 0)
    let r := specCheck r st ln "c07.impossible" (!impossibleHit) "no outcome of probability 0" (String.intercalate " " (obs.take 9))
    let chi := possible.foldl (fun acc v =>
      let e := Float.ofNat shots * probOf v
      let o := Float.ofNat ((pairs.find? (·.1 == v)).map (·.2) |>.getD 0)
      acc + (o - e) * (o - e) / e) 0
    let dof := Float.ofNat (possible.length - 1)
    let limit := dof + 10.0 * Float.sqrt (2.0 * dof + 1.0) + 50.0
    some (st, specCheck r st ln "c07.chi2" (chi ≤ limit) s!"chi2 <= {limit}" s!"chi2 = {chi}")
  | ["samplestat", count, reps] => do
    -- SPEC (C07, supporting statistics): mean and spread of the histogram cells
    let count ← tokNat count; let reps ← tokNat reps
    let q ← st.q
    let (mean, rest) ← parseFVec obs
    let (var, _) ← parseFVec rest
    let nrm := normSqArr st.implPsi
    let c := Float.ofNat count
    let ok := (List.range (2 ^ q.qNum)).all (fun i =>
      let p := (st.implPsi.getD i 0).normSq / nrm
      let sd := Float.sqrt (c * p * (1.0 - p))
      let m := mean.getD i 0
      let v := var.getD i 0
      Float.abs (m - c * p) ≤ 10.0 * sd / Float.sqrt (Float.ofNat reps) + 1.0
        && (sd * sd < 100.0 || (v ≤ 1.7 * sd * sd && v ≥ 0.55 * sd * sd)))
    some (st, specCheck r st ln "c07.moments" ok "mean = c p, variance ~ c p (1-p)" (toString (mean.take 8) ++ " " ++ toString (var.take 8)))
  | ["qvreg"] => do
    let q ← st.q
    let v := q.getVReg
    let implS := String.intercalate " " obs
    let r := if vobsStr v == implS then r else r.mismatch st ln "qvreg" (vobsStr v) implS
    let r := specVReg r st ln (2 ^ q.qNum - 1) obs
    let r := specCheck r st ln "c14.size.vreg" ((obs.getD 1 "") == toString q.qNum) (toString q.qNum) (obs.getD 1 "")
    some (st, r)
  | ["creg", n, s] => do
    let n ← tokNat n; let s ← tokNat s
    let cr := CReg.withState n s
    let implS := String.intercalate " " obs
    let r := if cobsStr cr == implS then r else r.mismatch st ln "creg" (cobsStr cr) implS
    -- SPEC (C20/C14): the value is the requested one reduced modulo 2^n
    let v := (obs.head?.bind tokNat).getD 0
    let r := specCheck r st ln "c20.creg.new" (v == s % 2 ^ (min n 64)) (toString (s % 2 ^ (min n 64))) (toString v)
    some ({ st with c := some cr }, r)
  | [c, a, b] =>
    if c == "cset" || c == "cxor" then do
      let bit := a == "1"
      let m ← tokNat b
      let cr ← st.c
      let cr' := if c == "cset" then cr.set bit m else cr.xor bit m
      let implS := String.intercalate " " obs
      let r := if cobsStr cr' == implS then r else r.mismatch st ln c (cobsStr cr') implS
      -- SPEC (C20): exactly the given bits change
      let v := (obs.head?.bind tokNat).getD 0
      let want := if c == "cset" then (if bit then cr.value ||| m else cr.value ^^^ (cr.value &&& m))
                  else (if bit then cr.value ^^^ m else cr.value)
      let r := specCheck r st ln "c20.creg.upd" (v == want) (toString want) (toString v)
      let r := if m &&& (2 ^ 64 - 1 - cr.qMask) == 0 && cr.value < 2 ^ cr.qNum then
                 specCheck r st ln "c20.creg.range" (v < 2 ^ cr.qNum) s!"< 2^{cr.qNum}" (toString v) else r
      some ({ st with c := some cr' }, r)
    else if c == "ctensor" || c == "cmulassign" then do
      let n2 ← tokNat a; let s2 ← tokNat b
      let cr ← st.c
      let other := CReg.withState n2 s2
      let cr' := cr.tensorProd other
      let implS := String.intercalate " " obs
      let r := if cobsStr cr' == implS then r else r.mismatch st ln c (cobsStr cr') implS
      -- SPEC (C14/C20): bits concatenated, left factor low
      let v := (obs.head?.bind tokNat).getD 0
      let want := cr.value + other.value * 2 ^ cr.qNum
      let r := if cr.value < 2 ^ cr.qNum && cr.qNum + n2 ≤ 64 then
                 specCheck r st ln "c14.ctensor" (v == want && obs.getD 1 "" == toString (cr.qNum + n2)) (toString want) implS
               else r
      some ({ st with c := some cr' }, r)
    else none
  | ["cdebug"] => do
    let cr ← st.c
    let implS := String.intercalate " " obs
    let r := if cr.debug == implS then r else r.mismatch st ln "cdebug" cr.debug implS
    -- SPEC (C20): n binary digits, most significant first
    let digits := String.ofList ((List.range cr.qNum).reverse.map (fun i => if cr.value.testBit i then '1' else '0'))
    let r := specCheck r st ln "c20.creg.debug" (implS == "(" ++ digits ++ ")") ("(" ++ digits ++ ")") implS
    some (st, r)
  | _ => none

/-! ### interpreter commands -/

def splitOn2 (l : Toks) : List Toks :=
  let rec go : Toks → Toks → List Toks → List Toks
    | [], cur, acc => (cur.reverse :: acc).reverse
    | ";;" :: r, cur, acc => go r [] (cur.reverse :: acc)
    | t :: r, cur, acc => go r (t :: cur) acc
  go l [] []

def atomBits : Atom Float → List UInt64
  | .rx _ p | .ry _ p | .rz _ p | .rxx _ p | .ryy _ p | .rzz _ p => [p.re.toBits, p.im.toBits]
  | .s _ d | .t _ d | .iSwap _ d | .sqrtSwap _ d | .sqrtISwap _ d => [if d then 1 else 0]
  | _ => []

def multiEq (a b : MultiOp Float) : Bool :=
  a.length == b.length && (a.zip b).all (fun p =>
    singleName p.1 == singleName p.2 && p.1.act == p.2.act && atomBits p.1.func == atomBits p.2.func)

def extOpEq (a b : ExtOp Float) : Bool :=
  a.blocks.length == b.blocks.length && multiEq a.tail b.tail &&
  (a.blocks.zip b.blocks).all (fun p => p.1.2 == p.2.2 && multiEq p.1.1 p.2.1)

def stepInt (st : DSt) (r : Report) (ln : Nat) (cmd obs : Toks) : Option (DSt × Report) :=
  match cmd with
  | ["inew"] =>
    let int : Interp Float := {}
    some ({ st with int := some int, sym := none, lastSummary := obs, progNodes := [] }, cmpSummary r st ln "inew" int obs)
  | ["ixor"] => do
    let int ← st.int
    let int := int.xor
    some ({ st with int := some int, lastSummary := obs }, cmpSummary r st ln "ixor" int obs)
  | "isym" :: what :: rest => do
    let int ← st.int
    let sym0 : Option (Sym Float) :=
      match what with
      | "new" => some (Sym.new int)
      | "init" =>
        (match st.sym with
         | some s =>
           if s.mOp != int.mOp || !extOpEq s.qOps int.qOps || s.qReg.qNum != int.qReg.length
               || s.cReg.qNum != int.cReg.length then some (Sym.new int) else some s
         | none => some (Sym.new int))
      | "reset" => st.sym.map Sym.reset
      | _ => st.sym
    let sym ← sym0
    match obs with
    | "draws" :: k :: o =>
      let k := (tokNat k).getD 0
      let draws := (o.take k).filterMap tokNat
      let o := o.drop k
      let symR : Option (Sym Float) :=
        if what == "finish" then (sym.finish draws).map (·.1) else some sym
      match symR, o with
      | some s', "creg" :: v :: n :: "psi" :: pv =>
        let sfx := if st.opsAgree then "" else ".opsdiffer"
        let r := if s!"{s'.cReg.value} {s'.cReg.qNum}" == s!"{v} {n}" then r
                 else r.mismatch st ln ("isym." ++ what ++ ".creg" ++ sfx) s!"{s'.cReg.value} {s'.cReg.qNum}" s!"{v} {n}"
        let r := cmpVec r st ln ("isym." ++ what ++ sfx) s'.qReg.psi pv
        let impl := (parseCVec pv).map (·.1) |>.getD #[]
        -- C05 on executed programs: the final state is a valid state
        let r := if what == "finish" then specValid r st ln s'.qReg.qNum impl else r
        -- SPEC (C10/C11): statement-by-statement reference execution of the accepted program
        let r :=
          if what == "finish" && st.symFresh then
            match Spec.refRun st.progNodes int.mOp draws with
            | some rs =>
              let r := specCheck r st ln ("refsem.creg" ++ sfx) (s!"{rs.c.value} {rs.c.qNum}" == s!"{v} {n}")
                s!"{rs.c.value} {rs.c.qNum}" s!"{v} {n}"
              specCheck r st ln ("refsem.psi" ++ sfx) (closeVec rs.q.psi impl) (firstDiff rs.q.psi impl) (showVec impl)
            | none => specCheck r st ln ("refsem.run" ++ sfx) false "executable program" "reference semantics rejects it"
          else r
        -- continue from the implementation's own state (each step is compared in isolation)
        let s'' : Sym Float :=
          if impl.size == s'.qReg.psi.size then
            { s' with qReg := { s'.qReg with psi := impl },
                      cReg := { s'.cReg with value := (tokNat v).getD s'.cReg.value } }
          else s'
        some ({ st with sym := some s'', lastFinish := (impl, s!"{v} {n}"),
                        symFresh := what == "new" || what == "reset" }, r)
      | none, _ => some (st, r.mismatch st ln ("isym." ++ what) "enough-draws" (String.intercalate " " (obs.take 6)))
      | _, _ => some (st, r.mismatch st ln ("isym." ++ what) "creg v n psi …" (String.intercalate " " (o.take 4)))
    | _ => some (st, r.mismatch st ln ("isym." ++ what) "draws …" (String.intercalate " " (obs.take 4)))
  | "igate" :: n :: nr :: rest => do
    let nr ← tokNat nr
    let regs ← (rest.take nr).mapM tokNat
    let rest := rest.drop nr
    let na ← rest.head?.bind tokNat
    let args ← ((rest.drop 1).take na).mapM tokFloat
    let nq ← ((rest.drop (1 + na)).head?).bind tokNat
    let name := unhex n
    let (model, probe) : String × Option (Array (Cx Float)) :=
      match Gates.process name regs args with
      | .ok o => let (nm, pv) := opView o nq; (s!"ok {nm} {MultiOp.actOn o}", pv)
      | .err e => ("err " ++ intErrStr e, none)
      | .panic site => ("panic " ++ site, none)
    let implHead := if obs.head? == some "ok" then String.intercalate " " (obs.take 3)
                    else if implPanicked obs then "panic" else String.intercalate " " obs
    let modelHead := if model.startsWith "panic" then "panic" else model
    let r := if modelHead == implHead then r else r.mismatch st ln "igate" modelHead implHead
    let implVec := if obs.head? == some "ok" then (parseCVec (obs.drop 3)).map (·.1) else none
    let r := match probe, implVec with
      | some pv, some iv => if closeVec pv iv then r else r.mismatch st ln "igate.probe" (firstDiff pv iv) (showVec iv)
      | _, _ => r
    -- SPEC (C09): the qelib1.inc definition of the name (lower-cased), single-qubit arguments
    let lname := String.ofList (name.toList.map Char.toLower)
    let singles := regs.all (fun m => popcount m == 1) && regs.eraseDups.length == regs.length
    let r :=
      match (if singles then Spec.qelib (R := Float) lname args regs else none), implVec with
      | some gs, some iv =>
        let want := specApply gs (probeState nq)
        let r := { r with speclines := r.speclines + 1 }
        if closeUpToPhase want iv then r else r.specfail st ln "c09.qelib" (showVec want) (showVec iv)
      | some _, none =>
        specCheck r st ln "c09.accept" false "accepted (a qelib1.inc gate on distinct qubits)" (String.intercalate " " (obs.take 3))
      | none, _ => r
    -- SPEC (C09): extensions and any further leading c: the library's documented matrix of the
    -- stem, controlled by the leading arguments
    let r := match implVec with
      | some iv =>
        let stem := lname.toList.dropWhile (· == 'c')
        let k := lname.length - stem.length
        let stemS := String.ofList stem
        if singles && (Spec.qelib (R := Float) lname args regs).isNone && regs.length > k then
          let ctrl := (regs.take k).foldl (· ||| ·) 0
          let tgt := (regs.drop k).foldl (· ||| ·) 0
          let e? : Option (OpExpr Float) :=
            match stemS, args with
            | "x", [] => some (.g1 .x tgt) | "y", [] => some (.g1 .y tgt) | "z", [] => some (.g1 .z tgt)
            | "s", [] => some (.g1 .s tgt) | "t", [] => some (.g1 .t tgt) | "h", [] => some (.g1 .h tgt)
            | "sdg", [] => some (.dgr (.g1 .s tgt)) | "tdg", [] => some (.dgr (.g1 .t tgt))
            | "rx", [a] => some (.rot1 .rx (halfPhase a) tgt) | "ry", [a] => some (.rot1 .ry (halfPhase a) tgt)
            | "rz", [a] => some (.rot1 .rz (halfPhase a) tgt) | "u1", [a] => some (.rot1 .u1 (halfPhase a) tgt)
            | "rxx", [a] => some (.rot2 .rxx (halfPhase a) tgt) | "ryy", [a] => some (.rot2 .ryy (halfPhase a) tgt)
            | "rzz", [a] => some (.rot2 .rzz (halfPhase a) tgt)
            | "swap", [] => some (.two .swap tgt) | "sqrt_swap", [] => some (.two .sqrtSwap tgt)
            | "i_swap", [] => some (.two .iSwap tgt) | "sqrt_i_swap", [] => some (.two .sqrtISwap tgt)
            | "u2", [p, l] => some (.u3 (halfPhase fracPi2) (halfPhase p) (halfPhase l) tgt)
            | "u3", [t, p, l] => some (.u3 (halfPhase t) (halfPhase p) (halfPhase l) tgt)
            | "qft", [] => some (.qft tgt)
            | _, _ => none
          match e? with
          | some e =>
            (match Spec.denote qftPhase (if k == 0 then e else .c ctrl e) with
             | .ok gs _ =>
               let want := specApply gs (probeState nq)
               let r := { r with speclines := r.speclines + 1 }
               if closeUpToPhase want iv then r else r.specfail st ln "c09.doc" (showVec want) (showVec iv)
             | _ => r)
          | none => r
        else r
      | none => r
    some (st, r)
  | "iexpect" :: what =>
    let res := st.lastRes
    match what with
    | ["ok"] => some (st, specCheck r st ln "iexpect.accept" (res == "ok") "ok" res)
    | "kinds" :: ks =>
      -- SPEC (C10, C17): the statements the interpreter is given are the statements of the text, each once, in order
      some (st, specCheck r st ln "c10.kinds" (st.lastKinds == ks) (String.intercalate " " ks) (String.intercalate " " st.lastKinds))
    | ["asts", k] =>
      some (st, specCheck r st ln "iexpect.asts" (st.lastSummary.getD 4 "" == s!"asts={k}") s!"asts={k}" (st.lastSummary.getD 4 ""))
    | [variant] =>
      some (st, specCheck r st ln "iexpect.plant" (res.startsWith ("err " ++ variant)) ("err " ++ variant) res)
    | _ => none
  | ["iexprval", bits] => do
    -- SPEC (C10): the operator the pipeline queued is RZ of the expression's mathematical value
    let v ← tokFloat bits
    let toks := st.lastSummary
    let afterTail := (toks.dropWhile (· != "tail")).drop 2
    -- reference: the implementation's own op::rz(value, 1) on the probe state (so that a defect
    -- of the rz gate itself is not attributed to the expression pipeline)
    match parseCVec afterTail, parseCVec obs, Op.rz (halfPhase v) 1 with
    | some (iv, _), some (want, _), some o =>
      let r := if closeVec (MultiOp.applyArr o (probeState 1)) want then r
               else r.mismatch st ln "iexprval.probe" "model rz(value)" (showVec want)
      some (st, specCheck r st ln "c10.expr" (closeVec want iv) (showVec want) (showVec iv))
    | _, _, _ => some (st, specCheck r st ln "c10.expr" false "a queued rz" (String.intercalate " " (toks.take 10)))
  | ["isnap"] => some ({ st with snap := st.lastSummary }, r)
  | ["iunchanged"] =>
    some (st, specCheck r st ln "iunchanged" (st.snap == st.lastSummary) "session summary unchanged"
      (String.intercalate " " (st.lastSummary.take 8)))
  | ["isame", a, b] =>
    match st.marks.find? (·.1 == a), st.marks.find? (·.1 == b) with
    | some (_, (pa, ca)), some (_, (pb, cb)) =>
      some (st, specCheck r st ln "isame" (ca == cb && closeVec pa pb) s!"{a}: {ca} {showVec pa}" s!"{b}: {cb} {showVec pb}")
    | _, _ => some (st, r.mismatch st ln "isame" "both marks" "missing")
  | [c, _] =>
    if c == "iadd" || c == "ichg" || c == "iprep" then do
      let int ← st.int
      match obs with
      | "parseerr" :: e =>
        some ({ st with lastRes := "parseerr " ++ String.intercalate " " e }, r)
      | "hang" :: e =>
        -- SPEC (C12): parsing must return
        some ({ st with lastRes := "hang" }, r.specfail st ln "c12.hang" "a result or an error value" ("hang " ++ String.intercalate " " e))
      | "nodes" :: k :: rest =>
        match splitOn2 rest with
        | [nodeToks, res, summary] =>
          let k := (tokNat k).getD 0
          match pMany pNode k nodeToks [] with
          | some (nodes, []) =>
            let out : Interp.PRes Float :=
              if c == "iadd" then int.addAst nodes
              else match int.astChanges {} nodes with
                | .ok ch => .ok (int.appendInt ch)
                | e => e
            let (int', model) := match out with
              | .ok i => (i, "ok")
              | .err e => (int, "err " ++ intErrStr e)
              | .panic site => (int, "panic " ++ site)
            let implRes := String.intercalate " " res
            let r := if model == implRes then r else r.mismatch st ln (c ++ ".result") model implRes
            let r := cmpSummary r st ln c int' summary
            let prog := if implRes == "ok" then st.progNodes ++ nodes else st.progNodes
            some ({ st with int := some int', lastRes := implRes, lastSummary := summary, progNodes := prog,
                            lastKinds := nodes.map nodeKind }, r)
          | _ => some (st, r.mismatch st ln c "decodable-ast" (String.intercalate " " (nodeToks.take 12)))
        | _ => some (st, r.mismatch st ln c "nodes ;; result ;; summary" (String.intercalate " " (obs.take 6)))
      | _ =>
        -- the implementation panicked while parsing / interpreting
        some ({ st with lastRes := String.intercalate " " (obs.take 3) }, r.mismatch st ln c "value-or-error" (String.intercalate " " (obs.take 4)))
    else if c == "imark" then
      some ({ st with marks := (cmd.getD 1 "", st.lastFinish) :: st.marks }, r)
    else none
  | _ => none

def step (st : DSt) (r : Report) (ln : Nat) (cmd obs : List String) : DSt × Report :=
  match cmd with
  | "op" :: prog =>
    match parseProgF prog [] none with
    | none => (st, r.mismatch st ln "op" "unparsable-program" (String.intercalate " " obs))
    | some (e, ff) =>
      let b := OpExpr.build qftPhase e
      -- a failing program: the kind of the first failure in token order (what the harness met first)
      let model := match b, ff with
        | .ok _, _ => builtObs b
        | _, some f => f
        | _, none => builtObs b
      -- the implementation's panic message is not compared, only the fact
      let impl := if implPanicked obs then "panic" else String.intercalate " " obs
      let r := if model == impl then r else r.mismatch st ln "op" model impl
      -- SPEC: outcome class and reported support
      let d := Spec.denote qftPhase e
      let specObs := match d, ff with
        | .ok _ supp, _ => s!"ok {supp}"
        | _, some f => f
        | .refused, none => "refused"
        | .panic, none => "panic"
      let implCls := match obs with
        | "ok" :: _ :: acton :: _ => s!"ok {acton}"
        | o :: _ => o
        | [] => ""
      let r := { r with speclines := r.speclines + 1 }
      let r := if specObs == implCls then r else r.specfail st ln "op" specObs implCls
      let st := { st with op := (match b with | .ok o => some o | _ => none),
                          spec := (match d with | .ok gs _ => some gs | _ => none),
                          implActOn := (match obs with | "ok" :: _ :: a :: _ => a.toNat?.getD 0 | _ => 0),
                          implNames := (match obs with
                            | "ok" :: _ :: _ :: n :: _ => if n == "-" then [] else n.splitOn ","
                            | _ => []) }
      (st, r)
  | ["threads"] => ({ st with avail := (obs.head?.bind tokNat).getD 0 }, r)
  | "par" :: _ =>
    -- SPEC (C08): the same script with 1 and with k threads, repeated: bit-identical buffers
    -- (sums to rounding)
    (st, specCheck r st ln "c08.equal" (obs.head? == some "equal") "equal" (String.intercalate " " (obs.take 4)))
  | "conc" :: _ =>
    -- SPEC (C19): every call returned and every task's result equals the calls made alone
    let r := specCheck r st ln "c19.conc" (obs.head? == some "ok") "ok" (String.intercalate " " (obs.take 4))
    -- MODEL (C19): the event log of threads.rs is a run of the transition system of Model/Pool.lean
    -- that ends with every call returned
    match poolTraceCheck (obs.dropWhile (· != "log")).tail with
    | none => (st, r)
    | some (want, got) => (st, r.mismatch st ln "conc.trace" want got)
  | ["qreg", n, thr] =>
    let r := match tokNat thr with
      | some k =>
        if st.avail > 0 then
          -- SPEC (C08): zero threads or more than the machine offers is refused
          specCheck r st ln "c08.refuse" ((k == 0 || k > st.avail) == (obs == ["none"])) (if k == 0 || k > st.avail then "none" else "ok") (String.intercalate " " obs)
        else r
      | none => r
    match tokNat n, tokNat thr with
    | some n, some _ =>
      if obs == ["ok"] then ({ st with q := some (QReg.new n), implPsi := (QReg.new n : QReg Float).psi }, r)
      else ({ st with q := none }, r)
    | _, _ => (st, r.mismatch st ln "qreg" "bad-args" "")
  | ["qstate", n, s, thr] =>
    match tokNat n, tokNat s, tokNat thr with
    | some n, some s, some _ =>
      if obs == ["ok"] then ({ st with q := some (QReg.withState n s), implPsi := (QReg.withState n s : QReg Float).psi }, r)
      else ({ st with q := none }, r)
    | _, _, _ => (st, r.mismatch st ln "qstate" "bad-args" "")
  | "setpsi" :: v =>
    match parseCVec v, st.q with
    | some (a, _), some q => ({ st with q := some { q with psi := a }, implPsi := a }, r)
    | _, _ => (st, r.mismatch st ln "setpsi" "bad-args-or-no-reg" "")
  | ["psi"] =>
    match st.q with
    | some q => (st, cmpVec r st ln "psi" q.psi obs)
    | none => (st, r.mismatch st ln "psi" "no-reg" "")
  | ["metadgr"] =>
    match st.q, st.op, obs with
    | some q, some e, names :: acton :: rest =>
      let d := MultiOp.dgr e
      let o1 := ((q.apply e).apply d).psi
      let o2 := ((q.apply d).apply e).psi
      let o3 := (q.apply (MultiOp.mul e d)).psi
      match parseCVec rest with
      | some (i1, r2) => match parseCVec r2 with
        | some (i2, r3) => match parseCVec r3 with
          | some (i3, _) =>
            let r := if opNames d == names then r else r.mismatch st ln "metadgr.names" (opNames d) names
            let r := if toString (MultiOp.actOn d) == acton then r
                     else r.mismatch st ln "metadgr.acton" (toString (MultiOp.actOn d)) acton
            let r := if closeVec o1 i1 then r else r.mismatch st ln "metadgr.1" (firstDiff o1 i1) (showVec i1)
            let r := if closeVec o2 i2 then r else r.mismatch st ln "metadgr.2" (firstDiff o2 i2) (showVec i2)
            let r := if closeVec o3 i3 then r else r.mismatch st ln "metadgr.3" (firstDiff o3 i3) (showVec i3)
            -- SPEC (C03): op then dagger, dagger then op and the product op * dgr are the identity;
            -- the dagger of a product lists the daggers in reverse order
            let r := { r with speclines := r.speclines + 1 }
            let r := if closeVec q.psi i1 then r else r.specfail st ln "c03.inv" (firstDiff q.psi i1) (showVec i1)
            let r := if closeVec q.psi i2 then r else r.specfail st ln "c03.inv'" (firstDiff q.psi i2) (showVec i2)
            let r := if closeVec q.psi i3 then r else r.specfail st ln "c03.inv*" (firstDiff q.psi i3) (showVec i3)
            let rev := String.intercalate "," (st.implNames.reverse)
            let r := if st.implNames.isEmpty || rev == names then r
                     else r.specfail st ln "c03.rev" rev names
            (st, r)
          | none => (st, r.mismatch st ln "metadgr" "three-vectors" "unparsable")
        | none => (st, r.mismatch st ln "metadgr" "three-vectors" "unparsable")
      | none => (st, r.mismatch st ln "metadgr" "three-vectors" "unparsable")
    | _, _, _ => (st, r.mismatch st ln "metadgr" "no-reg-or-op" "")
  | [c] =>
    if c == "apply" || c == "applyeach" then
      match st.q, st.op with
      | some q, some o =>
        let pre := q.psi
        let q' := q.apply o
        let r := cmpVec r st ln c q'.psi obs
        -- SPEC: dense reference semantics of the construction program
        let r := match st.spec with
          | some gs => cmpSpecVec r st ln c (specApply gs pre) obs
          | none => r
        ({ st with q := some q', implPsi := ((parseCVec obs).map (·.1)).getD q'.psi }, r)
      | _, _ => (st, r.mismatch st ln c "no-reg-or-op" "")
    else match (stepReg st r ln cmd obs).orElse (fun _ => stepInt st r ln cmd obs) with
      | some res => res
      | none => (st, r.mismatch st ln c "unknown-command-or-bad-state" "")
  | ["metactrl", m] =>
    match tokNat m, st.q, st.op with
    | some m, some q, some e =>
      let ψ := q.psi
      match MultiOp.c e m, obs with
      | none, ["refused"] => (st, specCtrlRefusal r st ln m e true)
      | none, _ => (st, r.mismatch st ln "metactrl" "refused" (String.intercalate " " (obs.take 3)))
      | some _, ["refused"] =>
        let r := r.mismatch st ln "metactrl" "ok" "refused"
        (st, specCtrlRefusal r st ln m e true)
      | some ec, "ok" :: acton :: rest =>
        let out1 := (q.apply ec).psi
        let proj : Array (Cx Float) := Array.ofFn (n := ψ.size) (fun i =>
          if i.val &&& m = m then ψ.getD i.val 0 else 0)
        let out2 := ({ q with psi := proj }.apply e).psi
        match parseCVec rest with
        | some (i1, rest2) =>
          match parseCVec rest2 with
          | some (i2, _) =>
            let r := if closeVec out1 i1 then r else r.mismatch st ln "metactrl.1" (firstDiff out1 i1) (showVec i1)
            let r := if closeVec out2 i2 then r else r.mismatch st ln "metactrl.2" (firstDiff out2 i2) (showVec i2)
            let r := if toString (MultiOp.actOn ec) == acton then r
                     else r.mismatch st ln "metactrl.acton" (toString (MultiOp.actOn ec)) acton
            -- SPEC (C02), on the implementation's own vectors: E.c(m) acts as E on the
            -- subspace "all control bits 1" and leaves every other amplitude untouched
            let r := { r with speclines := r.speclines + 1 }
            let want : Array (Cx Float) := Array.ofFn (n := ψ.size) (fun i =>
              if i.val &&& m = m then i2.getD i.val 0 else ψ.getD i.val 0)
            let r := if closeVec want i1 then r
                     else r.specfail st ln "c02.block" (firstDiff want i1) (showVec i1)
            let r := specCtrlRefusal r st ln m e false
            -- reported support = targets ∪ controls (of a non-empty operator)
            let implActE := st.implActOn
            let r := if e.isEmpty || acton == toString (implActE ||| m) then r
                     else r.specfail st ln "c02.support" (toString (implActE ||| m)) acton
            (st, r)
          | none => (st, r.mismatch st ln "metactrl" "two-vectors" "unparsable")
        | none => (st, r.mismatch st ln "metactrl" "two-vectors" "unparsable")
      | some _, _ => (st, r.mismatch st ln "metactrl" "ok" (String.intercalate " " (obs.take 3)))
    | _, _, _ => (st, r.mismatch st ln "metactrl" "no-reg-or-op" "")
  | ["metadgrmat", size] =>
    match tokNat size, st.op with
    | some size, some e =>
      let dim := 2 ^ size
      let mat (o : MultiOp Float) : Array (Cx Float) :=
        let cols := (List.range dim).map (fun j => MultiOp.applyArr o (QReg.basisBuf dim j))
        Array.ofFn (n := dim * dim) (fun k => (cols.getD (k.val % dim) #[]).getD (k.val / dim) 0)
      match parseCVec obs with
      | some (m1, rest) => match parseCVec rest with
        | some (m2, _) =>
          let r := if closeVec (mat e) m1 then r else r.mismatch st ln "metadgrmat.1" (firstDiff (mat e) m1) ""
          let r := if closeVec (mat (MultiOp.dgr e)) m2 then r
                   else r.mismatch st ln "metadgrmat.2" (firstDiff (mat (MultiOp.dgr e)) m2) ""
          -- SPEC (C03): the dagger's matrix is the conjugate transpose
          let r := { r with speclines := r.speclines + 1 }
          let ct : Array (Cx Float) := Array.ofFn (n := dim * dim) (fun k =>
            (m1.getD ((k.val % dim) * dim + k.val / dim) 0).conj)
          let r := if closeVec ct m2 then r else r.specfail st ln "c03.adj" (firstDiff ct m2) (showVec m2)
          (st, r)
        | none => (st, r.mismatch st ln "metadgrmat" "two-matrices" "unparsable")
      | none => (st, r.mismatch st ln "metadgrmat" "two-matrices" "unparsable")
    | _, _ => (st, r.mismatch st ln "metadgrmat" "no-op" "")
  | "metamul" :: prog =>
    match st.q, st.op, parseProg prog [] with
    | some q, some e, some fe =>
      match OpExpr.build qftPhase fe, obs with
      | .ok f, ae :: af :: rest =>
        let o1 := (q.apply (MultiOp.mul e f)).psi
        let o2 := ((q.apply e).apply f).psi
        let o3 := (e ++ f).foldl (fun (qq : QReg Float) g => qq.apply [g]) q |>.psi
        let o4 := (q.apply (MultiOp.mul f e)).psi
        match parseCVec rest with
        | some (i1, r2) => match parseCVec r2 with
          | some (i2, r3) => match parseCVec r3 with
            | some (i3, r4) => match parseCVec r4 with
              | some (i4, r5) => match parseCVec r5 with
                | some (i5, _) =>
                  let r := if closeVec o1 i1 then r else r.mismatch st ln "metamul.1" (firstDiff o1 i1) (showVec i1)
                  let r := if closeVec o2 i2 then r else r.mismatch st ln "metamul.2" (firstDiff o2 i2) (showVec i2)
                  let r := if closeVec o3 i3 then r else r.mismatch st ln "metamul.3" (firstDiff o3 i3) (showVec i3)
                  let r := if closeVec o4 i4 then r else r.mismatch st ln "metamul.4" (firstDiff o4 i4) (showVec i4)
                  let r := if closeVec o1 i5 then r else r.mismatch st ln "metamul.5" (firstDiff o1 i5) (showVec i5)
                  -- SPEC (C04): product = factors in queue order, however grouped; identity neutral;
                  -- operators on disjoint qubits commute
                  let r := { r with speclines := r.speclines + 1 }
                  let r := if closeVec i2 i1 then r else r.specfail st ln "c04.seq" (firstDiff i2 i1) (showVec i1)
                  let r := if closeVec i3 i1 then r else r.specfail st ln "c04.each" (firstDiff i3 i1) (showVec i1)
                  let r := if closeVec i5 i1 then r else r.specfail st ln "c04.id" (firstDiff i5 i1) (showVec i5)
                  let disjoint := match ae.toNat?, af.toNat? with
                    | some a, some b => a &&& b == 0
                    | _, _ => false
                  let r := if !disjoint || closeVec i4 i1 then r
                           else r.specfail st ln "c04.commute" (firstDiff i4 i1) (showVec i4)
                  (st, r)
                | none => (st, r.mismatch st ln "metamul" "vectors" "unparsable")
              | none => (st, r.mismatch st ln "metamul" "vectors" "unparsable")
            | none => (st, r.mismatch st ln "metamul" "vectors" "unparsable")
          | none => (st, r.mismatch st ln "metamul" "vectors" "unparsable")
        | none => (st, r.mismatch st ln "metamul" "vectors" "unparsable")
      | .ok _, _ => (st, r.mismatch st ln "metamul" "built" (String.intercalate " " (obs.take 2)))
      | _, _ =>
        if obs == ["nobuild"] then (st, r) else (st, r.mismatch st ln "metamul" "nobuild" (String.intercalate " " (obs.take 2)))
    | _, _, _ => (st, r.mismatch st ln "metamul" "no-reg-or-op" "")
  | ["dft", m, kind] =>
    match tokNat m, st.q with
    | some m, some q =>
      let swapped := kind == "1"
      let pre := q.psi
      match (if swapped then Op.qftSwapped qftPhase m else Op.qft qftPhase m) with
      | none => (st, r.mismatch st ln "dft" "model-panic" "")
      | some o =>
        let q' := q.apply o
        let r := cmpVec r st ln "dft" q'.psi obs
        -- SPEC: the DFT matrix on the selected sub-register, up to one global phase
        let v := bitsOf m
        let N := 2 ^ v.length
        let root (t : Nat) : Cx Float :=
          let ang := 2.0 * piF * Float.ofNat t / Float.ofNat N
          ⟨Float.cos ang, Float.sin ang⟩
        let inv := 1.0 / Float.sqrt (Float.ofNat N)
        let inp : State Float := if swapped then bufFn pre else Spec.reverseSel v (bufFn pre)
        let spec : Array (Cx Float) := Array.ofFn (n := pre.size) (fun i =>
          Spec.dftAct root inv v inp i.val)
        let r := { r with speclines := r.speclines + 1 }
        let r := match parseCVec obs with
          | some (impl, _) =>
            if closeUpToPhase spec impl then r
            else r.specfail st ln "dft" (showVec spec) (showVec impl)
          | none => r.specfail st ln "dft" (showVec spec) (String.intercalate " " (obs.take 6))
        ({ st with q := some q' }, r)
    | _, _ => (st, r.mismatch st ln "dft" "no-reg" "")
  | ["matrix", size] =>
    match tokNat size, st.op with
    | some size, some o =>
      let dim := 2 ^ size
      -- rows of the reported matrix: entry (i, j) = (o e_j)[i]
      let cols := (List.range dim).map (fun j =>
        MultiOp.applyArr o (QReg.basisBuf dim j))
      let flat : Array (Cx Float) := Array.ofFn (n := dim * dim) (fun k =>
        (cols.getD (k.val % dim) #[]).getD (k.val / dim) 0)
      let r := cmpVec r st ln "matrix" flat obs
      let r := match st.spec with
        | some gs =>
          let scols := (List.range dim).map (fun j => specApply gs (QReg.basisBuf dim j))
          let sflat : Array (Cx Float) := Array.ofFn (n := dim * dim) (fun k =>
            (scols.getD (k.val % dim) #[]).getD (k.val / dim) 0)
          cmpSpecVec r st ln "matrix" sflat obs
        | none => r
      (st, r)
    | _, _ => (st, r.mismatch st ln "matrix" "no-op" "")
  | c :: _ =>
    -- SPEC (C12): the interpreter never panics
    let nonFinite := (st.sym.map (fun s => queueNonFinite s.qOps)).getD false ||
                     (st.int.map (fun i => queueNonFinite i.qOps)).getD false
    let r := if c.startsWith "i" && implPanicked obs && !harnessMisuse obs then
               r.specfail st ln (if nonFinite then "c12.panic.nonfinite" else "c12.panic") "a result or an error value"
                 (String.intercalate " " (obs.take 4))
             else r
    match (stepReg st r ln cmd obs).orElse (fun _ => stepInt st r ln cmd obs) with
    | some res => res
    | none => (st, r.mismatch st ln c "unknown-command-or-bad-state" "")
  | [] => (st, r)

def splitLine (line : String) : List String × List String :=
  match line.splitOn " | " with
  | [c] =>
    -- `cmd |` with an empty observation
    let c := if c.endsWith " |" then (c.dropEnd 2).toString else c
    ((c.splitOn " ").filter (· ≠ ""), [])
  | c :: o :: _ => ((c.splitOn " ").filter (· ≠ ""), (o.splitOn " ").filter (· ≠ ""))
  | [] => ([], [])

partial def loop (h : IO.FS.Stream) (st : DSt) (r : Report) (ln : Nat) : IO Report := do
  let line ← h.getLine
  if line.isEmpty then return r
  let line := line.trimAscii.toString
  if line.isEmpty || line.startsWith "#" then loop h st r (ln + 1)
  else if line.startsWith "case " then
    let id := ((line.splitOn " ").getD 1 "?")
    loop h { caseId := id } { r with cases := r.cases + 1 } (ln + 1)
  else
    let (cmd, obs) := splitLine line
    let before := r.msgs.size
    let (st, r) := step st { r with lines := r.lines + 1 } ln cmd obs
    -- an operator acted differently in model and implementation?
    let opDiff := (r.msgs.toList.drop before).any (fun m =>
      let tag := (m.splitOn " ").getD 3 ""
      m.startsWith "MISMATCH" &&
        (tag.endsWith ".probe" || tag == "apply" || tag == "applyeach" || tag == "matrix" || tag == "dft"))
    let st := if opDiff then { st with opsAgree := false } else st
    -- continue from the implementation's own buffer, so that every command is compared in
    -- isolation and one disagreement does not propagate through the rest of the case
    let st := match st.q with
      | some q => if st.implPsi.size == q.psi.size && st.implPsi.size > 0 then
                    { st with q := some { q with psi := st.implPsi } } else st
      | none => st
    loop h st r (ln + 1)

def main (args : List String) : IO UInt32 := do
  match args with
  | [path] =>
    let h ← IO.FS.Handle.mk path .read
    let r ← loop (IO.FS.Stream.ofHandle h) {} {} 1
    for m in r.msgs do IO.println m
    IO.println s!"DONE cases={r.cases} lines={r.lines} mismatches={r.mismatches} specfails={r.specfails} speclines={r.speclines}"
    return 0
  | _ =>
    IO.eprintln "usage: driver <trace-file>"
    return 2
