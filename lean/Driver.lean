import Qvnt.Model.Op
def main : IO Unit := IO.println "driver"
