/-
`register/quant.rs`: the threading model (`threading::Model::and`, `QReg::num_threads`), emitted by `tools/rs2lean2.py` on
every run on the type `ThG`, is the model of C08 (`Pool.modelAnd`, `Pool.numThreads`, `Model/Pool.lean`), which encodes
`Single` as 0 and `Multi(n)` as n.
-/
import Qvnt.Generated.Regs
import Qvnt.Model.Pool

namespace Qvnt.Gen2
open Qvnt Qvnt.Pool

/-- the encoding of the model: `Single` is 0, `Multi(n)` is n -/
def ThG.enc : ThG → Nat
  | .single => 0
  | .multi n => n

theorem th_and_eq (a b : ThG) : (th_and a b).enc = modelAnd a.enc b.enc := by
  cases a with
  | single => cases b <;> simp [th_and, ThG.enc, modelAnd]
  | multi n =>
    cases b with
    | single => simp only [th_and, ThG.enc, modelAnd]; split <;> simp_all
    | multi m =>
      simp only [th_and, ThG.enc, modelAnd]
      by_cases hn : n = 0
      · subst hn; simp
      · by_cases hm : m = 0
        · subst hm; simp [hn]
        · simp [hn, hm]

/-- `num_threads(k)` installs `Single` for 1, `Multi(k)` for 2 .. available, and refuses 0 and more than available -/
theorem quant_num_threads_eq (k avail : Nat) : (quant_num_threads k avail).map ThG.enc = numThreads k avail := by
  unfold quant_num_threads numThreads
  by_cases h0 : k = 0
  · subst h0; simp
  · by_cases h1 : k > avail
    · simp [h1]
    · by_cases h2 : k = 1
      · subst h2; simp [h1, ThG.enc]
      · have : ¬ (0 = k) := fun h => h0 h.symm
        simp [h0, h1, h2, this, ThG.enc]

end Qvnt.Gen2
