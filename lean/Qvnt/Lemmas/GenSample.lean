/-
`register/quant.rs`: sample_all.
(split out of GenRegs2.lean so that an equality that no longer holds blocks only the properties that rely on it)
-/
import Qvnt.Lemmas.GenQProb

set_option linter.unusedSectionVars false

namespace Qvnt.Gen2
open Qvnt Qvnt.Gen

variable {R : Type}

/-! ### `sample_all` (`register/quant.rs`) -/
section sample
open Qvnt.QReg (HasRound)
variable [Add R] [Sub R] [Mul R] [Div R] [Neg R] [Zero R] [One R] [Consts R]
  [LE R] [DecidableLE R] [LT R] [DecidableLT R] [HasSqrt R] [RegConsts R] [HasRound R]

/-- the surplus walk: one more unit of fuel than the model's (the translated loop tests its fuel first) -/
theorem surplus_loop_eq (r : QRegG R) (fuel idx s : Nat) (n : List Nat) (hq : r.q_mask < n.length) :
    (quant_sample_all_loop1 r (fuel + 1) (idx, n, s)).map (fun st => st.2.1) =
      QReg.removeSurplus r.q_mask fuel idx s n := by
  induction fuel generalizing idx s n with
  | zero =>
    cases s with
    | zero => simp [quant_sample_all_loop1, QReg.removeSurplus]
    | succ s' =>
      unfold quant_sample_all_loop1 QReg.removeSurplus
      by_cases h0 : n.getD (idx &&& r.q_mask) 0 = 0 <;> simp [h0, quant_sample_all_loop1]
  | succ f ih =>
    cases s with
    | zero => simp [quant_sample_all_loop1, QReg.removeSurplus]
    | succ s' =>
      have hc : idx &&& r.q_mask < n.length := lt_of_le_of_lt Nat.and_le_right hq
      unfold quant_sample_all_loop1 QReg.removeSurplus
      have hget : n[idx &&& r.q_mask]? = some (n.getD (idx &&& r.q_mask) 0) := by
        simp [List.getD_eq_getElem?_getD, List.getElem?_eq_getElem hc]
      simp only [Nat.add_eq_zero_iff, one_ne_zero, and_false, beq_iff_eq, ↓reduceIte, hget]
      cases hv : n.getD (idx &&& r.q_mask) 0 with
      | zero => simp [ih (idx + 1) (s' + 1) n hq]
      | succ v =>
        have := ih (idx + 1) s' (n.set (idx &&& r.q_mask) v) (by simpa using hq)
        simp [this]

theorem updateSelected_eq_go (each extra : Nat) (n : List Nat) (p : List R) (k : Nat) :
    Rs.updateSelectedAux (fun x => decide (x > 0)) (fun idx x => if idx < extra then x + each + 1 else x + each) n p k =
      QReg.addDeficit.go each extra n (p.map fun x => decide (0 < x)) k := by
  induction n generalizing p k with
  | nil => cases p <;> simp [Rs.updateSelectedAux, QReg.addDeficit.go]
  | cons x xs ih =>
    cases p with
    | nil => simp [Rs.updateSelectedAux, QReg.addDeficit.go]
    | cons y ys =>
      by_cases hy : (0 : R) < y
      · simp only [Rs.updateSelectedAux, GT.gt, hy, decide_true, ↓reduceIte, List.map_cons, QReg.addDeficit.go, ih]
        by_cases hk : k < extra <;> simp [hk, Nat.add_assoc]
      · simp [Rs.updateSelectedAux, GT.gt, hy, QReg.addDeficit.go, ih]

theorem rsSum_nat (l : List Nat) : Rs.sum l = l.sum := by
  unfold Rs.sum
  rw [List.sum_eq_foldl]

/-- stage 1: the rounded Gaussian proposal, when there is a draw for every cell -/
theorem proposal_eq (p g : List R) (count : Nat) (hg : p.length ≤ g.length) :
    (let c : R := HasRound.ofNat count
     let c_sqrt := HasSqrt.sqrt c
     let n := List.map (fun a1 : R × R => HasSqrt.sqrt a1.1 * a1.2) (List.zip p g)
     let n_sum := Rs.sum n
     List.map (fun idx => Int.toNat (max (HasRound.roundInt ((c * p.getD idx 0) + (c_sqrt * (n.getD idx 0 - (n_sum * p.getD idx 0))))) (0 : Int)))
       (Rs.range 0 p.length)) = QReg.sampleProposal p count g := by
  unfold QReg.sampleProposal Rs.sum Rs.range
  apply List.ext_getElem
  · simp; omega
  · intro i h1 h2
    have hi : i < p.length := by simpa using h1
    have hig : i < g.length := by omega
    simp [List.getD_eq_getElem?_getD, hi, hig]

/-- `sample_all` with the normal draws as an input list (one draw per cell at least), for every register whose
mask and buffer fit its size: the translated function, given one more unit of fuel than the model's bound, is
the model's `sampleAll` -/
theorem quant_sample_all_eq (r : QReg R) (count : Nat) (g : List R) (hq : r.qNum < 64)
    (hs : 2 ^ r.qNum ≤ r.psi.size) (hm : r.qMask < 2 ^ r.qNum) (hg : 2 ^ r.qNum ≤ g.length) :
    quant_sample_all
      (((QReg.sampleProposal r.getProbabilities count g).sum - count) *
        ((QReg.sampleProposal r.getProbabilities count g).length + 1) +
        (QReg.sampleProposal r.getProbabilities count g).length + 1 + 1) (ofModel r) count g =
      r.sampleAll count g := by
  have hp := quant_get_probabilities_eq r hq hs
  have hpl : r.getProbabilities.length = 2 ^ r.qNum := by simp [QReg.getProbabilities]
  have hprop := proposal_eq r.getProbabilities g count (by omega)
  simp only at hprop
  unfold quant_sample_all QReg.sampleAll QReg.sampleFix
  simp only [hp, hprop]
  generalize hn0 : QReg.sampleProposal r.getProbabilities count g = n0
  have hn0l : n0.length = 2 ^ r.qNum := by
    rw [← hn0]; unfold QReg.sampleProposal; simp [hpl]; omega
  simp only [rsSum_nat]
  by_cases hlt : n0.sum < count
  · have h1 : ((Int.ofNat n0.sum - Int.ofNat count) < (0 : Int)) := by
      simp only [Int.ofNat_eq_natCast]; omega
    have hab : Int.natAbs (Int.ofNat n0.sum - Int.ofNat count) = count - n0.sum := by
      simp only [Int.ofNat_eq_natCast]; omega
    simp only [h1, decide_true, ↓reduceIte, hlt, hab, QReg.addDeficit, Rs.updateSelected]
    have hsup : (List.filter (fun a4 : R => decide (a4 > 0)) r.getProbabilities).length =
        (List.filter id (List.map (fun x => decide (0 < x)) r.getProbabilities)).length := by
      rw [List.filter_map]; simp [Function.comp_def, GT.gt]
    rw [hsup]
    congr 1
    rw [← updateSelected_eq_go]
    congr 1
    funext idx x
    by_cases hk : idx < (count - n0.sum) % max (List.filter id (List.map (fun x => decide (0 < x)) r.getProbabilities)).length 1
    · simp [hk]
    · simp [hk]
  · by_cases hgt : n0.sum > count
    · have h1 : ¬ ((Int.ofNat n0.sum - Int.ofNat count) < (0 : Int)) := by
        simp only [Int.ofNat_eq_natCast]; omega
      have h2 : ((Int.ofNat n0.sum - Int.ofNat count) > (0 : Int)) := by
        simp only [Int.ofNat_eq_natCast]; omega
      have hcast : Int.toNat (Int.ofNat n0.sum - Int.ofNat count) = n0.sum - count := by
        simp only [Int.ofNat_eq_natCast]; omega
      simp only [h1, decide_false, Bool.false_eq_true, ↓reduceIte, h2, decide_true, hlt, hgt, hcast]
      have := surplus_loop_eq (ofModel r) ((n0.sum - count) * (n0.length + 1) + n0.length + 1) 0 (n0.sum - count) n0
        (by simp [ofModel, hn0l]; exact hm)
      simp only [ofModel] at this ⊢
      rw [← this]
      cases quant_sample_all_loop1 (R := R) ⟨r.psi.toList, r.qNum, r.qMask⟩
        ((n0.sum - count) * (n0.length + 1) + n0.length + 1 + 1) (0, n0, n0.sum - count) <;> simp
    · have h1 : ¬ ((Int.ofNat n0.sum - Int.ofNat count) < (0 : Int)) := by
        simp only [Int.ofNat_eq_natCast]; omega
      have h2 : ¬ ((Int.ofNat n0.sum - Int.ofNat count) > (0 : Int)) := by
        simp only [Int.ofNat_eq_natCast]; omega
      simp [h1, h2, hlt, hgt]

end sample
end Qvnt.Gen2
