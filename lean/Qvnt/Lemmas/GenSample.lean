/-
`register/quant.rs`: sample_all.
(split out of GenRegs2.lean so that an equality that no longer holds blocks only the properties that rely on it)
-/
import Qvnt.Lemmas.GenSample.surplus_loop_eq
import Qvnt.Lemmas.GenSample.updateSelected_eq_go
import Qvnt.Lemmas.GenSample.rsSum_nat
import Qvnt.Lemmas.GenSample.proposal_eq
import Qvnt.Lemmas.GenSample.quant_sample_all_eq
