/-
LEMMAS — bit-mask bookkeeping of virtual registers (`VReg`), register views (`QReg.getVReg*`)
and classical registers (`CReg`), for property C20.
-/
import Qvnt.Lemmas.Bits
import Qvnt.Lemmas.Structure
import Qvnt.Model.Reg

namespace Qvnt

/-! ## 0. word masks -/

theorem CReg.maskOf_eq (n : Nat) : CReg.maskOf n = 2 ^ (min n 64) - 1 := by
  unfold CReg.maskOf W
  by_cases h : n ≥ 64
  · simp [h, Nat.min_eq_right h]
  · have h' : min n 64 = n := by omega
    simp [h, h']

theorem CReg.maskOf_of_le (n : Nat) (h : n ≤ 64) : CReg.maskOf n = 2 ^ n - 1 := by
  rw [CReg.maskOf_eq, Nat.min_eq_left h]

theorem two_pow_sub_one_lt (k : Nat) (hk : k ≤ 64) : 2 ^ k - 1 < 2 ^ 64 := by
  have h1 : 2 ^ k ≤ 2 ^ 64 := Nat.pow_le_pow_right (by decide) hk
  have h2 : 0 < 2 ^ k := Nat.pow_pos (by decide)
  omega

theorem CReg.maskOf_lt (n : Nat) : CReg.maskOf n < 2 ^ 64 := by
  rw [CReg.maskOf_eq]; exact two_pow_sub_one_lt _ (Nat.min_le_right _ _)

/-- bit `i` of `!m` on a 64-bit word -/
theorem CReg.testBit_notW (m i : Nat) :
    (CReg.notW m).testBit i = (decide (i < 64) && !m.testBit i) := by
  unfold CReg.notW W
  rw [Nat.testBit_xor, Nat.testBit_two_pow_sub_one, Nat.testBit_mod_two_pow]
  by_cases h : i < 64 <;> simp [h]

theorem testBit_of_lt_word (m i : Nat) (hm : m < 2 ^ 64) (h : m.testBit i = true) : i < 64 := by
  apply Decidable.byContradiction
  intro hi
  rw [testBit_eq_false_of_lt m 64 i hm (by omega)] at h
  cases h

/-- `mask & !q == 0` is "the mask lies inside `q`" -/
theorem and_notW_eq_zero_iff (mask q : Nat) (hm : mask < 2 ^ 64) :
    mask &&& CReg.notW q = 0 ↔ mask &&& q = mask := by
  rw [and_eq_zero_iff_testBit, Nat.and_comm, and_eq_right_iff_testBit]
  constructor
  · intro h i hi
    have := h i hi
    rw [CReg.testBit_notW] at this
    have h64 := testBit_of_lt_word mask i hm hi
    simpa [h64] using this
  · intro h i hi
    rw [CReg.testBit_notW, h i hi]
    simp

/-! ## 1. the bits of `2^k - 1` -/

theorem bitsBelow_two_pow_sub_one (k j : Nat) :
    bitsBelow (2 ^ k - 1) j = (List.range (min k j)).map (fun i => 2 ^ i) := by
  induction j with
  | zero => simp [bitsBelow]
  | succ j ih =>
    rw [bitsBelow_succ, ih, Nat.testBit_two_pow_sub_one]
    by_cases h : j < k
    · have h1 : min k (j + 1) = j + 1 := by omega
      have h2 : min k j = j := by omega
      simp [h, h1, h2, List.range_succ]
    · have h1 : min k (j + 1) = min k j := by omega
      simp [h, h1]

theorem bitsOf_two_pow_sub_one (k : Nat) (hk : k ≤ 64) :
    bitsOf (2 ^ k - 1) = (List.range k).map (fun i => 2 ^ i) := by
  rw [bitsOf, bitsBelow_two_pow_sub_one]
  have : min k W = k := by unfold W; omega
  rw [this]

theorem length_bitsOf_two_pow_sub_one (k : Nat) (hk : k ≤ 64) :
    (bitsOf (2 ^ k - 1)).length = k := by
  rw [bitsOf_two_pow_sub_one k hk]; simp

/-! ## 2. virtual registers -/

theorem VReg.ofMask_bits (m : Nat) (h : m < 2 ^ 64) : (VReg.ofMask m).bits = bitsOf m :=
  bitsIterList_eq_bitsOf m h

theorem VReg.new_bits (n : Nat) : (VReg.new n).bits = bitsOf (2 ^ (min n 64) - 1) := by
  rw [VReg.new, VReg.ofMask_bits _ (CReg.maskOf_lt n), CReg.maskOf_eq]

theorem VReg.new_length (n : Nat) : (VReg.new n).bits.length = min n 64 := by
  rw [VReg.new_bits, length_bitsOf_two_pow_sub_one _ (Nat.min_le_right _ _)]

/-- the indexing fold: bit `k` of the result is set iff it was set in the accumulator or in
one of the selected entries -/
theorem idxBy_fold_testBit (f : Nat → Bool) (k : Nat) :
    ∀ (l : List Nat) (s acc : Nat),
      ((l.zipIdx s).foldl
          (fun acc (p : Nat × Nat) => if f p.2 then acc ||| p.1 else acc) acc).testBit k = true
        ↔ (acc.testBit k = true ∨
            ∃ i b, l[i]? = some b ∧ f (s + i) = true ∧ b.testBit k = true) := by
  intro l
  induction l with
  | nil => intro s acc; simp
  | cons a l ih =>
    intro s acc
    rw [List.zipIdx_cons, List.foldl_cons, ih]
    constructor
    · rintro (h | ⟨i, b, hb, hf, hk⟩)
      · by_cases hfs : f s = true
        · simp only [hfs, if_true, Nat.testBit_or, Bool.or_eq_true] at h
          rcases h with h | h
          · exact Or.inl h
          · exact Or.inr ⟨0, a, rfl, by simpa using hfs, h⟩
        · simp only [hfs] at h
          exact Or.inl h
      · exact Or.inr ⟨i + 1, b, by simpa using hb, by rw [← hf]; congr 1; omega, hk⟩
    · rintro (h | ⟨i, b, hb, hf, hk⟩)
      · left
        by_cases hfs : f s = true
        · simp [hfs, h]
        · simpa [hfs] using h
      · cases i with
        | zero =>
          simp only [List.getElem?_cons_zero, Option.some.injEq] at hb
          subst hb
          left
          have hfs : f s = true := by simpa using hf
          simp [hfs, hk]
        | succ i =>
          right
          exact ⟨i, b, by simpa using hb, by rw [← hf]; congr 1; omega, hk⟩

theorem VReg.idxBy_testBit (v : VReg) (f : Nat → Bool) (k : Nat) :
    (v.idxBy f).testBit k = true
      ↔ ∃ i b, v.bits[i]? = some b ∧ f i = true ∧ b.testBit k = true := by
  unfold VReg.idxBy
  rw [idxBy_fold_testBit]
  simp

theorem idxAll_fold (l : List Nat) :
    ∀ (s acc : Nat),
      (l.zipIdx s).foldl
          (fun acc (p : Nat × Nat) => if (fun _ => true) p.2 then acc ||| p.1 else acc) acc
        = l.foldl (· ||| ·) acc := by
  induction l with
  | nil => intro s acc; rfl
  | cons a l ih =>
    intro s acc
    rw [List.zipIdx_cons, List.foldl_cons, List.foldl_cons, ih]
    simp

theorem VReg.idxAll_ofMask (m : Nat) (h : m < 2 ^ 64) : (VReg.ofMask m).idxAll = m := by
  unfold VReg.idxAll VReg.idxBy
  rw [VReg.ofMask_bits m h, idxAll_fold, bitsOf_fold_or m h]

/-! ## 3. views of a quantum register -/

theorem QReg.getVRegBy_isSome_iff {R : Type} (r : QReg R) (mask : Nat) (hm : mask < 2 ^ 64) :
    (r.getVRegBy mask).isSome ↔ mask &&& r.qMask = mask := by
  unfold QReg.getVRegBy
  rw [← and_notW_eq_zero_iff mask r.qMask hm]
  by_cases h : mask &&& CReg.notW r.qMask = 0 <;> simp [h]

theorem QReg.getVRegBy_bits {R : Type} (r : QReg R) (mask : Nat) (hm : mask < 2 ^ 64) (v : VReg)
    (hv : r.getVRegBy mask = some v) : v.bits = bitsOf mask := by
  unfold QReg.getVRegBy at hv
  by_cases h : mask &&& CReg.notW r.qMask ≠ 0
  · simp [h] at hv
  · simp only [h, if_false, Option.some.injEq] at hv
    rw [← hv, VReg.ofMask_bits mask hm]

theorem QReg.getVReg_bits {R : Type} (r : QReg R) (hq : r.qMask < 2 ^ 64) :
    r.getVReg.bits = bitsOf r.qMask := VReg.ofMask_bits _ hq

/-! ## 4. classical registers -/

/-- representation invariant of a classical register that fits a machine word: the mask is
the low `qNum` bits and the value lies inside it -/
def CReg.Inv (c : CReg) : Prop :=
  c.qNum ≤ 64 ∧ c.qMask = 2 ^ c.qNum - 1 ∧ c.value < 2 ^ c.qNum

namespace CReg

theorem Inv.qMask_lt {c : CReg} (hc : c.Inv) : c.qMask < 2 ^ 64 := by
  rw [hc.2.1]; exact two_pow_sub_one_lt _ hc.1

theorem Inv.value_lt {c : CReg} (hc : c.Inv) : c.value < 2 ^ 64 :=
  Nat.lt_of_lt_of_le hc.2.2 (Nat.pow_le_pow_right (by decide) hc.1)

theorem and_qMask_lt {c : CReg} (hc : c.Inv) (x : Nat) : x &&& c.qMask < 2 ^ c.qNum := by
  rw [hc.2.1, Nat.and_two_pow_sub_one_eq_mod]
  exact Nat.mod_lt _ (Nat.pow_pos (by decide))

theorem withState_value (n s : Nat) (hn : n ≤ 64) : (withState n s).value = s % 2 ^ n := by
  show s &&& maskOf n = _
  rw [maskOf_of_le n hn, Nat.and_two_pow_sub_one_eq_mod]

theorem withState_inv (n s : Nat) (hn : n ≤ 64) : (withState n s).Inv := by
  refine ⟨hn, maskOf_of_le n hn, ?_⟩
  show (withState n s).value < 2 ^ n
  rw [withState_value n s hn]
  exact Nat.mod_lt _ (Nat.pow_pos (by decide))

theorem new_inv (n : Nat) (hn : n ≤ 64) : (CReg.new n).Inv := withState_inv n 0 hn

theorem setNum_inv (c : CReg) (n : Nat) (hn : n ≤ 64) : (c.setNum n).Inv :=
  withState_inv n c.value hn

theorem reset_inv (c : CReg) (hc : c.Inv) (i : Nat) : (c.reset i).Inv :=
  ⟨hc.1, hc.2.1, and_qMask_lt hc i⟩

theorem set_inv (c : CReg) (hc : c.Inv) (b : Bool) (mask : Nat) (hm : mask &&& c.qMask = mask) :
    (c.set b mask).Inv := by
  have hmlt : mask < 2 ^ c.qNum := by rw [← hm]; exact and_qMask_lt hc mask
  cases b
  · refine ⟨hc.1, hc.2.1, ?_⟩
    show c.value &&& notW mask < _
    exact Nat.lt_of_le_of_lt Nat.and_le_left hc.2.2
  · exact ⟨hc.1, hc.2.1, Nat.or_lt_two_pow hc.2.2 hmlt⟩

theorem xor_inv (c : CReg) (hc : c.Inv) (b : Bool) (mask : Nat) (hm : mask &&& c.qMask = mask) :
    (c.xor b mask).Inv := by
  have hmlt : mask < 2 ^ c.qNum := by rw [← hm]; exact and_qMask_lt hc mask
  cases b
  · exact hc
  · exact ⟨hc.1, hc.2.1, Nat.xor_lt_two_pow hc.2.2 hmlt⟩

theorem tensorProd_inv (a b : CReg) (h : a.qNum + b.qNum ≤ 64) : (a.tensorProd b).Inv :=
  withState_inv _ _ h

theorem tensorProd_qNum (a b : CReg) : (a.tensorProd b).qNum = a.qNum + b.qNum := rfl

theorem set_value_testBit (c : CReg) (b : Bool) (mask k : Nat) (hk : k < 64) :
    (c.set b mask).value.testBit k = if mask.testBit k then b else c.value.testBit k := by
  cases b
  · show (c.value &&& notW mask).testBit k = _
    rw [Nat.testBit_and, testBit_notW]
    cases mask.testBit k <;> simp [hk]
  · show (c.value ||| mask).testBit k = _
    rw [Nat.testBit_or]
    cases mask.testBit k <;> simp

/-- the same for every bit position, when register and mask fit a word -/
theorem set_value_testBit' (c : CReg) (hc : c.Inv) (b : Bool) (mask k : Nat) (hm : mask < 2 ^ 64) :
    (c.set b mask).value.testBit k = if mask.testBit k then b else c.value.testBit k := by
  by_cases hk : k < 64
  · exact set_value_testBit c b mask k hk
  · have h1 : mask.testBit k = false := testBit_eq_false_of_lt mask 64 k hm (by omega)
    have h2 : c.value.testBit k = false := testBit_eq_false_of_lt _ 64 k hc.value_lt (by omega)
    cases b
    · show (c.value &&& notW mask).testBit k = _
      rw [Nat.testBit_and, h1, h2]; simp
    · show (c.value ||| mask).testBit k = _
      rw [Nat.testBit_or, h1, h2]; simp

theorem xor_value_testBit (c : CReg) (b : Bool) (mask k : Nat) :
    (c.xor b mask).value.testBit k = (c.value.testBit k != (b && mask.testBit k)) := by
  cases b
  · show c.value.testBit k = _
    simp
  · show (c.value ^^^ mask).testBit k = _
    rw [Nat.testBit_xor]; simp

theorem tensorProd_value (a b : CReg) (ha : a.Inv) (hb : b.Inv) (h : a.qNum + b.qNum ≤ 64) :
    (a.tensorProd b).value = a.value + b.value * 2 ^ a.qNum := by
  have hav := ha.2.2
  have hbv := hb.2.2
  have hmul : (b.value + 1) * 2 ^ a.qNum ≤ 2 ^ b.qNum * 2 ^ a.qNum :=
    Nat.mul_le_mul_right _ hbv
  have hpow : 2 ^ (a.qNum + b.qNum) = 2 ^ b.qNum * 2 ^ a.qNum := by
    rw [Nat.pow_add, Nat.mul_comm]
  have h64 : 2 ^ (a.qNum + b.qNum) ≤ 2 ^ 64 := Nat.pow_le_pow_right (by decide) h
  rw [Nat.add_mul, Nat.one_mul] at hmul
  have hlt : 2 ^ a.qNum * b.value + a.value < 2 ^ (a.qNum + b.qNum) := by
    rw [Nat.mul_comm]; omega
  have hlt64 : b.value * 2 ^ a.qNum < 2 ^ W := by unfold W; omega
  unfold tensorProd
  rw [withState_value _ _ h, Nat.shiftLeft_eq, Nat.mod_eq_of_lt hlt64, Nat.or_comm,
    Nat.mul_comm b.value, ← Nat.two_pow_add_eq_or_of_lt hav, Nat.mod_eq_of_lt hlt]
  omega

/-- the gathering fold of `get_by_mask` -/
theorem getByMask_fold_testBit (v j : Nat) :
    ∀ (l : List Nat) (s acc : Nat),
      ((l.zipIdx s).foldl (fun acc (p : Nat × Nat) =>
          if v &&& p.1 ≠ 0 then acc ||| (1 <<< p.2) else acc) acc).testBit j = true
        ↔ (acc.testBit j = true ∨ ∃ i b, l[i]? = some b ∧ s + i = j ∧ v &&& b ≠ 0) := by
  intro l
  induction l with
  | nil => intro s acc; simp
  | cons a l ih =>
    intro s acc
    rw [List.zipIdx_cons, List.foldl_cons, ih]
    have hbit : (1 <<< s).testBit j = decide (s = j) := by
      rw [Nat.one_shiftLeft, Nat.testBit_two_pow]
    constructor
    · rintro (h | ⟨i, b, hb, hs, hv⟩)
      · by_cases hva : v &&& a ≠ 0
        · simp only [hva, ne_eq, not_false_eq_true, if_true, Nat.testBit_or, Bool.or_eq_true,
            hbit, decide_eq_true_eq] at h
          rcases h with h | h
          · exact Or.inl h
          · exact Or.inr ⟨0, a, rfl, by simpa using h, hva⟩
        · simp only [hva, if_false] at h
          exact Or.inl h
      · exact Or.inr ⟨i + 1, b, by simpa using hb, by omega, hv⟩
    · rintro (h | ⟨i, b, hb, hs, hv⟩)
      · left
        by_cases hva : v &&& a ≠ 0
        · simp [hva, h]
        · simp only [hva, if_false]; exact h
      · cases i with
        | zero =>
          simp only [List.getElem?_cons_zero, Option.some.injEq] at hb
          subst hb
          left
          have hsj : s = j := by omega
          simp [hv, hsj]
        | succ i =>
          right
          exact ⟨i, b, by simpa using hb, by omega, hv⟩

theorem getByMask_testBit (c : CReg) (hc : c.Inv) (mask j : Nat) :
    (c.getByMask mask).testBit j = true
      ↔ ∃ b, (bitsOf (mask &&& c.qMask))[j]? = some b ∧ c.value &&& b ≠ 0 := by
  have hlt : mask &&& c.qMask < 2 ^ 64 :=
    Nat.lt_of_le_of_lt Nat.and_le_right hc.qMask_lt
  unfold getByMask
  simp only []
  rw [bitsIterList_eq_bitsOf _ hlt, getByMask_fold_testBit]
  constructor
  · rintro (h | ⟨i, b, hb, hs, hv⟩)
    · simp at h
    · have : i = j := by omega
      subst this
      exact ⟨b, hb, hv⟩
  · rintro ⟨b, hb, hv⟩
    exact Or.inr ⟨j, b, hb, by omega, hv⟩

/-! ### printed form -/

theorem debug_fold_toList (v : Nat) :
    ∀ (l : List Nat) (acc : String),
      (l.foldl (fun s i => (if i &&& v = 0 then "0" else "1") ++ s) acc).toList
        = (l.reverse.map (fun i => if i &&& v = 0 then '0' else '1')) ++ acc.toList := by
  intro l
  induction l with
  | nil => intro acc; simp
  | cons a l ih =>
    intro acc
    rw [List.foldl_cons, ih]
    by_cases h : a &&& v = 0 <;> simp [h]

theorem debug_toList (c : CReg) (hc : c.Inv) :
    c.debug.toList
      = '(' :: ((List.range c.qNum).reverse.map
          (fun i => if c.value.testBit i then '1' else '0')) ++ [')'] := by
  unfold debug
  simp only []
  rw [bitsIterList_eq_bitsOf _ hc.qMask_lt, hc.2.1, bitsOf_two_pow_sub_one _ hc.1]
  simp only [String.toList_append, debug_fold_toList]
  have hfun : ((fun i => if i &&& c.value = 0 then '0' else '1') ∘ fun i => 2 ^ i)
      = fun i => if c.value.testBit i then '1' else '0' := by
    funext i
    simp only [Function.comp]
    cases hb : c.value.testBit i
    · have := (two_pow_and_eq_zero_iff c.value i).2 hb
      simp [this]
    · have := (two_pow_and_ne_zero_iff c.value i).2 hb
      simp [this]
  simp [← List.map_reverse, hfun]

theorem debug_length (c : CReg) (hc : c.Inv) : c.debug.length = c.qNum + 2 := by
  rw [← String.length_toList, debug_toList c hc]
  simp

end CReg

/-! ## 5. the Hadamard scan terminates on every word -/

theorem hLoop_isSome {R : Type} (m : Nat) :
    ∀ d k fuel : Nat, k + d = 64 → d + 1 ≤ fuel →
      ∀ (first : Nat) (isFirst : Bool) (acc : MultiOp R),
        (Op.hLoop m fuel (posOf k) first isFirst acc).isSome = true := by
  intro d
  induction d with
  | zero =>
    intro k fuel hk hf first isFirst acc
    have hk' : k = 64 := by omega
    subst hk'
    obtain ⟨f, rfl⟩ : ∃ f, fuel = f + 1 := ⟨fuel - 1, by omega⟩
    rw [posOf_64, Op.hLoop]
    simp
  | succ d ih =>
    intro k fuel hk hf first isFirst acc
    obtain ⟨f, rfl⟩ : ∃ f, fuel = f + 1 := ⟨fuel - 1, by omega⟩
    rw [Op.hLoop, shl1_posOf]
    split
    · split
      · split
        · exact ih (k + 1) f (by omega) (by omega) _ _ _
        · exact ih (k + 1) f (by omega) (by omega) _ _ _
      · exact ih (k + 1) f (by omega) (by omega) _ _ _
    · rfl

theorem hLoop_terminates {R : Type} (m : Nat) :
    (Op.hLoop (R := R) m (W + 2) 1 0 true []).isSome = true := by
  have := hLoop_isSome (R := R) m 64 0 (W + 2) (by decide) (by decide) 0 true []
  rw [posOf_zero] at this
  exact this

end Qvnt
