/-
`Macro::new` (`qasm/int/macros.rs`), translated by `tools/rs2lean2.py` on every run, is the model's `Macro.new`
(`Model/Interp.lean`): the two validation loops over the qubit arguments and the parameter expressions of every body
statement, the rejection of anything that is not a gate application, the collected statements. The model side is used
through its decision-list form `Macro.new_decision` (Lemmas/IntLogic.lean).
-/
import Qvnt.Lemmas.GenMacroNew.foldlM_unit_spec
import Qvnt.Lemmas.GenMacroNew.mapM_spec
import Qvnt.Lemmas.GenMacroNew.regStep
import Qvnt.Lemmas.GenMacroNew.argStep
import Qvnt.Lemmas.GenMacroNew.regLoop_eq
import Qvnt.Lemmas.GenMacroNew.argLoop_eq
import Qvnt.Lemmas.GenMacroNew.newStep
import Qvnt.Lemmas.GenMacroNew.macro_new_eq
