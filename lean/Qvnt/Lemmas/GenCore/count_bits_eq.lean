/- `count_bits_eq` of GenCore.lean (one module per declaration, tools/lean_split.py) -/
import Qvnt.Generated.Kernels
import Qvnt.Lemmas.Bits
import Mathlib.Tactic.Ring
import Mathlib.Algebra.Ring.Basic

namespace Qvnt.Gen
open Qvnt
variable {R : Type}

theorem count_bits_eq (n : Nat) : Gen.count_bits n = countBits n := rfl

end Qvnt.Gen
