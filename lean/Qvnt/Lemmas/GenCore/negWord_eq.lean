/- `negWord_eq` of GenCore.lean (one module per declaration, tools/lean_split.py) -/
import Qvnt.Generated.Kernels
import Qvnt.Lemmas.Bits
import Mathlib.Tactic.Ring
import Mathlib.Algebra.Ring.Basic

namespace Qvnt.Gen
open Qvnt
variable {R : Type}

theorem negWord_eq (c : Nat) : wrapAdd 64 (notW 64 c) 1 = negWord c := by
  unfold wrapAdd notW negWord W; rfl

end Qvnt.Gen
