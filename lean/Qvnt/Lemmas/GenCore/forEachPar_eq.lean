/- `forEachPar_eq` of GenCore.lean (one module per declaration, tools/lean_split.py) -/
import Qvnt.Generated.Kernels
import Qvnt.Lemmas.Bits
import Mathlib.Tactic.Ring
import Mathlib.Algebra.Ring.Basic

namespace Qvnt.Gen
open Qvnt
variable {R : Type}
section sweep
variable [Add R] [Sub R] [Mul R] [Neg R] [Consts R]

/-- the parallel sweep computes every element by the same expression as the sequential one -/
theorem forEachPar_eq (op : State R → Nat → Cx R) (ψ : State R) (ctrl idx : Nat) :
    Gen.forEachPar op ψ ctrl idx = Gen.forEach op ψ ctrl idx := rfl

end sweep
end Qvnt.Gen
