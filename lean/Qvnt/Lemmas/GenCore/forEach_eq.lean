/- `forEach_eq` of GenCore.lean (one module per declaration, tools/lean_split.py) -/
import Qvnt.Generated.Kernels
import Qvnt.Lemmas.Bits
import Mathlib.Tactic.Ring
import Mathlib.Algebra.Ring.Basic
import Qvnt.Lemmas.GenCore.ctrlTest_iff

namespace Qvnt.Gen
open Qvnt
variable {R : Type}
section sweep
variable [Add R] [Sub R] [Mul R] [Neg R] [Consts R]

/-- the element `for_each` writes is the element the model's `SingleOp.apply` defines -/
theorem forEach_eq (g : SingleOp R) (hc : g.ctrl < 2 ^ 64) (ψ : State R) (idx : Nat) :
    Gen.forEach g.func.op ψ g.ctrl idx = g.apply ψ idx := by
  unfold Gen.forEach SingleOp.apply
  by_cases h0 : g.ctrl = 0
  · simp [h0]
  · have := ctrlTest_iff idx g.ctrl hc
    by_cases h1 : idx &&& g.ctrl = g.ctrl
    · simp [h0, h1, this.mpr h1]
    · have h2 : ¬ (notW 64 idx &&& g.ctrl = 0) := fun h => h1 (this.mp h)
      simp [h0, h1, h2]

end sweep
end Qvnt.Gen
