/- `ctrlTest_iff` of GenCore.lean (one module per declaration, tools/lean_split.py) -/
import Qvnt.Generated.Kernels
import Qvnt.Lemmas.Bits
import Mathlib.Tactic.Ring
import Mathlib.Algebra.Ring.Basic

namespace Qvnt.Gen
open Qvnt
variable {R : Type}
section sweep

/-- `!idx & ctrl == 0` on 64-bit words says "every control bit of `ctrl` is set in `idx`" -/
theorem ctrlTest_iff (idx ctrl : Nat) (hc : ctrl < 2 ^ 64) :
    (notW 64 idx &&& ctrl = 0) ↔ (idx &&& ctrl = ctrl) := by
  unfold notW
  have h1 : 2 ^ 64 - 1 - idx % 2 ^ 64 = 2 ^ 64 - (idx % 2 ^ 64 + 1) := by omega
  rw [h1]
  constructor
  · intro h
    apply Nat.eq_of_testBit_eq; intro i
    have := congrArg (fun n => n.testBit i) h
    simp only [Nat.testBit_and, Nat.zero_testBit, Nat.testBit_two_pow_sub_succ (Nat.mod_lt _ (by decide : 0 < 2 ^ 64)),
      Nat.testBit_mod_two_pow] at this
    rw [Nat.testBit_and]
    by_cases hi : i < 64
    · simp [hi] at this
      cases hb : idx.testBit i <;> cases hcb : ctrl.testBit i <;> simp_all
    · have : ctrl.testBit i = false := Nat.testBit_lt_two_pow (lt_of_lt_of_le hc (Nat.pow_le_pow_right (by decide) (by omega)))
      simp [this]
  · intro h
    apply Nat.eq_of_testBit_eq; intro i
    have := congrArg (fun n => n.testBit i) h
    simp only [Nat.testBit_and] at this
    simp only [Nat.testBit_and, Nat.zero_testBit, Nat.testBit_two_pow_sub_succ (Nat.mod_lt _ (by decide : 0 < 2 ^ 64)),
      Nat.testBit_mod_two_pow]
    by_cases hi : i < 64
    · cases hb : idx.testBit i <;> cases hcb : ctrl.testBit i <;> simp_all
    · simp [hi]

end sweep
end Qvnt.Gen
