/- `yIPow_eq` of GenCore.lean (one module per declaration, tools/lean_split.py) -/
import Qvnt.Generated.Kernels
import Qvnt.Lemmas.Bits
import Mathlib.Tactic.Ring
import Mathlib.Algebra.Ring.Basic

namespace Qvnt.Gen
open Qvnt
variable {R : Type}

theorem yIPow_eq (a : Nat) : notW 32 (wrapAdd 32 (popcount a) 1) = yIPow a := by
  unfold wrapAdd notW yIPow
  have : (popcount a + 1) % 2 ^ 32 % 2 ^ 32 = (popcount a + 1) % 2 ^ 32 := Nat.mod_mod _ _
  omega

end Qvnt.Gen
