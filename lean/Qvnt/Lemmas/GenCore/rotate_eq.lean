/- `rotate_eq` of GenCore.lean (one module per declaration, tools/lean_split.py) -/
import Qvnt.Generated.Kernels
import Qvnt.Lemmas.Bits
import Mathlib.Tactic.Ring
import Mathlib.Algebra.Ring.Basic

namespace Qvnt.Gen
open Qvnt
variable {R : Type}

theorem rotate_eq [Neg R] (z : Cx R) (q : Nat) : Gen.rotate z q = Qvnt.rotate z q := by
  unfold Gen.rotate Qvnt.rotate
  by_cases h2 : q &&& 2 = 0 <;> by_cases h1 : q &&& 1 = 0 <;> simp [h1, h2]

end Qvnt.Gen
