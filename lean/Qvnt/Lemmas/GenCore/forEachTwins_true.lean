/- `forEachTwins_true` of GenCore.lean (one module per declaration, tools/lean_split.py) -/
import Qvnt.Generated.Kernels
import Qvnt.Lemmas.Bits
import Mathlib.Tactic.Ring
import Mathlib.Algebra.Ring.Basic

namespace Qvnt.Gen
open Qvnt
variable {R : Type}
section sweep
variable [Add R] [Sub R] [Mul R] [Neg R] [Consts R]

theorem forEachTwins_true : Gen.forEachTwins = true := rfl

end sweep
end Qvnt.Gen
