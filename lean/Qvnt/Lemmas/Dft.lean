/-
LEMMAS — C15: the QFT circuit is the discrete Fourier transform composed with the qubit
reversal, up to one global phase. Induction on the list of selected bit positions (radix-2
step): the first stage acts on the lowest selected bit, the rest is the smaller QFT.
Helper files: `DftBits.lean` (bit library, structural forms of `subVal` / `withSubVal` /
`reverseSel`), `DftGates.lean` (`cis`, gates in bit form, first stage in closed form),
`DftRev.lean` (the reversal circuit).
-/
import Qvnt.Lemmas.DftGates
import Qvnt.Lemmas.DftRev

namespace Qvnt.Dft
open Qvnt Qvnt.Spec

/-! ### the binary fraction of a written value -/

theorem fr_congr (qs : List Nat) {x y : Nat} (h : ∀ q ∈ qs, x.testBit q = y.testBit q) :
    fr qs x = fr qs y := by
  induction qs with
  | nil => rfl
  | cons q qs ih =>
    rw [fr, fr, h q List.mem_cons_self, ih (fun r hr => h r (List.mem_cons_of_mem _ hr))]

theorem fr_wrv (ps : List Nat) (hnd : ps.Nodup) (idx K : Nat) :
    fr ps (wrv ps idx K) = ((K % 2 ^ ps.length : ℕ) : ℝ) / 2 ^ ps.length := by
  induction ps with
  | nil => simp [fr, Nat.mod_one]
  | cons p ps ih =>
    obtain ⟨hp, hnd'⟩ := List.nodup_cons.1 hnd
    have e : fr ps (putB p (K.testBit ps.length) (wrv ps idx K)) = fr ps (wrv ps idx K) := by
      apply fr_congr
      intro q hq
      rw [testBit_putB, if_neg]
      rintro rfl; exact hp hq
    rw [wrv, fr, testBit_putB, if_pos rfl, e, ih hnd', List.length_cons, Nat.mod_pow_succ,
      ← Nat.toNat_testBit]
    have h2 : (2:ℝ) ^ ps.length ≠ 0 := by positivity
    push_cast
    rw [pow_succ]
    field_simp
    ring

/-! ### the closed form -/

/-- the unnormalised "DFT after reversal": `Σ_K e^{2πi·X·K/N} ψ(idx with the register := rev K)` -/
noncomputable def G (ps : List Nat) (ψ : State ℝ) (idx : Nat) : Cx ℝ :=
  ∑ K ∈ Finset.range (2 ^ ps.length),
    cis (2 * Real.pi * (sv ps idx : ℝ) * (K : ℝ) / 2 ^ ps.length) * ψ (wrv ps idx K)

theorem cR_mul (a b : ℝ) : (cR (a * b) : Cx ℝ) = cR a * cR b := by ext <;> simp [cR]

theorem E1 (x : Bool) (Y K n : ℕ) :
    cis (2 * Real.pi * ((x.toNat : ℝ) + 2 * (Y : ℝ)) * (K : ℝ) / 2 ^ (n + 1))
      = cis (2 * Real.pi * (Y : ℝ) * (K : ℝ) / 2 ^ n) *
          cis (if x then Real.pi * ((K : ℝ) / 2 ^ n) else 0) := by
  rw [← cis_add]
  congr 1
  have h2 : (2:ℝ) ^ n ≠ 0 := by positivity
  rw [pow_succ]
  cases x <;> simp <;> field_simp
  ring

theorem E2 (x : Bool) (Y K n : ℕ) :
    cis (2 * Real.pi * ((x.toNat : ℝ) + 2 * (Y : ℝ)) * ((2:ℝ) ^ n + (K : ℝ)) / 2 ^ (n + 1))
      = sgnB x * cis (2 * Real.pi * ((x.toNat : ℝ) + 2 * (Y : ℝ)) * (K : ℝ) / 2 ^ (n + 1)) := by
  have h2 : (2:ℝ) ^ n ≠ 0 := by positivity
  have e : 2 * Real.pi * ((x.toNat : ℝ) + 2 * (Y : ℝ)) * ((2:ℝ) ^ n + (K : ℝ)) / 2 ^ (n + 1)
      = (x.toNat : ℝ) * Real.pi + ((Y : ℝ) * (2 * Real.pi)
          + 2 * Real.pi * ((x.toNat : ℝ) + 2 * (Y : ℝ)) * (K : ℝ) / 2 ^ (n + 1)) := by
    rw [pow_succ]; field_simp; ring
  rw [e, cis_add, cis_add, cis_nat_mul_two_pi, ← sgnB_eq_cis, one_mul]

theorem step_term (Γ : ℝ) (x : Bool) (Y K n : ℕ) (a b : Cx ℝ) (h : ℝ) :
    cis (2 * Real.pi * (Y : ℝ) * (K : ℝ) / 2 ^ n) *
        (cis (Γ + if x then Real.pi * ((K : ℝ) / 2 ^ n) else 0) * (cR h * (a + sgnB x * b)))
      = cis Γ * (cR h *
          (cis (2 * Real.pi * ((x.toNat : ℝ) + 2 * (Y : ℝ)) * (K : ℝ) / 2 ^ (n + 1)) * a
            + cis (2 * Real.pi * ((x.toNat : ℝ) + 2 * (Y : ℝ)) * ((2:ℝ) ^ n + (K : ℝ)) / 2 ^ (n + 1))
                * b)) := by
  rw [E2, E1, cis_add]
  ring

theorem G_cons (p : Nat) (ps : List Nat) (hp : p ∉ ps) (hnd : ps.Nodup) (ψ : State ℝ) (idx : Nat) :
    G ps (actAll (plain (.one matH (2 ^ p)) :: pairs p ps 0) ψ) idx
      = cis (gamL ps 0) * (cR (Consts.invSqrt2 : ℝ) * G (p :: ps) ψ idx) := by
  unfold G
  rw [List.length_cons, pow_succ, mul_two, Finset.sum_range_add, ← Finset.sum_add_distrib,
    Finset.mul_sum, Finset.mul_sum]
  apply Finset.sum_congr rfl
  intro K hK
  have hK' : K < 2 ^ ps.length := Finset.mem_range.1 hK
  have b0 : K.testBit ps.length = false := Nat.testBit_lt_two_pow hK'
  have b1 : (2 ^ ps.length + K).testBit ps.length = true := by
    rw [Nat.testBit_two_pow_add_eq, b0]; rfl
  have w1 : wrv ps idx (2 ^ ps.length + K) = wrv ps idx K :=
    wrv_congr ps idx (fun t ht => Nat.testBit_two_pow_add_gt ht K)
  rw [stage0_act, testBit_wrv_not_mem ps hp, fr_wrv ps hnd, Nat.mod_eq_of_lt hK', wrv, wrv, b0,
    b1, w1, sv]
  push_cast
  exact step_term _ _ _ _ _ _ _ _
/-- the QFT circuit in closed form, up to the global phase `e^{iγ}` -/
theorem qft_eq_G (ps : List Nat) (hnd : ps.Nodup) :
    ∃ γ : ℝ, ∀ (ψ : State ℝ) (idx : Nat),
      actAll (qftCircuit phaseOfR (pows ps)) ψ idx
        = cis γ * (cR ((Consts.invSqrt2 : ℝ) ^ ps.length) * G ps ψ idx) := by
  induction ps with
  | nil =>
    refine ⟨0, fun ψ idx => ?_⟩
    have e : (cR (1:ℝ) : Cx ℝ) = 1 := rfl
    simp [qftCircuit, G, sv, wrv, cis_zero, e]
  | cons p ps ih =>
    obtain ⟨hp, hnd'⟩ := List.nodup_cons.1 hnd
    obtain ⟨γ, hγ⟩ := ih hnd'
    refine ⟨γ + gamL ps 0, fun ψ idx => ?_⟩
    rw [qftCircuit_cons, actAll_append, hγ, G_cons p ps hp hnd', cis_add, List.length_cons,
      pow_succ, cR_mul]
    ring

theorem foldl_add_eq_sum (f : Nat → Cx ℝ) (N : Nat) :
    (List.range N).foldl (fun acc k => acc + f k) 0 = ∑ k ∈ Finset.range N, f k := by
  induction N with
  | zero => rfl
  | succ n ih =>
    rw [List.range_succ, List.foldl_append, ih, Finset.sum_range_succ]; rfl

theorem scale_eq (z : Cx ℝ) (t : ℝ) : z.scale t = cR t * z := by
  ext <;> simp [cR] <;> ring

theorem rootR_mod (N t : ℕ) (hN : 0 < N) :
    rootR N (t % N) = cis (2 * Real.pi * (t : ℝ) / N) := by
  have hN' : (N : ℝ) ≠ 0 := by exact_mod_cast hN.ne'
  have e : 2 * Real.pi * (t : ℝ) / N
      = ((t / N : ℕ) : ℝ) * (2 * Real.pi) + 2 * Real.pi * ((t % N : ℕ) : ℝ) / N := by
    have := Nat.div_add_mod t N
    have h2 : (t : ℝ) = (N : ℝ) * ((t / N : ℕ) : ℝ) + ((t % N : ℕ) : ℝ) := by exact_mod_cast this.symm
    rw [h2]; field_simp
  rw [e, cis_add, cis_nat_mul_two_pi, one_mul]; rfl

theorem wrv_wsv (ps : List Nat) (hnd : ps.Nodup) (idx k K : Nat) :
    wrv ps (wsv ps idx k) K = wrv ps idx K := by
  rw [← wsv_revBits, wsv_wsv ps hnd, wsv_revBits]

theorem dftAct_eq_G (ps : List Nat) (hnd : ps.Nodup) (ψ : State ℝ) (idx : Nat) (s : ℝ) :
    dftAct (rootR (2 ^ ps.length)) s (pows ps) (reverseSel (pows ps) ψ) idx
      = cR s * G ps ψ idx := by
  unfold dftAct
  simp only [pows_length]
  rw [foldl_add_eq_sum, scale_eq, G]
  congr 1
  apply Finset.sum_congr rfl
  intro k hk
  have hk' : k < 2 ^ ps.length := Finset.mem_range.1 hk
  rw [subVal_pows, withSubVal_pows ps hnd, reverseSel_pows ps hnd, sv_wsv ps hnd idx k hk',
    wrv_wsv ps hnd, rootR_mod _ _ (Nat.two_pow_pos _)]
  push_cast
  rw [mul_assoc (2 * Real.pi)]

theorem invSqrt2_pow (m : ℕ) : (Consts.invSqrt2 : ℝ) ^ m = 1 / Real.sqrt (2 ^ m) := by
  show (1 / Real.sqrt 2) ^ m = 1 / Real.sqrt (2 ^ m)
  rw [one_div_pow]
  congr 1
  induction m with
  | zero => simp
  | succ n ih => rw [pow_succ, pow_succ, Real.sqrt_mul (by positivity), ih]


/-! ### the statements over bit lists -/

theorem isUnitPhase_phaseOfR (j : Nat) :
    (phaseOfR j).re * (phaseOfR j).re + (phaseOfR j).im * (phaseOfR j).im = 1 := phaseOfR_unit j

/-- QFT circuit = global phase · DFT ∘ qubit reversal -/
theorem qft_plain (v : List Nat) (hv : BitList v) :
    ∃ lam : Cx ℝ, lam.normSq = 1 ∧ ∀ (ψ : State ℝ) (idx : Nat),
      actAll (qftCircuit phaseOfR v) ψ idx
        = lam * dftAct (rootR (2 ^ v.length)) (1 / Real.sqrt (2 ^ v.length)) v
            (reverseSel v ψ) idx := by
  obtain ⟨ps, rfl, hnd⟩ := exists_pows hv
  obtain ⟨γ, hγ⟩ := qft_eq_G ps hnd
  refine ⟨cis γ, cis_normSq γ, fun ψ idx => ?_⟩
  rw [hγ, pows_length, dftAct_eq_G ps hnd, invSqrt2_pow]

/-- the reversal circuit acts as `reverseSel` -/
theorem reverse_act (v : List Nat) (hv : BitList v) (ψ : State ℝ) :
    actAll (reverseCircuit v) ψ = reverseSel v ψ := by
  obtain ⟨ps, rfl, hnd⟩ := exists_pows hv
  funext idx
  rw [actAll_reverseCircuit ps hnd, reverseSel_pows ps hnd]

/-- `reverseSel` is an involution -/
theorem reverseSel_reverseSel (v : List Nat) (hv : BitList v) (ψ : State ℝ) :
    reverseSel v (reverseSel v ψ) = ψ := by
  obtain ⟨ps, rfl, hnd⟩ := exists_pows hv
  funext idx
  rw [reverseSel_pows ps hnd, reverseSel_pows ps hnd, rev_involutive ps hnd]

/-- reversal followed by the QFT circuit = global phase · DFT -/
theorem qft_swapped (v : List Nat) (hv : BitList v) :
    ∃ lam : Cx ℝ, lam.normSq = 1 ∧ ∀ (ψ : State ℝ) (idx : Nat),
      actAll (reverseCircuit v ++ qftCircuit phaseOfR v) ψ idx
        = lam * dftAct (rootR (2 ^ v.length)) (1 / Real.sqrt (2 ^ v.length)) v ψ idx := by
  obtain ⟨lam, h1, h2⟩ := qft_plain v hv
  refine ⟨lam, h1, fun ψ idx => ?_⟩
  rw [actAll_append, h2, reverse_act v hv, reverseSel_reverseSel v hv]

/-- writing the sub-register does not change the bits outside the mask -/
theorem testBit_withSubVal_outside (v : List Nat) (idx k b : Nat)
    (hb : (maskOfBits v).testBit b = false) :
    (withSubVal v idx k).testBit b = idx.testBit b := by
  simp only [withSubVal, Nat.testBit_or, Nat.testBit_xor, Nat.testBit_and, hb,
    spread_testBit_le v k b hb]
  simp

/-- the DFT on the sub-register reads only amplitudes at indices that agree with `idx` outside
the selected bits -/
theorem dftAct_congr {R : Type} [Add R] [Sub R] [Mul R] [Zero R] (root : Nat → Cx R) (s : R)
    (v : List Nat) (ψ φ : State R) (idx : Nat)
    (h : ∀ j, (∀ b, (maskOfBits v).testBit b = false → j.testBit b = idx.testBit b) → ψ j = φ j) :
    dftAct root s v ψ idx = dftAct root s v φ idx := by
  have e : ∀ k, ψ (withSubVal v idx k) = φ (withSubVal v idx k) :=
    fun k => h _ (fun b hb => testBit_withSubVal_outside v idx k b hb)
  simp only [dftAct, e]

end Qvnt.Dft
