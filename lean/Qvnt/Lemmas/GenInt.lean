/-
The functions of `src/qasm/int/mod.rs` translated by `tools/rs2lean2.py` on every run (declarations with
their checks, resolution of qubit / classical arguments, the measure / reset / barrier statements, the queue
separators) are equal to the hand-written MODEL (`Qvnt.Interp`, `Model/Interp.lean`) the theorems of
C10 / C11 / C13 / C17 / C18 are about. The translated functions work on the model's own record `Interp R`.
-/
import Qvnt.Lemmas.GenRegs2

set_option linter.unusedSectionVars false

namespace Qvnt.Gen2
open Qvnt Qvnt.Gen

variable {R : Type}

/-- a Rust `Result<'t, T>` as the model's three-valued result (a `Result` never carries a panic) -/
def exToRes {α : Type} : Except IntError α → Res α
  | .ok a => .ok a
  | .error e => .err e

theorem int_check_ident_eq (a : String) : int_check_ident a = Interp.checkIdent a := by
  unfold int_check_ident Interp.checkIdent Generated.identLimit
  by_cases h : a.utf8ByteSize ≥ 32 <;> simp [h]

theorem int_check_reg_size_eq (a : String) (n : Nat) : int_check_reg_size a n = Interp.checkRegSize a n := by
  unfold int_check_reg_size Interp.checkRegSize Generated.regSizeLimit
  by_cases h : n ≥ 64 <;> simp [h]

theorem int_check_dup_eq (s c : Interp R) (a : String) : int_check_dup s c a = Interp.checkDup s c a := by
  unfold int_check_dup Interp.checkDup
  simp only [gt_iff_lt]
  by_cases h1 : 0 < (List.filter (fun x => x == a) s.qReg).length
  · simp [h1]
  · by_cases h2 : 0 < (List.filter (fun x => x == a) s.cReg).length
    · simp [h1, h2]
    · by_cases h3 : 0 < (List.filter (fun x => x == a) c.qReg).length
      · simp [h1, h2, h3]
      · by_cases h4 : 0 < (List.filter (fun x => x == a) c.cReg).length <;> simp [h1, h2, h3, h4]

theorem int_branch_eq (s : Interp R) (sep : Sep) : int_branch s sep = { s with qOps := s.qOps.branch sep } := by
  unfold int_branch ExtOp.branch
  by_cases h : s.qOps.tail.isEmpty <;> simp [h]

theorem int_branch_with_id_eq (s : Interp R) (sep : Sep) :
    int_branch_with_id s sep = { s with qOps := s.qOps.branchWithId sep } := by
  simp [int_branch_with_id, ExtOp.branchWithId]

theorem int_xor_eq (s : Interp R) : int_xor s = s.xor := rfl

theorem fold_idx_eq (l : List String) (a : String) :
    int_get_idx_by_alias_fold_idx_by_alias l a = Interp.maskByAlias l a := by
  unfold int_get_idx_by_alias_fold_idx_by_alias Interp.maskByAlias Rs.enumerate
  rw [List.filter_map, List.foldl_map]
  generalize l.zipIdx = z
  have key : ∀ (z : List (String × Nat)) (acc : Nat),
      List.foldl (fun (a2 : Nat) (a3 : String × Nat) => a2 ||| shlW 64 1 (a3.2 % 2 ^ 32)) acc
        (List.filter ((fun a1 : Nat × String => a1.2 == a) ∘ fun p : String × Nat => (p.2, p.1)) z) =
      List.foldl (fun acc (p : String × Nat) => if (p.1 == a) = true then acc ||| 1 <<< (p.2 % W) else acc) acc z := by
    intro z
    induction z with
    | nil => intro acc; rfl
    | cons x xs ih =>
      intro acc
      have hs : shlW 64 1 (x.2 % 2 ^ 32) = 1 <<< (x.2 % W) := by
        unfold shlW W
        have h1 : x.2 % 2 ^ 32 % 64 = x.2 % 64 := Nat.mod_mod_of_dvd _ (by decide)
        rw [h1, Nat.one_mul, Nat.shiftLeft_eq, Nat.one_mul,
          Nat.mod_eq_of_lt (Nat.pow_lt_pow_right (by decide) (Nat.mod_lt _ (by decide)))]
      by_cases hx : (x.1 == a) = true
      · simp only [List.filter_cons, Function.comp_apply, hx, ↓reduceIte, List.foldl_cons, hs, ih]
      · simp only [List.filter_cons, Function.comp_apply, hx, Bool.false_eq_true, ↓reduceIte, List.foldl_cons, ih]
  simpa using key z 0

theorem int_get_q_idx_eq (s c : Interp R) (arg : Arg) :
    int_get_q_idx_with_context s c arg = Interp.getIdx s c true arg := by
  unfold int_get_q_idx_with_context Interp.getIdx int_get_idx_by_alias
  cases arg with
  | qubit nm idx =>
    simp only [fold_idx_eq, bitsList_eq, ↓reduceIte]
    by_cases h : Interp.maskByAlias (s.qReg ++ c.qReg) nm = 0
    · simp [h]
    · simp only [bne_iff_ne, ne_eq, h, not_false_eq_true, ↓reduceIte]
      cases (bitsIterList (Interp.maskByAlias (s.qReg ++ c.qReg) nm))[idx]? <;> rfl
  | register nm =>
    simp only [fold_idx_eq, ↓reduceIte]
    by_cases h : Interp.maskByAlias (s.qReg ++ c.qReg) nm = 0 <;> simp [h]

theorem int_get_c_idx_eq (s c : Interp R) (arg : Arg) :
    int_get_c_idx_with_context s c arg = Interp.getIdx s c false arg := by
  unfold int_get_c_idx_with_context Interp.getIdx int_get_idx_by_alias
  cases arg with
  | qubit nm idx =>
    simp only [fold_idx_eq, bitsList_eq, Bool.false_eq_true, ↓reduceIte]
    by_cases h : Interp.maskByAlias (s.cReg ++ c.cReg) nm = 0
    · simp [h]
    · simp only [bne_iff_ne, ne_eq, h, not_false_eq_true, ↓reduceIte]
      cases (bitsIterList (Interp.maskByAlias (s.cReg ++ c.cReg) nm))[idx]? <;> rfl
  | register nm =>
    simp only [fold_idx_eq, Bool.false_eq_true, ↓reduceIte]
    by_cases h : Interp.maskByAlias (s.cReg ++ c.cReg) nm = 0 <;> simp [h]

theorem int_append_int_eq [Add R] [Sub R] [Mul R] [Div R] [Neg R] [Zero R] [One R] [Consts R] (s i : Interp R) :
    int_append_int s i = Interp.appendInt s i := by
  have h := extop_append_eq s.qOps i.qOps
  unfold int_append_int Interp.appendInt Rs.mapExtend
  simp only []
  rw [← h.1]

theorem int_prepend_int_eq [Add R] [Sub R] [Mul R] [Div R] [Neg R] [Zero R] [One R] [Consts R] (s i : Interp R) :
    int_prepend_int s i = Interp.prependInt s i := by
  unfold int_prepend_int Interp.prependInt
  exact int_append_int_eq i s

section proc
variable [Add R] [Sub R] [Mul R] [Neg R] [Div R] [ExprFns R] [AngleFns R]

theorem int_process_qreg_eq (s c : Interp R) (a : String) (n : Nat) :
    exToRes (int_process_qreg s c a n) = Interp.processNode s c (.qreg a n) := by
  unfold int_process_qreg
  simp only [Interp.processNode]
  simp only [int_check_ident_eq, int_check_reg_size_eq, int_check_dup_eq]
  cases Interp.checkIdent a with
  | error e => rfl
  | ok _ =>
    cases Interp.checkRegSize a n with
    | error e => rfl
    | ok _ =>
      cases Interp.checkRegSize a (s.qReg.length + c.qReg.length + n) with
      | error e => rfl
      | ok _ =>
        cases Interp.checkDup s c a with
        | error e => rfl
        | ok _ => rfl

theorem int_process_creg_eq (s c : Interp R) (a : String) (n : Nat) :
    exToRes (int_process_creg s c a n) = Interp.processNode s c (.creg a n) := by
  unfold int_process_creg
  simp only [Interp.processNode]
  simp only [int_check_ident_eq, int_check_reg_size_eq, int_check_dup_eq]
  cases Interp.checkIdent a with
  | error e => rfl
  | ok _ =>
    cases Interp.checkRegSize a n with
    | error e => rfl
    | ok _ =>
      cases Interp.checkRegSize a (s.cReg.length + c.cReg.length + n) with
      | error e => rfl
      | ok _ =>
        cases Interp.checkDup s c a with
        | error e => rfl
        | ok _ => rfl

theorem int_process_barrier_eq (s c : Interp R) :
    exToRes (int_process_barrier s c) = Interp.processNode s c .barrier := rfl

theorem int_process_opaque_eq (s c : Interp R) :
    exToRes (int_process_opaque s c) = Interp.processNode s c .opaque := rfl

theorem int_process_reset_eq (s c : Interp R) (a : Arg) :
    exToRes (int_process_reset s c a) = Interp.processNode s c (.reset a) := by
  unfold int_process_reset
  simp only [Interp.processNode]
  rw [int_get_q_idx_eq]
  cases Interp.getIdx s c true a with
  | error e => rfl
  | ok idx => simp [exToRes, Except.bind, int_branch_with_id_eq]

theorem int_process_measure_eq (s c : Interp R) (q cl : Arg) :
    exToRes (int_process_measure s c q cl) = Interp.processNode s c (.measure q cl) := by
  unfold int_process_measure
  simp only [Interp.processNode]
  rw [int_get_q_idx_eq]
  cases Interp.getIdx s c true q with
  | error e => rfl
  | ok qa =>
    simp only [Except.bind, int_get_c_idx_eq]
    cases Interp.getIdx s c false cl with
    | error e => rfl
    | ok ca =>
      by_cases h : popcount qa = popcount ca
      · simp [h, exToRes, Except.bind, int_branch_with_id_eq]
      · simp [h, exToRes, Except.bind]

end proc

end Qvnt.Gen2
