/-
The functions of `src/qasm/int/mod.rs` translated by `tools/rs2lean2.py` on every run (declarations with
their checks, resolution of qubit / classical arguments, the measure / reset / barrier statements, the queue
separators) are equal to the hand-written MODEL (`Qvnt.Interp`, `Model/Interp.lean`) the theorems of
C10 / C11 / C13 / C17 / C18 are about. The translated functions work on the model's own record `Interp R`.
-/
import Qvnt.Lemmas.GenExtOp
import Qvnt.Lemmas.GenBits

set_option linter.unusedSectionVars false

namespace Qvnt.Gen2
open Qvnt Qvnt.Gen

variable {R : Type}

/-- a Rust `Result<'t, T>` as the model's three-valued result (a `Result` never carries a panic) -/
def exToRes {α : Type} : Except IntError α → Res α
  | .ok a => .ok a
  | .error e => .err e

theorem int_check_ident_eq (a : String) : int_check_ident a = Interp.checkIdent a := by
  unfold int_check_ident Interp.checkIdent Generated.identLimit
  by_cases h : a.utf8ByteSize ≥ 32 <;> simp [h]

theorem int_check_reg_size_eq (a : String) (n : Nat) : int_check_reg_size a n = Interp.checkRegSize a n := by
  unfold int_check_reg_size Interp.checkRegSize Generated.regSizeLimit
  by_cases h : n ≥ 64 <;> simp [h]

theorem int_check_dup_eq (s c : Interp R) (a : String) : int_check_dup s c a = Interp.checkDup s c a := by
  unfold int_check_dup Interp.checkDup
  simp only [gt_iff_lt]
  by_cases h1 : 0 < (List.filter (fun x => x == a) s.qReg).length
  · simp [h1]
  · by_cases h2 : 0 < (List.filter (fun x => x == a) s.cReg).length
    · simp [h1, h2]
    · by_cases h3 : 0 < (List.filter (fun x => x == a) c.qReg).length
      · simp [h1, h2, h3]
      · by_cases h4 : 0 < (List.filter (fun x => x == a) c.cReg).length <;> simp [h1, h2, h3, h4]

theorem int_branch_eq (s : Interp R) (sep : Sep) : int_branch s sep = { s with qOps := s.qOps.branch sep } := by
  unfold int_branch ExtOp.branch
  by_cases h : s.qOps.tail.isEmpty <;> simp [h]

theorem int_branch_with_id_eq (s : Interp R) (sep : Sep) :
    int_branch_with_id s sep = { s with qOps := s.qOps.branchWithId sep } := by
  simp [int_branch_with_id, ExtOp.branchWithId]

theorem int_xor_eq (s : Interp R) : int_xor s = s.xor := rfl

theorem fold_idx_eq (l : List String) (a : String) :
    int_get_idx_by_alias_fold_idx_by_alias l a = Interp.maskByAlias l a := by
  unfold int_get_idx_by_alias_fold_idx_by_alias Interp.maskByAlias Rs.enumerate
  rw [List.filter_map, List.foldl_map]
  generalize l.zipIdx = z
  have key : ∀ (z : List (String × Nat)) (acc : Nat),
      List.foldl (fun (a2 : Nat) (a3 : String × Nat) => a2 ||| shlW 64 1 (a3.2 % 2 ^ 32)) acc
        (List.filter ((fun a1 : Nat × String => a1.2 == a) ∘ fun p : String × Nat => (p.2, p.1)) z) =
      List.foldl (fun acc (p : String × Nat) => if (p.1 == a) = true then acc ||| 1 <<< (p.2 % W) else acc) acc z := by
    intro z
    induction z with
    | nil => intro acc; rfl
    | cons x xs ih =>
      intro acc
      have hs : shlW 64 1 (x.2 % 2 ^ 32) = 1 <<< (x.2 % W) := by
        unfold shlW W
        have h1 : x.2 % 2 ^ 32 % 64 = x.2 % 64 := Nat.mod_mod_of_dvd _ (by decide)
        rw [h1, Nat.one_mul, Nat.shiftLeft_eq, Nat.one_mul,
          Nat.mod_eq_of_lt (Nat.pow_lt_pow_right (by decide) (Nat.mod_lt _ (by decide)))]
      by_cases hx : (x.1 == a) = true
      · simp only [List.filter_cons, Function.comp_apply, hx, ↓reduceIte, List.foldl_cons, hs, ih]
      · simp only [List.filter_cons, Function.comp_apply, hx, Bool.false_eq_true, ↓reduceIte, List.foldl_cons, ih]
  simpa using key z 0

theorem int_get_q_idx_eq (s c : Interp R) (arg : Arg) :
    int_get_q_idx_with_context s c arg = Interp.getIdx s c true arg := by
  unfold int_get_q_idx_with_context Interp.getIdx int_get_idx_by_alias
  cases arg with
  | qubit nm idx =>
    simp only [fold_idx_eq, bitsList_eq, ↓reduceIte]
    by_cases h : Interp.maskByAlias (s.qReg ++ c.qReg) nm = 0
    · simp [h]
    · simp only [bne_iff_ne, ne_eq, h, not_false_eq_true, ↓reduceIte]
      cases (bitsIterList (Interp.maskByAlias (s.qReg ++ c.qReg) nm))[idx]? <;> rfl
  | register nm =>
    simp only [fold_idx_eq, ↓reduceIte]
    by_cases h : Interp.maskByAlias (s.qReg ++ c.qReg) nm = 0 <;> simp [h]

theorem int_get_c_idx_eq (s c : Interp R) (arg : Arg) :
    int_get_c_idx_with_context s c arg = Interp.getIdx s c false arg := by
  unfold int_get_c_idx_with_context Interp.getIdx int_get_idx_by_alias
  cases arg with
  | qubit nm idx =>
    simp only [fold_idx_eq, bitsList_eq, Bool.false_eq_true, ↓reduceIte]
    by_cases h : Interp.maskByAlias (s.cReg ++ c.cReg) nm = 0
    · simp [h]
    · simp only [bne_iff_ne, ne_eq, h, not_false_eq_true, ↓reduceIte]
      cases (bitsIterList (Interp.maskByAlias (s.cReg ++ c.cReg) nm))[idx]? <;> rfl
  | register nm =>
    simp only [fold_idx_eq, Bool.false_eq_true, ↓reduceIte]
    by_cases h : Interp.maskByAlias (s.cReg ++ c.cReg) nm = 0 <;> simp [h]

theorem int_append_int_eq [Add R] [Sub R] [Mul R] [Div R] [Neg R] [Zero R] [One R] [Consts R] (s i : Interp R) :
    int_append_int s i = Interp.appendInt s i := by
  have h := extop_append_eq s.qOps i.qOps
  unfold int_append_int Interp.appendInt Rs.mapExtend
  simp only []
  rw [← h.1]

theorem int_prepend_int_eq [Add R] [Sub R] [Mul R] [Div R] [Neg R] [Zero R] [One R] [Consts R] (s i : Interp R) :
    int_prepend_int s i = Interp.prependInt s i := by
  unfold int_prepend_int Interp.prependInt
  exact int_append_int_eq i s

section proc
variable [Add R] [Sub R] [Mul R] [Neg R] [Div R] [ExprFns R] [AngleFns R]

theorem int_process_qreg_eq (s c : Interp R) (a : String) (n : Nat) :
    exToRes (int_process_qreg s c a n) = Interp.processNode s c (.qreg a n) := by
  unfold int_process_qreg
  simp only [Interp.processNode]
  simp only [int_check_ident_eq, int_check_reg_size_eq, int_check_dup_eq]
  cases Interp.checkIdent a with
  | error e => rfl
  | ok _ =>
    cases Interp.checkRegSize a n with
    | error e => rfl
    | ok _ =>
      cases Interp.checkRegSize a (s.qReg.length + c.qReg.length + n) with
      | error e => rfl
      | ok _ =>
        cases Interp.checkDup s c a with
        | error e => rfl
        | ok _ => rfl

theorem int_process_creg_eq (s c : Interp R) (a : String) (n : Nat) :
    exToRes (int_process_creg s c a n) = Interp.processNode s c (.creg a n) := by
  unfold int_process_creg
  simp only [Interp.processNode]
  simp only [int_check_ident_eq, int_check_reg_size_eq, int_check_dup_eq]
  cases Interp.checkIdent a with
  | error e => rfl
  | ok _ =>
    cases Interp.checkRegSize a n with
    | error e => rfl
    | ok _ =>
      cases Interp.checkRegSize a (s.cReg.length + c.cReg.length + n) with
      | error e => rfl
      | ok _ =>
        cases Interp.checkDup s c a with
        | error e => rfl
        | ok _ => rfl

theorem int_process_barrier_eq (s c : Interp R) :
    exToRes (int_process_barrier s c) = Interp.processNode s c .barrier := rfl

theorem int_process_opaque_eq (s c : Interp R) :
    exToRes (int_process_opaque s c) = Interp.processNode s c .opaque := rfl

theorem int_process_reset_eq (s c : Interp R) (a : Arg) :
    exToRes (int_process_reset s c a) = Interp.processNode s c (.reset a) := by
  unfold int_process_reset
  simp only [Interp.processNode]
  rw [int_get_q_idx_eq]
  cases Interp.getIdx s c true a with
  | error e => rfl
  | ok idx => simp [exToRes, Except.bind, int_branch_with_id_eq]

theorem int_process_measure_eq (s c : Interp R) (q cl : Arg) :
    exToRes (int_process_measure s c q cl) = Interp.processNode s c (.measure q cl) := by
  unfold int_process_measure
  simp only [Interp.processNode]
  rw [int_get_q_idx_eq]
  cases Interp.getIdx s c true q with
  | error e => rfl
  | ok qa =>
    simp only [Except.bind, int_get_c_idx_eq]
    cases Interp.getIdx s c false cl with
    | error e => rfl
    | ok ca =>
      by_cases h : popcount qa = popcount ca
      · simp [h, exToRes, Except.bind, int_branch_with_id_eq]
      · simp [h, exToRes, Except.bind]

/-! ### statement dispatch and the session entry points (`process_node`, `process_nodes`, `ast_changes`,
`add_ast`, `Int::new`), with `Result` as `Except` (`Res.toE`) -/

theorem toE_exToRes {α : Type} (x : Except IntError α) : (exToRes x).toE = x := by
  cases x <;> rfl

theorem eq_toE_of_exToRes {α : Type} {x : Except IntError α} {m : Res α} (h : exToRes x = m) : x = m.toE := by
  rw [← h, toE_exToRes]

/-- `{ CALL?; Ok(()) }` with the `&mut` parameter returned is `CALL` -/
theorem bind_ok_self {α : Type} (x : Except IntError α) :
    Except.bind x (fun r => Except.bind (Except.ok () : Except IntError Unit) (fun _ => Except.ok r)) = x := by
  cases x <;> rfl

/-! the two merges of the session's and the chunk's gate definitions agree as long as no name is defined twice,
which `process_gate` guarantees (`MacrosDisjoint` is an invariant of `process_nodes`, see below) -/

/-- no gate of the session is defined again by the chunk being interpreted -/
def MacrosDisjoint (s c : Interp R) : Prop := ∀ p ∈ s.macros, c.macros.any (·.1 == p.1) = false

theorem mapExtend_disjoint {s c : Interp R} (h : MacrosDisjoint s c) :
    Rs.mapExtend s.macros c.macros = s.macros ++ c.macros := by
  unfold Rs.mapExtend
  congr 1
  apply List.filter_eq_self.2
  intro p hp
  simp [h p hp]

theorem mapGet_eq_lookupLast {α : Type} (m : List (String × α)) (k : String) : Rs.mapGet m k = lookupLast m k := rfl

theorem mapInsert_fresh {α : Type} (m : List (String × α)) (k : String) (v : α) (h : Rs.mapContains m k = false) :
    Rs.mapInsert m k v = m ++ [(k, v)] := by
  unfold Rs.mapInsert
  congr 1
  apply List.filter_eq_self.2
  intro p hp
  unfold Rs.mapContains at h
  rw [List.any_eq_false] at h
  simpa using h p hp

theorem regsOf_eq (s c : Interp R) (l : List Arg) (acc : List Nat) :
    Interp.processApply.regsOf s c l acc =
      (List.mapM (fun a => Interp.getIdx s c true a) l).map (fun r => acc.reverse ++ r) := by
  induction l generalizing acc with
  | nil => simp [Interp.processApply.regsOf, pure, Except.pure, Except.map]
  | cons a as ih =>
    rw [Interp.processApply.regsOf, List.mapM_cons]
    cases h : Interp.getIdx s c true a with
    | error e => simp [bind, Except.bind, Except.map]
    | ok m =>
      simp only [ih, bind, Except.bind]
      cases List.mapM (fun a => Interp.getIdx s c true a) as with
      | error e => simp [Except.map]
      | ok r => simp [Except.map, pure, Except.pure]

theorem argsOf_eq (l : List (PExpr R)) (acc : List R) :
    Interp.processApply.argsOf l acc = (List.mapM Interp.evalArg l).map (fun r => acc.reverse ++ r) := by
  induction l generalizing acc with
  | nil => simp [Interp.processApply.argsOf, pure, Except.pure, Except.map]
  | cons a as ih =>
    rw [Interp.processApply.argsOf, List.mapM_cons]
    cases h : evalExtended a [] with
    | error e =>
      have : Interp.evalArg a = .error (.unevaluatedArgument a.text e) := by simp [Interp.evalArg, h]
      simp [this, bind, Except.bind, Except.map]
    | ok v =>
      have : Interp.evalArg a = .ok v := by simp [Interp.evalArg, h]
      simp only [this, ih, bind, Except.bind]
      cases List.mapM Interp.evalArg as with
      | error e => simp [Except.map]
      | ok r => simp [Except.map, pure, Except.pure]

theorem int_process_apply_gate_eq [Zero R] [One R] [Consts R] (s c : Interp R) (hd : MacrosDisjoint s c)
    (name : String) (regs : List Arg) (args : List (PExpr R)) :
    int_process_apply_gate s c name regs args = (Interp.processApply s c ⟨name, regs, args⟩).toE := by
  unfold int_process_apply_gate Interp.processApply
  simp only [regsOf_eq, argsOf_eq, mapExtend_disjoint hd, mapGet_eq_lookupLast]
  have hf : (fun a1 => int_get_q_idx_with_context s c a1) = fun a => Interp.getIdx s c true a := by
    funext a; exact int_get_q_idx_eq s c a
  simp only [hf]
  cases List.mapM (fun a => Interp.getIdx s c true a) regs with
  | error e => simp [Except.map, Except.bind, Res.toE]
  | ok rs =>
    simp only [Except.map, Except.bind, List.reverse_nil, List.nil_append]
    cases List.mapM Interp.evalArg args with
    | error e => simp [Res.toE]
    | ok as =>
      simp only []
      cases hl : lookupLast (s.macros ++ c.macros) name with
      | some m =>
        simp only [Macro.processE]
        cases Macro.process (s.macros ++ c.macros) ((s.macros ++ c.macros).length + 2) m name rs as [name] with
        | ok o => simp [Res.toE, extop_push_eq]
        | err e => simp [Res.toE]
        | panic p => simp [Res.toE]
      | none =>
        simp only [Gates.processE]
        cases Gates.process name rs as with
        | ok o => simp [Res.toE, extop_push_eq]
        | err e => simp [Res.toE]
        | panic p => simp [Res.toE]

theorem int_process_gate_eq (s c : Interp R) (name : String) (regs args : List String) (body : List (Inner R)) :
    int_process_gate s c name regs args body = (Interp.processNode s c (.gate name regs args body)).toE := by
  unfold int_process_gate
  simp only [Interp.processNode]
  cases Macro.new regs args body with
  | error e => rfl
  | ok m =>
    simp only [Except.bind, Rs.mapContains]
    by_cases h1 : s.macros.any (·.1 == name) = true
    · simp [h1, Res.toE]
    · by_cases h2 : c.macros.any (·.1 == name) = true
      · simp [h1, h2, Res.toE]
      · simp only [h1, h2, Bool.not_false, Bool.and_self, if_true, Bool.false_eq_true, int_check_ident_eq]
        cases Interp.checkIdent name with
        | error e => rfl
        | ok _ =>
          have h2' : Rs.mapContains c.macros name = false := by
            unfold Rs.mapContains; exact Bool.eq_false_iff.2 h2
          have := mapInsert_fresh c.macros name m h2'
          simp [this, Res.toE]
          done

theorem int_process_node_apply_eq [Zero R] [One R] [Consts R] (s c : Interp R) (hd : MacrosDisjoint s c) (cl : Call R) :
    int_process_node_apply s c (.apply cl) = (Interp.processApply s c cl).toE := by
  unfold int_process_node_apply
  exact int_process_apply_gate_eq s c hd cl.name cl.regs cl.args

theorem int_process_if_eq [Zero R] [One R] [Consts R] (s c : Interp R) (hd : MacrosDisjoint s c)
    (lhs : String) (rhs : Nat) (body : Inner R) :
    int_process_if s c lhs rhs body = (Interp.processNode s c (.ifn lhs rhs body)).toE := by
  unfold int_process_if
  cases body with
  | other => rfl
  | call cl =>
    simp only [Interp.processNode, int_branch_eq, int_get_c_idx_eq]
    cases Interp.getIdx s { c with qOps := c.qOps.branch .nop } false (.register lhs) with
    | error e => rfl
    | ok val =>
      simp only [Except.bind]
      rw [int_process_node_apply_eq s _ (by exact hd)]
      generalize Interp.processApply s _ cl = r
      cases r with
      | ok ch' =>
        simp only [Res.toE]
        by_cases ht : (!List.isEmpty ch'.qOps.tail) = true <;> simp [ht]
      | err e => rfl
      | panic p => rfl

theorem int_process_node_eq [Zero R] [One R] [Consts R] (s c : Interp R) (hd : MacrosDisjoint s c) (node : Node R) :
    int_process_node s c node = (Interp.processNode s c node).toE := by
  unfold int_process_node
  cases node with
  | qreg a n => simp only [bind_ok_self]; exact eq_toE_of_exToRes (int_process_qreg_eq s c a n)
  | creg a n => simp only [bind_ok_self]; exact eq_toE_of_exToRes (int_process_creg_eq s c a n)
  | barrier => simp only [bind_ok_self]; exact eq_toE_of_exToRes (int_process_barrier_eq s c)
  | reset a => simp only [bind_ok_self]; exact eq_toE_of_exToRes (int_process_reset_eq s c a)
  | measure q cl => simp only [bind_ok_self]; exact eq_toE_of_exToRes (int_process_measure_eq s c q cl)
  | apply cl => simp only [bind_ok_self]; exact int_process_apply_gate_eq s c hd cl.name cl.regs cl.args
  | «opaque» => simp only [bind_ok_self]; exact eq_toE_of_exToRes (int_process_opaque_eq s c)
  | gate name regs args body => simp only [bind_ok_self]; exact int_process_gate_eq s c name regs args body
  | ifn lhs rhs body => simp only [bind_ok_self]; exact int_process_if_eq s c hd lhs rhs body

theorem bind_ok_eta {α : Type} (x : Except IntError α) :
    Except.bind x (fun r => (Except.ok r : Except IntError α)) = x := by
  cases x <;> rfl

theorem res_match_ok {α β : Type} (r : Res α) (f : α → β) (c' : β)
    (h : (match r with | .ok o => Res.ok (f o) | .err e => .err e | .panic s => .panic s) = .ok c') :
    ∃ o, f o = c' := by
  cases r with
  | ok o => exact ⟨o, by injection h⟩
  | err e => cases h
  | panic p => cases h

theorem processApply_macros (s c c' : Interp R) (cl : Call R) (h : Interp.processApply s c cl = .ok c') :
    c'.macros = c.macros := by
  unfold Interp.processApply at h
  split at h
  · cases h
  · split at h
    · cases h
    · rename_i _ rs _ _ as _
      simp only [] at h
      cases hl : lookupLast (s.macros ++ c.macros) cl.name with
      | some m =>
        simp only [hl] at h
        cases hm : Macro.process (s.macros ++ c.macros) ((s.macros ++ c.macros).length + 2) m cl.name rs as [cl.name] with
        | ok o => simp only [hm, Res.ok.injEq] at h; rw [← h]
        | err e => simp only [hm] at h; cases h
        | panic p => simp only [hm] at h; cases h
      | none =>
        simp only [hl] at h
        cases hm : Gates.process cl.name rs as with
        | ok o => simp only [hm, Res.ok.injEq] at h; rw [← h]
        | err e => simp only [hm] at h; cases h
        | panic p => simp only [hm] at h; cases h

/-- `process_node` keeps the chunk's definitions apart from the session's -/
theorem processNode_disjoint (s c c' : Interp R) (n : Node R) (hd : MacrosDisjoint s c)
    (h : Interp.processNode s c n = .ok c') : MacrosDisjoint s c' := by
  have same : c'.macros = c.macros → MacrosDisjoint s c' := fun e => by unfold MacrosDisjoint; rw [e]; exact hd
  cases n with
  | qreg a k => simp only [Interp.processNode] at h; split at h <;> simp at h; exact same (by rw [← h])
  | creg a k => simp only [Interp.processNode] at h; split at h <;> simp at h; exact same (by rw [← h])
  | barrier => simp only [Interp.processNode, Res.ok.injEq] at h; exact same (by rw [← h])
  | «opaque» => simp only [Interp.processNode, Res.ok.injEq] at h; exact same (by rw [← h])
  | reset a => simp only [Interp.processNode] at h; split at h <;> simp at h; exact same (by rw [← h])
  | measure q cl =>
    simp only [Interp.processNode] at h
    split at h
    · simp at h
    · split at h
      · simp at h
      · split at h <;> simp at h
        exact same (by rw [← h])
  | apply cl => exact same (processApply_macros s c c' cl h)
  | gate name regs args body =>
    simp only [Interp.processNode] at h
    split at h
    · simp at h
    · split at h
      · rename_i hfresh
        split at h
        · simp only [Res.ok.injEq] at h
          intro p hp
          rw [← h]
          simp only [List.any_append, List.any_cons, List.any_nil, Bool.or_false, Bool.or_eq_false_iff]
          refine ⟨hd p hp, ?_⟩
          have h1 : s.macros.any (fun q => q.1 == name) = false := by
            cases hh : s.macros.any (fun q => q.1 == name) with
            | false => rfl
            | true => rw [hh] at hfresh; simp at hfresh
          have h2 := (List.any_eq_false.1 h1) p hp
          have h3 : ¬ (p.1 = name) := by simpa using h2
          show (name == p.1) = false
          exact beq_false_of_ne (fun e => h3 e.symm)
        · simp at h
      · simp at h
  | ifn lhs rhs body =>
    simp only [Interp.processNode] at h
    split at h
    · split at h
      · simp at h
      · split at h
        · rename_i ch' hpa
          simp only [Res.ok.injEq] at h
          have := processApply_macros s _ ch' _ hpa
          exact same (by rw [← h]; exact this)
        · simp at h
        · simp at h
    · simp at h

theorem foldlM_process [Zero R] [One R] [Consts R] (s : Interp R) (nodes : List (Node R)) (c : Interp R)
    (hd : MacrosDisjoint s c) :
    List.foldlM (fun ch n => int_process_node s ch n) c nodes = (Interp.processNodes s c nodes).toE := by
  induction nodes generalizing c with
  | nil => rfl
  | cons n ns ih =>
    rw [List.foldlM_cons, int_process_node_eq s c hd]
    simp only [Interp.processNodes]
    cases h : Interp.processNode s c n with
    | ok ch => exact ih ch (processNode_disjoint s c ch n hd h)
    | err e => rfl
    | panic p => rfl

theorem int_process_nodes_eq [Zero R] [One R] [Consts R] (s c : Interp R) (hd : MacrosDisjoint s c) (nodes : List (Node R)) :
    int_process_nodes s c nodes = (Interp.processNodes s c nodes).toE := by
  unfold int_process_nodes
  simp only [bind_ok_self, bind_ok_eta]
  exact foldlM_process s nodes c hd

theorem int_ast_changes_eq [Zero R] [One R] [Consts R] (s c : Interp R) (hd : MacrosDisjoint s c) (ast : List (Node R)) :
    int_ast_changes s c ast = (Interp.astChanges s c ast).toE := by
  unfold int_ast_changes Interp.astChanges
  simp only [int_process_nodes_eq s c hd]
  cases Interp.processNodes s c ast <;> rfl

theorem macrosDisjoint_empty (s : Interp R) : MacrosDisjoint s {} := by
  intro p _; rfl

/-- `add_ast`: the translated function is the model's, for every session and chunk (the chunk's delta starts empty) -/
theorem int_add_ast_eq [Zero R] [One R] [Consts R] (s : Interp R) (ast : List (Node R)) :
    int_add_ast s ast = (Interp.addAst s ast).toE := by
  unfold int_add_ast Interp.addAst
  simp only [int_ast_changes_eq s {} (macrosDisjoint_empty s)]
  cases Interp.astChanges s {} ast with
  | ok ch => simp [Res.toE, Except.bind, int_append_int_eq]
  | err e => rfl
  | panic p => rfl

theorem int_new_eq [Zero R] [One R] [Consts R] (ast : List (Node R)) :
    int_new ast = (Interp.new ast : Res (Interp R)).toE := by
  unfold int_new Interp.new
  simp only [int_add_ast_eq]
  cases Interp.addAst ({} : Interp R) ast <;> rfl

end proc

end Qvnt.Gen2
