/-
The functions of `src/qasm/int/mod.rs` translated by `tools/rs2lean2.py` on every run (declarations with
their checks, resolution of qubit / classical arguments, the measure / reset / barrier statements, the queue
separators) are equal to the hand-written MODEL (`Qvnt.Interp`, `Model/Interp.lean`) the theorems of
C10 / C11 / C13 / C17 / C18 are about. The translated functions work on the model's own record `Interp R`.
-/
import Qvnt.Lemmas.GenInt.exToRes
import Qvnt.Lemmas.GenInt.int_check_ident_eq
import Qvnt.Lemmas.GenInt.int_check_reg_size_eq
import Qvnt.Lemmas.GenInt.int_check_dup_eq
import Qvnt.Lemmas.GenInt.int_branch_eq
import Qvnt.Lemmas.GenInt.int_branch_with_id_eq
import Qvnt.Lemmas.GenInt.int_xor_eq
import Qvnt.Lemmas.GenInt.fold_idx_eq
import Qvnt.Lemmas.GenInt.int_get_q_idx_eq
import Qvnt.Lemmas.GenInt.int_get_c_idx_eq
import Qvnt.Lemmas.GenInt.int_append_int_eq
import Qvnt.Lemmas.GenInt.int_prepend_int_eq
import Qvnt.Lemmas.GenInt.int_process_qreg_eq
import Qvnt.Lemmas.GenInt.int_process_creg_eq
import Qvnt.Lemmas.GenInt.int_process_barrier_eq
import Qvnt.Lemmas.GenInt.int_process_opaque_eq
import Qvnt.Lemmas.GenInt.int_process_reset_eq
import Qvnt.Lemmas.GenInt.int_process_measure_eq
import Qvnt.Lemmas.GenInt.toE_exToRes
import Qvnt.Lemmas.GenInt.eq_toE_of_exToRes
import Qvnt.Lemmas.GenInt.bind_ok_self
import Qvnt.Lemmas.GenInt.MacrosDisjoint
import Qvnt.Lemmas.GenInt.MacrosInv
import Qvnt.Lemmas.GenInt.mapExtend_disjoint
import Qvnt.Lemmas.GenInt.mapGet_eq_lookupLast
import Qvnt.Lemmas.GenInt.mapInsert_fresh
import Qvnt.Lemmas.GenInt.regsOf_eq
import Qvnt.Lemmas.GenInt.argsOf_eq
import Qvnt.Lemmas.GenInt.int_process_apply_gate_eq
import Qvnt.Lemmas.GenInt.int_process_gate_eq
import Qvnt.Lemmas.GenInt.int_process_node_apply_eq
import Qvnt.Lemmas.GenInt.int_process_if_eq
import Qvnt.Lemmas.GenInt.int_process_node_eq
import Qvnt.Lemmas.GenInt.bind_ok_eta
import Qvnt.Lemmas.GenInt.res_match_ok
import Qvnt.Lemmas.GenInt.processApply_macros
import Qvnt.Lemmas.GenInt.processNode_inv
import Qvnt.Lemmas.GenInt.foldlM_process
import Qvnt.Lemmas.GenInt.int_process_nodes_eq
import Qvnt.Lemmas.GenInt.int_ast_changes_eq
import Qvnt.Lemmas.GenInt.macrosDisjoint_empty
import Qvnt.Lemmas.GenInt.int_add_ast_eq
import Qvnt.Lemmas.GenInt.int_new_eq
