/- `getD_of_lt` of GenMatrix.lean (one module per declaration, tools/lean_split.py) -/
import Qvnt.Generated.Regs
import Qvnt.Generated.Kernels
import Qvnt.Lemmas.Bits
import Mathlib.Tactic.Ring
import Mathlib.Algebra.Ring.Basic
import Qvnt.Lemmas.Queue

set_option linter.unusedSectionVars false
namespace Qvnt.Gen2
open Qvnt Qvnt.Gen
section transpose
variable {α : Type}

theorem getD_of_lt (l : List α) (i : Nat) (d : α) (h : i < l.length) : l.getD i d = l[i] := by
  simp [List.getD_eq_getElem?_getD, h]

end transpose
end Qvnt.Gen2
