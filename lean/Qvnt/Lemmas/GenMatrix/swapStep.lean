/- `swapStep` of GenMatrix.lean (one module per declaration, tools/lean_split.py) -/
import Qvnt.Generated.Regs
import Qvnt.Generated.Kernels
import Qvnt.Lemmas.Bits
import Mathlib.Tactic.Ring
import Mathlib.Algebra.Ring.Basic
import Qvnt.Lemmas.Queue
import Qvnt.Lemmas.GenMatrix.ent
import Qvnt.Lemmas.GenMatrix.setEnt

set_option linter.unusedSectionVars false
namespace Qvnt.Gen2
open Qvnt Qvnt.Gen
section transpose
variable {α : Type}

/-- one exchange of the entries `(idx, jdx)` and `(jdx, idx)`, as the translated loop body does it -/
def swapStep (d : α) (m : List (List α)) (idx jdx : Nat) : List (List α) :=
  let tmp := ent d m idx jdx
  let m1 := setEnt m idx jdx (ent d m jdx idx)
  setEnt m1 jdx idx tmp

end transpose
end Qvnt.Gen2
