/- `bufFn_applyArr_fn` of GenMatrix.lean (one module per declaration, tools/lean_split.py) -/
import Qvnt.Generated.Regs
import Qvnt.Generated.Kernels
import Qvnt.Lemmas.Bits
import Mathlib.Tactic.Ring
import Mathlib.Algebra.Ring.Basic
import Qvnt.Lemmas.Queue

set_option linter.unusedSectionVars false
namespace Qvnt.Gen2
open Qvnt Qvnt.Gen
section matrix
variable {R : Type} [CommRing R] [Consts R] [Div R] [LE R] [DecidableLE R] [LT R] [DecidableLT R] [HasSqrt R] [RegConsts R]

/-- buffer sweep = functional sweep, as long as every element of the queue leaves the amplitudes beyond the buffer's
`N` entries at zero (it does when it acts on qubits the buffer has) -/
theorem bufFn_applyArr_fn (N : Nat) (o : MultiOp R) (a : Array (Cx R)) (hsz : a.size = N)
    (hloc : ∀ g ∈ o, ∀ ψ : State R, (∀ i, N ≤ i → ψ i = 0) → ∀ i, N ≤ i → g.apply ψ i = 0) :
    bufFn (o.applyArr a) = o.apply (bufFn a) := by
  have hz0 : ∀ (b : Array (Cx R)), b.size = N → ∀ i, N ≤ i → bufFn b i = 0 := by
    intro b hb i hi
    simp [bufFn, Array.getD_eq_getD_getElem?, Array.getElem?_eq_none (by omega : b.size ≤ i)]
  induction o generalizing a with
  | nil => rfl
  | cons g o ih =>
    have hg : bufFn (g.applyArr a) = g.apply (bufFn a) := by
      funext i
      by_cases hi : i < a.size
      · exact SingleOp.bufFn_applyArr g a i hi
      · rw [SingleOp.bufFn_applyArr_of_le g a i (Nat.le_of_not_lt hi)]
        exact (hloc g (List.mem_cons_self ..) _ (hz0 a hsz) i (by omega)).symm
    rw [MultiOp.applyArr_cons, MultiOp.apply_cons,
      ih (g.applyArr a) (by rw [SingleOp.applyArr_size]; exact hsz)
        (fun g' hg' => hloc g' (List.mem_cons_of_mem _ hg')), hg]

end matrix
end Qvnt.Gen2
