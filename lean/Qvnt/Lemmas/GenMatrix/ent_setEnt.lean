/- `ent_setEnt` of GenMatrix.lean (one module per declaration, tools/lean_split.py) -/
import Qvnt.Generated.Regs
import Qvnt.Generated.Kernels
import Qvnt.Lemmas.Bits
import Mathlib.Tactic.Ring
import Mathlib.Algebra.Ring.Basic
import Qvnt.Lemmas.Queue
import Qvnt.Lemmas.GenMatrix.ent
import Qvnt.Lemmas.GenMatrix.Square
import Qvnt.Lemmas.GenMatrix.getD_set_self_p
import Qvnt.Lemmas.GenMatrix.getD_set_ne_p
import Qvnt.Lemmas.GenMatrix.Square_row
import Qvnt.Lemmas.GenMatrix.setEnt

set_option linter.unusedSectionVars false
namespace Qvnt.Gen2
open Qvnt Qvnt.Gen
section transpose
variable {α : Type}

theorem ent_setEnt (d : α) {N : Nat} {m : List (List α)} (h : Square N m) (i j : Nat) (v : α)
    (hi : i < N) (hj : j < N) (a b : Nat) :
    ent d (setEnt m i j v) a b = if a = i ∧ b = j then v else ent d m a b := by
  have hi' : i < m.length := by rw [h.1]; exact hi
  have hrow := h.row i hi
  unfold ent setEnt
  by_cases ha : a = i
  · subst ha
    rw [getD_set_self' _ _ _ _ hi']
    by_cases hb : b = j
    · subst hb
      rw [getD_set_self' _ _ _ _ (by rw [hrow]; exact hj)]; simp
    · rw [getD_set_ne' _ _ _ _ _ (Ne.symm hb)]; simp [hb]
  · rw [getD_set_ne' _ _ _ _ _ (Ne.symm ha)]; simp [ha]

end transpose
end Qvnt.Gen2
