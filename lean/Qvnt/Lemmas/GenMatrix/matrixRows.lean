/- `matrixRows` of GenMatrix.lean (one module per declaration, tools/lean_split.py) -/
import Qvnt.Generated.Regs
import Qvnt.Generated.Kernels
import Qvnt.Lemmas.Bits
import Mathlib.Tactic.Ring
import Mathlib.Algebra.Ring.Basic
import Qvnt.Lemmas.Queue
import Qvnt.Lemmas.GenMatrix.basisArr

set_option linter.unusedSectionVars false
namespace Qvnt.Gen2
open Qvnt Qvnt.Gen
section matrix
variable {R : Type} [CommRing R] [Consts R] [Div R] [LE R] [DecidableLE R] [LT R] [DecidableLT R] [HasSqrt R] [RegConsts R]

/-- the rows the first loop builds: row `idx` is the image of basis vector `idx` -/
def matrixRows (o : MultiOp R) (N : Nat) : List (List (Cx R)) :=
  (List.range' 0 N).map (fun idx => (MultiOp.applyArr o (basisArr N idx)).toList)

end matrix
end Qvnt.Gen2
