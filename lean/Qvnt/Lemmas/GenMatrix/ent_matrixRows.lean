/- `ent_matrixRows` of GenMatrix.lean (one module per declaration, tools/lean_split.py) -/
import Qvnt.Generated.Regs
import Qvnt.Generated.Kernels
import Qvnt.Lemmas.Bits
import Mathlib.Tactic.Ring
import Mathlib.Algebra.Ring.Basic
import Qvnt.Lemmas.Queue
import Qvnt.Lemmas.GenMatrix.ent
import Qvnt.Lemmas.GenMatrix.getD_of_lt
import Qvnt.Lemmas.GenMatrix.basisArr
import Qvnt.Lemmas.GenMatrix.matrixArr
import Qvnt.Lemmas.GenMatrix.matrixRows

set_option linter.unusedSectionVars false
namespace Qvnt.Gen2
open Qvnt Qvnt.Gen
section matrix
variable {R : Type} [CommRing R] [Consts R] [Div R] [LE R] [DecidableLE R] [LT R] [DecidableLT R] [HasSqrt R] [RegConsts R]

theorem ent_matrixRows (o : MultiOp R) (N a b : Nat) (ha : a < N) :
    ent (0 : Cx R) (matrixRows o N) a b = matrixArr o N b a := by
  unfold ent matrixRows matrixArr bufFn
  have hlen : a < ((List.range' 0 N).map (fun idx => (MultiOp.applyArr o (basisArr N idx)).toList)).length := by
    simp; exact ha
  rw [getD_of_lt _ _ _ hlen]
  simp only [List.getElem_map, List.getElem_range', Nat.zero_add, Nat.one_mul]
  simp [List.getD_eq_getElem?_getD, Array.getD_eq_getD_getElem?]

end matrix
end Qvnt.Gen2
