/- `matrixRows_square` of GenMatrix.lean (one module per declaration, tools/lean_split.py) -/
import Qvnt.Generated.Regs
import Qvnt.Generated.Kernels
import Qvnt.Lemmas.Bits
import Mathlib.Tactic.Ring
import Mathlib.Algebra.Ring.Basic
import Qvnt.Lemmas.Queue
import Qvnt.Lemmas.GenMatrix.Square
import Qvnt.Lemmas.GenMatrix.basisArr
import Qvnt.Lemmas.GenMatrix.matrixRows

set_option linter.unusedSectionVars false
namespace Qvnt.Gen2
open Qvnt Qvnt.Gen
section matrix
variable {R : Type} [CommRing R] [Consts R] [Div R] [LE R] [DecidableLE R] [LT R] [DecidableLT R] [HasSqrt R] [RegConsts R]

theorem matrixRows_square (o : MultiOp R) (N : Nat) : Square N (matrixRows o N) := by
  refine ⟨by simp [matrixRows], ?_⟩
  intro r hr
  simp only [matrixRows, List.mem_map] at hr
  obtain ⟨idx, _, rfl⟩ := hr
  simp [MultiOp.applyArr_size, basisArr]

end matrix
end Qvnt.Gen2
