/- `bufFn_basisArr` of GenMatrix.lean (one module per declaration, tools/lean_split.py) -/
import Qvnt.Generated.Regs
import Qvnt.Generated.Kernels
import Qvnt.Lemmas.Bits
import Mathlib.Tactic.Ring
import Mathlib.Algebra.Ring.Basic
import Qvnt.Lemmas.Queue
import Qvnt.Lemmas.GenMatrix.basisArr

set_option linter.unusedSectionVars false
namespace Qvnt.Gen2
open Qvnt Qvnt.Gen
section matrix
variable {R : Type} [CommRing R] [Consts R] [Div R] [LE R] [DecidableLE R] [LT R] [DecidableLT R] [HasSqrt R] [RegConsts R]

theorem bufFn_basisArr (N j : Nat) (hj : j < N) :
    bufFn (basisArr (R := R) N j) = fun k => if k = j then 1 else 0 := by
  funext k
  unfold bufFn basisArr
  by_cases hk : k = j
  · subst hk; simp [Array.getD_eq_getD_getElem?, Array.getElem?_setIfInBounds_self_of_lt, hj]
  · by_cases hkN : k < N
    · simp [Array.getD_eq_getD_getElem?, hk, hkN, Array.getElem_setIfInBounds, Ne.symm hk]
    · simp [Array.getD_eq_getD_getElem?, hk, Array.getElem?_eq_none (by simp; omega : ((Array.replicate N (0 : Cx R)).setIfInBounds j 1).size ≤ k)]

end matrix
end Qvnt.Gen2
