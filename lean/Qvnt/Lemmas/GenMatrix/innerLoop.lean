/- `innerLoop` of GenMatrix.lean (one module per declaration, tools/lean_split.py) -/
import Qvnt.Generated.Regs
import Qvnt.Generated.Kernels
import Qvnt.Lemmas.Bits
import Mathlib.Tactic.Ring
import Mathlib.Algebra.Ring.Basic
import Qvnt.Lemmas.Queue
import Qvnt.Lemmas.GenMatrix.swapStep

set_option linter.unusedSectionVars false
namespace Qvnt.Gen2
open Qvnt Qvnt.Gen
section transpose
variable {α : Type}

/-- the inner loop: row `idx` against the columns `0 .. k-1` -/
def innerLoop (d : α) (m : List (List α)) (idx k : Nat) : List (List α) :=
  (List.range' 0 k).foldl (fun m jdx => swapStep d m idx jdx) m

end transpose
end Qvnt.Gen2
