/- `ent` of GenMatrix.lean (one module per declaration, tools/lean_split.py) -/
import Qvnt.Generated.Regs
import Qvnt.Generated.Kernels
import Qvnt.Lemmas.Bits
import Mathlib.Tactic.Ring
import Mathlib.Algebra.Ring.Basic
import Qvnt.Lemmas.Queue

set_option linter.unusedSectionVars false
namespace Qvnt.Gen2
open Qvnt Qvnt.Gen
section transpose
variable {α : Type}

/-- entry `(a, b)`, with the defaults the translated indexing uses -/
def ent (d : α) (m : List (List α)) (a b : Nat) : α := (m.getD a []).getD b d

end transpose
end Qvnt.Gen2
