/- `square_ext` of GenMatrix.lean (one module per declaration, tools/lean_split.py) -/
import Qvnt.Generated.Regs
import Qvnt.Generated.Kernels
import Qvnt.Lemmas.Bits
import Mathlib.Tactic.Ring
import Mathlib.Algebra.Ring.Basic
import Qvnt.Lemmas.Queue
import Qvnt.Lemmas.GenMatrix.ent
import Qvnt.Lemmas.GenMatrix.Square
import Qvnt.Lemmas.GenMatrix.getD_of_lt

set_option linter.unusedSectionVars false
namespace Qvnt.Gen2
open Qvnt Qvnt.Gen
section transpose
variable {α : Type}

/-- a square list of lists is determined by its entries -/
theorem square_ext (d : α) {N : Nat} {m m' : List (List α)} (h : Square N m) (h' : Square N m')
    (he : ∀ a b, a < N → b < N → ent d m a b = ent d m' a b) : m = m' := by
  apply List.ext_getElem (by rw [h.1, h'.1])
  intro a ha ha'
  have haN : a < N := by rw [← h.1]; exact ha
  have hr := h.2 _ (List.getElem_mem ha)
  have hr' := h'.2 _ (List.getElem_mem ha')
  apply List.ext_getElem (by rw [hr, hr'])
  intro b hb hb'
  have hbN : b < N := by rw [← hr]; exact hb
  have := he a b haN hbN
  unfold ent at this
  rw [getD_of_lt _ _ _ ha, getD_of_lt _ _ _ ha', getD_of_lt _ _ _ hb, getD_of_lt _ _ _ hb'] at this
  exact this

end transpose
end Qvnt.Gen2
