/- `getD_set_ne'` of GenMatrix.lean (one module per declaration, tools/lean_split.py) -/
import Qvnt.Generated.Regs
import Qvnt.Generated.Kernels
import Qvnt.Lemmas.Bits
import Mathlib.Tactic.Ring
import Mathlib.Algebra.Ring.Basic
import Qvnt.Lemmas.Queue

set_option linter.unusedSectionVars false
namespace Qvnt.Gen2
open Qvnt Qvnt.Gen
section transpose
variable {α : Type}

theorem getD_set_ne' (l : List α) (i j : Nat) (d v : α) (h : i ≠ j) : (l.set i v).getD j d = l.getD j d := by
  simp [List.getD_eq_getElem?_getD, List.getElem?_set_ne h]

end transpose
end Qvnt.Gen2
