/- `swapStep_square` of GenMatrix.lean (one module per declaration, tools/lean_split.py) -/
import Qvnt.Generated.Regs
import Qvnt.Generated.Kernels
import Qvnt.Lemmas.Bits
import Mathlib.Tactic.Ring
import Mathlib.Algebra.Ring.Basic
import Qvnt.Lemmas.Queue
import Qvnt.Lemmas.GenMatrix.Square
import Qvnt.Lemmas.GenMatrix.setEnt_square
import Qvnt.Lemmas.GenMatrix.swapStep

set_option linter.unusedSectionVars false
namespace Qvnt.Gen2
open Qvnt Qvnt.Gen
section transpose
variable {α : Type}

theorem swapStep_square (d : α) {N : Nat} {m : List (List α)} (h : Square N m) (idx jdx : Nat) :
    Square N (swapStep d m idx jdx) := setEnt_square (setEnt_square h _ _ _) _ _ _

end transpose
end Qvnt.Gen2
