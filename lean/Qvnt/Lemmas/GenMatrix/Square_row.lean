/- `Square.row` of GenMatrix.lean (one module per declaration, tools/lean_split.py) -/
import Qvnt.Generated.Regs
import Qvnt.Generated.Kernels
import Qvnt.Lemmas.Bits
import Mathlib.Tactic.Ring
import Mathlib.Algebra.Ring.Basic
import Qvnt.Lemmas.Queue
import Qvnt.Lemmas.GenMatrix.Square
import Qvnt.Lemmas.GenMatrix.getD_of_lt

set_option linter.unusedSectionVars false
namespace Qvnt.Gen2
open Qvnt Qvnt.Gen
section transpose
variable {α : Type}

theorem Square.row {N : Nat} {m : List (List α)} (h : Square N m) (i : Nat) (hi : i < N) :
    (m.getD i []).length = N := by
  have hi' : i < m.length := by rw [h.1]; exact hi
  rw [getD_of_lt _ _ _ hi']
  exact h.2 _ (List.getElem_mem hi')

end transpose
end Qvnt.Gen2
