/- `Square` of GenMatrix.lean (one module per declaration, tools/lean_split.py) -/
import Qvnt.Generated.Regs
import Qvnt.Generated.Kernels
import Qvnt.Lemmas.Bits
import Mathlib.Tactic.Ring
import Mathlib.Algebra.Ring.Basic
import Qvnt.Lemmas.Queue

set_option linter.unusedSectionVars false
namespace Qvnt.Gen2
open Qvnt Qvnt.Gen
section transpose
variable {α : Type}

def Square (N : Nat) (m : List (List α)) : Prop := m.length = N ∧ ∀ r ∈ m, r.length = N

end transpose
end Qvnt.Gen2
