/- `outerLoop_spec` of GenMatrix.lean (one module per declaration, tools/lean_split.py) -/
import Qvnt.Generated.Regs
import Qvnt.Generated.Kernels
import Qvnt.Lemmas.Bits
import Mathlib.Tactic.Ring
import Mathlib.Algebra.Ring.Basic
import Qvnt.Lemmas.Queue
import Qvnt.Lemmas.GenMatrix.ent
import Qvnt.Lemmas.GenMatrix.Square
import Qvnt.Lemmas.GenMatrix.innerLoop
import Qvnt.Lemmas.GenMatrix.innerLoop_spec
import Qvnt.Lemmas.GenMatrix.outerLoop

set_option linter.unusedSectionVars false
namespace Qvnt.Gen2
open Qvnt Qvnt.Gen
section transpose
variable {α : Type}

theorem outerLoop_spec (d : α) {N : Nat} {m : List (List α)} (h : Square N m) :
    ∀ K, K ≤ N → Square N (outerLoop d m K) ∧ ∀ a b,
      ent d (outerLoop d m K) a b = if a < K ∧ b < K then ent d m b a else ent d m a b := by
  intro K
  induction K with
  | zero => intro _; exact ⟨h, fun a b => by simp [outerLoop]⟩
  | succ K ih =>
    intro hK
    obtain ⟨hsq, hent⟩ := ih (by omega)
    have hstep : outerLoop d m (K + 1) = innerLoop d (outerLoop d m K) K K := by
      unfold outerLoop
      rw [List.range'_1_concat, List.foldl_append]; simp
    rw [hstep]
    obtain ⟨hsq', hent'⟩ := innerLoop_spec d hsq K (by omega) K (Nat.le_refl K)
    refine ⟨hsq', ?_⟩
    intro a b
    rw [hent', hent, hent]
    by_cases hc : (a = K ∧ b < K) ∨ (b = K ∧ a < K)
    · have e1 : ¬ (b < K ∧ a < K) := by omega
      have e2 : a < K + 1 ∧ b < K + 1 := by omega
      rw [if_pos hc, if_neg e1, if_pos e2]
    · rw [if_neg hc]
      by_cases hab : a < K ∧ b < K
      · have : a < K + 1 ∧ b < K + 1 := by omega
        rw [if_pos hab, if_pos this]
      · rw [if_neg hab]
        by_cases hd : a < K + 1 ∧ b < K + 1
        · -- then a = b = K: the diagonal entry, untouched
          have hk : a = K ∧ b = K := by omega
          rw [if_pos hd, hk.1, hk.2]
        · rw [if_neg hd]

end transpose
end Qvnt.Gen2
