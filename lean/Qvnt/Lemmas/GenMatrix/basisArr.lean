/- `basisArr` of GenMatrix.lean (one module per declaration, tools/lean_split.py) -/
import Qvnt.Generated.Regs
import Qvnt.Generated.Kernels
import Qvnt.Lemmas.Bits
import Mathlib.Tactic.Ring
import Mathlib.Algebra.Ring.Basic
import Qvnt.Lemmas.Queue

set_option linter.unusedSectionVars false
namespace Qvnt.Gen2
open Qvnt Qvnt.Gen
section matrix
variable {R : Type} [CommRing R] [Consts R] [Div R] [LE R] [DecidableLE R] [LT R] [DecidableLT R] [HasSqrt R] [RegConsts R]

/-- basis vector `j` in a buffer of `N` amplitudes -/
def basisArr (N j : Nat) : Array (Cx R) := (Array.replicate N (0 : Cx R)).setIfInBounds j 1

end matrix
end Qvnt.Gen2
