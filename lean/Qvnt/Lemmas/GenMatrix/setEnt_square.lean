/- `setEnt_square` of GenMatrix.lean (one module per declaration, tools/lean_split.py) -/
import Qvnt.Generated.Regs
import Qvnt.Generated.Kernels
import Qvnt.Lemmas.Bits
import Mathlib.Tactic.Ring
import Mathlib.Algebra.Ring.Basic
import Qvnt.Lemmas.Queue
import Qvnt.Lemmas.GenMatrix.Square
import Qvnt.Lemmas.GenMatrix.Square_row
import Qvnt.Lemmas.GenMatrix.setEnt

set_option linter.unusedSectionVars false
namespace Qvnt.Gen2
open Qvnt Qvnt.Gen
section transpose
variable {α : Type}

theorem setEnt_square {N : Nat} {m : List (List α)} (h : Square N m) (i j : Nat) (v : α) :
    Square N (setEnt m i j v) := by
  refine ⟨by simp [setEnt, h.1], ?_⟩
  intro r hr
  unfold setEnt at hr
  by_cases hi : i < N
  · rcases List.mem_or_eq_of_mem_set hr with hr | hr
    · exact h.2 r hr
    · rw [hr, List.length_set]; exact h.row i hi
  · have : m.length ≤ i := by rw [h.1]; omega
    rw [List.set_eq_of_length_le this] at hr
    exact h.2 r hr

end transpose
end Qvnt.Gen2
