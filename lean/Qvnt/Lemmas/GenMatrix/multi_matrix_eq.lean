/- `multi_matrix_eq` of GenMatrix.lean (one module per declaration, tools/lean_split.py) -/
import Qvnt.Generated.Regs
import Qvnt.Generated.Kernels
import Qvnt.Lemmas.Bits
import Mathlib.Tactic.Ring
import Mathlib.Algebra.Ring.Basic
import Qvnt.Lemmas.Queue
import Qvnt.Lemmas.GenPre.shl_one
import Qvnt.Lemmas.GenOps.multi_apply_eq
import Qvnt.Lemmas.GenMatrix.ent
import Qvnt.Lemmas.GenMatrix.outerLoop
import Qvnt.Lemmas.GenMatrix.outerLoop_spec
import Qvnt.Lemmas.GenMatrix.square_ext
import Qvnt.Lemmas.GenMatrix.basisArr
import Qvnt.Lemmas.GenMatrix.matrixArr
import Qvnt.Lemmas.GenMatrix.matrixRows
import Qvnt.Lemmas.GenMatrix.matrixRows_square
import Qvnt.Lemmas.GenMatrix.ent_matrixRows

set_option linter.unusedSectionVars false
namespace Qvnt.Gen2
open Qvnt Qvnt.Gen
section matrix
variable {R : Type} [CommRing R] [Consts R] [Div R] [LE R] [DecidableLE R] [LT R] [DecidableLT R] [HasSqrt R] [RegConsts R]

/-- **`Applicable::matrix` of a queue**: for `size < 64` and control masks that are machine words, the translated
function returns the `2^size × 2^size` table whose entry `(i, j)` is amplitude `i` of the image of basis vector `j`
under the model's buffer sweep. -/
theorem multi_matrix_eq (o : MultiOp R) (hc : ∀ g ∈ o, g.ctrl < 2 ^ 64) (size : Nat) (hs : size < 64) :
    multi_matrix o size =
      List.ofFn (n := 2 ^ size) (fun i => List.ofFn (n := 2 ^ size) (fun j => matrixArr o (2 ^ size) i.val j.val)) := by
  have hN : shlW 64 1 size = 2 ^ size := shl_one size hs
  unfold multi_matrix
  simp only [hN, Rs.range, Nat.sub_zero]
  -- first loop: the rows
  have hrows : List.foldl (fun (st1 : List (List (Cx R))) (a2 : Nat) =>
        st1 ++ [multi_apply o (List.set (Rs.resize [] (2 ^ size) ({ re := 0, im := 0 } : Cx R)) a2 ({ re := 1, im := 0 } : Cx R))
          (Rs.resize ([] : List (Cx R)) (List.set (Rs.resize [] (2 ^ size) ({ re := 0, im := 0 } : Cx R)) a2 ({ re := 1, im := 0 } : Cx R)).length (0 : Cx R))])
        [] (List.range' 0 (2 ^ size)) = matrixRows o (2 ^ size) := by
    have key : ∀ (l : List Nat) (acc : List (List (Cx R))),
        List.foldl (fun (st1 : List (List (Cx R))) (a2 : Nat) =>
          st1 ++ [multi_apply o (List.set (Rs.resize [] (2 ^ size) ({ re := 0, im := 0 } : Cx R)) a2 ({ re := 1, im := 0 } : Cx R))
            (Rs.resize ([] : List (Cx R)) (List.set (Rs.resize [] (2 ^ size) ({ re := 0, im := 0 } : Cx R)) a2 ({ re := 1, im := 0 } : Cx R)).length (0 : Cx R))])
          acc l = acc ++ l.map (fun idx => (MultiOp.applyArr o (basisArr (2 ^ size) idx)).toList) := by
      intro l
      induction l with
      | nil => intro acc; simp
      | cons x xs ih =>
        intro acc
        rw [List.foldl_cons, ih]
        have hb : List.set (Rs.resize [] (2 ^ size) ({ re := 0, im := 0 } : Cx R)) x ({ re := 1, im := 0 } : Cx R) =
            (basisArr (R := R) (2 ^ size) x).toList := by
          simp [basisArr, Rs.resize, Array.toList_setIfInBounds]
          rfl
        rw [hb, multi_apply_eq o hc (basisArr (2 ^ size) x) _ (by simp [Rs.resize, basisArr])]
        simp
    rw [key]; simp [matrixRows]
  -- second loop: the transposition
  have hloop : ∀ (m : List (List (Cx R))),
      List.foldl (fun (st5 : List (List (Cx R))) (a6 : Nat) =>
        List.foldl (fun (st7 : List (List (Cx R))) (a8 : Nat) =>
          List.set (List.set st7 a6 (List.set (st7.getD a6 ([] : List (Cx R))) a8 ((st7.getD a8 ([] : List (Cx R))).getD a6 (0 : Cx R))))
            a8 (List.set ((List.set st7 a6 (List.set (st7.getD a6 ([] : List (Cx R))) a8 ((st7.getD a8 ([] : List (Cx R))).getD a6 (0 : Cx R)))).getD a8 ([] : List (Cx R))) a6
              ((st7.getD a6 ([] : List (Cx R))).getD a8 (0 : Cx R))))
          st5 (List.range' 0 a6)) m (List.range' 0 (2 ^ size)) = outerLoop (0 : Cx R) m (2 ^ size) := by
    intro m; rfl
  rw [hrows, hloop]
  obtain ⟨hsq, hent⟩ := outerLoop_spec (0 : Cx R) (matrixRows_square o (2 ^ size)) (2 ^ size) (Nat.le_refl _)
  apply square_ext (0 : Cx R) hsq
  · refine ⟨by simp, ?_⟩
    intro r hr
    simp only [List.mem_ofFn] at hr
    obtain ⟨i, rfl⟩ := hr
    simp
  · intro a b ha hb
    rw [hent, if_pos ⟨ha, hb⟩, ent_matrixRows o _ b a hb]
    unfold ent
    simp [List.getD_eq_getElem?_getD, ha, hb]

end matrix
end Qvnt.Gen2
