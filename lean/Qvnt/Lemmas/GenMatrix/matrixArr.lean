/- `matrixArr` of GenMatrix.lean (one module per declaration, tools/lean_split.py) -/
import Qvnt.Generated.Regs
import Qvnt.Generated.Kernels
import Qvnt.Lemmas.Bits
import Mathlib.Tactic.Ring
import Mathlib.Algebra.Ring.Basic
import Qvnt.Lemmas.Queue
import Qvnt.Lemmas.GenMatrix.basisArr

set_option linter.unusedSectionVars false
namespace Qvnt.Gen2
open Qvnt Qvnt.Gen
section matrix
variable {R : Type} [CommRing R] [Consts R] [Div R] [LE R] [DecidableLE R] [LT R] [DecidableLT R] [HasSqrt R] [RegConsts R]

/-- entry `(i, j)` of the reported matrix on buffers: amplitude `i` of the image of basis vector `j` -/
def matrixArr (o : MultiOp R) (N i j : Nat) : Cx R := bufFn (MultiOp.applyArr o (basisArr N j)) i

end matrix
end Qvnt.Gen2
