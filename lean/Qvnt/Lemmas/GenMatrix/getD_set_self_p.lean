/- `getD_set_self'` of GenMatrix.lean (one module per declaration, tools/lean_split.py) -/
import Qvnt.Generated.Regs
import Qvnt.Generated.Kernels
import Qvnt.Lemmas.Bits
import Mathlib.Tactic.Ring
import Mathlib.Algebra.Ring.Basic
import Qvnt.Lemmas.Queue

set_option linter.unusedSectionVars false
namespace Qvnt.Gen2
open Qvnt Qvnt.Gen
section transpose
variable {α : Type}

theorem getD_set_self' (l : List α) (i : Nat) (d v : α) (h : i < l.length) : (l.set i v).getD i d = v := by
  simp [List.getD_eq_getElem?_getD, h]

end transpose
end Qvnt.Gen2
