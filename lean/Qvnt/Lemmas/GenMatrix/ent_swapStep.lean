/- `ent_swapStep` of GenMatrix.lean (one module per declaration, tools/lean_split.py) -/
import Qvnt.Generated.Regs
import Qvnt.Generated.Kernels
import Qvnt.Lemmas.Bits
import Mathlib.Tactic.Ring
import Mathlib.Algebra.Ring.Basic
import Qvnt.Lemmas.Queue
import Qvnt.Lemmas.GenMatrix.ent
import Qvnt.Lemmas.GenMatrix.Square
import Qvnt.Lemmas.GenMatrix.setEnt_square
import Qvnt.Lemmas.GenMatrix.ent_setEnt
import Qvnt.Lemmas.GenMatrix.swapStep

set_option linter.unusedSectionVars false
namespace Qvnt.Gen2
open Qvnt Qvnt.Gen
section transpose
variable {α : Type}

theorem ent_swapStep (d : α) {N : Nat} {m : List (List α)} (h : Square N m) (idx jdx : Nat)
    (hi : idx < N) (hj : jdx < N) (hne : idx ≠ jdx) (a b : Nat) :
    ent d (swapStep d m idx jdx) a b =
      if a = idx ∧ b = jdx then ent d m jdx idx
      else if a = jdx ∧ b = idx then ent d m idx jdx else ent d m a b := by
  unfold swapStep
  simp only []
  rw [ent_setEnt d (setEnt_square h _ _ _) jdx idx _ hj hi, ent_setEnt d h idx jdx _ hi hj]
  by_cases h1 : a = jdx ∧ b = idx
  · obtain ⟨rfl, rfl⟩ := h1
    have : ¬ (a = b ∧ b = a) := fun hh => hne hh.1.symm
    simp [this]
  · by_cases h2 : a = idx ∧ b = jdx
    · rw [if_neg h1, if_pos h2, if_pos h2]
    · rw [if_neg h1, if_neg h2, if_neg h2, if_neg h1]

end transpose
end Qvnt.Gen2
