/- `matrixArr_eq_matrix` of GenMatrix.lean (one module per declaration, tools/lean_split.py) -/
import Qvnt.Generated.Regs
import Qvnt.Generated.Kernels
import Qvnt.Lemmas.Bits
import Mathlib.Tactic.Ring
import Mathlib.Algebra.Ring.Basic
import Qvnt.Lemmas.Queue
import Qvnt.Lemmas.GenMatrix.basisArr
import Qvnt.Lemmas.GenMatrix.matrixArr
import Qvnt.Lemmas.GenMatrix.bufFn_applyArr_fn
import Qvnt.Lemmas.GenMatrix.bufFn_basisArr

set_option linter.unusedSectionVars false
namespace Qvnt.Gen2
open Qvnt Qvnt.Gen
section matrix
variable {R : Type} [CommRing R] [Consts R] [Div R] [LE R] [DecidableLE R] [LT R] [DecidableLT R] [HasSqrt R] [RegConsts R]

/-- the table the translated `matrix` returns is the model's `MultiOp.matrix` (`Applicable::matrix` on states, the object
of `C01_matrix_column` / `C01_matrix_linear` / `C03_adjoint_matrix`), for a queue whose elements act inside the `size`
qubits -/
theorem matrixArr_eq_matrix (o : MultiOp R) (size : Nat)
    (hloc : ∀ g ∈ o, ∀ ψ : State R, (∀ i, 2 ^ size ≤ i → ψ i = 0) → ∀ i, 2 ^ size ≤ i → g.apply ψ i = 0)
    (i j : Nat) (hj : j < 2 ^ size) : matrixArr o (2 ^ size) i j = MultiOp.matrix o i j := by
  unfold matrixArr MultiOp.matrix
  rw [bufFn_applyArr_fn (2 ^ size) o _ (by simp [basisArr]) hloc, bufFn_basisArr _ _ hj]

end matrix
end Qvnt.Gen2
