/- `setEnt` of GenMatrix.lean (one module per declaration, tools/lean_split.py) -/
import Qvnt.Generated.Regs
import Qvnt.Generated.Kernels
import Qvnt.Lemmas.Bits
import Mathlib.Tactic.Ring
import Mathlib.Algebra.Ring.Basic
import Qvnt.Lemmas.Queue

set_option linter.unusedSectionVars false
namespace Qvnt.Gen2
open Qvnt Qvnt.Gen
section transpose
variable {α : Type}

/-- writing one entry -/
def setEnt (m : List (List α)) (i j : Nat) (v : α) : List (List α) := m.set i ((m.getD i []).set j v)

end transpose
end Qvnt.Gen2
