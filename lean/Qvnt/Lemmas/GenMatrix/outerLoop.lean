/- `outerLoop` of GenMatrix.lean (one module per declaration, tools/lean_split.py) -/
import Qvnt.Generated.Regs
import Qvnt.Generated.Kernels
import Qvnt.Lemmas.Bits
import Mathlib.Tactic.Ring
import Mathlib.Algebra.Ring.Basic
import Qvnt.Lemmas.Queue
import Qvnt.Lemmas.GenMatrix.innerLoop

set_option linter.unusedSectionVars false
namespace Qvnt.Gen2
open Qvnt Qvnt.Gen
section transpose
variable {α : Type}

/-- the outer loop over the rows `0 .. K-1` -/
def outerLoop (d : α) (m : List (List α)) (K : Nat) : List (List α) :=
  (List.range' 0 K).foldl (fun m idx => innerLoop d m idx idx) m

end transpose
end Qvnt.Gen2
