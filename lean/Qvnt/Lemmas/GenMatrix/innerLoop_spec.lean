/- `innerLoop_spec` of GenMatrix.lean (one module per declaration, tools/lean_split.py) -/
import Qvnt.Generated.Regs
import Qvnt.Generated.Kernels
import Qvnt.Lemmas.Bits
import Mathlib.Tactic.Ring
import Mathlib.Algebra.Ring.Basic
import Qvnt.Lemmas.Queue
import Qvnt.Lemmas.GenMatrix.ent
import Qvnt.Lemmas.GenMatrix.Square
import Qvnt.Lemmas.GenMatrix.swapStep
import Qvnt.Lemmas.GenMatrix.swapStep_square
import Qvnt.Lemmas.GenMatrix.ent_swapStep
import Qvnt.Lemmas.GenMatrix.innerLoop

set_option linter.unusedSectionVars false
namespace Qvnt.Gen2
open Qvnt Qvnt.Gen
section transpose
variable {α : Type}

theorem innerLoop_spec (d : α) {N : Nat} {m : List (List α)} (h : Square N m) (idx : Nat) (hi : idx < N) :
    ∀ k, k ≤ idx → Square N (innerLoop d m idx k) ∧ ∀ a b,
      ent d (innerLoop d m idx k) a b =
        if (a = idx ∧ b < k) ∨ (b = idx ∧ a < k) then ent d m b a else ent d m a b := by
  intro k
  induction k with
  | zero => intro _; exact ⟨h, fun a b => by simp [innerLoop]⟩
  | succ k ih =>
    intro hk
    obtain ⟨hsq, hent⟩ := ih (by omega)
    have hstep : innerLoop d m idx (k + 1) = swapStep d (innerLoop d m idx k) idx k := by
      unfold innerLoop
      rw [List.range'_1_concat, List.foldl_append]; simp
    rw [hstep]
    refine ⟨swapStep_square d hsq idx k, ?_⟩
    intro a b
    rw [ent_swapStep d hsq idx k hi (by omega) (by omega), hent, hent, hent]
    by_cases h1 : a = idx ∧ b = k
    · rw [if_pos h1]
      have e1 : ¬ ((k = idx ∧ idx < k) ∨ (idx = idx ∧ k < k)) := by omega
      have e2 : (a = idx ∧ b < k + 1) ∨ (b = idx ∧ a < k + 1) := by omega
      rw [if_neg e1, if_pos e2, h1.1, h1.2]
    · rw [if_neg h1]
      by_cases h2 : a = k ∧ b = idx
      · rw [if_pos h2]
        have e1 : ¬ ((idx = idx ∧ k < k) ∨ (k = idx ∧ idx < k)) := by omega
        have e2 : (a = idx ∧ b < k + 1) ∨ (b = idx ∧ a < k + 1) := by omega
        rw [if_neg e1, if_pos e2, h2.1, h2.2]
      · rw [if_neg h2]
        have : ((a = idx ∧ b < k + 1) ∨ (b = idx ∧ a < k + 1)) ↔ ((a = idx ∧ b < k) ∨ (b = idx ∧ a < k)) := by
          constructor
          · rintro (⟨ha, hb⟩ | ⟨hb, ha⟩)
            · left; refine ⟨ha, ?_⟩
              rcases Nat.lt_succ_iff_lt_or_eq.1 hb with hb | hb
              · exact hb
              · exact absurd ⟨ha, hb⟩ h1
            · right; refine ⟨hb, ?_⟩
              rcases Nat.lt_succ_iff_lt_or_eq.1 ha with ha | ha
              · exact ha
              · exact absurd ⟨ha, hb⟩ h2
          · rintro (⟨ha, hb⟩ | ⟨hb, ha⟩)
            · left; exact ⟨ha, by omega⟩
            · right; exact ⟨hb, by omega⟩
        by_cases hp : (a = idx ∧ b < k) ∨ (b = idx ∧ a < k)
        · rw [if_pos hp, if_pos (this.2 hp)]
        · rw [if_neg hp, if_neg (fun hh => hp (this.1 hh))]

end transpose
end Qvnt.Gen2
