/-
`qasm/int/gates.rs`: the seven arms of `macro_rules! gate`, expanded into functions of their macro parameters and translated
by `tools/rs2lean2.py` on every run (`Gen2.gate_arm_*`), are the model's `runArm` (`Model/Interp.lean`) for a table row
of that kind, with the row's constructor (`ctorApply row.ctor`) as the `op::$op` parameter. The name table and the prefix
arm of `process` are read by `tools/extract.py`.
-/
import Qvnt.Lemmas.GenGates.fold_or_eq
import Qvnt.Lemmas.GenGates.count_bits_popcount
import Qvnt.Lemmas.GenGates.gate_arm_any_eq
import Qvnt.Lemmas.GenGates.gate_arm_dgr_eq
import Qvnt.Lemmas.GenGates.gate_arm_two_eq
import Qvnt.Lemmas.GenGates.gate_arm_r_eq
import Qvnt.Lemmas.GenGates.gate_arm_u1_eq
import Qvnt.Lemmas.GenGates.gate_arm_u2_eq
import Qvnt.Lemmas.GenGates.gate_arm_u3_eq
