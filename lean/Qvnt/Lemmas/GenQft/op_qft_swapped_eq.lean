/- `op_qft_swapped_eq` of GenQft.lean (one module per declaration, tools/lean_split.py) -/
import Qvnt.Generated.Regs
import Qvnt.Generated.Kernels
import Qvnt.Lemmas.Bits
import Mathlib.Tactic.Ring
import Mathlib.Algebra.Ring.Basic
import Qvnt.Lemmas.Queue
import Qvnt.Lemmas.GenQft.genPhase
import Qvnt.Lemmas.GenQft.qft_qft_swapped_eq

set_option linter.unusedSectionVars false
namespace Qvnt.Gen2
open Qvnt Qvnt.Gen
variable {R : Type}
section qft
variable [CommRing R] [Consts R] [Div R] [Trig R] [Rs.AngleConsts R]

theorem op_qft_swapped_eq (a : Nat) : op_qft_swapped (R := R) a = Op.qftSwapped genPhase a := by
  simp [op_qft_swapped, qft_qft_swapped_eq]

end qft
end Qvnt.Gen2
