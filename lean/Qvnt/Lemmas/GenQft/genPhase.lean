/- `genPhase` of GenQft.lean (one module per declaration, tools/lean_split.py) -/
import Qvnt.Generated.Regs
import Qvnt.Generated.Kernels
import Qvnt.Lemmas.Bits
import Mathlib.Tactic.Ring
import Mathlib.Algebra.Ring.Basic
import Qvnt.Lemmas.Queue

set_option linter.unusedSectionVars false
namespace Qvnt.Gen2
open Qvnt Qvnt.Gen
variable {R : Type}
section qft
variable [CommRing R] [Consts R] [Div R] [Trig R] [Rs.AngleConsts R]

/-- the half-angle phases of `PI * 0.5^j`, as the translated constructor computes them -/
def genPhase (j : Nat) : Cx R := halfPhaseDiv ((Rs.AngleConsts.pi : R) * Rs.powi Consts.half j)

end qft
end Qvnt.Gen2
