/- `vec_eq` of GenQft.lean (one module per declaration, tools/lean_split.py) -/
import Qvnt.Generated.Regs
import Qvnt.Generated.Kernels
import Qvnt.Lemmas.Bits
import Mathlib.Tactic.Ring
import Mathlib.Algebra.Ring.Basic
import Qvnt.Lemmas.Queue
import Qvnt.Lemmas.GenPre.shl_one

set_option linter.unusedSectionVars false
namespace Qvnt.Gen2
open Qvnt Qvnt.Gen
variable {R : Type}
section qft
variable [CommRing R] [Consts R] [Div R] [Trig R] [Rs.AngleConsts R]

theorem vec_eq (a : Nat) :
    List.foldl (fun (vec : List Nat) idx => if (shlW 64 1 idx &&& a != 0) then vec ++ [shlW 64 1 idx] else vec) [] (Rs.range 0 64) =
      Op.qftBits a := by
  unfold Op.qftBits Rs.range W
  have key : ∀ (l : List Nat) (acc : List Nat), (∀ i ∈ l, i < 64) →
      List.foldl (fun (vec : List Nat) idx => if (shlW 64 1 idx &&& a != 0) then vec ++ [shlW 64 1 idx] else vec) acc l =
        acc ++ l.filterMap (fun i => if (2 ^ i) &&& a != 0 then some (2 ^ i) else none) := by
    intro l
    induction l with
    | nil => intro acc _; simp
    | cons x xs ih =>
      intro acc hx
      have hx64 : x < 64 := hx x (by simp)
      have hs : shlW 64 1 x = 2 ^ x := shl_one x hx64
      simp only [List.foldl_cons, List.filterMap_cons, hs]
      rw [ih _ (fun i hi => hx i (by simp [hi]))]
      by_cases hb : (2 ^ x &&& a != 0) = true <;> simp [hb]
  have := key (List.range' 0 (64 - 0)) [] (by intro i hi; simp at hi; omega)
  simpa [List.range_eq_range'] using this

end qft
end Qvnt.Gen2
