/- `foldlM_append` of GenQft.lean (one module per declaration, tools/lean_split.py) -/
import Qvnt.Generated.Regs
import Qvnt.Generated.Kernels
import Qvnt.Lemmas.Bits
import Mathlib.Tactic.Ring
import Mathlib.Algebra.Ring.Basic
import Qvnt.Lemmas.Queue

set_option linter.unusedSectionVars false
namespace Qvnt.Gen2
open Qvnt Qvnt.Gen
variable {R : Type}
section qft
variable [CommRing R] [Consts R] [Div R] [Trig R] [Rs.AngleConsts R]

theorem foldlM_append {α β : Type} (F : α → Option (List β)) (l : List α) (init : List β) :
    List.foldlM (fun res i => Option.bind (F i) (fun x => some (res ++ x))) init l =
      (l.mapM F).map (fun xs => init ++ xs.flatten) := by
  induction l generalizing init with
  | nil => simp
  | cons a l ih =>
    simp only [List.foldlM_cons, List.mapM_cons]
    cases F a with
    | none => simp
    | some x =>
      simp only [Option.bind_some, Option.bind_eq_bind, ih]
      cases l.mapM F <;> simp

end qft
end Qvnt.Gen2
