/- `single_c_eq'` of GenQft.lean (one module per declaration, tools/lean_split.py) -/
import Qvnt.Generated.Regs
import Qvnt.Generated.Kernels
import Qvnt.Lemmas.Bits
import Mathlib.Tactic.Ring
import Mathlib.Algebra.Ring.Basic
import Qvnt.Lemmas.Queue

set_option linter.unusedSectionVars false
namespace Qvnt.Gen2
open Qvnt Qvnt.Gen
variable {R : Type}
section qft
variable [CommRing R] [Consts R] [Div R] [Trig R] [Rs.AngleConsts R]

theorem single_c_eq' (g : SingleOp R) (c : Nat) : single_c g c = g.c c := by
  unfold single_c SingleOp.c single_act_on SingleOp.actOn
  by_cases h : (g.act ||| g.ctrl) &&& c = 0 <;> simp [h]

end qft
end Qvnt.Gen2
