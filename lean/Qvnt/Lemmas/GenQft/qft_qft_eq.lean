/- `qft_qft_eq` of GenQft.lean (one module per declaration, tools/lean_split.py) -/
import Qvnt.Generated.Regs
import Qvnt.Generated.Kernels
import Qvnt.Lemmas.Bits
import Mathlib.Tactic.Ring
import Mathlib.Algebra.Ring.Basic
import Qvnt.Lemmas.Queue
import Qvnt.Lemmas.GenH.h_h_eq
import Qvnt.Lemmas.GenCtors.rotate_rz_eq
import Qvnt.Lemmas.GenQft.genPhase
import Qvnt.Lemmas.GenQft.single_c_eq_p
import Qvnt.Lemmas.GenQft.foldlM_append
import Qvnt.Lemmas.GenQft.vec_eq

set_option linter.unusedSectionVars false
namespace Qvnt.Gen2
open Qvnt Qvnt.Gen
variable {R : Type}
section qft
variable [CommRing R] [Consts R] [Div R] [Trig R] [Rs.AngleConsts R]

theorem qft_qft_eq (a : Nat) : qft_qft (R := R) a = Op.qft genPhase a := by
  unfold qft_qft Op.qft
  cases hc : popcount a with
  | zero => simp
  | succ k =>
    cases k with
    | zero => simp [h_h_eq]
    | succ k =>
      simp only [beq_iff_eq, Nat.succ_ne_zero, ↓reduceIte, Nat.add_eq_right]
      have hv := vec_eq a
      -- the bit list
      have hvec : (List.foldl (fun (st2 : List Nat) a3 =>
          (if (shlW 64 1 a3 &&& a != 0) = true then st2 ++ [shlW 64 1 a3] else st2)) [] (Rs.range 0 64)) = Op.qftBits a := hv
      simp only [hvec]
      generalize Op.qftBits a = vec
      -- one stage, as a function of i
      have hstage : ∀ i : Nat,
          (Option.bind (h_h (R := R) (vec.getD i 0)) fun u19 =>
            Option.bind (List.mapM (fun j =>
              Option.bind (Option.bind (rotate_rz (vec.getD (i + j) 0) ((Rs.AngleConsts.pi : R) * Rs.powi Consts.half j))
                  fun op => single_c op (vec.getD i 0)) fun u25 =>
                Option.bind (rotate_rz (vec.getD i 0) (Consts.half * ((Rs.AngleConsts.pi : R) * Rs.powi Consts.half j))) fun u26 =>
                  some [u25, u26]) (Rs.range 1 (k + 1 + 1 - i))) fun u27 => some (u19 ++ List.flatten u27)) =
          (do
            let hi ← Op.h (R := R) (vec.getD i 0)
            let rots ← (List.range (k + 1 + 1 - i - 1)).mapM (fun k' =>
              match SingleOp.checked (Atom.rz (vec.getD (i + (k' + 1)) 0) (genPhase (R := R) (k' + 1))),
                    SingleOp.checked (Atom.rz (vec.getD i 0) (genPhase (R := R) (k' + 1 + 1))) with
              | some g, some g' => (g.c (vec.getD i 0)).map (fun cg => [cg, g'])
              | _, _ => none)
            pure (hi ++ rots.flatten)) := by
        intro i
        rw [h_h_eq]
        have hr : Rs.range 1 (k + 1 + 1 - i) = (List.range (k + 1 + 1 - i - 1)).map (· + 1) := by
          unfold Rs.range
          apply List.ext_getElem
          · simp
          · intro n h1 h2
            simp [Nat.add_comm]
        rw [hr, List.mapM_map]
        have hf : ∀ k' : Nat,
            (Option.bind (Option.bind (rotate_rz (vec.getD (i + (k' + 1)) 0) ((Rs.AngleConsts.pi : R) * Rs.powi Consts.half (k' + 1)))
                fun op => single_c op (vec.getD i 0)) fun u25 =>
              Option.bind (rotate_rz (vec.getD i 0) (Consts.half * ((Rs.AngleConsts.pi : R) * Rs.powi Consts.half (k' + 1)))) fun u26 =>
                some [u25, u26]) =
            (match SingleOp.checked (Atom.rz (vec.getD (i + (k' + 1)) 0) (genPhase (R := R) (k' + 1))),
                  SingleOp.checked (Atom.rz (vec.getD i 0) (genPhase (R := R) (k' + 1 + 1))) with
              | some g, some g' => (g.c (vec.getD i 0)).map (fun cg => [cg, g'])
              | _, _ => none) := by
          intro k'
          have hph : (Consts.half : R) * ((Rs.AngleConsts.pi : R) * Rs.powi Consts.half (k' + 1)) =
              (Rs.AngleConsts.pi : R) * Rs.powi Consts.half (k' + 1 + 1) := by
            simp only [Rs.powi]; ring
          rw [rotate_rz_eq, rotate_rz_eq, hph]
          simp only [genPhase]
          generalize SingleOp.checked (Atom.rz (vec.getD (i + (k' + 1)) 0)
              (halfPhaseDiv ((Rs.AngleConsts.pi : R) * Rs.powi Consts.half (k' + 1)))) = o1
          generalize SingleOp.checked (Atom.rz (vec.getD i 0)
              (halfPhaseDiv ((Rs.AngleConsts.pi : R) * Rs.powi Consts.half (k' + 1 + 1)))) = o2
          cases o1 with
          | none => cases o2 <;> rfl
          | some g =>
            cases o2 with
            | none => simp only [Option.bind_some]; rw [single_c_eq']; cases g.c (vec.getD i 0) <;> rfl
            | some g' => simp only [Option.bind_some]; rw [single_c_eq']; cases g.c (vec.getD i 0) <;> rfl
        simp only [Function.comp_def, hf]
        cases Op.h (R := R) (vec.getD i 0) <;> simp
      -- assemble
      have hloop := foldlM_append (fun i =>
          (Option.bind (h_h (R := R) (vec.getD i 0)) fun u19 =>
            Option.bind (List.mapM (fun j =>
              Option.bind (Option.bind (rotate_rz (vec.getD (i + j) 0) ((Rs.AngleConsts.pi : R) * Rs.powi Consts.half j))
                  fun op => single_c op (vec.getD i 0)) fun u25 =>
                Option.bind (rotate_rz (vec.getD i 0) (Consts.half * ((Rs.AngleConsts.pi : R) * Rs.powi Consts.half j))) fun u26 =>
                  some [u25, u26]) (Rs.range 1 (k + 1 + 1 - i))) fun u27 => some (u19 ++ List.flatten u27)))
        (Rs.range 0 (k + 1 + 1 - 1)) []
      have hbody : (fun (st17 : List (SingleOp R)) a18 =>
            (h_h (R := R) (vec.getD a18 0)).bind fun a =>
              (List.mapM (fun a20 =>
                  ((rotate_rz (vec.getD (a18 + a20) 0) ((Rs.AngleConsts.pi : R) * Rs.powi Consts.half a20)).bind fun a =>
                      single_c a (vec.getD a18 0)).bind fun a =>
                    (rotate_rz (vec.getD a18 0) (Consts.half * ((Rs.AngleConsts.pi : R) * Rs.powi Consts.half a20))).bind
                      fun a_1 => some [a, a_1]) (Rs.range 1 (k + 1 + 1 - a18))).bind
                fun a_1 => some (st17 ++ a ++ a_1.flatten)) =
          (fun res i =>
            Option.bind ((Option.bind (h_h (R := R) (vec.getD i 0)) fun u19 =>
              Option.bind (List.mapM (fun j =>
                Option.bind (Option.bind (rotate_rz (vec.getD (i + j) 0) ((Rs.AngleConsts.pi : R) * Rs.powi Consts.half j))
                    fun op => single_c op (vec.getD i 0)) fun u25 =>
                  Option.bind (rotate_rz (vec.getD i 0) (Consts.half * ((Rs.AngleConsts.pi : R) * Rs.powi Consts.half j))) fun u26 =>
                    some [u25, u26]) (Rs.range 1 (k + 1 + 1 - i))) fun u27 => some (u19 ++ List.flatten u27))) (fun x => some (res ++ x))) := by
        funext res i
        cases h_h (R := R) (vec.getD i 0) with
        | none => rfl
        | some u =>
          simp only [Option.bind_some]
          cases List.mapM (fun a20 =>
                  ((rotate_rz (vec.getD (i + a20) 0) ((Rs.AngleConsts.pi : R) * Rs.powi Consts.half a20)).bind fun a =>
                      single_c a (vec.getD i 0)).bind fun a =>
                    (rotate_rz (vec.getD i 0) (Consts.half * ((Rs.AngleConsts.pi : R) * Rs.powi Consts.half a20))).bind
                      fun a_1 => some [a, a_1]) (Rs.range 1 (k + 1 + 1 - i)) with
          | none => rfl
          | some v => simp [List.append_assoc]
      rw [hbody, hloop]
      have hr0 : Rs.range 0 (k + 1 + 1 - 1) = List.range (k + 1 + 1 - 1) := by
        simp [Rs.range, List.range_eq_range']
      rw [hr0]
      simp only [hstage]
      simp only [h_h_eq]
      cases List.mapM (fun i => (do
            let hi ← Op.h (R := R) (vec.getD i 0)
            let rots ← (List.range (k + 1 + 1 - i - 1)).mapM (fun k' =>
              match SingleOp.checked (Atom.rz (vec.getD (i + (k' + 1)) 0) (genPhase (R := R) (k' + 1))),
                    SingleOp.checked (Atom.rz (vec.getD i 0) (genPhase (R := R) (k' + 1 + 1))) with
              | some g, some g' => (g.c (vec.getD i 0)).map (fun cg => [cg, g'])
              | _, _ => none)
            pure (hi ++ rots.flatten))) (List.range (k + 1 + 1 - 1)) with
      | none => rfl
      | some st =>
        simp only [Option.map_some, List.nil_append, Option.bind_some, Option.bind_eq_bind]
        cases Op.h (R := R) (vec.getD (k + 1 + 1 - 1) 0) <;> rfl

end qft
end Qvnt.Gen2
