/- `qft_qft_swapped_eq` of GenQft.lean (one module per declaration, tools/lean_split.py) -/
import Qvnt.Generated.Regs
import Qvnt.Generated.Kernels
import Qvnt.Lemmas.Bits
import Mathlib.Tactic.Ring
import Mathlib.Algebra.Ring.Basic
import Qvnt.Lemmas.Queue
import Qvnt.Lemmas.GenCtors.swapmod_swap_eq
import Qvnt.Lemmas.GenQft.genPhase
import Qvnt.Lemmas.GenQft.foldlM_append
import Qvnt.Lemmas.GenQft.qft_qft_eq
import Qvnt.Lemmas.GenQft.swapped_loop_eq

set_option linter.unusedSectionVars false
namespace Qvnt.Gen2
open Qvnt Qvnt.Gen
variable {R : Type}
section qft
variable [CommRing R] [Consts R] [Div R] [Trig R] [Rs.AngleConsts R]

theorem qft_qft_swapped_eq (a : Nat) : qft_qft_swapped (R := R) a = Op.qftSwapped genPhase a := by
  unfold qft_qft_swapped Op.qftSwapped
  rw [← swapped_loop_eq a (W + 2) 1 [] (by decide)]
  dsimp only
  generalize qft_qft_swapped_loop1 a (W + 2) ([], 1) = o
  cases o with
  | none => rfl
  | some st =>
    obtain ⟨vm, idx⟩ := st
    simp only [Option.bind_some, Option.map_some, Option.bind_eq_bind]
    have hbody : (fun (st6 : List (SingleOp R)) a7 =>
          Option.bind (swapmod_swap (R := R) (vm.getD a7 0 ||| vm.getD (vm.length - a7 - 1) 0)) fun u8 =>
            some (st6 ++ MultiOp.ofSingle u8)) =
        (fun res i => Option.bind ((SingleOp.checked (Atom.swap (R := R) (vm.getD i 0 ||| vm.getD (vm.length - i - 1) 0))).map
          MultiOp.ofSingle) (fun x => some (res ++ x))) := by
      funext res i
      rw [swapmod_swap_eq]
      cases SingleOp.checked (Atom.swap (R := R) (vm.getD i 0 ||| vm.getD (vm.length - i - 1) 0)) <;> rfl
    rw [hbody, foldlM_append]
    have hr0 : Rs.range 0 (vm.length >>> 1) = List.range (vm.length / 2) := by
      simp [Rs.range, List.range_eq_range', Nat.shiftRight_eq_div_pow]
    rw [hr0, qft_qft_eq]
    cases List.mapM (fun i => (SingleOp.checked (Atom.swap (R := R) (vm.getD i 0 ||| vm.getD (vm.length - i - 1) 0))).map
        MultiOp.ofSingle) (List.range (vm.length / 2)) with
    | none => rfl
    | some sw =>
      simp only [Option.map_some, List.nil_append, Option.bind_some]
      cases Op.qft (R := R) genPhase a <;> rfl

end qft
end Qvnt.Gen2
