/- `swapped_loop_eq` of GenQft.lean (one module per declaration, tools/lean_split.py) -/
import Qvnt.Generated.Regs
import Qvnt.Generated.Kernels
import Qvnt.Lemmas.Bits
import Mathlib.Tactic.Ring
import Mathlib.Algebra.Ring.Basic
import Qvnt.Lemmas.Queue
import Qvnt.Lemmas.GenBits.shl_pos

set_option linter.unusedSectionVars false
namespace Qvnt.Gen2
open Qvnt Qvnt.Gen
variable {R : Type}
section qft
variable [CommRing R] [Consts R] [Div R] [Trig R] [Rs.AngleConsts R]

theorem swapped_loop_eq (a fuel pos : Nat) (acc : List Nat) (hp : pos < 2 ^ 64) :
    (qft_qft_swapped_loop1 a fuel (acc, pos)).map (fun st => st.1) = Op.maskBitsLoop a fuel pos acc := by
  induction fuel generalizing pos acc with
  | zero => simp [qft_qft_swapped_loop1, Op.maskBitsLoop]
  | succ n ih =>
    have hs : shl1 pos < 2 ^ 64 := by unfold shl1 W; exact Nat.mod_lt _ (by decide)
    unfold qft_qft_swapped_loop1 Op.maskBitsLoop
    by_cases hc : (pos != 0 && decide (pos ≤ a)) = true
    · by_cases hb : (pos &&& a != 0) = true
      · simp [hc, hb, shl_pos pos hp, ← ih _ _ hs]
      · simp [hc, hb, shl_pos pos hp, ← ih _ _ hs]
    · simp [hc]

end qft
end Qvnt.Gen2
