/- `quant_measure_mask_eq` of GenMeas.lean (one module per declaration, tools/lean_split.py) -/
import Qvnt.Generated.Regs
import Qvnt.Generated.Kernels
import Qvnt.Lemmas.Bits
import Mathlib.Tactic.Ring
import Mathlib.Algebra.Ring.Basic
import Qvnt.Lemmas.Queue
import Qvnt.Lemmas.GenPre.ofModel
import Qvnt.Model.Reg
import Qvnt.Lemmas.GenRegs.creg_with_state_eq
import Qvnt.Lemmas.GenCreg.creg_new_eq
import Qvnt.Lemmas.GenCreg.cregOfModel
import Qvnt.Lemmas.GenCreg.creg_eq_of_toModel
import Qvnt.Lemmas.GenQuant.quant_collapse_mask_eq
import Qvnt.Lemmas.GenQProb.quant_rescale_eq

set_option linter.unusedSectionVars false
namespace Qvnt.Gen2
open Qvnt Qvnt.Gen
variable {R : Type}
section arith
variable [Add R] [Sub R] [Mul R] [Div R] [Neg R] [Zero R] [One R] [Consts R]
  [LE R] [DecidableLE R] [LT R] [DecidableLT R] [HasSqrt R] [RegConsts R]

/-- `measure_mask` on the stream of drawn basis indices: nothing is drawn for an empty effective mask,
otherwise the head of the stream is the drawn index (an exhausted stream is `none`) -/
theorem quant_measure_mask_eq (r : QReg R) (mask : Nat) (ds : List Nat) :
    quant_measure_mask (ofModel r) mask ds =
      if mask &&& r.qMask = 0 then some (cregOfModel (CReg.new r.qNum), ofModel r, ds)
      else match ds with
        | [] => none
        | d :: rest => some (cregOfModel (r.measureMask mask d).2, ofModel (r.measureMask mask d).1, rest) := by
  unfold quant_measure_mask QReg.measureMask
  by_cases h : mask &&& r.qMask = 0
  · have h' : (mask &&& (ofModel r).q_mask == 0) = true := by simpa [ofModel] using h
    simp only [h', ↓reduceIte, h]
    rw [creg_eq_of_toModel _ _ (creg_new_eq _)]
    rfl
  · have h' : (mask &&& (ofModel r).q_mask == 0) = false := by simpa [ofModel] using h
    simp only [h', Bool.false_eq_true, ↓reduceIte, h]
    cases ds with
    | nil => rfl
    | cons d rest =>
      simp only [quant_collapse_mask_eq, quant_rescale_eq]
      rw [creg_eq_of_toModel _ _ (creg_with_state_eq _ _)]
      simp [ofModel, QReg.rescale, QReg.collapseMask]
      split <;> rfl

end arith
end Qvnt.Gen2
