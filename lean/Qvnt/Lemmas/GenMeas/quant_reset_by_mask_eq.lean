/- `quant_reset_by_mask_eq` of GenMeas.lean (one module per declaration, tools/lean_split.py) -/
import Qvnt.Generated.Regs
import Qvnt.Generated.Kernels
import Qvnt.Lemmas.Bits
import Mathlib.Tactic.Ring
import Mathlib.Algebra.Ring.Basic
import Qvnt.Lemmas.Queue
import Qvnt.Lemmas.GenPre.ofModel
import Qvnt.Model.Reg
import Qvnt.Lemmas.GenCreg.cregOfModel
import Qvnt.Lemmas.GenQuant.quant_reset_eq
import Qvnt.Lemmas.GenOps.quant_apply_eq
import Qvnt.Lemmas.GenOps.x_ctrl
import Qvnt.Lemmas.GenMeas.quant_measure_mask_eq

set_option linter.unusedSectionVars false
namespace Qvnt.Gen2
open Qvnt Qvnt.Gen
variable {R : Type}
section apply
variable [CommRing R] [Consts R] [Div R] [LE R] [DecidableLE R] [LT R] [DecidableLT R] [HasSqrt R] [RegConsts R]

/-- `reset_by_mask` on the stream of drawn basis indices -/
theorem quant_reset_by_mask_eq (r : QReg R) (mask : Nat) (ds : List Nat) :
    quant_reset_by_mask (ofModel r) mask ds =
      if mask &&& r.qMask = r.qMask then some (ofModel (r.resetByMask mask 0), ds)
      else if mask &&& r.qMask = 0 then some (ofModel (r.resetByMask mask 0), ds)
      else match ds with
        | [] => none
        | d :: rest => some (ofModel (r.resetByMask mask d), rest) := by
  unfold quant_reset_by_mask
  by_cases h : mask &&& r.qMask = r.qMask
  · have h' : (mask &&& (ofModel r).q_mask == (ofModel r).q_mask) = true := by simpa [ofModel] using h
    simp only [h', h, ↓reduceIte, quant_reset_eq, QReg.resetByMask]
  · have h' : (mask &&& (ofModel r).q_mask == (ofModel r).q_mask) = false := by simpa [ofModel] using h
    simp only [h', h, Bool.false_eq_true, ↓reduceIte, quant_measure_mask_eq]
    by_cases h0 : mask &&& r.qMask = 0
    · simp only [h0, ↓reduceIte, Option.bind_some]
      have hne : ¬ (0 = r.qMask) := fun e => h (by rw [h0]; exact e)
      simp [QReg.resetByMask, QReg.measureMask, h0, cregOfModel, CReg.new, CReg.withState, creg_get, hne]
    · simp only [h0, ↓reduceIte]
      cases ds with
      | nil => rfl
      | cons d rest =>
        simp only [Option.bind_some, QReg.resetByMask, h, ↓reduceIte]
        have hv : creg_get (cregOfModel (r.measureMask mask d).2) = (r.measureMask mask d).2.value := rfl
        simp only [hv]
        by_cases hz : (r.measureMask mask d).2.value = 0
        · simp [hz]
        · simp [hz, quant_apply_eq _ _ (x_ctrl _)]

end apply
end Qvnt.Gen2
