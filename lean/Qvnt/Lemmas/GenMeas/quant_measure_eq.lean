/- `quant_measure_eq` of GenMeas.lean (one module per declaration, tools/lean_split.py) -/
import Qvnt.Generated.Regs
import Qvnt.Generated.Kernels
import Qvnt.Lemmas.Bits
import Mathlib.Tactic.Ring
import Mathlib.Algebra.Ring.Basic
import Qvnt.Lemmas.Queue
import Qvnt.Lemmas.GenPre.ofModel
import Qvnt.Model.Reg

set_option linter.unusedSectionVars false
namespace Qvnt.Gen2
open Qvnt Qvnt.Gen
variable {R : Type}
section arith
variable [Add R] [Sub R] [Mul R] [Div R] [Neg R] [Zero R] [One R] [Consts R]
  [LE R] [DecidableLE R] [LT R] [DecidableLT R] [HasSqrt R] [RegConsts R]

theorem quant_measure_eq (r : QReg R) (ds : List Nat) :
    quant_measure (ofModel r) ds = quant_measure_mask (ofModel r) r.qMask ds := by
  unfold quant_measure
  cases h : quant_measure_mask (ofModel r) (ofModel r).q_mask ds with
  | none => simp [ofModel] at h ⊢; simp [h]
  | some v => obtain ⟨c, q, d⟩ := v; simp [ofModel] at h ⊢; simp [h]

end arith
end Qvnt.Gen2
