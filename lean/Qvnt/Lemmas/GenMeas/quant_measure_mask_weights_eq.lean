/- `quant_measure_mask_weights_eq`: the weight vector that the translated `measure_mask` hands to `WeightedIndex::new`
(companion definition emitted by tools/rs2lean2.py for every function that draws) is the model's `getProbabilities` -/
import Qvnt.Generated.Regs
import Qvnt.Lemmas.GenPre.ofModel
import Qvnt.Model.Reg
import Qvnt.Lemmas.GenQProb.quant_get_probabilities_eq

set_option linter.unusedSectionVars false
namespace Qvnt.Gen2
open Qvnt Qvnt.Gen
variable {R : Type}
section arith
variable [Add R] [Sub R] [Mul R] [Div R] [Neg R] [Zero R] [One R] [Consts R]
  [LE R] [DecidableLE R] [LT R] [DecidableLT R] [HasSqrt R] [RegConsts R]

theorem quant_measure_mask_weights_eq (r : QReg R) (mask : Nat) (h : r.qNum < 64) (hs : 2 ^ r.qNum ≤ r.psi.size) :
    quant_measure_mask_weights (ofModel r) mask =
      if mask &&& r.qMask = 0 then none else some r.getProbabilities := by
  unfold quant_measure_mask_weights
  rw [quant_get_probabilities_eq r h hs]
  by_cases hm : mask &&& r.qMask = 0 <;> simp [ofModel, hm]

end arith
end Qvnt.Gen2
