/- `macro_argument_name_eq` of GenMacro.lean (one module per declaration, tools/lean_split.py) -/
import Qvnt.Generated.Regs
import Qvnt.Lemmas.IntLogic

set_option linter.unusedSectionVars false
namespace Qvnt.Gen2
open Qvnt Qvnt.Gen
variable {R : Type}

theorem macro_argument_name_eq (a : Arg) : macro_argument_name a = a.name := by
  cases a <;> rfl

end Qvnt.Gen2
