/- `foldlM_seqCalls` of GenMacro.lean (one module per declaration, tools/lean_split.py) -/
import Qvnt.Generated.Regs
import Qvnt.Lemmas.IntLogic

set_option linter.unusedSectionVars false
namespace Qvnt.Gen2
open Qvnt Qvnt.Gen
variable {R : Type}
section proc
variable [Add R] [Sub R] [Mul R] [Neg R] [Div R] [ExprFns R] [AngleFns R]

/-- a left fold in `Except` whose step appends the operator of one call and leaves the stack alone is the model's
`seqCalls` -/
theorem foldlM_seqCalls (S : List String × MultiOp R → Call R → Except IntError (List String × MultiOp R))
    (f : Call R → Res (MultiOp R)) (stack : List String)
    (hS : ∀ acc c, S (stack, acc) c = match (f c).toE with | .ok o => .ok (stack, acc ++ o) | .error e => .error e) :
    ∀ (l : List (Call R)) (acc : MultiOp R),
      List.foldlM S (stack, acc) l =
        match (seqCalls f l).toE with
        | .ok os => .ok (stack, acc ++ os)
        | .error e => .error e := by
  intro l
  induction l with
  | nil => intro acc; simp [seqCalls, Res.toE, pure, Except.pure]
  | cons c cs ih =>
    intro acc
    rw [List.foldlM_cons, hS, seqCalls]
    cases hf : f c with
    | ok o =>
      simp only [Res.toE, bind, Except.bind]
      rw [ih (acc ++ o)]
      cases seqCalls f cs with
      | ok os => simp [Res.toE, List.append_assoc]
      | err e => simp [Res.toE]
      | panic p => simp [Res.toE]
    | err e => simp [Res.toE, bind, Except.bind]
    | panic p => simp [Res.toE, bind, Except.bind]

end proc
end Qvnt.Gen2
