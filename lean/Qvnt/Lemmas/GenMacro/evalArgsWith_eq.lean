/- `evalArgsWith_eq` of GenMacro.lean (one module per declaration, tools/lean_split.py) -/
import Qvnt.Generated.Regs
import Qvnt.Lemmas.IntLogic

set_option linter.unusedSectionVars false
namespace Qvnt.Gen2
open Qvnt Qvnt.Gen
variable {R : Type}
section proc
variable [Add R] [Sub R] [Mul R] [Neg R] [Div R] [ExprFns R] [AngleFns R]

theorem evalArgsWith_eq (name : String) (vars : List (String × R)) (l : List (PExpr R)) :
    Interp.evalArgsWith name vars l =
      match Qvnt.evalArgsWith vars l with
      | .ok v => .ok v
      | .error e => .error (.unevaluatedArgument name e) := by
  unfold Interp.evalArgsWith
  have : List.mapM (fun a => evalExtended a vars) l = Qvnt.evalArgsWith vars l := by
    induction l with
    | nil => rfl
    | cons a as ih =>
      rw [List.mapM_cons, Qvnt.evalArgsWith, ih]
      cases evalExtended a vars with
      | error e => rfl
      | ok v => cases Qvnt.evalArgsWith vars as <;> rfl
  rw [this]
  cases Qvnt.evalArgsWith vars l <;> rfl

end proc
end Qvnt.Gen2
