/- `macro_process_eq` of GenMacro.lean (one module per declaration, tools/lean_split.py) -/
import Qvnt.Generated.Regs
import Qvnt.Lemmas.IntLogic
import Qvnt.Lemmas.GenMacro.KeysNodup
import Qvnt.Lemmas.GenMacro.withStack
import Qvnt.Lemmas.GenMacro.macro_process_nested_eq

set_option linter.unusedSectionVars false
namespace Qvnt.Gen2
open Qvnt Qvnt.Gen
variable {R : Type}
section proc
variable [Add R] [Sub R] [Mul R] [Neg R] [Div R] [ExprFns R] [AngleFns R]

/-- `Macro::process`: the expansion of one applied gate, as `process_apply_gate` calls it -/
theorem macro_process_eq (macros : List (String × Macro R)) (hnd : KeysNodup macros) (m : Macro R) (name : String)
    (regs : List Nat) (args : List R) :
    macro_process m name regs args macros = Macro.processE m name regs args macros := by
  unfold macro_process Macro.processE
  simp only [macro_process_nested_eq macros hnd, withStack]
  cases Macro.process macros (macros.length + 2) m name regs args [name] <;> rfl

end proc
end Qvnt.Gen2
