/- `withStack` of GenMacro.lean (one module per declaration, tools/lean_split.py) -/
import Qvnt.Generated.Regs
import Qvnt.Lemmas.IntLogic

set_option linter.unusedSectionVars false
namespace Qvnt.Gen2
open Qvnt Qvnt.Gen
variable {R : Type}
section proc
variable [Add R] [Sub R] [Mul R] [Neg R] [Div R] [ExprFns R] [AngleFns R]

/-- what the translated function returns for a model outcome: the operator together with the unchanged stack -/
def withStack (stack : List String) (r : Res (MultiOp R)) : Except IntError (MultiOp R × List String) :=
  match r.toE with
  | .ok o => .ok (o, stack)
  | .error e => .error e

end proc
end Qvnt.Gen2
