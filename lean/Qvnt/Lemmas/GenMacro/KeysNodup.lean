/- `KeysNodup` of GenMacro.lean (one module per declaration, tools/lean_split.py) -/
import Qvnt.Generated.Regs
import Qvnt.Lemmas.IntLogic

set_option linter.unusedSectionVars false
namespace Qvnt.Gen2
open Qvnt Qvnt.Gen
variable {R : Type}

/-- no gate name is defined twice -/
def KeysNodup {α : Type} (m : List (String × α)) : Prop := (m.map (·.1)).Nodup

end Qvnt.Gen2
