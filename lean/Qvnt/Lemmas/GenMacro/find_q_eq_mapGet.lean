/- `find?_eq_mapGet` of GenMacro.lean (one module per declaration, tools/lean_split.py) -/
import Qvnt.Generated.Regs
import Qvnt.Lemmas.IntLogic
import Qvnt.Lemmas.GenMacro.KeysNodup

set_option linter.unusedSectionVars false
namespace Qvnt.Gen2
open Qvnt Qvnt.Gen
variable {R : Type}

theorem find?_eq_mapGet {α : Type} (m : List (String × α)) (h : KeysNodup m) (k : String) :
    (m.find? (fun p => p.1 == k)).map (·.2) = Rs.mapGet m k := by
  unfold Rs.mapGet
  induction m with
  | nil => rfl
  | cons p ps ih =>
    have hps : KeysNodup ps := (List.nodup_cons.1 h).2
    have hp : p.1 ∉ ps.map (·.1) := (List.nodup_cons.1 h).1
    rw [List.reverse_cons, List.find?_append]
    by_cases hk : (p.1 == k) = true
    · -- the head matches: no later entry has that key
      have hnone : ps.reverse.find? (fun q => q.1 == k) = none := by
        rw [List.find?_eq_none]
        intro q hq hqk
        apply hp
        have h1 : q.1 = k := by simpa using hqk
        have h2 : p.1 = k := by simpa using hk
        have : q.1 = p.1 := by rw [h1, h2]
        rw [← this]
        exact List.mem_map_of_mem (List.mem_reverse.1 hq)
      rw [hnone, List.find?_cons_of_pos (by exact hk)]
      simp [hk]
    · rw [List.find?_cons_of_neg (by exact hk), ih hps]
      have : List.find? (fun q => q.1 == k) [p] = none := by
        simp [List.find?_cons_of_neg, hk]
      rw [this, Option.or_none]

end Qvnt.Gen2
