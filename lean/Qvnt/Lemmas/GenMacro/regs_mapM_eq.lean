/- `regs_mapM_eq` of GenMacro.lean (one module per declaration, tools/lean_split.py) -/
import Qvnt.Generated.Regs
import Qvnt.Lemmas.IntLogic
import Qvnt.Lemmas.GenMacro.macro_argument_name_eq

set_option linter.unusedSectionVars false
namespace Qvnt.Gen2
open Qvnt Qvnt.Gen
variable {R : Type}
section proc
variable [Add R] [Sub R] [Mul R] [Neg R] [Div R] [ExprFns R] [AngleFns R]

/-- the formal-to-actual qubit lookup: `regs[&argument_name(reg_i)]` for every argument, a missing key is a panic -/
theorem regs_mapM_eq (regMap : List (String × Nat)) (l : List Arg) :
    List.mapM (fun a => Except.bind (Interp.orPanic "regs[&name]" (Rs.mapGet regMap (macro_argument_name a)))
        (fun u => (Except.ok u : Except IntError Nat))) l =
      match l.mapM (fun a => lookupLast regMap a.name) with
      | some r => .ok r
      | none => .error (Interp.panicErr "regs[&name]") := by
  induction l with
  | nil => rfl
  | cons a as ih =>
    rw [List.mapM_cons, List.mapM_cons, ih, macro_argument_name_eq]
    have : Rs.mapGet regMap a.name = lookupLast regMap a.name := rfl
    rw [this]
    cases lookupLast regMap a.name with
    | none => rfl
    | some v =>
      cases List.mapM (fun a => lookupLast regMap a.name) as with
      | none => rfl
      | some r => rfl

end proc
end Qvnt.Gen2
