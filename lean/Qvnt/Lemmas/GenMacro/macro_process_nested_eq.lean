/- `macro_process_nested_eq` of GenMacro.lean (one module per declaration, tools/lean_split.py) -/
import Qvnt.Generated.Regs
import Qvnt.Lemmas.IntLogic
import Qvnt.Lemmas.GenMacro.KeysNodup
import Qvnt.Lemmas.GenMacro.find_q_eq_mapGet
import Qvnt.Lemmas.GenMacro.regs_mapM_eq
import Qvnt.Lemmas.GenMacro.evalArgsWith_eq
import Qvnt.Lemmas.GenMacro.withStack
import Qvnt.Lemmas.GenMacro.foldlM_seqCalls

set_option linter.unusedSectionVars false
namespace Qvnt.Gen2
open Qvnt Qvnt.Gen
variable {R : Type}
section proc
variable [Add R] [Sub R] [Mul R] [Neg R] [Div R] [ExprFns R] [AngleFns R]

theorem macro_process_nested_eq (macros : List (String × Macro R)) (hnd : KeysNodup macros) :
    ∀ (fuel : Nat) (m : Macro R) (name : String) (regs : List Nat) (args : List R) (stack : List String),
      macro_process_nested fuel m name regs args macros stack =
        withStack stack (Macro.process macros fuel m name regs args stack) := by
  intro fuel
  induction fuel with
  | zero => intro m name regs args stack; rfl
  | succ fuel ih =>
    intro m name regs args stack
    unfold macro_process_nested
    rw [Macro.process_succ]
    by_cases h1 : regs.length = m.regs.length
    · by_cases h2 : args.length = m.args.length
      · simp only [h1, h2, bne_self_eq_false, Bool.false_eq_true, if_false, ne_eq, not_true_eq_false]
        rw [foldlM_seqCalls _ (callOne macros fuel m regs args stack) stack]
        · unfold withStack
          cases seqCalls (callOne macros fuel m regs args stack) m.nodes <;> simp [Res.toE, Except.bind]
        · intro acc c
          simp only [callOne]
          rw [regs_mapM_eq, evalArgsWith_eq]
          cases List.mapM (fun a => lookupLast (m.regs.zip regs) a.name) c.regs with
          | none => rfl
          | some regsI =>
            simp only [Except.bind]
            cases Qvnt.evalArgsWith (m.args.zip args) c.args with
            | error e => rfl
            | ok argsI =>
              simp only []
              rw [← find?_eq_mapGet macros hnd c.name]
              cases macros.find? (fun p => p.1 == c.name) with
              | none =>
                simp only [Option.map_none, Gates.processE]
                cases Gates.process c.name regsI argsI <;> rfl
              | some pm =>
                obtain ⟨k, m'⟩ := pm
                simp only [Option.map_some]
                by_cases hs : stack.contains c.name = true
                · simp only [hs, if_true]; rfl
                · simp only [hs, Bool.false_eq_true, if_false]
                  rw [ih m' c.name regsI argsI (stack ++ [c.name])]
                  unfold withStack
                  cases Macro.process macros fuel m' c.name regsI argsI (stack ++ [c.name]) <;>
                    simp [Res.toE, Except.bind, List.dropLast_concat]
      · have h2' : (args.length != m.args.length) = true := by simpa using h2
        simp only [h1, h2, h2', bne_self_eq_false, Bool.false_eq_true, if_false, if_true, ne_eq, not_true_eq_false,
          not_false_eq_true]
        rfl
    · have h1' : (regs.length != m.regs.length) = true := by simpa using h1
      simp only [h1, h1', if_true, ne_eq, not_false_eq_true]
      rfl

end proc
end Qvnt.Gen2
