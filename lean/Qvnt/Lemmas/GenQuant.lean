/-
`register/quant.rs`: constructors, reset, set_num, collapse, probabilities, rescale, normalize, tensor product.
(split out of GenRegs2.lean so that an equality that no longer holds blocks only the properties that rely on it)
-/
import Qvnt.Lemmas.GenPre

set_option linter.unusedSectionVars false

namespace Qvnt.Gen2
open Qvnt Qvnt.Gen

variable {R : Type}

section basic
variable [Zero R] [One R]

theorem basisBuf_toList (len s : Nat) :
    (QReg.basisBuf (R := R) len s).toList = (List.replicate len (0 : Cx R)).set s 1 := by
  apply List.ext_getElem
  · simp [QReg.basisBuf]
  · intro i h1 h2
    simp [QReg.basisBuf, List.getElem_set]
    by_cases h : s = i <;> simp [h, eq_comm]

theorem quant_new_eq (n : Nat) (h : n < 64) : quant_new (R := R) n = ofModel (QReg.new n) := by
  simp [quant_new, ofModel, QReg.new, shl_one n h, mask_eq n h, basisBuf_toList, minBufferLen]

theorem quant_reset_eq (r : QReg R) (i : Nat) : quant_reset (ofModel r) i = ofModel (r.reset i) := by
  simp [quant_reset, ofModel, QReg.reset, basisBuf_toList]

theorem quant_with_state_eq (n st : Nat) (h : n < 64) :
    quant_with_state (R := R) n st = some (ofModel (QReg.withState n st)) := by
  have hlt : st &&& (2 ^ n - 1) < max (2 ^ n) 8 := by
    have : st &&& (2 ^ n - 1) ≤ 2 ^ n - 1 := Nat.and_le_right
    have h3 : 0 < 2 ^ n := Nat.two_pow_pos n
    omega
  simp [quant_with_state, ofModel, QReg.withState, shl_one n h, mask_eq n h, basisBuf_toList, minBufferLen]
  omega

omit [One R] in
theorem resizeBuf_toList (a : Array (Cx R)) (len : Nat) :
    (QReg.resizeBuf a len).toList = Rs.resize a.toList len 0 := by
  apply List.ext_getElem
  · simp [QReg.resizeBuf, Rs.resize]; omega
  · intro i h1 h2
    simp [QReg.resizeBuf] at h1
    simp only [QReg.resizeBuf, Rs.resize, Array.getElem_toList, Array.getElem_ofFn]
    by_cases hi : i < a.size
    · rw [List.getElem_append_left (by simp; omega)]
      simp [Array.getD, hi]
    · rw [List.getElem_append_right (by simp; omega)]
      simp [Array.getD, hi]

theorem quant_set_num_eq (r : QReg R) (n : Nat) (h : n < 64) :
    quant_set_num (ofModel r) n = ofModel (r.setNum n) := by
  unfold quant_set_num QReg.setNum
  by_cases hs : n < r.qNum
  · simp [hs, ofModel, shl_one n h, mask_eq n h, minBufferLen, quant_reset, QReg.reset,
      basisBuf_toList, Rs.resize]
    congr 2
    simp [QReg.resizeBuf]; omega
  · simp [hs, ofModel, shl_one n h, mask_eq n h, resizeBuf_toList, minBufferLen]

omit [One R] in
theorem quant_collapse_mask_eq (r : QReg R) (idy mask : Nat) :
    quant_collapse_mask (ofModel r) idy mask = ofModel (r.collapseMask idy mask) := by
  unfold quant_collapse_mask QReg.collapseMask ofModel
  simp only [QRegG.mk.injEq, and_true]
  apply List.ext_getElem
  · simp [Rs.mapIdx, Rs.enumerate]
  · intro i h1 h2
    rw [mapIdx_getElem]
    have hi : i < r.psi.size := by simpa [Rs.mapIdx, Rs.enumerate] using h1
    simp [Array.getD]

end basic

section arith
variable [Add R] [Sub R] [Mul R] [Div R] [Neg R] [Zero R] [One R] [Consts R]
  [LE R] [DecidableLE R] [LT R] [DecidableLT R] [HasSqrt R] [RegConsts R]
theorem quant_tensor_prod_eq (a b : QReg R) (ha : a.qNum + b.qNum < 64) :
    quant_tensor_prod (ofModel a) (ofModel b) = ofModel (a.tensorProd b) := by
  have h8 : a.qNum % 2 ^ 8 = a.qNum := Nat.mod_eq_of_lt (by omega)
  unfold quant_tensor_prod QReg.tensorProd ofModel
  simp only [shl_one _ ha, mask_eq _ ha, h8, QRegG.mk.injEq, and_true, minBufferLen]
  apply List.ext_getElem
  · simp [Rs.range]
  · intro i h1 h2
    simp only [Rs.range, List.getElem_map, List.getElem_range', Array.getElem_toList, Array.getElem_ofFn,
      Array.getD_eq_getD_getElem?, List.getD_eq_getElem?_getD, Array.getElem?_toList]
    simp

end arith
end Qvnt.Gen2
