/-
`register/quant.rs`: constructors, reset, set_num, collapse, probabilities, rescale, normalize, tensor product.
(split out of GenRegs2.lean so that an equality that no longer holds blocks only the properties that rely on it)
-/
import Qvnt.Lemmas.GenQuant.basisBuf_toList
import Qvnt.Lemmas.GenQuant.quant_new_eq
import Qvnt.Lemmas.GenQuant.quant_reset_eq
import Qvnt.Lemmas.GenQuant.quant_with_state_eq
import Qvnt.Lemmas.GenQuant.resizeBuf_toList
import Qvnt.Lemmas.GenQuant.quant_set_num_eq
import Qvnt.Lemmas.GenQuant.quant_collapse_mask_eq
import Qvnt.Lemmas.GenQuant.quant_tensor_prod_eq
