/- `store_xor_eq` of GenSym.lean (one module per declaration, tools/lean_split.py) -/
import Qvnt.Generated.Regs
import Qvnt.Generated.Kernels
import Qvnt.Lemmas.Bits
import Mathlib.Tactic.Ring
import Mathlib.Algebra.Ring.Basic
import Qvnt.Lemmas.Queue
import Qvnt.Lemmas.GenBits.bitsList_eq
import Qvnt.Model.Reg
import Qvnt.Lemmas.GenCreg.cregOfModel
import Qvnt.Lemmas.GenSym.creg_xor_of

set_option linter.unusedSectionVars false
namespace Qvnt.Gen2
open Qvnt Qvnt.Gen
variable {R : Type}
section sym
variable [CommRing R] [Consts R] [Div R] [LE R] [DecidableLE R] [LT R] [DecidableLT R] [HasSqrt R] [RegConsts R]

theorem store_xor_eq (c : CReg) (value qa ca : Nat) :
    List.foldl (fun (st : CRegG) (a : Nat × Nat) => creg_xor st ((value &&& a.1) != 0) a.2) (cregOfModel c)
        (List.zip (bitsList qa) (bitsList ca)) = cregOfModel (Sym.storeBits .xor c value qa ca) := by
  unfold Sym.storeBits
  rw [bitsList_eq, bitsList_eq]
  generalize (bitsIterList qa).zip (bitsIterList ca) = l
  induction l generalizing c with
  | nil => rfl
  | cons x xs ih =>
    simp only [List.foldl_cons, creg_xor_of]
    have : ((value &&& x.1) != 0) = decide (value &&& x.1 ≠ 0) := by
      by_cases h : value &&& x.1 = 0 <;> simp [h]
    rw [this]
    exact ih _

end sym
end Qvnt.Gen2
