/- `WordQueue` of GenSym.lean (one module per declaration, tools/lean_split.py) -/
import Qvnt.Generated.Regs
import Qvnt.Generated.Kernels
import Qvnt.Lemmas.Bits
import Mathlib.Tactic.Ring
import Mathlib.Algebra.Ring.Basic
import Qvnt.Lemmas.Queue
import Qvnt.Model.Reg

set_option linter.unusedSectionVars false
namespace Qvnt.Gen2
open Qvnt Qvnt.Gen
variable {R : Type}
section sym
variable [CommRing R] [Consts R] [Div R] [LE R] [DecidableLE R] [LT R] [DecidableLT R] [HasSqrt R] [RegConsts R]

/-- control masks of a block queue are machine words (true of every queue the interpreter builds) -/
def WordQueue (e : ExtOp R) : Prop :=
  (∀ b ∈ e.blocks, ∀ g ∈ b.1, g.ctrl < 2 ^ 64) ∧ (∀ g ∈ e.tail, g.ctrl < 2 ^ 64)

end sym
end Qvnt.Gen2
