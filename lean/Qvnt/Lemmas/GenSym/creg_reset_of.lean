/- `creg_reset_of` of GenSym.lean (one module per declaration, tools/lean_split.py) -/
import Qvnt.Generated.Regs
import Qvnt.Generated.Kernels
import Qvnt.Lemmas.Bits
import Mathlib.Tactic.Ring
import Mathlib.Algebra.Ring.Basic
import Qvnt.Lemmas.Queue
import Qvnt.Model.Reg
import Qvnt.Lemmas.GenRegs.creg_reset_eq
import Qvnt.Lemmas.GenCreg.cregOfModel
import Qvnt.Lemmas.GenCreg.creg_eq_of_toModel

set_option linter.unusedSectionVars false
namespace Qvnt.Gen2
open Qvnt Qvnt.Gen
variable {R : Type}
section sym
variable [CommRing R] [Consts R] [Div R] [LE R] [DecidableLE R] [LT R] [DecidableLT R] [HasSqrt R] [RegConsts R]

theorem creg_reset_of (c : CReg) (i : Nat) : creg_reset (cregOfModel c) i = cregOfModel (c.reset i) :=
  creg_eq_of_toModel _ _ (creg_reset_eq _ _)

end sym
end Qvnt.Gen2
