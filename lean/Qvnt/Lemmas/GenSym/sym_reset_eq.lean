/- `sym_reset_eq` of GenSym.lean (one module per declaration, tools/lean_split.py) -/
import Qvnt.Generated.Regs
import Qvnt.Generated.Kernels
import Qvnt.Lemmas.Bits
import Mathlib.Tactic.Ring
import Mathlib.Algebra.Ring.Basic
import Qvnt.Lemmas.Queue
import Qvnt.Model.Reg
import Qvnt.Lemmas.GenQuant.quant_reset_eq
import Qvnt.Lemmas.GenSym.symOfModel
import Qvnt.Lemmas.GenSym.creg_reset_of

set_option linter.unusedSectionVars false
namespace Qvnt.Gen2
open Qvnt Qvnt.Gen
variable {R : Type}
section sym
variable [CommRing R] [Consts R] [Div R] [LE R] [DecidableLE R] [LT R] [DecidableLT R] [HasSqrt R] [RegConsts R]

theorem sym_reset_eq (s : Sym R) : sym_reset (symOfModel s) = symOfModel s.reset := by
  simp [sym_reset, symOfModel, Sym.reset, quant_reset_eq, creg_reset_of]

end sym
end Qvnt.Gen2
