/- `sym_step_eq` of GenSym.lean (one module per declaration, tools/lean_split.py) -/
import Qvnt.Generated.Regs
import Qvnt.Generated.Kernels
import Qvnt.Lemmas.Bits
import Mathlib.Tactic.Ring
import Mathlib.Algebra.Ring.Basic
import Qvnt.Lemmas.Queue
import Qvnt.Lemmas.GenPre.ofModel
import Qvnt.Model.Reg
import Qvnt.Lemmas.GenCreg.cregOfModel
import Qvnt.Lemmas.GenCreg.creg_get_by_mask_eq
import Qvnt.Lemmas.GenOps.quant_apply_eq
import Qvnt.Lemmas.GenMeas.quant_measure_mask_eq
import Qvnt.Lemmas.GenMeas.quant_reset_by_mask_eq
import Qvnt.Lemmas.GenSym.symOfModel
import Qvnt.Lemmas.GenSym.store_set_eq
import Qvnt.Lemmas.GenSym.store_xor_eq
import Qvnt.Lemmas.GenSym.mstep

set_option linter.unusedSectionVars false
namespace Qvnt.Gen2
open Qvnt Qvnt.Gen
variable {R : Type}
section sym
variable [CommRing R] [Consts R] [Div R] [LE R] [DecidableLE R] [LT R] [DecidableLT R] [HasSqrt R] [RegConsts R]

theorem sym_step_eq (t : Sym R × List Nat) (b : MultiOp R × Sep) (hb : ∀ g ∈ b.1, g.ctrl < 2 ^ 64)
    (hc : t.1.cReg.qMask < 2 ^ 64) :
    sym_finish_for1 (symOfModel t.1, t.2) b = (mstep t b).map (fun p => (symOfModel p.1, p.2)) := by
  obtain ⟨s, ds⟩ := t
  obtain ⟨op, sep⟩ := b
  unfold sym_finish_for1 mstep Sym.stepBlock
  cases sep with
  | nop =>
    simp [symOfModel, quant_apply_eq _ _ hb]
  | measure qa ca =>
    simp only [symOfModel, quant_apply_eq _ _ hb, quant_measure_mask_eq, Sym.draws]
    by_cases h0 : qa &&& (s.qReg.apply op).qMask = 0
    · simp only [h0, ↓reduceIte, Option.bind_some, ne_eq, not_true_eq_false, decide_false, Bool.false_eq_true]
      have hv : creg_get (cregOfModel (CReg.new (s.qReg.apply op).qNum)) = ((s.qReg.apply op).measureMask qa 0).2.value := by
        simp [QReg.measureMask, h0, creg_get, cregOfModel]
      have hq : ofModel (s.qReg.apply op) = ofModel ((s.qReg.apply op).measureMask qa 0).1 := by
        simp [QReg.measureMask, h0]
      cases hm : s.mOp with
      | set => simp [hv, store_set_eq, hq]
      | xor => simp [hv, store_xor_eq, hq]
    · simp only [h0, ↓reduceIte, ne_eq, not_false_eq_true, decide_true]
      cases ds with
      | nil => rfl
      | cons d rest =>
        simp only [Option.bind_some]
        have hv : creg_get (cregOfModel ((s.qReg.apply op).measureMask qa d).2) = ((s.qReg.apply op).measureMask qa d).2.value := rfl
        cases hm : s.mOp with
        | set => simp [hv, store_set_eq]
        | xor => simp [hv, store_xor_eq]
  | ifBranch c v =>
    have hg : creg_get_by_mask (cregOfModel s.cReg) c = s.cReg.getByMask c :=
      creg_get_by_mask_eq (cregOfModel s.cReg) c hc
    simp only [symOfModel, hg]
    by_cases hv : s.cReg.getByMask c = v
    · simp [hv, quant_apply_eq _ _ hb]
    · simp [hv]
  | reset qm =>
    simp only [symOfModel, quant_apply_eq _ _ hb, quant_reset_by_mask_eq, Sym.draws]
    by_cases h1 : qm &&& (s.qReg.apply op).qMask = (s.qReg.apply op).qMask
    · simp [h1]
    · by_cases h0 : qm &&& (s.qReg.apply op).qMask = 0
      · simp [h1, h0]
      · simp only [h1, h0, ↓reduceIte, ne_eq, not_false_eq_true, decide_true]
        cases ds <;> rfl

end sym
end Qvnt.Gen2
