/- `sym_get_class_eq` of GenSym.lean (one module per declaration, tools/lean_split.py) -/
import Qvnt.Generated.Regs
import Qvnt.Generated.Kernels
import Qvnt.Lemmas.Bits
import Mathlib.Tactic.Ring
import Mathlib.Algebra.Ring.Basic
import Qvnt.Lemmas.Queue
import Qvnt.Model.Reg
import Qvnt.Lemmas.GenCreg.cregOfModel
import Qvnt.Lemmas.GenSym.symOfModel

set_option linter.unusedSectionVars false
namespace Qvnt.Gen2
open Qvnt Qvnt.Gen
variable {R : Type}
section sym
variable [CommRing R] [Consts R] [Div R] [LE R] [DecidableLE R] [LT R] [DecidableLT R] [HasSqrt R] [RegConsts R]

theorem sym_get_class_eq (s : Sym R) : sym_get_class (symOfModel s) = cregOfModel s.cReg := rfl

end sym
end Qvnt.Gen2
