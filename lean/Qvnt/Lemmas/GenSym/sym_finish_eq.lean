/- `sym_finish_eq` of GenSym.lean (one module per declaration, tools/lean_split.py) -/
import Qvnt.Generated.Regs
import Qvnt.Generated.Kernels
import Qvnt.Lemmas.Bits
import Mathlib.Tactic.Ring
import Mathlib.Algebra.Ring.Basic
import Qvnt.Lemmas.Queue
import Qvnt.Lemmas.GenPre.ofModel
import Qvnt.Model.Reg
import Qvnt.Lemmas.GenOps.quant_apply_eq
import Qvnt.Lemmas.GenSym.symOfModel
import Qvnt.Lemmas.GenSym.foldlM_sim
import Qvnt.Lemmas.GenSym.foldlM_inv
import Qvnt.Lemmas.GenSym.mstep
import Qvnt.Lemmas.GenSym.finish_as_foldlM
import Qvnt.Lemmas.GenSym.WordQueue
import Qvnt.Lemmas.GenSym.sym_step_eq
import Qvnt.Lemmas.GenSym.mstep_inv

set_option linter.unusedSectionVars false
namespace Qvnt.Gen2
open Qvnt Qvnt.Gen
variable {R : Type}
section sym
variable [CommRing R] [Consts R] [Div R] [LE R] [DecidableLE R] [LT R] [DecidableLT R] [HasSqrt R] [RegConsts R]

/-- `Sym::finish` on the stream of drawn basis indices: the translated function is the model's `finish`
(same final register, classical register and remaining draws), for every simulator whose queue has
machine-word control masks and whose classical register has a machine-word mask -/
theorem sym_finish_eq (s : Sym R) (ds : List Nat) (hw : WordQueue s.qOps) (hc : s.cReg.qMask < 2 ^ 64) :
    sym_finish (symOfModel s) ds = (s.finish ds).map (fun p => (symOfModel p.1, p.2)) := by
  rw [finish_as_foldlM]
  unfold sym_finish
  have key := foldlM_sim (sym_finish_for1 (R := R)) mstep (fun p => (symOfModel p.1, p.2))
    (fun t => t.1.qOps = s.qOps ∧ t.1.cReg.qMask = s.cReg.qMask) s.qOps.blocks
    (fun t b ht hb => sym_step_eq t b (hw.1 b hb) (by rw [ht.2]; exact hc))
    (fun t b t' ht hb hg => by
      have := mstep_inv t t' b hg
      exact ⟨this.1.trans ht.1, this.2.trans ht.2⟩)
    (s, ds) ⟨rfl, rfl⟩
  simp only [symOfModel] at key ⊢
  rw [key]
  cases hres : List.foldlM mstep (s, ds) s.qOps.blocks with
  | none => rfl
  | some p =>
    simp only [Option.map_some, Option.bind_some]
    have hinv := foldlM_inv mstep (fun t => t.1.qOps = s.qOps ∧ t.1.cReg.qMask = s.cReg.qMask) s.qOps.blocks
      (fun t b t' ht hb hg => by
        have := mstep_inv t t' b hg
        exact ⟨this.1.trans ht.1, this.2.trans ht.2⟩) (s, ds) p ⟨rfl, rfl⟩ hres
    have htail : ∀ g ∈ p.1.qOps.tail, g.ctrl < 2 ^ 64 := by rw [hinv.1]; exact hw.2
    have := quant_apply_eq p.1.qReg p.1.qOps.tail htail
    simp only [ofModel] at this
    simp [this, ofModel]

end sym
end Qvnt.Gen2
