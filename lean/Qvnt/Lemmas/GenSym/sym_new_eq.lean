/- `sym_new_eq` of GenSym.lean (one module per declaration, tools/lean_split.py) -/
import Qvnt.Generated.Regs
import Qvnt.Generated.Kernels
import Qvnt.Lemmas.Bits
import Mathlib.Tactic.Ring
import Mathlib.Algebra.Ring.Basic
import Qvnt.Lemmas.Queue
import Qvnt.Model.Reg
import Qvnt.Lemmas.GenCreg.creg_new_eq
import Qvnt.Lemmas.GenCreg.creg_eq_of_toModel
import Qvnt.Lemmas.GenQuant.quant_new_eq
import Qvnt.Lemmas.GenSym.symOfModel

set_option linter.unusedSectionVars false
namespace Qvnt.Gen2
open Qvnt Qvnt.Gen
variable {R : Type}
section sym
variable [CommRing R] [Consts R] [Div R] [LE R] [DecidableLE R] [LT R] [DecidableLT R] [HasSqrt R] [RegConsts R]

/-- `Sym::new`: a register of as many qubits / classical bits as the interpreter declared (fewer than 64, which the
interpreter's declaration checks guarantee), the interpreter's queue and measurement mode -/
theorem sym_new_eq (i : Interp R) (hq : i.qReg.length < 64) : sym_new i = symOfModel (Sym.new i) := by
  simp only [sym_new, symOfModel, Sym.new, quant_new_eq _ hq]
  congr 1
  exact creg_eq_of_toModel _ _ (creg_new_eq _)

end sym
end Qvnt.Gen2
