/- `creg_set_of` of GenSym.lean (one module per declaration, tools/lean_split.py) -/
import Qvnt.Generated.Regs
import Qvnt.Generated.Kernels
import Qvnt.Lemmas.Bits
import Mathlib.Tactic.Ring
import Mathlib.Algebra.Ring.Basic
import Qvnt.Lemmas.Queue
import Qvnt.Model.Reg
import Qvnt.Lemmas.GenRegs.creg_set_eq
import Qvnt.Lemmas.GenCreg.cregOfModel
import Qvnt.Lemmas.GenCreg.creg_eq_of_toModel

set_option linter.unusedSectionVars false
namespace Qvnt.Gen2
open Qvnt Qvnt.Gen
variable {R : Type}
section sym
variable [CommRing R] [Consts R] [Div R] [LE R] [DecidableLE R] [LT R] [DecidableLT R] [HasSqrt R] [RegConsts R]

theorem creg_set_of (c : CReg) (b : Bool) (m : Nat) : creg_set (cregOfModel c) b m = cregOfModel (c.set b m) :=
  creg_eq_of_toModel _ _ (creg_set_eq _ _ _)

end sym
end Qvnt.Gen2
