/- `sym_get_probabilities_eq` of GenSym.lean (one module per declaration, tools/lean_split.py) -/
import Qvnt.Generated.Regs
import Qvnt.Generated.Kernels
import Qvnt.Lemmas.Bits
import Mathlib.Tactic.Ring
import Mathlib.Algebra.Ring.Basic
import Qvnt.Lemmas.Queue
import Qvnt.Model.Reg
import Qvnt.Lemmas.GenQProb.quant_get_probabilities_eq
import Qvnt.Lemmas.GenSym.symOfModel

set_option linter.unusedSectionVars false
namespace Qvnt.Gen2
open Qvnt Qvnt.Gen
variable {R : Type}
section sym
variable [CommRing R] [Consts R] [Div R] [LE R] [DecidableLE R] [LT R] [DecidableLT R] [HasSqrt R] [RegConsts R]

theorem sym_get_probabilities_eq (s : Sym R) (h : s.qReg.qNum < 64) (hs : 2 ^ s.qReg.qNum ≤ s.qReg.psi.size) :
    sym_get_probabilities (symOfModel s) = s.qReg.getProbabilities := by
  simp only [sym_get_probabilities, symOfModel]
  exact quant_get_probabilities_eq s.qReg h hs

end sym
end Qvnt.Gen2
