/- `mstep_inv` of GenSym.lean (one module per declaration, tools/lean_split.py) -/
import Qvnt.Generated.Regs
import Qvnt.Generated.Kernels
import Qvnt.Lemmas.Bits
import Mathlib.Tactic.Ring
import Mathlib.Algebra.Ring.Basic
import Qvnt.Lemmas.Queue
import Qvnt.Model.Reg
import Qvnt.Lemmas.GenSym.storeBits_qMask
import Qvnt.Lemmas.GenSym.mstep

set_option linter.unusedSectionVars false
namespace Qvnt.Gen2
open Qvnt Qvnt.Gen
variable {R : Type}
section sym
variable [CommRing R] [Consts R] [Div R] [LE R] [DecidableLE R] [LT R] [DecidableLT R] [HasSqrt R] [RegConsts R]

theorem mstep_inv (t t' : Sym R × List Nat) (b : MultiOp R × Sep) (h : mstep t b = some t') :
    t'.1.qOps = t.1.qOps ∧ t'.1.cReg.qMask = t.1.cReg.qMask := by
  obtain ⟨s, ds⟩ := t
  obtain ⟨op, sep⟩ := b
  unfold mstep Sym.stepBlock at h
  cases sep with
  | nop => simp at h; subst h; simp
  | measure qa ca =>
    simp only at h
    split at h
    · split at h
      · simp at h
      · simp at h; subst h; simp [storeBits_qMask]
    · simp at h; subst h; simp [storeBits_qMask]
  | ifBranch c v =>
    simp only at h
    split at h <;> (simp at h; subst h; simp)
  | reset qm =>
    simp only at h
    split at h
    · simp at h; subst h; simp
    · split at h
      · split at h
        · simp at h
        · simp at h; subst h; simp
      · simp at h; subst h; simp

end sym
end Qvnt.Gen2
