/- `finish_as_foldlM` of GenSym.lean (one module per declaration, tools/lean_split.py) -/
import Qvnt.Generated.Regs
import Qvnt.Generated.Kernels
import Qvnt.Lemmas.Bits
import Mathlib.Tactic.Ring
import Mathlib.Algebra.Ring.Basic
import Qvnt.Lemmas.Queue
import Qvnt.Model.Reg
import Qvnt.Lemmas.GenSym.foldl_option
import Qvnt.Lemmas.GenSym.mstep

set_option linter.unusedSectionVars false
namespace Qvnt.Gen2
open Qvnt Qvnt.Gen
variable {R : Type}
section sym
variable [CommRing R] [Consts R] [Div R] [LE R] [DecidableLE R] [LT R] [DecidableLT R] [HasSqrt R] [RegConsts R]

theorem finish_as_foldlM (s : Sym R) (ds : List Nat) :
    s.finish ds = (List.foldlM mstep (s, ds) s.qOps.blocks).bind
      (fun p => some ({ p.1 with qReg := p.1.qReg.apply p.1.qOps.tail }, p.2)) := by
  rw [Sym.finish_eq_stepBlock]
  have hF : (Sym.stepBlock (R := R)) = (fun st b => st.bind (fun x => mstep x b)) := by
    funext st b
    cases st <;> rfl
  rw [hF, foldl_option]
  simp only [Option.bind_some]
  cases List.foldlM mstep (s, ds) s.qOps.blocks with
  | none => rfl
  | some p => rfl

end sym
end Qvnt.Gen2
