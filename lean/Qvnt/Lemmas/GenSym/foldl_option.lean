/- `foldl_option` of GenSym.lean (one module per declaration, tools/lean_split.py) -/
import Qvnt.Generated.Regs
import Qvnt.Generated.Kernels
import Qvnt.Lemmas.Bits
import Mathlib.Tactic.Ring
import Mathlib.Algebra.Ring.Basic
import Qvnt.Lemmas.Queue
import Qvnt.Model.Reg

set_option linter.unusedSectionVars false
namespace Qvnt.Gen2
open Qvnt Qvnt.Gen
variable {R : Type}
section sym
variable [CommRing R] [Consts R] [Div R] [LE R] [DecidableLE R] [LT R] [DecidableLT R] [HasSqrt R] [RegConsts R]

theorem foldl_option {τ β : Type} (g : τ → β → Option τ) (l : List β) (o : Option τ) :
    List.foldl (fun (st : Option τ) b => st.bind (fun x => g x b)) o l = o.bind (fun t => List.foldlM g t l) := by
  induction l generalizing o with
  | nil => cases o <;> simp
  | cons b bs ih =>
    simp only [List.foldl_cons, ih]
    cases o with
    | none => simp
    | some t => simp [List.foldlM_cons]

end sym
end Qvnt.Gen2
