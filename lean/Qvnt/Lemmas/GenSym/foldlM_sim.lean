/- `foldlM_sim` of GenSym.lean (one module per declaration, tools/lean_split.py) -/
import Qvnt.Generated.Regs
import Qvnt.Generated.Kernels
import Qvnt.Lemmas.Bits
import Mathlib.Tactic.Ring
import Mathlib.Algebra.Ring.Basic
import Qvnt.Lemmas.Queue
import Qvnt.Model.Reg

set_option linter.unusedSectionVars false
namespace Qvnt.Gen2
open Qvnt Qvnt.Gen
variable {R : Type}
section sym
variable [CommRing R] [Consts R] [Div R] [LE R] [DecidableLE R] [LT R] [DecidableLT R] [HasSqrt R] [RegConsts R]

/-- a fold in the `Option` monad simulates another one through a map of the states, under an invariant -/
theorem foldlM_sim {σ τ β : Type} (f : σ → β → Option σ) (g : τ → β → Option τ) (φ : τ → σ) (P : τ → Prop)
    (l : List β)
    (hstep : ∀ t b, P t → b ∈ l → f (φ t) b = (g t b).map φ)
    (hP : ∀ t b t', P t → b ∈ l → g t b = some t' → P t') (t : τ) (h0 : P t) :
    List.foldlM f (φ t) l = (List.foldlM g t l).map φ := by
  induction l generalizing t with
  | nil => simp
  | cons b bs ih =>
    simp only [List.foldlM_cons]
    rw [hstep t b h0 (by simp)]
    cases hg : g t b with
    | none => simp
    | some t' =>
      simp only [Option.map_some, Option.bind_some, Option.bind_eq_bind]
      exact ih (fun t b ht hb => hstep t b ht (by simp [hb])) (fun t b t' ht hb => hP t b t' ht (by simp [hb]))
        t' (hP t b t' h0 (by simp) hg)

end sym
end Qvnt.Gen2
