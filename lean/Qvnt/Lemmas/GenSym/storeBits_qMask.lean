/- `storeBits_qMask` of GenSym.lean (one module per declaration, tools/lean_split.py) -/
import Qvnt.Generated.Regs
import Qvnt.Generated.Kernels
import Qvnt.Lemmas.Bits
import Mathlib.Tactic.Ring
import Mathlib.Algebra.Ring.Basic
import Qvnt.Lemmas.Queue
import Qvnt.Model.Reg

set_option linter.unusedSectionVars false
namespace Qvnt.Gen2
open Qvnt Qvnt.Gen
variable {R : Type}
section sym
variable [CommRing R] [Consts R] [Div R] [LE R] [DecidableLE R] [LT R] [DecidableLT R] [HasSqrt R] [RegConsts R]

theorem storeBits_qMask (m : MeasureOp) (c : CReg) (value qa ca : Nat) :
    (Sym.storeBits m c value qa ca).qMask = c.qMask := by
  unfold Sym.storeBits
  generalize (bitsIterList qa).zip (bitsIterList ca) = l
  induction l generalizing c with
  | nil => rfl
  | cons x xs ih =>
    simp only [List.foldl_cons]
    rw [ih]
    cases m <;> simp [CReg.set, CReg.xor] <;> split <;> rfl

end sym
end Qvnt.Gen2
