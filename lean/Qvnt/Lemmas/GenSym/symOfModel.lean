/- `symOfModel` of GenSym.lean (one module per declaration, tools/lean_split.py) -/
import Qvnt.Generated.Regs
import Qvnt.Generated.Kernels
import Qvnt.Lemmas.Bits
import Mathlib.Tactic.Ring
import Mathlib.Algebra.Ring.Basic
import Qvnt.Lemmas.Queue
import Qvnt.Lemmas.GenPre.ofModel
import Qvnt.Model.Reg
import Qvnt.Lemmas.GenCreg.cregOfModel

set_option linter.unusedSectionVars false
namespace Qvnt.Gen2
open Qvnt Qvnt.Gen
variable {R : Type}
section sym
variable [CommRing R] [Consts R] [Div R] [LE R] [DecidableLE R] [LT R] [DecidableLT R] [HasSqrt R] [RegConsts R]

/-- the model's simulator state as the translated record -/
def symOfModel (s : Sym R) : SymG R := ⟨s.mOp, ofModel s.qReg, cregOfModel s.cReg, s.qOps⟩

end sym
end Qvnt.Gen2
