/- `foldlM_inv` of GenSym.lean (one module per declaration, tools/lean_split.py) -/
import Qvnt.Generated.Regs
import Qvnt.Generated.Kernels
import Qvnt.Lemmas.Bits
import Mathlib.Tactic.Ring
import Mathlib.Algebra.Ring.Basic
import Qvnt.Lemmas.Queue
import Qvnt.Model.Reg

set_option linter.unusedSectionVars false
namespace Qvnt.Gen2
open Qvnt Qvnt.Gen
variable {R : Type}
section sym
variable [CommRing R] [Consts R] [Div R] [LE R] [DecidableLE R] [LT R] [DecidableLT R] [HasSqrt R] [RegConsts R]

theorem foldlM_inv {τ β : Type} (g : τ → β → Option τ) (P : τ → Prop) (l : List β)
    (hP : ∀ t b t', P t → b ∈ l → g t b = some t' → P t') (t t' : τ) (h0 : P t)
    (h : List.foldlM g t l = some t') : P t' := by
  induction l generalizing t with
  | nil => simp at h; subst h; exact h0
  | cons b bs ih =>
    simp only [List.foldlM_cons] at h
    cases hg : g t b with
    | none => simp [hg] at h
    | some t1 =>
      simp only [hg, Option.bind_some, Option.bind_eq_bind] at h
      exact ih (fun t b t' ht hb => hP t b t' ht (by simp [hb])) t1 (hP t b t1 h0 (by simp) hg) h

end sym
end Qvnt.Gen2
