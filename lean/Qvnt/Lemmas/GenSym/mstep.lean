/- `mstep` of GenSym.lean (one module per declaration, tools/lean_split.py) -/
import Qvnt.Generated.Regs
import Qvnt.Generated.Kernels
import Qvnt.Lemmas.Bits
import Mathlib.Tactic.Ring
import Mathlib.Algebra.Ring.Basic
import Qvnt.Lemmas.Queue
import Qvnt.Model.Reg

set_option linter.unusedSectionVars false
namespace Qvnt.Gen2
open Qvnt Qvnt.Gen
variable {R : Type}
section sym
variable [CommRing R] [Consts R] [Div R] [LE R] [DecidableLE R] [LT R] [DecidableLT R] [HasSqrt R] [RegConsts R]

/-- one block of `Sym::finish` in the model, as a function of the state pair -/
def mstep (p : Sym R × List Nat) (b : MultiOp R × Sep) : Option (Sym R × List Nat) := Sym.stepBlock (some p) b

end sym
end Qvnt.Gen2
