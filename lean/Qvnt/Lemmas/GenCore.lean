/-
The parts of the translated code every other equality depends on, kept in a module of their own so that
a kernel file that no longer translates (or no longer equals the model) does not take the register / queue
equalities of `GenRegs2` down with it: `math::rotate`, `count_bits`, the wrapped i-power arithmetic, and the
element-wise sweep of `dispatch.rs` (`for_each`, `for_each_par`).
-/
import Qvnt.Generated.Kernels
import Qvnt.Lemmas.Bits
import Mathlib.Tactic.Ring
import Mathlib.Algebra.Ring.Basic

namespace Qvnt.Gen
open Qvnt

variable {R : Type}

theorem rotate_eq [Neg R] (z : Cx R) (q : Nat) : Gen.rotate z q = Qvnt.rotate z q := by
  unfold Gen.rotate Qvnt.rotate
  by_cases h2 : q &&& 2 = 0 <;> by_cases h1 : q &&& 1 = 0 <;> simp [h1, h2]

theorem count_bits_eq (n : Nat) : Gen.count_bits n = countBits n := rfl

theorem negWord_eq (c : Nat) : wrapAdd 64 (notW 64 c) 1 = negWord c := by
  unfold wrapAdd notW negWord W; rfl

theorem yIPow_eq (a : Nat) : notW 32 (wrapAdd 32 (popcount a) 1) = yIPow a := by
  unfold wrapAdd notW yIPow
  have : (popcount a + 1) % 2 ^ 32 % 2 ^ 32 = (popcount a + 1) % 2 ^ 32 := Nat.mod_mod _ _
  omega

section sweep

/-- `!idx & ctrl == 0` on 64-bit words says "every control bit of `ctrl` is set in `idx`" -/
theorem ctrlTest_iff (idx ctrl : Nat) (hc : ctrl < 2 ^ 64) :
    (notW 64 idx &&& ctrl = 0) ↔ (idx &&& ctrl = ctrl) := by
  unfold notW
  have h1 : 2 ^ 64 - 1 - idx % 2 ^ 64 = 2 ^ 64 - (idx % 2 ^ 64 + 1) := by omega
  rw [h1]
  constructor
  · intro h
    apply Nat.eq_of_testBit_eq; intro i
    have := congrArg (fun n => n.testBit i) h
    simp only [Nat.testBit_and, Nat.zero_testBit, Nat.testBit_two_pow_sub_succ (Nat.mod_lt _ (by decide : 0 < 2 ^ 64)),
      Nat.testBit_mod_two_pow] at this
    rw [Nat.testBit_and]
    by_cases hi : i < 64
    · simp [hi] at this
      cases hb : idx.testBit i <;> cases hcb : ctrl.testBit i <;> simp_all
    · have : ctrl.testBit i = false := Nat.testBit_lt_two_pow (lt_of_lt_of_le hc (Nat.pow_le_pow_right (by decide) (by omega)))
      simp [this]
  · intro h
    apply Nat.eq_of_testBit_eq; intro i
    have := congrArg (fun n => n.testBit i) h
    simp only [Nat.testBit_and] at this
    simp only [Nat.testBit_and, Nat.zero_testBit, Nat.testBit_two_pow_sub_succ (Nat.mod_lt _ (by decide : 0 < 2 ^ 64)),
      Nat.testBit_mod_two_pow]
    by_cases hi : i < 64
    · cases hb : idx.testBit i <;> cases hcb : ctrl.testBit i <;> simp_all
    · simp [hi]

variable [Add R] [Sub R] [Mul R] [Neg R] [Consts R]

/-- the element `for_each` writes is the element the model's `SingleOp.apply` defines -/
theorem forEach_eq (g : SingleOp R) (hc : g.ctrl < 2 ^ 64) (ψ : State R) (idx : Nat) :
    Gen.forEach g.func.op ψ g.ctrl idx = g.apply ψ idx := by
  unfold Gen.forEach SingleOp.apply
  by_cases h0 : g.ctrl = 0
  · simp [h0]
  · have := ctrlTest_iff idx g.ctrl hc
    by_cases h1 : idx &&& g.ctrl = g.ctrl
    · simp [h0, h1, this.mpr h1]
    · have h2 : ¬ (notW 64 idx &&& g.ctrl = 0) := fun h => h1 (this.mp h)
      simp [h0, h1, h2]

/-- the parallel sweep computes every element by the same expression as the sequential one -/
theorem forEachPar_eq (op : State R → Nat → Cx R) (ψ : State R) (ctrl idx : Nat) :
    Gen.forEachPar op ψ ctrl idx = Gen.forEach op ψ ctrl idx := rfl

theorem forEachTwins_true : Gen.forEachTwins = true := rfl

end sweep

end Qvnt.Gen
