/-
The parts of the translated code every other equality depends on, kept in a module of their own so that
a kernel file that no longer translates (or no longer equals the model) does not take the register / queue
equalities of `GenRegs2` down with it: `math::rotate`, `count_bits`, the wrapped i-power arithmetic, and the
element-wise sweep of `dispatch.rs` (`for_each`, `for_each_par`).
-/
import Qvnt.Lemmas.GenCore.rotate_eq
import Qvnt.Lemmas.GenCore.count_bits_eq
import Qvnt.Lemmas.GenCore.negWord_eq
import Qvnt.Lemmas.GenCore.yIPow_eq
import Qvnt.Lemmas.GenCore.ctrlTest_iff
import Qvnt.Lemmas.GenCore.forEach_eq
import Qvnt.Lemmas.GenCore.forEachPar_eq
import Qvnt.Lemmas.GenCore.forEachTwins_true
