/-
Umbrella: the translated functions that involve the classical register, one module per subject:
  GenCreg (register/class.rs: new, get_by_mask, fmt, *, *=)   GenMeas (quant.rs: measure_mask, measure, reset_by_mask, get_vreg_by)
  GenSym (qasm/sym.rs: reset, measure, finish)
-/
import Qvnt.Lemmas.GenCreg
import Qvnt.Lemmas.GenMeas
import Qvnt.Lemmas.GenSym
