/- `is_valid`, `acts_on`, `dgr` of the translated kernels equal the model's (split out of GenKernels.lean) -/
import Qvnt.Lemmas.GenKTac

namespace Qvnt.Gen
open Qvnt

variable {R : Type}

/-! ### `is_valid`, `acts_on`, `dgr`: equal to the model's by unfolding -/
section fns

theorem id_isValid_eq : Gen.id_isValid  = (Atom.id : Atom R).isValid := by cases_bool_rfl
theorem id_actsOn_eq : Gen.id_actsOn  = (Atom.id : Atom R).actsOn := rfl
theorem id_dgr_eq [Neg R] : (Gen.id_dgr  : Atom R) = (Atom.id : Atom R).dgr := by cases_bool_rfl
theorem x_isValid_eq (a : Nat) : Gen.x_isValid a = (Atom.x a : Atom R).isValid := by cases_bool_rfl
theorem x_actsOn_eq (a : Nat) : Gen.x_actsOn a = (Atom.x a : Atom R).actsOn := rfl
theorem x_dgr_eq [Neg R] (a : Nat) : (Gen.x_dgr a : Atom R) = (Atom.x a : Atom R).dgr := by cases_bool_rfl
theorem y_isValid_eq (a : Nat) (p : Nat) : Gen.y_isValid a p = (Atom.y a p : Atom R).isValid := by cases_bool_rfl
theorem y_actsOn_eq (a : Nat) (p : Nat) : Gen.y_actsOn a p = (Atom.y a p : Atom R).actsOn := rfl
theorem y_dgr_eq [Neg R] (a : Nat) (p : Nat) : (Gen.y_dgr a p : Atom R) = (Atom.y a p : Atom R).dgr := by cases_bool_rfl
theorem z_isValid_eq (a : Nat) : Gen.z_isValid a = (Atom.z a : Atom R).isValid := by cases_bool_rfl
theorem z_actsOn_eq (a : Nat) : Gen.z_actsOn a = (Atom.z a : Atom R).actsOn := rfl
theorem z_dgr_eq [Neg R] (a : Nat) : (Gen.z_dgr a : Atom R) = (Atom.z a : Atom R).dgr := by cases_bool_rfl
theorem s_isValid_eq (a : Nat) (d : Bool) : Gen.s_isValid a d = (Atom.s a d : Atom R).isValid := by cases_bool_rfl
theorem s_actsOn_eq (a : Nat) (d : Bool) : Gen.s_actsOn a d = (Atom.s a d : Atom R).actsOn := rfl
theorem s_dgr_eq [Neg R] (a : Nat) (d : Bool) : (Gen.s_dgr a d : Atom R) = (Atom.s a d : Atom R).dgr := by cases_bool_rfl
theorem t_isValid_eq (a : Nat) (d : Bool) : Gen.t_isValid a d = (Atom.t a d : Atom R).isValid := by cases_bool_rfl
theorem t_actsOn_eq (a : Nat) (d : Bool) : Gen.t_actsOn a d = (Atom.t a d : Atom R).actsOn := rfl
theorem t_dgr_eq [Neg R] (a : Nat) (d : Bool) : (Gen.t_dgr a d : Atom R) = (Atom.t a d : Atom R).dgr := by cases_bool_rfl
theorem rx_isValid_eq (a : Nat) (ph : Cx R) : Gen.rx_isValid a ph = (Atom.rx a ph : Atom R).isValid := by cases_bool_rfl
theorem rx_actsOn_eq (a : Nat) (ph : Cx R) : Gen.rx_actsOn a ph = (Atom.rx a ph : Atom R).actsOn := rfl
theorem rx_dgr_eq [Neg R] (a : Nat) (ph : Cx R) : (Gen.rx_dgr a ph : Atom R) = (Atom.rx a ph : Atom R).dgr := by cases_bool_rfl
theorem ry_isValid_eq (a : Nat) (ph : Cx R) : Gen.ry_isValid a ph = (Atom.ry a ph : Atom R).isValid := by cases_bool_rfl
theorem ry_actsOn_eq (a : Nat) (ph : Cx R) : Gen.ry_actsOn a ph = (Atom.ry a ph : Atom R).actsOn := rfl
theorem ry_dgr_eq [Neg R] (a : Nat) (ph : Cx R) : (Gen.ry_dgr a ph : Atom R) = (Atom.ry a ph : Atom R).dgr := by cases_bool_rfl
theorem rz_isValid_eq (a : Nat) (ph : Cx R) : Gen.rz_isValid a ph = (Atom.rz a ph : Atom R).isValid := by cases_bool_rfl
theorem rz_actsOn_eq (a : Nat) (ph : Cx R) : Gen.rz_actsOn a ph = (Atom.rz a ph : Atom R).actsOn := rfl
theorem rz_dgr_eq [Neg R] (a : Nat) (ph : Cx R) : (Gen.rz_dgr a ph : Atom R) = (Atom.rz a ph : Atom R).dgr := by cases_bool_rfl
theorem rxx_isValid_eq (a : Nat) (ph : Cx R) : Gen.rxx_isValid a ph = (Atom.rxx a ph : Atom R).isValid := by cases_bool_rfl
theorem rxx_actsOn_eq (a : Nat) (ph : Cx R) : Gen.rxx_actsOn a ph = (Atom.rxx a ph : Atom R).actsOn := rfl
theorem rxx_dgr_eq [Neg R] (a : Nat) (ph : Cx R) : (Gen.rxx_dgr a ph : Atom R) = (Atom.rxx a ph : Atom R).dgr := by cases_bool_rfl
theorem ryy_isValid_eq (a : Nat) (ph : Cx R) : Gen.ryy_isValid a ph = (Atom.ryy a ph : Atom R).isValid := by cases_bool_rfl
theorem ryy_actsOn_eq (a : Nat) (ph : Cx R) : Gen.ryy_actsOn a ph = (Atom.ryy a ph : Atom R).actsOn := rfl
theorem ryy_dgr_eq [Neg R] (a : Nat) (ph : Cx R) : (Gen.ryy_dgr a ph : Atom R) = (Atom.ryy a ph : Atom R).dgr := by cases_bool_rfl
theorem rzz_isValid_eq (a : Nat) (ph : Cx R) : Gen.rzz_isValid a ph = (Atom.rzz a ph : Atom R).isValid := by cases_bool_rfl
theorem rzz_actsOn_eq (a : Nat) (ph : Cx R) : Gen.rzz_actsOn a ph = (Atom.rzz a ph : Atom R).actsOn := rfl
theorem rzz_dgr_eq [Neg R] (a : Nat) (ph : Cx R) : (Gen.rzz_dgr a ph : Atom R) = (Atom.rzz a ph : Atom R).dgr := by cases_bool_rfl
theorem h1_isValid_eq (a : Nat) : Gen.h1_isValid a = (Atom.h1 a : Atom R).isValid := by cases_bool_rfl
theorem h1_actsOn_eq (a : Nat) : Gen.h1_actsOn a = (Atom.h1 a : Atom R).actsOn := rfl
theorem h1_dgr_eq [Neg R] (a : Nat) : (Gen.h1_dgr a : Atom R) = (Atom.h1 a : Atom R).dgr := by cases_bool_rfl
theorem h2_isValid_eq (a : Nat) (b : Nat) (ab : Nat) : Gen.h2_isValid a b ab = (Atom.h2 a b ab : Atom R).isValid := by cases_bool_rfl
theorem h2_actsOn_eq (a : Nat) (b : Nat) (ab : Nat) : Gen.h2_actsOn a b ab = (Atom.h2 a b ab : Atom R).actsOn := rfl
theorem h2_dgr_eq [Neg R] (a : Nat) (b : Nat) (ab : Nat) : (Gen.h2_dgr a b ab : Atom R) = (Atom.h2 a b ab : Atom R).dgr := by cases_bool_rfl
theorem swap_isValid_eq (a : Nat) : Gen.swap_isValid a = (Atom.swap a : Atom R).isValid := by cases_bool_rfl
theorem swap_actsOn_eq (a : Nat) : Gen.swap_actsOn a = (Atom.swap a : Atom R).actsOn := rfl
theorem swap_dgr_eq [Neg R] (a : Nat) : (Gen.swap_dgr a : Atom R) = (Atom.swap a : Atom R).dgr := by cases_bool_rfl
theorem i_swap_isValid_eq (a : Nat) (d : Bool) : Gen.i_swap_isValid a d = (Atom.iSwap a d : Atom R).isValid := by cases_bool_rfl
theorem i_swap_actsOn_eq (a : Nat) (d : Bool) : Gen.i_swap_actsOn a d = (Atom.iSwap a d : Atom R).actsOn := rfl
theorem i_swap_dgr_eq [Neg R] (a : Nat) (d : Bool) : (Gen.i_swap_dgr a d : Atom R) = (Atom.iSwap a d : Atom R).dgr := by cases_bool_rfl
theorem sqrt_swap_isValid_eq (a : Nat) (d : Bool) : Gen.sqrt_swap_isValid a d = (Atom.sqrtSwap a d : Atom R).isValid := by cases_bool_rfl
theorem sqrt_swap_actsOn_eq (a : Nat) (d : Bool) : Gen.sqrt_swap_actsOn a d = (Atom.sqrtSwap a d : Atom R).actsOn := rfl
theorem sqrt_swap_dgr_eq [Neg R] (a : Nat) (d : Bool) : (Gen.sqrt_swap_dgr a d : Atom R) = (Atom.sqrtSwap a d : Atom R).dgr := by cases_bool_rfl
theorem sqrt_i_swap_isValid_eq (a : Nat) (d : Bool) : Gen.sqrt_i_swap_isValid a d = (Atom.sqrtISwap a d : Atom R).isValid := by cases_bool_rfl
theorem sqrt_i_swap_actsOn_eq (a : Nat) (d : Bool) : Gen.sqrt_i_swap_actsOn a d = (Atom.sqrtISwap a d : Atom R).actsOn := rfl
theorem sqrt_i_swap_dgr_eq [Neg R] (a : Nat) (d : Bool) : (Gen.sqrt_i_swap_dgr a d : Atom R) = (Atom.sqrtISwap a d : Atom R).dgr := by cases_bool_rfl
end fns

end Qvnt.Gen
