/-
`register/virtl.rs`: construction and index forms; `QReg::get_vreg`.
(split out of GenRegs2.lean so that an equality that no longer holds blocks only the properties that rely on it)
-/
import Qvnt.Lemmas.GenBits
import Qvnt.Lemmas.GenQuant
import Qvnt.Lemmas.GenRegs

set_option linter.unusedSectionVars false

namespace Qvnt.Gen2
open Qvnt Qvnt.Gen

variable {R : Type}

/-! ### virtual registers (`register/virtl.rs`) -/

def vregOfModel (v : VReg) : VRegG := ⟨v.bits⟩

theorem vreg_new_with_mask_eq (m : Nat) : vreg_new_with_mask m = vregOfModel (VReg.ofMask m) := by
  have := bitsList_eq m
  unfold bitsList at this
  simp [vreg_new_with_mask, vregOfModel, VReg.ofMask, this]

theorem vreg_new_eq (n : Nat) : vreg_new n = vregOfModel (VReg.new n) := by
  unfold vreg_new VReg.new CReg.maskOf W
  rw [vreg_new_with_mask_eq]
  by_cases h : n ≥ 64
  · simp [h, Qvnt.notW]
  · have hn : n < 64 := by omega
    simp [h, shl_one n hn, mask_eq n hn]

theorem vreg_index_eq (v : VReg) (i : Nat) : vreg_index (vregOfModel v) i = (v.idx i).getD 0 := by
  simp [vreg_index, vregOfModel, VReg.idx, List.getD_eq_getElem?_getD]

theorem foldl_filterMap' {α β γ : Type} (f : β → Option γ) (g : α → γ → α) (l : List β) (a : α) :
    List.foldl g a (List.filterMap f l) = List.foldl (fun acc b => match f b with | some c => g acc c | none => acc) a l := by
  induction l generalizing a with
  | nil => rfl
  | cons x xs ih =>
    simp only [List.filterMap_cons, List.foldl_cons]
    cases f x <;> simp [ih]

theorem vreg_index_by_eq (v : VReg) (f : Nat → Bool) : vreg_index_by (vregOfModel v) f = v.idxBy f := by
  unfold vreg_index_by VReg.idxBy vregOfModel Rs.enumerate
  simp only [foldl_filterMap', List.foldl_map]
  congr 1
  funext acc p
  cases f p.2 <;> simp

theorem quant_get_vreg_eq (r : QReg R) : quant_get_vreg (ofModel r) = vregOfModel r.getVReg := by
  simp [quant_get_vreg, QReg.getVReg, ofModel, vreg_new_with_mask_eq]
theorem quant_get_vreg_by_eq (r : QReg R) (mask : Nat) :
    quant_get_vreg_by (ofModel r) mask = (r.getVRegBy mask).map vregOfModel := by
  unfold quant_get_vreg_by QReg.getVRegBy
  simp only [ofModel, notW_eq, vreg_new_with_mask_eq]
  by_cases h : mask &&& CReg.notW r.qMask = 0 <;> simp [h]

end Qvnt.Gen2
