/-
`register/virtl.rs`: construction and index forms; `QReg::get_vreg`.
(split out of GenRegs2.lean so that an equality that no longer holds blocks only the properties that rely on it)
-/
import Qvnt.Lemmas.GenVirtl.vregOfModel
import Qvnt.Lemmas.GenVirtl.vreg_new_with_mask_eq
import Qvnt.Lemmas.GenVirtl.vreg_new_eq
import Qvnt.Lemmas.GenVirtl.vreg_index_eq
import Qvnt.Lemmas.GenVirtl.foldl_filterMap_p
import Qvnt.Lemmas.GenVirtl.vreg_index_by_eq
import Qvnt.Lemmas.GenVirtl.quant_get_vreg_eq
import Qvnt.Lemmas.GenVirtl.quant_get_vreg_by_eq
