/-
LEMMAS — totality of the interpreter model (`Qvnt/Model/Interp.lean`): no `Res.panic` is
reachable from `Gates.process`, `Macro.process`, `Interp.addAst`; `Sym.finish` only depends
on the length of the outcome stream. Used by `Props/C12`.
-/
import Qvnt.Model.Interp
import Qvnt.Lemmas.Bits
import Qvnt.Lemmas.Ctor

namespace Qvnt
open Qvnt.Generated

/-! ## 0. generic helpers -/

/-- "not a panic" -/
def Res.NoPanic {α : Type} (r : Res α) : Prop := ∀ s, r ≠ .panic s

theorem Res.noPanic_ok {α : Type} (a : α) : (Res.ok a).NoPanic := fun _ h => by cases h
theorem Res.noPanic_err {α : Type} (e : IntError) : (Res.err e : Res α).NoPanic :=
  fun _ h => by cases h

theorem Res.noPanic_iff {α : Type} (r : Res α) :
    r.NoPanic ↔ (∃ a, r = .ok a) ∨ (∃ e, r = .err e) := by
  constructor
  · intro h
    cases r with
    | ok a => exact .inl ⟨a, rfl⟩
    | err e => exact .inr ⟨e, rfl⟩
    | panic s => exact absurd rfl (h s)
  · rintro (⟨a, rfl⟩ | ⟨e, rfl⟩)
    · exact Res.noPanic_ok a
    · exact Res.noPanic_err e

/-- masks of machine words stay machine words under `|||` -/
theorem foldl_or_lt (l : List Nat) (h : ∀ m ∈ l, m < 2 ^ 64) :
    l.foldl (· ||| ·) 0 < 2 ^ 64 := by
  suffices H : ∀ acc, acc < 2 ^ 64 → l.foldl (· ||| ·) acc < 2 ^ 64 from H 0 (by omega)
  induction l with
  | nil => intro acc h; exact h
  | cons a l ih =>
    intro acc hacc
    simp only [List.foldl_cons]
    exact ih (fun m hm => h m (List.mem_cons_of_mem _ hm)) _
      (Nat.or_lt_two_pow hacc (h a List.mem_cons_self))

/-! ## 1. built-in gates -/

section gates
variable {R : Type}

theorem ofChecked_isSome {g : Atom R} (h : g.isValid = true) : (Op.ofChecked g).isSome = true := by
  simp [Op.ofChecked, SingleOp.checked, h]

theorem rz_isSome (ph : Cx R) (m : Nat) (h : popcount m = 1) : (Op.rz ph m).isSome = true :=
  ofChecked_isSome (by simp [Atom.isValid, h])

theorem ry_isSome (ph : Cx R) (m : Nat) (h : popcount m = 1) : (Op.ry ph m).isSome = true :=
  ofChecked_isSome (by simp [Atom.isValid, h])

theorem u3_isSome (a b c : Cx R) (m : Nat) (h : popcount m = 1) : (Op.u3 a b c m).isSome = true := by
  obtain ⟨x, hx⟩ := Option.isSome_iff_exists.mp (rz_isSome c m h)
  obtain ⟨y, hy⟩ := Option.isSome_iff_exists.mp (ry_isSome a m h)
  obtain ⟨z, hz⟩ := Option.isSome_iff_exists.mp (rz_isSome b m h)
  simp [Op.u3, hx, hy, hz]

variable [AngleFns R]

/-- arms `any` / `dgr`: the constructors accept every machine word -/
theorem ctorApply_any (ctor : String) (hc : ctor ∈ ["x", "y", "z", "s", "t", "h", "qft"])
    (args : List R) (m : Nat) (hm : m < 2 ^ 64) : (ctorApply ctor args m).isSome = true := by
  simp only [List.mem_cons, List.not_mem_nil, or_false] at hc
  rcases hc with rfl | rfl | rfl | rfl | rfl | rfl | rfl
  · simp [ctorApply]
  · simp [ctorApply]
  · simp [ctorApply]
  · simp [ctorApply]
  · simp [ctorApply]
  · obtain ⟨o, ho⟩ := h_isSome (R := R) m hm
    simp [ctorApply, ho]
  · obtain ⟨o, ho⟩ := qft_isSome (R := R) m hm AngleFns.qftPhase
    simp [ctorApply, ho]

/-- arm `two` and arm `r 2`: two-qubit constructors accept exactly the masks with two bits -/
theorem ctorApply_two (ctor : String)
    (hc : ctor ∈ ["swap", "sqrt_swap", "i_swap", "sqrt_i_swap", "rxx", "ryy", "rzz"])
    (args : List R) (m : Nat) (hm : popcount m = 2) : (ctorApply ctor args m).isSome = true := by
  simp only [List.mem_cons, List.not_mem_nil, or_false] at hc
  rcases hc with rfl | rfl | rfl | rfl | rfl | rfl | rfl <;>
    simp [ctorApply, Op.swap, Op.sqrtSwap, Op.iSwap, Op.sqrtISwap, Op.rxx, Op.ryy, Op.rzz,
      Op.ofChecked, SingleOp.checked, Atom.isValid, hm]

/-- arms `r 1`, `u1`, `u2`, `u3`: one-qubit constructors accept exactly the single-bit masks -/
theorem ctorApply_one (ctor : String) (hc : ctor ∈ ["rx", "ry", "rz", "u1", "u2", "u3"])
    (args : List R) (m : Nat) (hm : popcount m = 1) : (ctorApply ctor args m).isSome = true := by
  simp only [List.mem_cons, List.not_mem_nil, or_false] at hc
  rcases hc with rfl | rfl | rfl | rfl | rfl | rfl
  · simp [ctorApply, Op.rx, Op.ofChecked, SingleOp.checked, Atom.isValid, hm]
  · simp [ctorApply, Op.ry, Op.ofChecked, SingleOp.checked, Atom.isValid, hm]
  · simp [ctorApply, Op.rz, Op.ofChecked, SingleOp.checked, Atom.isValid, hm]
  · simp [ctorApply, Op.u1, Op.rz, Op.ofChecked, SingleOp.checked, Atom.isValid, hm]
  · simpa [ctorApply, Op.u2] using u3_isSome (R := R) _ _ _ m hm
  · simpa [ctorApply] using u3_isSome (R := R) _ _ _ m hm

/-- what each row of the generated table binds: the constructor belongs to the family whose
validity test is the popcount test of the row's arm -/
def rowOK (row : Row) : Bool :=
  match row.arm with
  | .any | .dgr => ["x", "y", "z", "s", "t", "h", "qft"].contains row.ctor
  | .two => ["swap", "sqrt_swap", "i_swap", "sqrt_i_swap"].contains row.ctor
  | .r 1 => ["rx", "ry", "rz"].contains row.ctor
  | .r 2 => ["rxx", "ryy", "rzz"].contains row.ctor
  | .r _ => false
  | .u1 | .u2 | .u3 => true

theorem gateTable_rowOK : ∀ row ∈ gateTable, rowOK row = true := by decide

variable [Neg R]

theorem guard2_noPanic {α : Type} {p q : Prop} [Decidable p] [Decidable q] {e1 e2 : IntError}
    {r : Res α} (h : ¬p → ¬q → r.NoPanic) :
    (if p then .err e1 else if q then .err e2 else r).NoPanic := by
  by_cases hp : p
  · simp only [hp, if_true]; exact Res.noPanic_err _
  · by_cases hq : q
    · simp only [hp, hq, if_true, if_false]; exact Res.noPanic_err _
    · simp only [hp, hq, if_false]; exact h hp hq

/-- closes `(match o with | some o => .ok o | none => .panic _).NoPanic` from `o.isSome` -/
local macro "build_ok " h:term : tactic =>
  `(tactic| (obtain ⟨o, ho⟩ := Option.isSome_iff_exists.mp $h; rw [ho]; exact Res.noPanic_ok _))

/-- one expanded `gate!` arm never reaches the constructor's `expect`: the popcount test of
the arm is the validity test of the constructor it is bound to -/
theorem runArm_noPanic (name : String) (row : Row) (hrow : row ∈ gateTable)
    (regsL : List Nat) (hr : ∀ m ∈ regsL, m < 2 ^ 64) (args : List R) :
    (runArm name row regsL args).NoPanic := by
  have hok := gateTable_rowOK row hrow
  have hlt := foldl_or_lt regsL hr
  unfold rowOK at hok
  cases harm : row.arm with
  | any =>
    simp only [harm, List.contains_eq_mem, decide_eq_true_eq] at hok
    simp only [runArm, harm]
    refine guard2_noPanic (fun _ _ => ?_)
    build_ok (ctorApply_any row.ctor hok args _ hlt)
  | dgr =>
    simp only [harm, List.contains_eq_mem, decide_eq_true_eq] at hok
    simp only [runArm, harm]
    refine guard2_noPanic (fun _ _ => ?_)
    build_ok (ctorApply_any row.ctor hok args _ hlt)
  | two =>
    simp only [harm, List.contains_eq_mem, decide_eq_true_eq] at hok
    have hmem : row.ctor ∈ ["swap", "sqrt_swap", "i_swap", "sqrt_i_swap", "rxx", "ryy", "rzz"] := by
      simp only [List.mem_cons, List.not_mem_nil, or_false] at hok ⊢
      rcases hok with h | h | h | h <;> simp [h]
    simp only [runArm, harm]
    refine guard2_noPanic (fun hp _ => ?_)
    build_ok (ctorApply_two row.ctor hmem args _ (Decidable.of_not_not hp))
  | r n =>
    simp only [runArm, harm]
    refine guard2_noPanic (fun hp _ => ?_)
    have hp' := Decidable.of_not_not hp
    have hsome : (ctorApply row.ctor args (regsL.foldl (· ||| ·) 0)).isSome = true := by
      match n, hok, hp' with
      | 1, hok, hp' =>
        simp only [harm, List.contains_eq_mem, decide_eq_true_eq] at hok
        have hmem : row.ctor ∈ ["rx", "ry", "rz", "u1", "u2", "u3"] := by
          simp only [List.mem_cons, List.not_mem_nil, or_false] at hok ⊢
          rcases hok with h | h | h <;> simp [h]
        exact ctorApply_one row.ctor hmem args _ hp'
      | 2, hok, hp' =>
        simp only [harm, List.contains_eq_mem, decide_eq_true_eq] at hok
        have hmem : row.ctor ∈ ["swap", "sqrt_swap", "i_swap", "sqrt_i_swap", "rxx", "ryy", "rzz"] := by
          simp only [List.mem_cons, List.not_mem_nil, or_false] at hok ⊢
          rcases hok with h | h | h <;> simp [h]
        exact ctorApply_two row.ctor hmem args _ hp'
      | 0, hok, _ => simp [harm] at hok
      | n + 3, hok, _ => simp [harm] at hok
    build_ok hsome
  | u1 =>
    simp only [runArm, harm]
    refine guard2_noPanic (fun hp _ => ?_)
    build_ok (ctorApply_one "u1" (by simp) args _ (Decidable.of_not_not hp))
  | u2 =>
    simp only [runArm, harm]
    refine guard2_noPanic (fun hp _ => ?_)
    build_ok (ctorApply_one "u2" (by simp) args _ (Decidable.of_not_not hp))
  | u3 =>
    simp only [runArm, harm]
    refine guard2_noPanic (fun hp _ => ?_)
    build_ok (ctorApply_one "u3" (by simp) args _ (Decidable.of_not_not hp))

/-- the prefix guard of `gates::process` (a test on BYTES and on the first character)
implies that the name has at least one CHARACTER, which is what the fuel counts -/
theorem guard_length_pos (name : String)
    (h : (decide (name.utf8ByteSize > 1) &&
      (name.toList.head? == some 'c' || name.toList.head? == some 'C')) = true) :
    1 ≤ name.length := by
  rw [← String.length_toList]
  cases hl : name.toList with
  | nil => simp [hl] at h
  | cons a l => simp

/-- sharper: a one-character name starting with `c`/`C` has one byte, so the guard needs a
second character (a multi-byte single character such as "é" fails the first-character test) -/
theorem guard_length_two (name : String)
    (h : (decide (name.utf8ByteSize > 1) &&
      (name.toList.head? == some 'c' || name.toList.head? == some 'C')) = true) :
    2 ≤ name.length := by
  rw [← String.length_toList]
  have hn : name = String.ofList name.toList := String.ofList_toList.symm
  cases hl : name.toList with
  | nil => simp [hl] at h
  | cons a l =>
    cases l with
    | cons b l => simp
    | nil =>
      exfalso
      rw [hl] at hn
      have h1 : name = String.singleton a := by rw [hn]; rfl
      have hs : name.utf8ByteSize = a.utf8Size := by rw [h1, String.utf8ByteSize_singleton]
      simp only [hl, List.head?_cons, Bool.and_eq_true, decide_eq_true_eq, Bool.or_eq_true,
        beq_iff_eq, Option.some.injEq] at h
      rcases h.2 with rfl | rfl
      · rw [hs] at h; exact absurd h.1 (by decide)
      · rw [hs] at h; exact absurd h.1 (by decide)

theorem dropFirst_length (name : String) : (dropFirst name).length = name.length - 1 := by
  simp [dropFirst, String.length_ofList, String.length_toList]

/-- the recursion on the gate name: fuel `≥ name.length` never runs out -/
theorem Gates.go_noPanic (args : List R) :
    ∀ (fuel : Nat) (name : String) (regs : List Nat), name.length ≤ fuel →
      (∀ m ∈ regs, m < 2 ^ 64) → (Gates.process.go args fuel name regs).NoPanic := by
  intro fuel
  induction fuel with
  | zero =>
    intro name regs hlen hr
    rw [Gates.process.go.eq_1]
    split
    · rename_i hg
      have := guard_length_pos name hg
      omega
    · split
      · rename_i row hfind
        exact runArm_noPanic name row (List.mem_of_find?_eq_some hfind) regs hr args
      · exact Res.noPanic_err _
  | succ fuel ih =>
    intro name regs hlen hr
    cases regs with
    | nil =>
      rw [Gates.process.go.eq_2 _ _ _ (by omega)]
      split
      · exact Res.noPanic_err _
      · split
        · rename_i row hfind
          exact runArm_noPanic name row (List.mem_of_find?_eq_some hfind) [] hr args
        · exact Res.noPanic_err _
    | cons ctrl rest =>
      rw [Gates.process.go.eq_3]
      split
      · have hrec := ih (dropFirst name) rest (by rw [dropFirst_length]; omega)
          (fun m hm => hr m (List.mem_cons_of_mem _ hm))
        split
        · split
          · exact Res.noPanic_ok _
          · exact Res.noPanic_err _
        · exact Res.noPanic_err _
        · exact Res.noPanic_err _
        · exact Res.noPanic_err _
        · rename_i r _ _ _ _
          exact hrec
      · split
        · rename_i row hfind
          exact runArm_noPanic name row (List.mem_of_find?_eq_some hfind) _ hr args
        · exact Res.noPanic_err _

/-- `gates::process` never panics on machine-word masks -/
theorem Gates.process_noPanic (name : String) (regs : List Nat) (args : List R)
    (hr : ∀ m ∈ regs, m < 2 ^ 64) : (Gates.process name regs args).NoPanic :=
  Gates.go_noPanic args name.length name regs (Nat.le_refl _) hr

end gates
/-! ## 2. user-defined gates -/

theorem Except.bind_eq_ok' {ε α β : Type} {x : Except ε α} {f : α → Except ε β} {b : β}
    (h : (x >>= f) = .ok b) : ∃ a, x = .ok a ∧ f a = .ok b := by
  cases x with
  | error e => cases h
  | ok a => exact ⟨a, rfl, h⟩

theorem forIn_unit_ok {ε α : Type} (f : α → Unit → Except ε (ForInStep Unit)) (l : List α)
    (hf : ∀ a r, f a () = .ok r → r = .yield ())
    (u : Unit) (h : forIn l () f = Except.ok u) :
    ∀ a ∈ l, f a () = .ok (.yield ()) := by
  induction l with
  | nil => intro a ha; cases ha
  | cons x l ih =>
    rw [List.forIn_cons] at h
    obtain ⟨r, hr, hrest⟩ := Except.bind_eq_ok' h
    have := hf x r hr
    subst this
    intro a ha
    rcases List.mem_cons.mp ha with rfl | ha
    · exact hr
    · exact ih hrest a ha

theorem mapM_option_some {α β : Type} (f : α → Option β) (P : β → Prop) (l : List α)
    (h : ∀ a ∈ l, ∃ b, f a = some b ∧ P b) : ∃ r, l.mapM f = some r ∧ ∀ b ∈ r, P b := by
  induction l with
  | nil => exact ⟨[], by simp, by simp⟩
  | cons a l ih =>
    obtain ⟨b, hb, hP⟩ := h a List.mem_cons_self
    obtain ⟨r, hr, hPr⟩ := ih (fun a ha => h a (List.mem_cons_of_mem _ ha))
    refine ⟨b :: r, by simp [List.mapM_cons, hb, hr], ?_⟩
    intro x hx
    rcases List.mem_cons.mp hx with rfl | hx
    · exact hP
    · exact hPr x hx

theorem nodup_length_le (l K : List String) (hn : l.Nodup) (hs : ∀ x ∈ l, x ∈ K) :
    l.length ≤ K.length := by
  induction K generalizing l with
  | nil =>
    cases l with
    | nil => simp
    | cons a l => exact absurd (hs a List.mem_cons_self) (by simp)
  | cons k K ih =>
    have h1 := ih (l.erase k) (hn.erase k) (fun x hx => by
      have hx' := (List.Nodup.mem_erase_iff hn).mp hx
      rcases List.mem_cons.mp (hs x hx'.2) with h | h
      · exact absurd h hx'.1
      · exact h)
    have h2 := List.length_erase (a := k) (l := l)
    simp only [List.length_cons]
    split at h2 <;> omega

theorem lookupLast_zip {α : Type} (ks : List String) (vs : List α) (hlen : vs.length = ks.length)
    (k : String) (hk : k ∈ ks) : ∃ v, lookupLast (ks.zip vs) k = some v ∧ v ∈ vs := by
  unfold lookupLast
  have hmem : k ∈ (ks.zip vs).map Prod.fst := by
    rw [List.map_fst_zip (by omega)]; exact hk
  obtain ⟨p, hp, hpk⟩ := List.mem_map.mp hmem
  cases hf : (ks.zip vs).reverse.find? (fun p => p.1 == k) with
  | none =>
    rw [List.find?_eq_none] at hf
    exact absurd (hf p (List.mem_reverse.mpr hp)) (by simp [hpk])
  | some q =>
    refine ⟨q.2, rfl, ?_⟩
    have := List.mem_reverse.mp (List.mem_of_find?_eq_some hf)
    exact (List.of_mem_zip (a := q.1) (b := q.2) this).2

section macroNew
variable {R : Type}

theorem Macro.new_go_ok (check : Call R → Except IntError Unit) :
    ∀ (body : List (Inner R)) (acc nodes : List (Call R)),
      Macro.new.go check body acc = .ok nodes →
      ∀ c ∈ nodes, c ∈ acc ∨ check c = .ok () := by
  intro body
  induction body with
  | nil =>
    intro acc nodes h c hc
    rw [Macro.new.go.eq_1] at h
    cases h
    exact .inl (List.mem_reverse.mp hc)
  | cons x rest ih =>
    intro acc nodes h c hc
    cases x with
    | other => rw [Macro.new.go.eq_3] at h; cases h
    | call c' =>
      rw [Macro.new.go.eq_2] at h
      split at h
      · rename_i hck
        rcases ih _ _ h c hc with h1 | h1
        · rcases List.mem_cons.mp h1 with rfl | h2
          · exact .inr hck
          · exact .inl h2
        · exact .inr h1
      · cases h

/-- what `Macro::new` checks of a body: every register argument is a formal -/
def MacroOK (m : Macro R) : Prop :=
  ∀ call ∈ m.nodes, ∀ a ∈ call.regs, ∃ name, a = Arg.register name ∧ name ∈ m.regs

variable [Add R] [Sub R] [Mul R] [Neg R] [Div R] [ExprFns R]

/-- `Macro::new` establishes `MacroOK` -/
theorem Macro.new_ok (regs args : List String) (body : List (Inner R)) (m : Macro R)
    (h : Macro.new regs args body = .ok m) : MacroOK m := by
  unfold Macro.new at h
  simp only [] at h
  split at h
  · rename_i nodes hgo
    cases h
    intro c hc a ha
    rcases Macro.new_go_ok _ _ _ _ hgo c hc with h1 | h1
    · cases h1
    · obtain ⟨u, h2, -⟩ := Except.bind_eq_ok' h1
      have := forIn_unit_ok _ _ ?_ _ h2 a ha
      · cases a with
        | qubit n i => exact absurd this (by intro h; cases h)
        | register n =>
          refine ⟨n, rfl, ?_⟩
          by_cases hn : regs.contains n = true
          · simpa using hn
          · simp only [hn] at this
            exact absurd this (by intro h; cases h)
      · intro a r hr
        cases a with
        | qubit n i => exact absurd hr (by intro h; cases h)
        | register n =>
          by_cases hn : regs.contains n = true
          · simp only [hn] at hr
            cases hr; rfl
          · simp only [hn] at hr
            exact absurd hr (by intro h; cases h)
  · cases h

end macroNew

theorem foldl_inv {α β : Type} (P : β → Prop) (step : β → α → β) (l : List α) (init : β)
    (h0 : P init) (hs : ∀ acc, ∀ c ∈ l, P acc → P (step acc c)) : P (l.foldl step init) := by
  induction l generalizing init with
  | nil => exact h0
  | cons a l ih =>
    exact ih _ (hs init a List.mem_cons_self h0)
      (fun acc c hc => hs acc c (List.mem_cons_of_mem _ hc))

theorem lookupLast_some_mem {α : Type} (l : List (String × α)) (k : String) (v : α)
    (h : lookupLast l k = some v) : (k, v) ∈ l := by
  unfold lookupLast at h
  cases hf : l.reverse.find? (fun p => p.1 == k) with
  | none => rw [hf] at h; cases h
  | some q =>
    rw [hf] at h
    have hv : q.2 = v := by simpa using h
    have hk : q.1 = k := by simpa using List.find?_some hf
    have := List.mem_reverse.mp (List.mem_of_find?_eq_some hf)
    rw [← hv, ← hk]; exact this

section macroProcess
variable {R : Type} [Add R] [Sub R] [Mul R] [Neg R] [Div R] [ExprFns R] [AngleFns R]

/-- the invariant of a macro table: every entry satisfies what `Macro::new` checked -/
def MacrosOK (macros : List (String × Macro R)) : Prop := ∀ p ∈ macros, MacroOK p.2

/-- Expansion of a user-defined gate never panics. `K` is any list containing the keys of the
table (its length bounds the nesting depth: the stack is duplicate-free and made of keys). -/
theorem Macro.process_noPanic (macros : List (String × Macro R)) (hM : MacrosOK macros)
    (K : List String) (hK : ∀ p ∈ macros, p.1 ∈ K) :
    ∀ (fuel : Nat) (m : Macro R) (name : String) (regs : List Nat) (args : List R)
      (stack : List String), MacroOK m → (∀ x ∈ regs, x < 2 ^ 64) → stack.Nodup →
      (∀ n ∈ stack, n ∈ K) → K.length + 1 ≤ fuel + stack.length →
      (Macro.process macros fuel m name regs args stack).NoPanic := by
  intro fuel
  induction fuel with
  | zero =>
    intro m name regs args stack _ _ hnd hsub hlen
    have := nodup_length_le stack K hnd hsub
    omega
  | succ fuel ih =>
    intro m name regs args stack hm hr hnd hsub hlen
    rw [Macro.process.eq_2]
    split
    · exact Res.noPanic_err _
    split
    · exact Res.noPanic_err _
    rename_i hlenr _
    have hlenr : regs.length = m.regs.length := Decidable.of_not_not hlenr
    simp only []
    refine foldl_inv Res.NoPanic _ _ _ (Res.noPanic_ok _) ?_
    intro acc c hc hacc
    cases acc with
    | err e => exact hacc
    | panic s => exact hacc
    | ok op =>
      simp only []
      obtain ⟨regsI, hregsI, hlt⟩ := mapM_option_some
        (fun a : Arg => lookupLast (m.regs.zip regs) a.name) (fun v => v < 2 ^ 64) c.regs
        (fun a ha => by
          obtain ⟨n, rfl, hn⟩ := hm c hc a ha
          obtain ⟨v, hv, hvm⟩ := lookupLast_zip m.regs regs hlenr n hn
          exact ⟨v, hv, hr v hvm⟩)
      rw [hregsI]
      simp only []
      split
      · exact Res.noPanic_err _
      · rename_i argsI _
        have hres : ∀ res : Res (MultiOp R), res.NoPanic →
            (match res with | .ok o => Res.ok (op ++ o) | r => r).NoPanic := by
          intro res hres
          cases res with
          | ok o => exact Res.noPanic_ok _
          | err e => exact Res.noPanic_err _
          | panic s => exact hres
        apply hres
        split
        · rename_i k m' hfind
          have hmem := List.mem_of_find?_eq_some hfind
          have hk : k = c.name := by simpa using List.find?_some hfind
          split
          · exact Res.noPanic_err _
          · rename_i hnc
            have hnc' : c.name ∉ stack := by simpa using hnc
            refine ih m' c.name regsI argsI (stack ++ [c.name]) (hM _ hmem) hlt ?_ ?_ ?_
            · rw [List.nodup_append]
              refine ⟨hnd, by simp, ?_⟩
              intro a ha b hb
              rw [List.mem_singleton] at hb
              subst hb
              intro hab; subst hab; exact hnc' ha
            · intro n hn
              rcases List.mem_append.mp hn with h | h
              · exact hsub n h
              · rw [List.mem_singleton] at h
                subst h
                exact hk ▸ hK _ hmem
            · simp only [List.length_append, List.length_singleton]; omega
        · exact Gates.process_noPanic _ _ _ hlt

/-- the call made by `process_apply_gate`: fuel `macros.length + 2`, stack `[name]` -/
theorem Macro.process_top_noPanic (macros : List (String × Macro R)) (hM : MacrosOK macros)
    (m : Macro R) (name : String) (regs : List Nat) (args : List R)
    (hlook : lookupLast macros name = some m) (hr : ∀ x ∈ regs, x < 2 ^ 64) :
    (Macro.process macros (macros.length + 2) m name regs args [name]).NoPanic := by
  have hmem := lookupLast_some_mem macros name m hlook
  refine Macro.process_noPanic macros hM (macros.map (·.1))
    (fun p hp => List.mem_map.mpr ⟨p, hp, rfl⟩) _ m name regs args [name] (hM _ hmem) hr
    (by simp) ?_ (by simp)
  intro n hn
  rw [List.mem_singleton] at hn
  subst hn
  exact List.mem_map.mpr ⟨_, hmem, rfl⟩

end macroProcess

/-! ## 3. the interpreter state -/

namespace Interp
variable {R : Type}

theorem maskByAlias_lt (l : List String) (al : String) : maskByAlias l al < 2 ^ 64 := by
  unfold maskByAlias
  refine foldl_inv (fun acc => acc < 2 ^ 64) _ _ _ (by omega) ?_
  intro acc p _ hacc
  split
  · refine Nat.or_lt_two_pow hacc ?_
    rw [Nat.one_shiftLeft]
    exact Nat.pow_lt_pow_right (by omega) (Nat.mod_lt _ (by decide))
  · exact hacc

theorem getIdx_lt (self changes : Interp R) (q : Bool) (a : Arg) (m : Nat)
    (h : getIdx self changes q a = .ok m) : m < 2 ^ 64 := by
  cases a with
  | qubit al idx =>
    simp only [getIdx] at h
    generalize (if q = true then self.qReg ++ changes.qReg else self.cReg ++ changes.cReg) = l at h
    split at h
    · split at h
      · rename_i b hb
        cases h
        have hmem : m ∈ bitsIterList (maskByAlias l al) := List.mem_of_getElem? hb
        rw [bitsIterList_eq_bitsOf _ (maskByAlias_lt _ _)] at hmem
        obtain ⟨i, hi, rfl, -⟩ := (mem_bitsOf _ _).mp hmem
        exact Nat.pow_lt_pow_right (by omega) hi
      · cases h
    · cases h
  | register al =>
    simp only [getIdx] at h
    generalize (if q = true then self.qReg ++ changes.qReg else self.cReg ++ changes.cReg) = l at h
    split at h
    · cases h; exact maskByAlias_lt _ _
    · cases h

section proc
variable [Add R] [Sub R] [Mul R] [Neg R] [Div R] [ExprFns R] [AngleFns R]

omit [Add R] [Sub R] [Mul R] [Neg R] [Div R] [ExprFns R] [AngleFns R] in
theorem regsOf_lt (self changes : Interp R) :
    ∀ (l : List Arg) (acc r : List Nat), processApply.regsOf self changes l acc = .ok r →
      (∀ x ∈ acc, x < 2 ^ 64) → ∀ x ∈ r, x < 2 ^ 64 := by
  intro l
  induction l with
  | nil =>
    intro acc r h hacc x hx
    rw [processApply.regsOf] at h
    cases h
    exact hacc x (List.mem_reverse.mp hx)
  | cons a l ih =>
    intro acc r h hacc
    rw [processApply.regsOf] at h
    split at h
    · rename_i m hm
      refine ih _ _ h ?_
      intro x hx
      rcases List.mem_cons.mp hx with rfl | hx
      · exact getIdx_lt _ _ _ _ _ hm
      · exact hacc x hx
    · cases h

theorem processApply_noPanic (self changes : Interp R) (c : Call R)
    (hM : MacrosOK (self.macros ++ changes.macros)) : (processApply self changes c).NoPanic := by
  unfold processApply
  split
  · exact Res.noPanic_err _
  rename_i regs hregs
  have hlt := regsOf_lt self changes _ _ _ hregs (by simp)
  split
  · exact Res.noPanic_err _
  rename_i args _
  simp only []
  have hres : ∀ res : Res (MultiOp R), res.NoPanic →
      (match res with
       | .ok o => Res.ok { changes with qOps := changes.qOps.push o }
       | .err e => .err e
       | .panic s => .panic s : PRes R).NoPanic := by
    intro res hres
    cases res with
    | ok o => exact Res.noPanic_ok _
    | err e => exact Res.noPanic_err _
    | panic s => exact absurd rfl (hres s)
  apply hres
  split
  · rename_i m hlook
    exact Macro.process_top_noPanic _ hM m c.name regs args hlook hlt
  · exact Gates.process_noPanic _ _ _ hlt

theorem processApply_ok (self changes ch' : Interp R) (c : Call R)
    (h : processApply self changes c = .ok ch') : ∃ q, ch' = { changes with qOps := q } := by
  unfold processApply at h
  split at h
  · cases h
  split at h
  · cases h
  simp only [] at h
  split at h
  · cases h; exact ⟨_, rfl⟩
  · cases h
  · cases h

omit [Add R] [Sub R] [Mul R] [Neg R] [Div R] [ExprFns R] [AngleFns R] in
theorem MacrosOK_append (a b : List (String × Macro R)) :
    MacrosOK (a ++ b) ↔ MacrosOK a ∧ MacrosOK b := by
  unfold MacrosOK
  simp only [List.mem_append]
  constructor
  · intro h; exact ⟨fun p hp => h p (.inl hp), fun p hp => h p (.inr hp)⟩
  · rintro ⟨h1, h2⟩ p (hp | hp)
    · exact h1 p hp
    · exact h2 p hp

/-- the session invariant -/
def Inv (s : Interp R) : Prop := MacrosOK s.macros ∧ s.qReg.length < 64 ∧ s.cReg.length < 64

/-- the invariant of the pending changes of a chunk -/
def ChInv (self ch : Interp R) : Prop :=
  MacrosOK ch.macros ∧ self.qReg.length + ch.qReg.length < 64 ∧
    self.cReg.length + ch.cReg.length < 64

theorem processNode_noPanic (self ch : Interp R) (hs : MacrosOK self.macros)
    (hc : MacrosOK ch.macros) (n : Node R) : (processNode self ch n).NoPanic := by
  have hM := (MacrosOK_append _ _).mpr ⟨hs, hc⟩
  cases n with
  | qreg al k => simp only [processNode]; split <;> first | exact Res.noPanic_ok _ | exact Res.noPanic_err _
  | creg al k => simp only [processNode]; split <;> first | exact Res.noPanic_ok _ | exact Res.noPanic_err _
  | barrier => exact Res.noPanic_ok _
  | «opaque» => exact Res.noPanic_ok _
  | reset a => simp only [processNode]; split <;> first | exact Res.noPanic_ok _ | exact Res.noPanic_err _
  | measure q c =>
    simp only [processNode]
    split
    · exact Res.noPanic_err _
    split
    · exact Res.noPanic_err _
    split
    · exact Res.noPanic_err _
    · exact Res.noPanic_ok _
  | apply c => exact processApply_noPanic self ch c hM
  | gate name regs args body =>
    simp only [processNode]
    split
    · exact Res.noPanic_err _
    split
    · split
      · exact Res.noPanic_ok _
      · exact Res.noPanic_err _
    · exact Res.noPanic_err _
  | ifn lhs rhs body =>
    cases body with
    | other => exact Res.noPanic_err _
    | call c =>
      simp only [processNode]
      split
      · exact Res.noPanic_err _
      have := processApply_noPanic self { ch with qOps := ({} : ExtOp R) } c hM
      split
      · exact Res.noPanic_ok _
      · exact Res.noPanic_err _
      · rename_i s hs
        exact absurd hs (this s)

omit [Add R] [Sub R] [Mul R] [Neg R] [Div R] [ExprFns R] [AngleFns R] in
theorem checkRegSize_ok (al : String) (n : Nat) (h : checkRegSize al n = .ok ()) : n < 64 := by
  unfold checkRegSize at h
  split at h
  · cases h
  · rename_i hn; simpa [regSizeLimit] using hn

theorem processNode_inv (self ch ch' : Interp R) (hc : ChInv self ch) (n : Node R)
    (h : processNode self ch n = .ok ch') : ChInv self ch' := by
  obtain ⟨hm, hq, hcl⟩ := hc
  cases n with
  | qreg al k =>
    simp only [processNode] at h
    split at h
    · rename_i hchk
      cases h
      obtain ⟨_, _, h1⟩ := Except.bind_eq_ok' hchk
      obtain ⟨_, _, h2⟩ := Except.bind_eq_ok' h1
      obtain ⟨_, h3, _⟩ := Except.bind_eq_ok' h2
      have := checkRegSize_ok _ _ h3
      refine ⟨hm, ?_, hcl⟩
      simp only [List.length_append, List.length_replicate]
      omega
    · cases h
  | creg al k =>
    simp only [processNode] at h
    split at h
    · rename_i hchk
      cases h
      obtain ⟨_, _, h1⟩ := Except.bind_eq_ok' hchk
      obtain ⟨_, _, h2⟩ := Except.bind_eq_ok' h1
      obtain ⟨_, h3, _⟩ := Except.bind_eq_ok' h2
      have := checkRegSize_ok _ _ h3
      refine ⟨hm, hq, ?_⟩
      simp only [List.length_append, List.length_replicate]
      omega
    · cases h
  | barrier => cases h; exact ⟨hm, hq, hcl⟩
  | «opaque» => cases h; exact ⟨hm, hq, hcl⟩
  | reset a =>
    simp only [processNode] at h
    split at h
    · cases h; exact ⟨hm, hq, hcl⟩
    · cases h
  | measure q c =>
    simp only [processNode] at h
    split at h
    · cases h
    split at h
    · cases h
    split at h
    · cases h
    · cases h; exact ⟨hm, hq, hcl⟩
  | apply c =>
    obtain ⟨q, rfl⟩ := processApply_ok self ch ch' c h
    exact ⟨hm, hq, hcl⟩
  | gate name regs args body =>
    simp only [processNode] at h
    split at h
    · cases h
    rename_i m hnew
    split at h
    · split at h
      · cases h
        refine ⟨(MacrosOK_append _ _).mpr ⟨hm, ?_⟩, hq, hcl⟩
        intro p hp
        rw [List.mem_singleton] at hp
        subst hp
        exact Macro.new_ok regs args body m hnew
      · cases h
    · cases h
  | ifn lhs rhs body =>
    cases body with
    | other => cases h
    | call c =>
      simp only [processNode] at h
      split at h
      · cases h
      split at h
      · rename_i ch2 hap
        obtain ⟨q, rfl⟩ := processApply_ok _ _ _ c hap
        cases h
        exact ⟨hm, hq, hcl⟩
      · cases h
      · cases h

theorem processNodes_noPanic (self : Interp R) (hs : MacrosOK self.macros) :
    ∀ (ns : List (Node R)) (ch : Interp R), ChInv self ch → (processNodes self ch ns).NoPanic := by
  intro ns
  induction ns with
  | nil => intro ch _; exact Res.noPanic_ok _
  | cons n ns ih =>
    intro ch hc
    rw [processNodes]
    have hn := processNode_noPanic self ch hs hc.1 n
    split
    · rename_i ch' hok
      exact ih ch' (processNode_inv self ch ch' hc n hok)
    · rename_i r _
      exact hn

theorem processNodes_inv (self : Interp R) :
    ∀ (ns : List (Node R)) (ch ch' : Interp R), ChInv self ch →
      processNodes self ch ns = .ok ch' → ChInv self ch' := by
  intro ns
  induction ns with
  | nil => intro ch ch' hc h; cases h; exact hc
  | cons n ns ih =>
    intro ch ch' hc h
    rw [processNodes] at h
    split at h
    · rename_i ch1 hok
      exact ih ch1 ch' (processNode_inv self ch ch1 hc n hok) h
    · rename_i r hne
      exact absurd h (hne ch')

omit [Add R] [Sub R] [Mul R] [Neg R] [Div R] [ExprFns R] [AngleFns R] in
theorem chInv_empty (self : Interp R) (hs : Inv self) : ChInv self {} :=
  ⟨fun p hp => (by cases hp), (by simpa using hs.2.1), (by simpa using hs.2.2)⟩

theorem addAst_noPanic (self : Interp R) (hs : Inv self) (ast : List (Node R)) :
    (addAst self ast).NoPanic := by
  have h := processNodes_noPanic self hs.1 ast {} (chInv_empty self hs)
  unfold addAst astChanges
  cases hp : processNodes self {} ast with
  | ok ch => exact Res.noPanic_ok _
  | err e => exact Res.noPanic_err _
  | panic s => exact absurd hp (h s)

theorem addAst_inv (self s' : Interp R) (hs : Inv self) (ast : List (Node R))
    (h : addAst self ast = .ok s') : Inv s' := by
  unfold addAst astChanges at h
  cases hp : processNodes self {} ast with
  | ok ch =>
    rw [hp] at h
    cases h
    obtain ⟨hm, hq, hc⟩ := processNodes_inv self ast {} ch (chInv_empty self hs) hp
    refine ⟨?_, ?_, ?_⟩
    · simp only [appendInt]
      refine (MacrosOK_append _ _).mpr ⟨?_, hm⟩
      intro p hp'
      exact hs.1 p (List.mem_filter.mp hp').1
    · simpa [appendInt] using hq
    · simpa [appendInt] using hc
  | err e => rw [hp] at h; cases h
  | panic s => rw [hp] at h; cases h

omit [Add R] [Sub R] [Mul R] [Neg R] [Div R] [ExprFns R] [AngleFns R] in
theorem inv_empty : Inv ({} : Interp R) := ⟨fun p hp => (by cases hp), (by simp), (by simp)⟩

/-- a session: chunks added one after the other; a refused chunk leaves the session as it was -/
def session (s : Interp R) : List (List (Node R)) → Interp R
  | [] => s
  | c :: cs =>
    match addAst s c with
    | .ok s' => session s' cs
    | _ => session s cs

theorem session_inv (s : Interp R) (hs : Inv s) (chunks : List (List (Node R))) :
    Inv (session s chunks) := by
  induction chunks generalizing s with
  | nil => exact hs
  | cons c cs ih =>
    rw [session]
    split
    · rename_i s' hok
      exact ih s' (addAst_inv s s' hs c hok)
    · exact ih s hs

end proc
end Interp
/-! ## 4. the runner -/

/-- does executing a block with this separator possibly consume a drawn outcome? -/
def Sep.needsDraw : Sep → Bool
  | .measure _ _ => true
  | .reset _ => true
  | _ => false

/-- number of `measure` / `reset` separators of a block queue -/
def ExtOp.drawCount {R : Type} (e : ExtOp R) : Nat := e.blocks.countP (fun b => b.2.needsDraw)

theorem foldl_draws {σ β : Type} (need : β → Bool)
    (step : Option (σ × List Nat) → β → Option (σ × List Nat))
    (hstep : ∀ s d b, (need b = true → d ≠ []) →
      ∃ s' d', step (some (s, d)) b = some (s', d') ∧
        d.length ≤ d'.length + (if need b then 1 else 0)) :
    ∀ (l : List β) (s : σ) (d : List Nat), l.countP need ≤ d.length →
      l.foldl step (some (s, d)) ≠ none := by
  intro l
  induction l with
  | nil => intro s d _ h; cases h
  | cons b l ih =>
    intro s d h
    rw [List.countP_cons] at h
    obtain ⟨s', d', hs, hd⟩ := hstep s d b (by
      intro hb hd; subst hd; simp [hb] at h)
    rw [List.foldl_cons, hs]
    refine ih s' d' ?_
    split at h <;> split at hd <;> simp_all <;> omega

section run
variable {R : Type} [Add R] [Sub R] [Mul R] [Neg R] [Zero R] [One R] [Div R] [Consts R]
  [LE R] [DecidableLE R] [LT R] [DecidableLT R] [HasSqrt R] [RegConsts R]

omit [LE R] [DecidableLE R] [RegConsts R] in
theorem Sym.finish_isSome (s : Sym R) (drawn : List Nat) (h : s.qOps.drawCount ≤ drawn.length) :
    (Sym.finish s drawn).isSome = true := by
  unfold Sym.finish
  simp only []
  split
  · rename_i hnone
    refine absurd hnone (foldl_draws (fun b : MultiOp R × Sep => b.2.needsDraw) _ ?_
      s.qOps.blocks s drawn h)
    intro s d b hneed
    obtain ⟨o, sep⟩ := b
    cases sep with
    | nop => exact ⟨_, _, rfl, by simp⟩
    | measure qa ca =>
      cases d with
      | nil => exact absurd rfl (hneed rfl)
      | cons x ds =>
        simp only []
        split
        · exact ⟨_, _, rfl, by simp [Sep.needsDraw]⟩
        · exact ⟨_, _, rfl, by simp [Sep.needsDraw]⟩
    | ifBranch c v =>
      simp only []
      split
      · exact ⟨_, _, rfl, by simp⟩
      · exact ⟨_, _, rfl, by simp⟩
    | reset qm =>
      cases d with
      | nil => exact absurd rfl (hneed rfl)
      | cons x ds =>
        simp only []
        split
        · exact ⟨_, _, rfl, by simp [Sep.needsDraw]⟩
        split
        · exact ⟨_, _, rfl, by simp [Sep.needsDraw]⟩
        · exact ⟨_, _, rfl, by simp [Sep.needsDraw]⟩
  · rfl
end run

end Qvnt
