/-
the public constructors (`operator/single/{pauli,rotate,swap}.rs`, `operator/mod.rs`).
(split out of GenRegs2.lean so that an equality that no longer holds blocks only the properties that rely on it)
-/
import Qvnt.Lemmas.GenCtors.pauli_x_eq
import Qvnt.Lemmas.GenCtors.pauli_y_eq
import Qvnt.Lemmas.GenCtors.pauli_z_eq
import Qvnt.Lemmas.GenCtors.pauli_s_eq
import Qvnt.Lemmas.GenCtors.pauli_t_eq
import Qvnt.Lemmas.GenCtors.checked_eq
import Qvnt.Lemmas.GenCtors.rotate_rx_eq
import Qvnt.Lemmas.GenCtors.rotate_ry_eq
import Qvnt.Lemmas.GenCtors.rotate_rz_eq
import Qvnt.Lemmas.GenCtors.rotate_rxx_eq
import Qvnt.Lemmas.GenCtors.rotate_ryy_eq
import Qvnt.Lemmas.GenCtors.rotate_rzz_eq
import Qvnt.Lemmas.GenCtors.swapmod_swap_eq
import Qvnt.Lemmas.GenCtors.swapmod_sqrt_swap_eq
import Qvnt.Lemmas.GenCtors.swapmod_i_swap_eq
import Qvnt.Lemmas.GenCtors.swapmod_sqrt_i_swap_eq
import Qvnt.Lemmas.GenCtors.bind_some_map
import Qvnt.Lemmas.GenCtors.op_id_eq
import Qvnt.Lemmas.GenCtors.op_x_eq
import Qvnt.Lemmas.GenCtors.op_y_eq
import Qvnt.Lemmas.GenCtors.op_z_eq
import Qvnt.Lemmas.GenCtors.op_s_eq
import Qvnt.Lemmas.GenCtors.op_t_eq
import Qvnt.Lemmas.GenCtors.op_rx_eq
import Qvnt.Lemmas.GenCtors.op_ry_eq
import Qvnt.Lemmas.GenCtors.op_rz_eq
import Qvnt.Lemmas.GenCtors.op_rxx_eq
import Qvnt.Lemmas.GenCtors.op_ryy_eq
import Qvnt.Lemmas.GenCtors.op_rzz_eq
import Qvnt.Lemmas.GenCtors.op_swap_eq
import Qvnt.Lemmas.GenCtors.op_sqrt_swap_eq
import Qvnt.Lemmas.GenCtors.op_i_swap_eq
import Qvnt.Lemmas.GenCtors.op_sqrt_i_swap_eq
import Qvnt.Lemmas.GenCtors.op_h_eq
import Qvnt.Lemmas.GenCtors.op_u1_eq
import Qvnt.Lemmas.GenCtors.op_u3_eq
import Qvnt.Lemmas.GenCtors.op_u2_eq
