/-
the public constructors (`operator/single/{pauli,rotate,swap}.rs`, `operator/mod.rs`).
(split out of GenRegs2.lean so that an equality that no longer holds blocks only the properties that rely on it)
-/
import Qvnt.Lemmas.GenH

set_option linter.unusedSectionVars false

namespace Qvnt.Gen2
open Qvnt Qvnt.Gen

variable {R : Type}

/-! ### the public constructors (`operator/single/{pauli,rotate,swap}.rs`, `operator/mod.rs`) -/
section ctors
variable [Add R] [Sub R] [Mul R] [Div R] [Neg R] [Zero R] [One R] [Consts R] [Trig R] [Rs.AngleConsts R]

theorem pauli_x_eq (a : Nat) : pauli_x (R := R) a = SingleOp.ofAtom (.x a) := rfl
theorem pauli_y_eq (a : Nat) : pauli_y (R := R) a = SingleOp.ofAtom (.y a (yIPow a)) := by
  simp [pauli_y, single_from, y_new_eq', SingleOp.ofAtom]
theorem pauli_z_eq (a : Nat) : pauli_z (R := R) a = SingleOp.ofAtom (.z a) := rfl
theorem pauli_s_eq (a : Nat) : pauli_s (R := R) a = SingleOp.ofAtom (.s a false) := rfl
theorem pauli_t_eq (a : Nat) : pauli_t (R := R) a = SingleOp.ofAtom (.t a false) := rfl

theorem checked_eq (g : Atom R) :
    (if Atom.isValid g then some (single_from g) else none) = SingleOp.checked g := by
  unfold SingleOp.checked single_from SingleOp.ofAtom
  cases Atom.isValid g <;> rfl

theorem rotate_rx_eq (a : Nat) (θ : R) : rotate_rx a θ = SingleOp.checked (.rx a (halfPhaseDiv θ)) := checked_eq _
theorem rotate_ry_eq (a : Nat) (θ : R) : rotate_ry a θ = SingleOp.checked (.ry a (halfPhaseDiv θ)) := checked_eq _
theorem rotate_rz_eq (a : Nat) (θ : R) : rotate_rz a θ = SingleOp.checked (.rz a (halfPhaseDiv θ)) := checked_eq _
theorem rotate_rxx_eq (a : Nat) (θ : R) : rotate_rxx a θ = SingleOp.checked (.rxx a (halfPhaseMul θ)) := checked_eq _
theorem rotate_ryy_eq (a : Nat) (θ : R) : rotate_ryy a θ = SingleOp.checked (.ryy a (halfPhaseDiv θ)) := checked_eq _
theorem rotate_rzz_eq (a : Nat) (θ : R) : rotate_rzz a θ = SingleOp.checked (.rzz a (halfPhaseDiv θ)) := checked_eq _
theorem swapmod_swap_eq (a : Nat) : swapmod_swap (R := R) a = SingleOp.checked (.swap a) := checked_eq _
theorem swapmod_sqrt_swap_eq (a : Nat) : swapmod_sqrt_swap (R := R) a = SingleOp.checked (.sqrtSwap a false) := checked_eq _
theorem swapmod_i_swap_eq (a : Nat) : swapmod_i_swap (R := R) a = SingleOp.checked (.iSwap a false) := checked_eq _
theorem swapmod_sqrt_i_swap_eq (a : Nat) : swapmod_sqrt_i_swap (R := R) a = SingleOp.checked (.sqrtISwap a false) := checked_eq _

theorem bind_some_map {α β : Type} (o : Option α) (f : α → β) : (o.bind fun u => some (f u)) = o.map f := by
  cases o <;> rfl

theorem op_id_eq : op_id (R := R) = Op.id := rfl
theorem op_x_eq (a : Nat) : op_x (R := R) a = Op.x a := rfl
theorem op_y_eq (a : Nat) : op_y (R := R) a = Op.y a := by simp [op_y, Op.y, pauli_y_eq]
theorem op_z_eq (a : Nat) : op_z (R := R) a = Op.z a := rfl
theorem op_s_eq (a : Nat) : op_s (R := R) a = Op.s a := rfl
theorem op_t_eq (a : Nat) : op_t (R := R) a = Op.t a := rfl
theorem op_rx_eq (θ : R) (a : Nat) : op_rx θ a = Op.rx (halfPhaseDiv θ) a := by
  simp [op_rx, Op.rx, Op.ofChecked, rotate_rx_eq, bind_some_map]
theorem op_ry_eq (θ : R) (a : Nat) : op_ry θ a = Op.ry (halfPhaseDiv θ) a := by
  simp [op_ry, Op.ry, Op.ofChecked, rotate_ry_eq, bind_some_map]
theorem op_rz_eq (θ : R) (a : Nat) : op_rz θ a = Op.rz (halfPhaseDiv θ) a := by
  simp [op_rz, Op.rz, Op.ofChecked, rotate_rz_eq, bind_some_map]
theorem op_rxx_eq (θ : R) (a : Nat) : op_rxx θ a = Op.rxx (halfPhaseMul θ) a := by
  simp [op_rxx, Op.rxx, Op.ofChecked, rotate_rxx_eq, bind_some_map]
theorem op_ryy_eq (θ : R) (a : Nat) : op_ryy θ a = Op.ryy (halfPhaseDiv θ) a := by
  simp [op_ryy, Op.ryy, Op.ofChecked, rotate_ryy_eq, bind_some_map]
theorem op_rzz_eq (θ : R) (a : Nat) : op_rzz θ a = Op.rzz (halfPhaseDiv θ) a := by
  simp [op_rzz, Op.rzz, Op.ofChecked, rotate_rzz_eq, bind_some_map]
theorem op_swap_eq (a : Nat) : op_swap (R := R) a = Op.swap a := by
  simp [op_swap, Op.swap, Op.ofChecked, swapmod_swap_eq, bind_some_map]
theorem op_sqrt_swap_eq (a : Nat) : op_sqrt_swap (R := R) a = Op.sqrtSwap a := by
  simp [op_sqrt_swap, Op.sqrtSwap, Op.ofChecked, swapmod_sqrt_swap_eq, bind_some_map]
theorem op_i_swap_eq (a : Nat) : op_i_swap (R := R) a = Op.iSwap a := by
  simp [op_i_swap, Op.iSwap, Op.ofChecked, swapmod_i_swap_eq, bind_some_map]
theorem op_sqrt_i_swap_eq (a : Nat) : op_sqrt_i_swap (R := R) a = Op.sqrtISwap a := by
  simp [op_sqrt_i_swap, Op.sqrtISwap, Op.ofChecked, swapmod_sqrt_i_swap_eq, bind_some_map]
theorem op_h_eq (a : Nat) : op_h (R := R) a = Op.h a := by
  simp [op_h, h_h_eq]
theorem op_u1_eq (lam : R) (a : Nat) : op_u1 lam a = Op.u1 (halfPhaseDiv lam) a := by
  simp [op_u1, Op.u1, op_rz_eq]
theorem op_u3_eq (the phi lam : R) (a : Nat) :
    op_u3 the phi lam a = Op.u3 (halfPhaseDiv the) (halfPhaseDiv phi) (halfPhaseDiv lam) a := by
  simp only [op_u3, Op.u3, op_rz_eq, op_ry_eq]
  cases Op.rz (halfPhaseDiv lam) a <;> cases Op.ry (halfPhaseDiv the) a <;> cases Op.rz (halfPhaseDiv phi) a <;> rfl
theorem op_u2_eq (phi lam : R) (a : Nat) :
    op_u2 phi lam a = Op.u2 (halfPhaseDiv Rs.AngleConsts.fracPi2) (halfPhaseDiv phi) (halfPhaseDiv lam) a := by
  simp only [op_u2, Op.u2, Op.u3, op_rz_eq, op_ry_eq]
  cases Op.rz (halfPhaseDiv lam) a <;> cases Op.ry (halfPhaseDiv (Rs.AngleConsts.fracPi2 : R)) a <;> cases Op.rz (halfPhaseDiv phi) a <;> rfl

end ctors
end Qvnt.Gen2
