/-
`register/quant.rs`: get_absolute, get_probabilities, rescale, normalize.
(split out of GenRegs2.lean so that an equality that no longer holds blocks only the properties that rely on it)
-/
import Qvnt.Lemmas.GenQProb.quant_get_absolute_eq
import Qvnt.Lemmas.GenQProb.quant_get_probabilities_eq
import Qvnt.Lemmas.GenQProb.scale_toList
import Qvnt.Lemmas.GenQProb.quant_rescale_eq
import Qvnt.Lemmas.GenQProb.quant_normalize_eq
