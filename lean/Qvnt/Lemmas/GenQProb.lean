/-
`register/quant.rs`: get_absolute, get_probabilities, rescale, normalize.
(split out of GenRegs2.lean so that an equality that no longer holds blocks only the properties that rely on it)
-/
import Qvnt.Lemmas.GenQuant

set_option linter.unusedSectionVars false

namespace Qvnt.Gen2
open Qvnt Qvnt.Gen

variable {R : Type}

section arith
variable [Add R] [Sub R] [Mul R] [Div R] [Neg R] [Zero R] [One R] [Consts R]
  [LE R] [DecidableLE R] [LT R] [DecidableLT R] [HasSqrt R] [RegConsts R]

theorem quant_get_absolute_eq (r : QReg R) : quant_get_absolute (ofModel r) = r.getAbsolute := by
  simp only [quant_get_absolute, QReg.getAbsolute, ofModel, Rs.sum, List.foldl_map, ← Array.foldl_toList]

theorem quant_get_probabilities_eq (r : QReg R) (h : r.qNum < 64) (hs : 2 ^ r.qNum ≤ r.psi.size) :
    quant_get_probabilities (ofModel r) = r.getProbabilities := by
  have habs := quant_get_absolute_eq r
  simp only [quant_get_absolute, ofModel] at habs
  simp only [quant_get_probabilities, QReg.getProbabilities, ofModel, habs, shl_one _ h]
  apply List.ext_getElem
  · simp; omega
  · intro i h1 h2
    have hi : i < r.psi.size := by simp at h2; omega
    simp [Array.getD, hi]

theorem scale_toList (a : Array (Cx R)) (k : R) :
    (a.map (fun v => v.scale k)).toList = List.map (fun v => Cx.scale v k) a.toList := by simp

theorem quant_rescale_eq (r : QReg R) : quant_rescale (ofModel r) = ofModel r.rescale := by
  have habs := quant_get_absolute_eq r
  unfold quant_rescale QReg.rescale
  simp only [habs]
  by_cases h : (0 : R) < HasSqrt.sqrt r.getAbsolute
  · simp [h, ofModel, GT.gt]
  · simp [h, ofModel, GT.gt]

theorem quant_normalize_eq (r : QReg R) : quant_normalize (ofModel r) = ofModel r.normalize := by
  have habs := quant_get_absolute_eq r
  unfold quant_normalize QReg.normalize
  simp only [habs]
  by_cases h1 : HasSqrt.sqrt r.getAbsolute ≤ (RegConsts.tiny : R)
  · simp [h1, quant_reset_eq]
  · by_cases h2 : (1 : R) - HasSqrt.sqrt r.getAbsolute ≤ RegConsts.close
    · simp [h1, h2]
    · simp [h1, h2, ofModel]

end arith
end Qvnt.Gen2
