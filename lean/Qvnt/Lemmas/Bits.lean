/-
LEMMAS — bit-level facts about `popcount`, `bitsOf`/`bitsBelow`, and the Rust bit iterators
(`BitsIter`, `Op.qftBits`, `Op.maskBitsLoop`).
-/
import Qvnt.Model.Bits
import Qvnt.Model.Op

namespace Qvnt

/-! ## 1. popcount -/

theorem popcount_zero : popcount 0 = 0 := by
  unfold popcount; rfl

/-- unfolding equation, valid for every `n` (including `0`) -/
theorem popcount_eq (n : Nat) : popcount n = n % 2 + popcount (n / 2) := by
  cases n with
  | zero => simp [popcount_zero]
  | succ n => rw [popcount]

theorem popcount_one : popcount 1 = 1 := by
  rw [popcount_eq]; simp [popcount_zero]

theorem popcount_two_pow (k : Nat) : popcount (2 ^ k) = 1 := by
  induction k with
  | zero => simpa using popcount_one
  | succ k ih =>
    rw [popcount_eq]
    have h1 : 2 ^ (k + 1) % 2 = 0 := by omega
    have h2 : 2 ^ (k + 1) / 2 = 2 ^ k := by omega
    rw [h1, h2, ih]

private theorem popcount_or_disjoint_aux :
    ∀ n x y : Nat, x ≤ n → x &&& y = 0 → popcount (x ||| y) = popcount x + popcount y := by
  intro n
  induction n with
  | zero =>
    intro x y hx _
    have : x = 0 := by omega
    subst this
    simp [popcount_zero]
  | succ n ih =>
    intro x y hx h
    by_cases hx0 : x = 0
    · subst hx0; simp [popcount_zero]
    rw [popcount_eq (x ||| y), popcount_eq x, popcount_eq y, Nat.or_div_two]
    have hdiv : x / 2 &&& y / 2 = 0 := by rw [← Nat.and_div_two, h]
    rw [ih (x / 2) (y / 2) (by omega) hdiv]
    have hmod : (x ||| y) % 2 = x % 2 + y % 2 := by
      have hand : ¬ (x % 2 = 1 ∧ y % 2 = 1) := by
        rw [← Nat.and_mod_two_eq_one, h]; decide
      have hor := @Nat.or_mod_two_eq_one x y
      omega
    omega

theorem popcount_or_disjoint (x y : Nat) (h : x &&& y = 0) :
    popcount (x ||| y) = popcount x + popcount y :=
  popcount_or_disjoint_aux x x y (Nat.le_refl _) h

private theorem popcount_xor_parity_aux :
    ∀ n x y : Nat, x ≤ n → y ≤ n →
      popcount (x ^^^ y) % 2 = (popcount x + popcount y) % 2 := by
  intro n
  induction n with
  | zero =>
    intro x y hx hy
    have : x = 0 := by omega
    have : y = 0 := by omega
    subst_vars
    simp [popcount_zero]
  | succ n ih =>
    intro x y hx hy
    rw [popcount_eq (x ^^^ y), popcount_eq x, popcount_eq y, Nat.xor_div_two]
    have := ih (x / 2) (y / 2) (by omega) (by omega)
    have hxor := @Nat.xor_mod_two_eq_one x y
    omega

theorem popcount_xor_parity (x y : Nat) :
    popcount (x ^^^ y) % 2 = (popcount x + popcount y) % 2 :=
  popcount_xor_parity_aux (max x y) x y (Nat.le_max_left _ _) (Nat.le_max_right _ _)

theorem popcount_lt_two_pow (m k : Nat) (h : m < 2 ^ k) : popcount m ≤ k := by
  induction k generalizing m with
  | zero =>
    have : m = 0 := by simpa using h
    subst this; simp [popcount_zero]
  | succ k ih =>
    rw [popcount_eq]
    have := ih (m / 2) (by rw [Nat.pow_succ] at h; omega)
    omega

theorem popcount_eq_filter_testBit (m k : Nat) (h : m < 2 ^ k) :
    popcount m = ((List.range k).filter (fun i => m.testBit i)).length := by
  induction k generalizing m with
  | zero =>
    have : m = 0 := by simpa using h
    subst this; simp [popcount_zero]
  | succ k ih =>
    rw [popcount_eq, List.range_succ_eq_map, List.filter_cons, List.filter_map]
    have h2 := ih (m / 2) (by rw [Nat.pow_succ] at h; omega)
    have hfun : ((fun i => m.testBit i) ∘ Nat.succ) = (fun i => (m / 2).testBit i) := by
      funext i; simp [Nat.testBit_succ]
    rw [hfun, h2, Nat.testBit_zero]
    by_cases hm : m % 2 = 1
    · simp [hm]; omega
    · have : m % 2 = 0 := by omega
      simp [this]

theorem and_two_pow_eq (idx k : Nat) :
    idx &&& 2 ^ k = if idx.testBit k then 2 ^ k else 0 := by
  apply Nat.eq_of_testBit_eq
  intro i
  rw [Nat.testBit_and, Nat.testBit_two_pow]
  by_cases hik : k = i
  · subst hik
    cases h : idx.testBit k <;> simp
  · cases h : idx.testBit k <;> simp [hik]

theorem popcount_and_two_pow (idx k : Nat) :
    popcount (idx &&& 2 ^ k) = if idx.testBit k then 1 else 0 := by
  rw [and_two_pow_eq]
  cases idx.testBit k <;> simp [popcount_zero, popcount_two_pow]

theorem and_two_pow_eq_zero_iff (idx k : Nat) :
    idx &&& 2 ^ k = 0 ↔ idx.testBit k = false := by
  rw [and_two_pow_eq]
  cases idx.testBit k <;> simp

theorem two_pow_and_eq_zero_iff (idx k : Nat) :
    2 ^ k &&& idx = 0 ↔ idx.testBit k = false := by
  rw [Nat.and_comm, and_two_pow_eq_zero_iff]

theorem two_pow_and_two_pow_of_ne (i j : Nat) (h : i ≠ j) : 2 ^ i &&& 2 ^ j = 0 := by
  rw [and_two_pow_eq_zero_iff, Nat.testBit_two_pow]
  simpa using h

theorem oddParity_two_bits (idx i j : Nat) (h : i ≠ j) :
    popcount (idx &&& (2 ^ i ||| 2 ^ j)) % 2
      = if idx.testBit i = idx.testBit j then 0 else 1 := by
  rw [Nat.and_or_distrib_left, popcount_or_disjoint, popcount_and_two_pow, popcount_and_two_pow]
  · cases idx.testBit i <;> cases idx.testBit j <;> simp
  · apply Nat.eq_of_testBit_eq
    intro b
    simp only [Nat.testBit_and, Nat.testBit_two_pow, Nat.zero_testBit]
    by_cases hib : i = b
    · subst hib; simp [Ne.symm h]
    · simp [hib]

/-! ## 2. bitsOf / bitsBelow -/

theorem bitsBelow_succ (m k : Nat) :
    bitsBelow m (k + 1) = bitsBelow m k ++ (if m.testBit k then [2 ^ k] else []) := rfl

/-- structural description: the set bit positions below `k`, ascending, mapped to masks -/
theorem bitsBelow_eq_map (m k : Nat) :
    bitsBelow m k = ((List.range k).filter (fun i => m.testBit i)).map (fun i => 2 ^ i) := by
  induction k with
  | zero => rfl
  | succ k ih =>
    rw [bitsBelow_succ, ih, List.range_succ, List.filter_append, List.map_append]
    cases h : m.testBit k <;> simp [h]

theorem mem_bitsBelow (m k a : Nat) :
    a ∈ bitsBelow m k ↔ ∃ i, i < k ∧ a = 2 ^ i ∧ m.testBit i = true := by
  rw [bitsBelow_eq_map]
  simp only [List.mem_map, List.mem_filter, List.mem_range]
  constructor
  · rintro ⟨i, ⟨hi, hb⟩, rfl⟩; exact ⟨i, hi, rfl, hb⟩
  · rintro ⟨i, hi, rfl, hb⟩; exact ⟨i, ⟨hi, hb⟩, rfl⟩

theorem mem_bitsOf (m a : Nat) :
    a ∈ bitsOf m ↔ ∃ i, i < 64 ∧ a = 2 ^ i ∧ m.testBit i = true :=
  mem_bitsBelow m 64 a

theorem bitsBelow_pairwise_lt (m k : Nat) : (bitsBelow m k).Pairwise (· < ·) := by
  induction k with
  | zero => exact List.Pairwise.nil
  | succ k ih =>
    rw [bitsBelow_succ, List.pairwise_append]
    refine ⟨ih, ?_, ?_⟩
    · cases m.testBit k <;> simp
    · intro a ha b hb
      rw [mem_bitsBelow] at ha
      obtain ⟨i, hi, rfl, _⟩ := ha
      cases hk : m.testBit k
      · simp [hk] at hb
      · simp [hk] at hb
        subst hb
        exact Nat.pow_lt_pow_right (by decide) hi

theorem bitsOf_pairwise_lt (m : Nat) : (bitsOf m).Pairwise (· < ·) :=
  bitsBelow_pairwise_lt m 64

theorem mod_two_pow_succ_or (m k : Nat) :
    m % 2 ^ (k + 1) = m % 2 ^ k ||| (if m.testBit k then 2 ^ k else 0) := by
  apply Nat.eq_of_testBit_eq
  intro i
  rw [Nat.testBit_or, Nat.testBit_mod_two_pow, Nat.testBit_mod_two_pow]
  by_cases hik : i = k
  · subst hik
    cases h : m.testBit i <;> simp
  · have hne : ¬ k = i := fun h => hik h.symm
    by_cases hlt : i < k
    · have : i < k + 1 := by omega
      cases h : m.testBit k <;> simp [hlt, this, hne]
    · have : ¬ i < k + 1 := by omega
      cases h : m.testBit k <;> simp [hlt, this, hne]

theorem mod_two_pow_succ_xor (m k : Nat) :
    m % 2 ^ (k + 1) = m % 2 ^ k ^^^ (if m.testBit k then 2 ^ k else 0) := by
  apply Nat.eq_of_testBit_eq
  intro i
  rw [Nat.testBit_xor, Nat.testBit_mod_two_pow, Nat.testBit_mod_two_pow]
  by_cases hik : i = k
  · subst hik
    cases h : m.testBit i <;> simp
  · have hne : ¬ k = i := fun h => hik h.symm
    by_cases hlt : i < k
    · have : i < k + 1 := by omega
      cases h : m.testBit k <;> simp [hlt, this, hne]
    · have : ¬ i < k + 1 := by omega
      cases h : m.testBit k <;> simp [hlt, this, hne]

theorem bitsBelow_fold_or (m k : Nat) : (bitsBelow m k).foldl (· ||| ·) 0 = m % 2 ^ k := by
  induction k with
  | zero => simp [bitsBelow, Nat.mod_one]
  | succ k ih =>
    rw [bitsBelow_succ, List.foldl_append, ih, mod_two_pow_succ_or]
    cases m.testBit k <;> simp

theorem bitsBelow_fold_xor (m k : Nat) : (bitsBelow m k).foldl (· ^^^ ·) 0 = m % 2 ^ k := by
  induction k with
  | zero => simp [bitsBelow, Nat.mod_one]
  | succ k ih =>
    rw [bitsBelow_succ, List.foldl_append, ih, mod_two_pow_succ_xor]
    cases m.testBit k <;> simp

theorem bitsOf_fold_or (m : Nat) (h : m < 2 ^ 64) : (bitsOf m).foldl (· ||| ·) 0 = m := by
  rw [bitsOf, bitsBelow_fold_or]; exact Nat.mod_eq_of_lt h

theorem bitsOf_fold_xor (m : Nat) (h : m < 2 ^ 64) : (bitsOf m).foldl (· ^^^ ·) 0 = m := by
  rw [bitsOf, bitsBelow_fold_xor]; exact Nat.mod_eq_of_lt h

theorem length_bitsBelow (m k : Nat) (h : m < 2 ^ k) : (bitsBelow m k).length = popcount m := by
  rw [bitsBelow_eq_map, List.length_map, popcount_eq_filter_testBit m k h]

theorem length_bitsOf (m : Nat) (h : m < 2 ^ 64) : (bitsOf m).length = popcount m :=
  length_bitsBelow m 64 h

theorem popcount_and_eq_filter (idx m : Nat) (h : m < 2 ^ 64) :
    popcount (idx &&& m) = ((bitsOf m).filter (fun a => idx &&& a ≠ 0)).length := by
  have hlt : idx &&& m < 2 ^ 64 := Nat.lt_of_le_of_lt Nat.and_le_right h
  rw [popcount_eq_filter_testBit _ 64 hlt, bitsOf, bitsBelow_eq_map, List.filter_map,
    List.length_map, List.filter_filter]
  congr 1
  apply List.filter_congr
  intro i _
  have hz := and_two_pow_eq_zero_iff idx i
  simp only [Function.comp, Nat.testBit_and]
  cases hb : idx.testBit i
  · have := hz.2 hb
    simp [this]
  · have : idx &&& 2 ^ i ≠ 0 := fun h0 => by rw [hz.1 h0] at hb; cases hb
    simp [this]

/-- no set bit in `[j, k)`: the enumeration below `k` equals the one below `j` -/
theorem bitsBelow_of_le (m j k : Nat) (hjk : j ≤ k)
    (h : ∀ i, j ≤ i → i < k → m.testBit i = false) : bitsBelow m k = bitsBelow m j := by
  induction k with
  | zero =>
    have : j = 0 := by omega
    subst this; rfl
  | succ k ih =>
    by_cases hj : j = k + 1
    · subst hj; rfl
    · have hjk' : j ≤ k := by omega
      rw [bitsBelow_succ, h k hjk' (by omega), ih hjk' (fun i h1 h2 => h i h1 (by omega))]
      simp

theorem bitsBelow_eq_nil (m k : Nat) (h : ∀ i, i < k → m.testBit i = false) :
    bitsBelow m k = [] :=
  bitsBelow_of_le m 0 k (Nat.zero_le _) (fun i _ hi => h i hi)

theorem bitsOf_two_pow (k : Nat) (h : k < 64) : bitsOf (2 ^ k) = [2 ^ k] := by
  have hfalse : ∀ i, i ≠ k → (2 ^ k).testBit i = false := by
    intro i hi
    rw [Nat.testBit_two_pow]
    simpa using fun h => hi h.symm
  rw [bitsOf, bitsBelow_of_le (2 ^ k) (k + 1) W (by simp [W]; omega)
    (fun i h1 _ => hfalse i (by omega)), bitsBelow_succ,
    bitsBelow_eq_nil _ _ (fun i hi => hfalse i (by omega))]
  simp

theorem bitsOf_two_bits (i j : Nat) (hij : i < j) (hj : j < 64) :
    bitsOf (2 ^ i ||| 2 ^ j) = [2 ^ i, 2 ^ j] := by
  have hbit : ∀ b, (2 ^ i ||| 2 ^ j).testBit b = (decide (i = b) || decide (j = b)) := by
    intro b; rw [Nat.testBit_or, Nat.testBit_two_pow, Nat.testBit_two_pow]
  have hfalse : ∀ b, b ≠ i → b ≠ j → (2 ^ i ||| 2 ^ j).testBit b = false := by
    intro b h1 h2
    rw [hbit]
    have h1' : ¬ i = b := fun h => h1 h.symm
    have h2' : ¬ j = b := fun h => h2 h.symm
    simp [h1', h2']
  have hi : (2 ^ i ||| 2 ^ j).testBit i = true := by rw [hbit]; simp
  have hjb : (2 ^ i ||| 2 ^ j).testBit j = true := by rw [hbit]; simp
  rw [bitsOf, bitsBelow_of_le _ (j + 1) W (by simp [W]; omega)
    (fun b h1 _ => hfalse b (by omega) (by omega)), bitsBelow_succ, hjb,
    bitsBelow_of_le _ (i + 1) j (by omega) (fun b h1 h2 => hfalse b (by omega) (by omega)),
    bitsBelow_succ, hi, bitsBelow_eq_nil _ _ (fun b hb => hfalse b (by omega) (by omega))]
  simp

theorem bitsOf_eq_singleton_iff (m : Nat) (h : m < 2 ^ 64) :
    (∃ a, bitsOf m = [a]) ↔ popcount m = 1 := by
  rw [← length_bitsOf m h, List.length_eq_one_iff]

theorem bitsOf_eq_pair_iff (m : Nat) (h : m < 2 ^ 64) :
    (∃ a b, bitsOf m = [a, b]) ↔ popcount m = 2 := by
  rw [← length_bitsOf m h]
  constructor
  · rintro ⟨a, b, hab⟩; rw [hab]; rfl
  · intro hl
    match hm : bitsOf m, hl with
    | [a, b], _ => exact ⟨a, b, rfl⟩

/-! ## 3. the Rust bit iterators -/

/-- the value of `pos` after `k` left shifts of `1` on a 64-bit word: `2^k`, or `0` once
the bit has been shifted out (`k ≥ 64`) -/
def posOf (k : Nat) : Nat := 2 ^ k % 2 ^ W

theorem posOf_of_lt (k : Nat) (h : k < 64) : posOf k = 2 ^ k := by
  unfold posOf W
  exact Nat.mod_eq_of_lt (Nat.pow_lt_pow_right (by decide) h)

theorem posOf_64 : posOf 64 = 0 := by
  unfold posOf W; exact Nat.mod_self _

theorem posOf_zero : posOf 0 = 1 := posOf_of_lt 0 (by decide)

theorem shl1_posOf (k : Nat) : shl1 (posOf k) = posOf (k + 1) := by
  unfold shl1 posOf
  rw [Nat.pow_succ, Nat.mod_mul_mod]

theorem shl1_two_pow (k : Nat) (h : k < 63) : shl1 (2 ^ k) = 2 ^ (k + 1) := by
  rw [← posOf_of_lt k (by omega), shl1_posOf, posOf_of_lt _ (by omega)]

theorem shl1_two_pow_63 : shl1 (2 ^ 63) = 0 := by
  rw [← posOf_of_lt 63 (by decide), shl1_posOf, posOf_64]

theorem two_pow_and_ne_zero_iff (m k : Nat) : 2 ^ k &&& m ≠ 0 ↔ m.testBit k = true := by
  rw [Ne, two_pow_and_eq_zero_iff]; simp

/-- above the top set bit: `m < 2^k` kills every bit at or above `k` -/
theorem testBit_eq_false_of_lt (m k i : Nat) (h : m < 2 ^ k) (hki : k ≤ i) :
    m.testBit i = false :=
  Nat.testBit_lt_two_pow (Nat.lt_of_lt_of_le h (Nat.pow_le_pow_right (by decide) hki))

/-- One call of `BitsIter::next` from position `k`: either it yields the lowest set bit `j ≥ k`
and leaves the iterator just after it, or there is no set bit at or above `k` and it
returns `None` without moving. It never runs out of fuel. -/
theorem BitsIter.next_spec (m : Nat) (hm64 : m < 2 ^ 64) :
    ∀ d k fuel : Nat, k + d = 64 → d + 1 ≤ fuel →
      (∃ j, k ≤ j ∧ j < 64 ∧ m.testBit j = true ∧ (∀ i, k ≤ i → i < j → m.testBit i = false) ∧
          BitsIter.next fuel ⟨m, posOf k⟩ = some (some (2 ^ j), ⟨m, posOf (j + 1)⟩)) ∨
      ((∀ i, k ≤ i → i < 64 → m.testBit i = false) ∧
          BitsIter.next fuel ⟨m, posOf k⟩ = some (none, ⟨m, posOf k⟩)) := by
  intro d
  induction d with
  | zero =>
    intro k fuel hk hf
    have hk' : k = 64 := by omega
    subst hk'
    obtain ⟨f, rfl⟩ : ∃ f, fuel = f + 1 := ⟨fuel - 1, by omega⟩
    right
    refine ⟨fun i h1 h2 => by omega, ?_⟩
    rw [posOf_64]
    simp [BitsIter.next]
  | succ d ih =>
    intro k fuel hk hf
    have hk64 : k < 64 := by omega
    obtain ⟨f, rfl⟩ : ∃ f, fuel = f + 1 := ⟨fuel - 1, by omega⟩
    rw [posOf_of_lt k hk64]
    cases hb : m.testBit k with
    | true =>
      left
      refine ⟨k, Nat.le_refl _, hk64, hb, fun i h1 h2 => by omega, ?_⟩
      have hne : 2 ^ k &&& m ≠ 0 := (two_pow_and_ne_zero_iff m k).2 hb
      rw [BitsIter.next]
      simp only [hne, ne_eq, not_false_eq_true, if_true]
      rw [← posOf_of_lt k hk64, shl1_posOf]
    | false =>
      have hz : 2 ^ k &&& m = 0 := (two_pow_and_eq_zero_iff m k).2 hb
      have hpos : 0 < 2 ^ k := Nat.pow_pos (by decide)
      by_cases hgt : 2 ^ k > m
      · right
        refine ⟨fun i h1 _ => testBit_eq_false_of_lt m k i hgt h1, ?_⟩
        rw [BitsIter.next]
        simp [hz, hgt]
      · have hstep : BitsIter.next (f + 1) ⟨m, 2 ^ k⟩ = BitsIter.next f ⟨m, posOf (k + 1)⟩ := by
          rw [BitsIter.next]
          simp [hz, hgt]
          rw [← posOf_of_lt k hk64, shl1_posOf]
        rw [hstep]
        rcases ih (k + 1) f (by omega) (by omega) with
          ⟨j, hkj, hj, hbj, hlow, hnext⟩ | ⟨hnone, hnext⟩
        · left
          refine ⟨j, by omega, hj, hbj, ?_, hnext⟩
          intro i h1 h2
          by_cases hik : i = k
          · subst hik; exact hb
          · exact hlow i (by omega) h2
        · -- impossible: `2^k ≤ m` but no set bit at or above `k`
          exfalso
          have hm : m < 2 ^ k := by
            apply Nat.lt_pow_two_of_testBit
            intro i hi
            by_cases hik : i = k
            · subst hik; exact hb
            · by_cases hi64 : i < 64
              · exact hnone i (by omega) hi64
              · exact testBit_eq_false_of_lt m 64 i hm64 (by omega)
          omega

/-- `collect` from position `k` yields exactly the set bits at or above `k`. -/
theorem BitsIter.collect_spec (m : Nat) (hm64 : m < 2 ^ 64) :
    ∀ d k fuel : Nat, k + d = 64 → d + 1 ≤ fuel →
      ∃ l, BitsIter.collect fuel ⟨m, posOf k⟩ = some l ∧ bitsBelow m 64 = bitsBelow m k ++ l := by
  intro d
  induction d using Nat.strongRecOn with
  | _ d ih =>
    intro k fuel hk hf
    obtain ⟨f, rfl⟩ : ∃ f, fuel = f + 1 := ⟨fuel - 1, by omega⟩
    rcases BitsIter.next_spec m hm64 d k (f + 1) hk hf with
      ⟨j, hkj, hj, hbj, hlow, hnext⟩ | ⟨hnone, hnext⟩
    · obtain ⟨l', hl', hcat⟩ := ih (64 - (j + 1)) (by omega) (j + 1) f (by omega) (by omega)
      refine ⟨2 ^ j :: l', ?_, ?_⟩
      · rw [BitsIter.collect, hnext]
        simp only [hl']
      · rw [hcat, bitsBelow_succ, hbj, bitsBelow_of_le m k j hkj hlow]
        simp
    · refine ⟨[], ?_, ?_⟩
      · rw [BitsIter.collect, hnext]
      · rw [bitsBelow_of_le m k 64 (by omega) hnone]
        simp

theorem bitsIter_collect_eq (m : Nat) (h : m < 2 ^ 64) :
    (BitsIter.ofMask m).collect bitsFuel = some (bitsOf m) := by
  obtain ⟨l, hl, hcat⟩ := BitsIter.collect_spec m h 64 0 bitsFuel (by decide) (by decide)
  rw [posOf_zero] at hl
  have : bitsOf m = l := by
    rw [bitsOf]; simpa [W, bitsBelow] using hcat
  rw [BitsIter.ofMask, hl, this]

theorem bitsIterList_eq_bitsOf (m : Nat) (h : m < 2 ^ 64) : bitsIterList m = bitsOf m := by
  rw [bitsIterList, bitsIter_collect_eq m h]; rfl

theorem bitsIter_collect_isSome (m : Nat) (h : m < 2 ^ 64) :
    ((BitsIter.ofMask m).collect bitsFuel).isSome := by
  rw [bitsIter_collect_eq m h]; rfl

theorem qftBits_eq_bitsBelow (m k : Nat) :
    (List.range k).filterMap (fun i => if (2 ^ i) &&& m != 0 then some (2 ^ i) else none)
      = bitsBelow m k := by
  induction k with
  | zero => rfl
  | succ k ih =>
    rw [List.range_succ, List.filterMap_append, ih, bitsBelow_succ]
    congr 1
    cases hb : m.testBit k
    · have := (two_pow_and_eq_zero_iff m k).2 hb
      simp [this]
    · have := (two_pow_and_ne_zero_iff m k).2 hb
      simp [this]

theorem qftBits_eq_bitsOf (m : Nat) : Op.qftBits m = bitsOf m :=
  qftBits_eq_bitsBelow m W

/-- loop invariant of `qft_swapped`'s mask scan: at position `k` the accumulator holds the
set bits below `k`. (No bound on `m` is needed: `pos` wraps to `0` after bit 63.) -/
theorem maskBitsLoop_spec (m : Nat) :
    ∀ d k fuel : Nat, k + d = 64 → d + 1 ≤ fuel →
      Op.maskBitsLoop m fuel (posOf k) (bitsBelow m k) = some (bitsBelow m 64) := by
  intro d
  induction d with
  | zero =>
    intro k fuel hk hf
    have hk' : k = 64 := by omega
    subst hk'
    obtain ⟨f, rfl⟩ : ∃ f, fuel = f + 1 := ⟨fuel - 1, by omega⟩
    rw [posOf_64, Op.maskBitsLoop]
    simp
  | succ d ih =>
    intro k fuel hk hf
    have hk64 : k < 64 := by omega
    obtain ⟨f, rfl⟩ : ∃ f, fuel = f + 1 := ⟨fuel - 1, by omega⟩
    have hpos : 0 < 2 ^ k := Nat.pow_pos (by decide)
    by_cases hle : 2 ^ k ≤ m
    · have hacc : (if (2 ^ k &&& m != 0) = true then bitsBelow m k ++ [2 ^ k] else bitsBelow m k)
          = bitsBelow m (k + 1) := by
        rw [bitsBelow_succ]
        cases hb : m.testBit k
        · have := (two_pow_and_eq_zero_iff m k).2 hb
          simp [this]
        · have := (two_pow_and_ne_zero_iff m k).2 hb
          simp [this]
      have hstep : Op.maskBitsLoop m (f + 1) (posOf k) (bitsBelow m k)
          = Op.maskBitsLoop m f (posOf (k + 1)) (bitsBelow m (k + 1)) := by
        rw [Op.maskBitsLoop, shl1_posOf, posOf_of_lt k hk64, hacc]
        simp [hle]
      rw [hstep]
      exact ih (k + 1) f (by omega) (by omega)
    · rw [Op.maskBitsLoop, posOf_of_lt k hk64]
      simp only [hle, decide_false, Bool.and_false, Bool.false_eq_true, if_false]
      rw [bitsBelow_of_le m k 64 (by omega)
        (fun i h1 _ => testBit_eq_false_of_lt m k i (by omega) h1)]

/-- unconditional version (also for masks that do not fit a word) -/
theorem maskBitsLoop_eq' (m : Nat) : Op.maskBitsLoop m (W + 2) 1 [] = some (bitsOf m) := by
  have := maskBitsLoop_spec m 64 0 (W + 2) (by decide) (by decide)
  rw [posOf_zero] at this
  exact this

theorem maskBitsLoop_eq (m : Nat) (_h : m < 2 ^ 64) :
    Op.maskBitsLoop m (W + 2) 1 [] = some (bitsOf m) :=
  maskBitsLoop_eq' m

#print axioms popcount_zero
#print axioms popcount_two_pow
#print axioms popcount_or_disjoint
#print axioms popcount_xor_parity
#print axioms popcount_lt_two_pow
#print axioms popcount_eq_filter_testBit
#print axioms popcount_and_two_pow
#print axioms and_two_pow_eq_zero_iff
#print axioms oddParity_two_bits
#print axioms mem_bitsBelow
#print axioms mem_bitsOf
#print axioms bitsOf_pairwise_lt
#print axioms bitsOf_fold_or
#print axioms bitsOf_fold_xor
#print axioms length_bitsOf
#print axioms popcount_and_eq_filter
#print axioms bitsOf_two_pow
#print axioms bitsOf_two_bits
#print axioms bitsOf_eq_singleton_iff
#print axioms bitsOf_eq_pair_iff
#print axioms BitsIter.next_spec
#print axioms BitsIter.collect_spec
#print axioms bitsIterList_eq_bitsOf
#print axioms bitsIter_collect_isSome
#print axioms qftBits_eq_bitsOf
#print axioms maskBitsLoop_eq

end Qvnt
