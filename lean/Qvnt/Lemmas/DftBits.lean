/-
LEMMAS — bit-level library for C15: the sub-register functions of `Qvnt/Spec/Dft.lean`
(`subVal`, `withSubVal`, `reverseSel`) in structural-recursive form over the list of bit
*positions* `ps` (`v = pows ps = ps.map (2 ^ ·)`).
-/
import Qvnt.Spec.Dft
import Qvnt.Lemmas.Ctor
import Mathlib.Data.List.Induction
import Mathlib.Tactic.Ring
import Mathlib.Tactic.Linarith

namespace Qvnt.Dft
open Qvnt Qvnt.Spec

/-! ### writing one bit -/

/-- `x` with bit `p` set to `b` -/
def putB (p : Nat) (b : Bool) (x : Nat) : Nat := if b then x ||| 2 ^ p else x ^^^ (x &&& 2 ^ p)

theorem testBit_putB (p : Nat) (b : Bool) (x i : Nat) :
    (putB p b x).testBit i = if i = p then b else x.testBit i := by
  unfold putB
  by_cases h : i = p
  · subst h; cases b <;> simp
  · have h' : p ≠ i := fun e => h e.symm
    cases b <;> simp [h, h']

theorem putB_self (p : Nat) (x : Nat) : putB p (x.testBit p) x = x := by
  apply Nat.eq_of_testBit_eq; intro i
  rw [testBit_putB]; split
  · subst_vars; rfl
  · rfl

theorem putB_putB_same (p : Nat) (b c : Bool) (x : Nat) : putB p b (putB p c x) = putB p b x := by
  apply Nat.eq_of_testBit_eq; intro i
  simp only [testBit_putB]; split <;> rfl

theorem putB_comm {p q : Nat} (h : p ≠ q) (b c : Bool) (x : Nat) :
    putB p b (putB q c x) = putB q c (putB p b x) := by
  apply Nat.eq_of_testBit_eq; intro i
  simp only [testBit_putB]
  by_cases h1 : i = p <;> by_cases h2 : i = q <;> simp [h1, h2, h, h.symm]

theorem and_two_pow_eq_zero_iff' (x p : Nat) : x &&& 2 ^ p = 0 ↔ x.testBit p = false :=
  and_two_pow_eq_zero_iff x p

theorem and_two_pow_ne_zero_iff (x p : Nat) : x &&& 2 ^ p ≠ 0 ↔ x.testBit p = true := by
  rw [Ne, and_two_pow_eq_zero_iff']; simp

/-- flipping a bit = writing the opposite value -/
theorem xor_two_pow_eq_putB (x p : Nat) : x ^^^ 2 ^ p = putB p (!x.testBit p) x := by
  apply Nat.eq_of_testBit_eq; intro i
  rw [testBit_putB, Nat.testBit_xor, Nat.testBit_two_pow]
  by_cases h : i = p
  · subst h; simp
  · have h' : p ≠ i := fun e => h e.symm
    simp [h, h']

/-! ### bit lists as position lists -/

/-- the single-bit masks at positions `ps` -/
def pows (ps : List Nat) : List Nat := ps.map (2 ^ ·)

@[simp] theorem pows_nil : pows [] = [] := rfl
@[simp] theorem pows_cons (p : Nat) (ps : List Nat) : pows (p :: ps) = 2 ^ p :: pows ps := rfl
@[simp] theorem pows_length (ps : List Nat) : (pows ps).length = ps.length := by simp [pows]
theorem pows_append (ps qs : List Nat) : pows (ps ++ qs) = pows ps ++ pows qs := by simp [pows]

theorem pows_getD (ps : List Nat) (i : Nat) (h : i < ps.length) :
    (pows ps).getD i 0 = 2 ^ ps.getD i 0 := by
  simp [pows, List.getD_eq_getElem?_getD, h]

theorem exists_pows {v : List Nat} (hv : BitList v) :
    ∃ ps : List Nat, v = pows ps ∧ ps.Nodup := by
  induction v with
  | nil => exact ⟨[], rfl, List.nodup_nil⟩
  | cons a w ih =>
    obtain ⟨ps, rfl, hnd⟩ := ih hv.tail
    obtain ⟨p, rfl⟩ := hv.pow a List.mem_cons_self
    refine ⟨p :: ps, rfl, List.nodup_cons.2 ⟨?_, hnd⟩⟩
    intro hp
    have hlt := (List.pairwise_cons.1 hv.asc).1 (2 ^ p) (List.mem_map.2 ⟨p, hp, rfl⟩)
    exact Nat.lt_irrefl _ hlt

/-! ### structural forms -/

/-- value of the sub-register at positions `ps` -/
def sv : List Nat → Nat → Nat
  | [], _ => 0
  | p :: ps, idx => (idx.testBit p).toNat + 2 * sv ps idx

/-- write `k` into the sub-register (head = least significant bit) -/
def wsv : List Nat → Nat → Nat → Nat
  | [], idx, _ => idx
  | p :: ps, idx, k => putB p (k.testBit 0) (wsv ps idx (k / 2))

/-- write `K` into the sub-register in reversed order (head = bit `length - 1` of `K`) -/
def wrv : List Nat → Nat → Nat → Nat
  | [], idx, _ => idx
  | p :: ps, idx, K => putB p (K.testBit ps.length) (wrv ps idx K)

/-- the bit reversal used by `reverseSel` -/
def revBits (m k : Nat) : Nat :=
  (List.range m).foldl (fun acc t => if k.testBit t then acc + 2 ^ (m - 1 - t) else acc) 0


/-! ### the definitions of `Spec/Dft.lean` in structural form -/

theorem subVal_foldl (w : List Nat) (idx n acc : Nat) :
    (w.zipIdx n).foldl
        (fun acc (p : Nat × Nat) => if idx &&& p.1 ≠ 0 then acc + 2 ^ p.2 else acc) acc
      = acc + 2 ^ n * subVal w idx := by
  induction w generalizing n acc with
  | nil => simp [subVal]
  | cons a w ih =>
    have e : subVal (a :: w) idx = (w.zipIdx 1).foldl
        (fun acc (p : Nat × Nat) => if idx &&& p.1 ≠ 0 then acc + 2 ^ p.2 else acc)
        (if idx &&& a ≠ 0 then 0 + 2 ^ 0 else 0) := rfl
    rw [List.zipIdx_cons, List.foldl_cons, ih, e, ih]
    split_ifs <;> ring

theorem subVal_nil (idx : Nat) : subVal [] idx = 0 := rfl

theorem subVal_cons (a : Nat) (w : List Nat) (idx : Nat) :
    subVal (a :: w) idx = (if idx &&& a ≠ 0 then 1 else 0) + 2 * subVal w idx := by
  have e : subVal (a :: w) idx = (w.zipIdx 1).foldl
      (fun acc (p : Nat × Nat) => if idx &&& p.1 ≠ 0 then acc + 2 ^ p.2 else acc)
      (if idx &&& a ≠ 0 then 0 + 2 ^ 0 else 0) := rfl
  rw [e, subVal_foldl]
  split_ifs <;> ring

theorem subVal_pows (ps : List Nat) (idx : Nat) : subVal (pows ps) idx = sv ps idx := by
  induction ps with
  | nil => rfl
  | cons p ps ih =>
    rw [pows_cons, subVal_cons, ih, sv]
    by_cases h : idx.testBit p = true
    · simp [(and_two_pow_ne_zero_iff idx p).2 h, h]
    · have h' : idx.testBit p = false := by simpa using h
      simp [(and_two_pow_eq_zero_iff' idx p).2 h', h']

theorem maskOfBits_cons (a : Nat) (w : List Nat) : maskOfBits (a :: w) = a ||| maskOfBits w :=
  orAll_cons a w

theorem spread_foldl (w : List Nat) (k n acc : Nat) :
    (w.zipIdx n).foldl
        (fun acc (p : Nat × Nat) => if k.testBit p.2 then acc ||| p.1 else acc) acc
      = acc ||| spread w (k >>> n) := by
  induction w generalizing k n acc with
  | nil => simp [spread]
  | cons a w ih =>
    have e : ∀ k, spread (a :: w) k = (w.zipIdx 1).foldl
        (fun acc (p : Nat × Nat) => if k.testBit p.2 then acc ||| p.1 else acc)
        (if k.testBit 0 then 0 ||| a else 0) := fun _ => rfl
    rw [List.zipIdx_cons, List.foldl_cons, ih, e, ih]
    simp only [Nat.testBit_shiftRight, Nat.add_zero, Nat.zero_or, ← Nat.shiftRight_add]
    split_ifs
    · rw [Nat.or_assoc]
    · simp

theorem spread_cons (a : Nat) (w : List Nat) (k : Nat) :
    spread (a :: w) k = (if k.testBit 0 then a else 0) ||| spread w (k / 2) := by
  have e : spread (a :: w) k = (w.zipIdx 1).foldl
      (fun acc (p : Nat × Nat) => if k.testBit p.2 then acc ||| p.1 else acc)
      (if k.testBit 0 then 0 ||| a else 0) := rfl
  rw [e, spread_foldl, Nat.shiftRight_one, Nat.zero_or]

/-- the spread value only uses bits of the mask -/
theorem spread_testBit_le (w : List Nat) (k i : Nat) (h : (maskOfBits w).testBit i = false) :
    (spread w k).testBit i = false := by
  induction w generalizing k with
  | nil => simp [spread]
  | cons a w ih =>
    rw [maskOfBits_cons, Nat.testBit_or, Bool.or_eq_false_iff] at h
    rw [spread_cons, Nat.testBit_or, ih _ h.2]
    split <;> simp [h.1]

theorem maskOfBits_pows_testBit (ps : List Nat) (i : Nat) (h : i ∉ ps) :
    (maskOfBits (pows ps)).testBit i = false := by
  induction ps with
  | nil => simp [maskOfBits]
  | cons p ps ih =>
    rw [List.mem_cons, not_or] at h
    rw [pows_cons, maskOfBits_cons, Nat.testBit_or, ih h.2, Nat.testBit_two_pow]
    simp [Ne.symm h.1]

theorem withSubVal_nil (idx k : Nat) : withSubVal [] idx k = idx := by
  simp [withSubVal, maskOfBits, spread]

theorem withSubVal_pows (ps : List Nat) (hnd : ps.Nodup) (idx k : Nat) :
    withSubVal (pows ps) idx k = wsv ps idx k := by
  induction ps generalizing k with
  | nil => exact withSubVal_nil idx k
  | cons p ps ih =>
    obtain ⟨hp, hnd'⟩ := List.nodup_cons.1 hnd
    rw [wsv, ← ih hnd']
    have hM := maskOfBits_pows_testBit ps p hp
    have hS := spread_testBit_le (pows ps) (k / 2) p hM
    apply Nat.eq_of_testBit_eq; intro i
    rw [testBit_putB]
    simp only [withSubVal, pows_cons, maskOfBits_cons, spread_cons, Nat.testBit_or,
      Nat.testBit_xor, Nat.testBit_and]
    by_cases h : i = p
    · subst h
      rw [hM, hS]
      cases k.testBit 0 <;> simp
    · have h' : p ≠ i := fun e => h e.symm
      simp only [h, if_false]
      cases k.testBit 0 <;> simp [h']

theorem reverseSel_eq {R : Type} (v : List Nat) (ψ : State R) (idx : Nat) :
    reverseSel v ψ idx = ψ (withSubVal v idx (revBits v.length (subVal v idx))) := rfl


/-! ### algebra of `sv` / `wsv` / `wrv` -/

theorem sv_congr (ps : List Nat) {x y : Nat} (h : ∀ p ∈ ps, x.testBit p = y.testBit p) :
    sv ps x = sv ps y := by
  induction ps with
  | nil => rfl
  | cons p ps ih =>
    rw [sv, sv, h p List.mem_cons_self, ih (fun q hq => h q (List.mem_cons_of_mem _ hq))]

theorem sv_putB_not_mem (ps : List Nat) {p : Nat} (hp : p ∉ ps) (b : Bool) (x : Nat) :
    sv ps (putB p b x) = sv ps x := by
  apply sv_congr
  intro q hq
  rw [testBit_putB, if_neg]
  rintro rfl; exact hp hq

theorem sv_lt (ps : List Nat) (idx : Nat) : sv ps idx < 2 ^ ps.length := by
  induction ps with
  | nil => simp [sv]
  | cons p ps ih =>
    rw [sv, List.length_cons, pow_succ]
    have : (idx.testBit p).toNat ≤ 1 := Bool.toNat_le _
    omega

theorem testBit_wsv_not_mem (ps : List Nat) {i : Nat} (hi : i ∉ ps) (idx k : Nat) :
    (wsv ps idx k).testBit i = idx.testBit i := by
  induction ps generalizing k with
  | nil => rfl
  | cons p ps ih =>
    rw [List.mem_cons, not_or] at hi
    rw [wsv, testBit_putB, if_neg hi.1, ih hi.2]

theorem testBit_wrv_not_mem (ps : List Nat) {i : Nat} (hi : i ∉ ps) (idx K : Nat) :
    (wrv ps idx K).testBit i = idx.testBit i := by
  induction ps with
  | nil => rfl
  | cons p ps ih =>
    rw [List.mem_cons, not_or] at hi
    rw [wrv, testBit_putB, if_neg hi.1, ih hi.2]

theorem wsv_putB_comm (ps : List Nat) {p : Nat} (hp : p ∉ ps) (b : Bool) (x k : Nat) :
    wsv ps (putB p b x) k = putB p b (wsv ps x k) := by
  induction ps generalizing k with
  | nil => rfl
  | cons q ps ih =>
    rw [List.mem_cons, not_or] at hp
    rw [wsv, wsv, ih hp.2, putB_comm hp.1]

theorem wrv_putB_comm (ps : List Nat) {p : Nat} (hp : p ∉ ps) (b : Bool) (x K : Nat) :
    wrv ps (putB p b x) K = putB p b (wrv ps x K) := by
  induction ps with
  | nil => rfl
  | cons q ps ih =>
    rw [List.mem_cons, not_or] at hp
    rw [wrv, wrv, ih hp.2, putB_comm hp.1]

theorem wrv_congr (ps : List Nat) (idx : Nat) {K K' : Nat}
    (h : ∀ t, t < ps.length → K.testBit t = K'.testBit t) : wrv ps idx K = wrv ps idx K' := by
  induction ps with
  | nil => rfl
  | cons p ps ih =>
    rw [wrv, wrv, h ps.length (by simp),
      ih (fun t ht => h t (by simp only [List.length_cons]; omega))]

theorem sv_wsv (ps : List Nat) (hnd : ps.Nodup) (idx k : Nat) (hk : k < 2 ^ ps.length) :
    sv ps (wsv ps idx k) = k := by
  induction ps generalizing k with
  | nil => simp only [List.length_nil, pow_zero] at hk; simp only [sv]; omega
  | cons p ps ih =>
    obtain ⟨hp, hnd'⟩ := List.nodup_cons.1 hnd
    rw [List.length_cons, pow_succ] at hk
    rw [wsv, sv, testBit_putB, if_pos rfl, sv_putB_not_mem ps hp, ih hnd' _ (by omega)]
    have := Nat.toNat_testBit k 0
    simp only [pow_zero, Nat.div_one] at this
    omega

theorem wsv_wsv (ps : List Nat) (hnd : ps.Nodup) (idx k j : Nat) :
    wsv ps (wsv ps idx k) j = wsv ps idx j := by
  induction ps generalizing k j with
  | nil => rfl
  | cons p ps ih =>
    obtain ⟨hp, hnd'⟩ := List.nodup_cons.1 hnd
    rw [wsv, wsv, wsv_putB_comm ps hp, ih hnd', putB_putB_same, ← wsv]

/-! ### bit reversal -/

theorem revAux_succ (k e : Nat) : ∀ j, j ≤ e + 1 →
    (List.range j).foldl (fun acc t => if k.testBit t then acc + 2 ^ (e + 1 - t) else acc) 0
      = 2 * (List.range j).foldl (fun acc t => if k.testBit t then acc + 2 ^ (e - t) else acc) 0
  | 0, _ => rfl
  | j + 1, hj => by
    rw [List.range_succ, List.foldl_append, List.foldl_append, revAux_succ k e j (by omega)]
    simp only [List.foldl_cons, List.foldl_nil]
    have : e + 1 - j = (e - j) + 1 := by omega
    rw [this, pow_succ]
    split_ifs <;> ring

theorem revBits_zero (k : Nat) : revBits 0 k = 0 := rfl

theorem revBits_succ (n k : Nat) : revBits (n + 1) k = 2 * revBits n k + (k.testBit n).toNat := by
  unfold revBits
  rw [List.range_succ, List.foldl_append]
  simp only [List.foldl_cons, List.foldl_nil, Nat.add_sub_cancel, Nat.sub_self, pow_zero]
  have e : (List.range n).foldl (fun acc t => if k.testBit t then acc + 2 ^ (n - t) else acc) 0
      = 2 * (List.range n).foldl
          (fun acc t => if k.testBit t then acc + 2 ^ (n - 1 - t) else acc) 0 := by
    cases n with
    | zero => rfl
    | succ n' => exact revAux_succ k n' (n' + 1) (Nat.le_refl _)
  rw [e]
  cases k.testBit n <;> simp

theorem wsv_revBits (ps : List Nat) (idx K : Nat) :
    wsv ps idx (revBits ps.length K) = wrv ps idx K := by
  induction ps with
  | nil => rfl
  | cons p ps ih =>
    rw [wsv, wrv, List.length_cons, revBits_succ, ← ih]
    congr 1
    · rw [Nat.testBit_zero]
      cases K.testBit ps.length <;> simp
    · congr 1
      have := Bool.toNat_le (K.testBit ps.length)
      omega

/-- `reverseSel` in structural form -/
theorem reverseSel_pows {R : Type} (ps : List Nat) (hnd : ps.Nodup) (ψ : State R) (idx : Nat) :
    reverseSel (pows ps) ψ idx = ψ (wrv ps idx (sv ps idx)) := by
  rw [reverseSel_eq, subVal_pows, withSubVal_pows ps hnd, pows_length, wsv_revBits]

end Qvnt.Dft
