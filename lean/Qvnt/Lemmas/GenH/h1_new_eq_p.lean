/- `h1_new_eq'` of GenH.lean (one module per declaration, tools/lean_split.py) -/
import Qvnt.Generated.Regs
import Qvnt.Generated.Kernels
import Qvnt.Lemmas.Bits
import Mathlib.Tactic.Ring
import Mathlib.Algebra.Ring.Basic
import Qvnt.Lemmas.Queue

set_option linter.unusedSectionVars false
namespace Qvnt.Gen2
open Qvnt Qvnt.Gen
variable {R : Type}

/-- the atom constructors used below (the same statements are proved for all atoms in `GenKernels`) -/
theorem h1_new_eq' (a : Nat) : (Gen.h1_new a : Atom R) = .h1 a := rfl

end Qvnt.Gen2
