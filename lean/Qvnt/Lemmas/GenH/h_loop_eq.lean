/- `h_loop_eq` of GenH.lean (one module per declaration, tools/lean_split.py) -/
import Qvnt.Generated.Regs
import Qvnt.Generated.Kernels
import Qvnt.Lemmas.Bits
import Mathlib.Tactic.Ring
import Mathlib.Algebra.Ring.Basic
import Qvnt.Lemmas.Queue
import Qvnt.Lemmas.GenBits.shl_pos
import Qvnt.Lemmas.GenH.h2_new_eq_p

set_option linter.unusedSectionVars false
namespace Qvnt.Gen2
open Qvnt Qvnt.Gen
variable {R : Type}
section hgate
variable [Add R] [Sub R] [Mul R] [Div R] [Neg R] [Zero R] [One R] [Consts R]

theorem h_loop_eq (a fuel p f : Nat) (b : Bool) (acc : MultiOp R) (hp : p < 2 ^ 64) :
    (h_h_loop1 a fuel ((p, f), b, acc)).map (fun s => (s.1.2, s.2.1, s.2.2)) = Op.hLoop a fuel p f b acc := by
  induction fuel generalizing p f b acc with
  | zero => simp [h_h_loop1, Op.hLoop]
  | succ n ih =>
    have hs : shl1 p < 2 ^ 64 := by unfold shl1 W; exact Nat.mod_lt _ (by decide)
    unfold h_h_loop1 Op.hLoop
    by_cases hc : (p != 0 && decide (p ≤ a)) = true
    · by_cases hb : (p &&& a != 0) = true
      · cases b
        · simp [hc, hb, shl_pos p hp, ← ih _ _ _ _ hs, h_h2, single_from, h2_new_eq', SingleOp.ofAtom]
        · simp [hc, hb, shl_pos p hp, ← ih _ _ _ _ hs]
      · simp [hc, hb, shl_pos p hp, ← ih _ _ _ _ hs]
    · simp [hc]

end hgate
end Qvnt.Gen2
