/- `h2_new_eq'` of GenH.lean (one module per declaration, tools/lean_split.py) -/
import Qvnt.Generated.Regs
import Qvnt.Generated.Kernels
import Qvnt.Lemmas.Bits
import Mathlib.Tactic.Ring
import Mathlib.Algebra.Ring.Basic
import Qvnt.Lemmas.Queue

set_option linter.unusedSectionVars false
namespace Qvnt.Gen2
open Qvnt Qvnt.Gen
variable {R : Type}

theorem h2_new_eq' (a b : Nat) : (Gen.h2_new a b : Atom R) = .h2 a b (a ||| b) := rfl

end Qvnt.Gen2
