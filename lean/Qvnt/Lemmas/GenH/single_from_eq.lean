/- `single_from_eq` of GenH.lean (one module per declaration, tools/lean_split.py) -/
import Qvnt.Generated.Regs
import Qvnt.Generated.Kernels
import Qvnt.Lemmas.Bits
import Mathlib.Tactic.Ring
import Mathlib.Algebra.Ring.Basic
import Qvnt.Lemmas.Queue

set_option linter.unusedSectionVars false
namespace Qvnt.Gen2
open Qvnt Qvnt.Gen
variable {R : Type}
section hgate
variable [Add R] [Sub R] [Mul R] [Div R] [Neg R] [Zero R] [One R] [Consts R]

theorem single_from_eq (g : Atom R) : single_from g = SingleOp.ofAtom g := rfl

end hgate
end Qvnt.Gen2
