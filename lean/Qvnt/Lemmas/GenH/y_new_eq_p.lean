/- `y_new_eq'` of GenH.lean (one module per declaration, tools/lean_split.py) -/
import Qvnt.Generated.Regs
import Qvnt.Generated.Kernels
import Qvnt.Lemmas.Bits
import Mathlib.Tactic.Ring
import Mathlib.Algebra.Ring.Basic
import Qvnt.Lemmas.GenCore.yIPow_eq
import Qvnt.Lemmas.Queue

set_option linter.unusedSectionVars false
namespace Qvnt.Gen2
open Qvnt Qvnt.Gen
variable {R : Type}

theorem y_new_eq' (a : Nat) : (Gen.y_new a : Atom R) = .y a (yIPow a) := by
  unfold Gen.y_new; simp only [yIPow_eq]

end Qvnt.Gen2
