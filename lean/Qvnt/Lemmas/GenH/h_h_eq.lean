/- `h_h_eq` of GenH.lean (one module per declaration, tools/lean_split.py) -/
import Qvnt.Generated.Regs
import Qvnt.Generated.Kernels
import Qvnt.Lemmas.Bits
import Mathlib.Tactic.Ring
import Mathlib.Algebra.Ring.Basic
import Qvnt.Lemmas.Queue
import Qvnt.Lemmas.GenH.h1_new_eq_p
import Qvnt.Lemmas.GenH.h_loop_eq

set_option linter.unusedSectionVars false
namespace Qvnt.Gen2
open Qvnt Qvnt.Gen
variable {R : Type}
section hgate
variable [Add R] [Sub R] [Mul R] [Div R] [Neg R] [Zero R] [One R] [Consts R]

theorem h_h_eq (a : Nat) : h_h (R := R) a = Op.h a := by
  unfold h_h Op.h
  cases hc : popcount a with
  | zero => simp
  | succ k =>
    cases k with
    | zero => simp [h_h1, single_from, h1_new_eq', SingleOp.ofAtom]
    | succ k =>
      simp only [beq_iff_eq, Nat.succ_ne_zero, ↓reduceIte, Nat.add_eq_right]
      rw [← h_loop_eq a (W + 2) 1 0 true [] (by decide)]
      cases h_h_loop1 (R := R) a (W + 2) ((1, 0), true, []) with
      | none => simp
      | some st => cases hb : st.2.1 <;> simp [hb, h_h1, single_from, h1_new_eq', SingleOp.ofAtom]

end hgate
end Qvnt.Gen2
