/-
Trace conformance of the thread-pool model (C19): a log accepted by `Pool.replay` is a run of
the transition system `Pool.Step false`, so every state the implementation was observed in is
`Reachable false` and the C19 theorems apply to it.
-/
import Qvnt.Lemmas.PoolLemmas

namespace Qvnt.Pool

theorem Steps.trans {h : Bool} {a b c : State} (hab : Steps h a b) (hbc : Steps h b c) :
    Steps h a c := by
  induction hbc with
  | refl => exact hab
  | tail _ hst ih => exact Steps.tail ih hst

theorem Steps.single {h : Bool} {a b : State} (hst : Step h a b) : Steps h a b :=
  Steps.tail (Steps.refl a) hst

theorem Steps.reachable {h : Bool} {a b : State} (ha : Reachable h a) (hab : Steps h a b) :
    Reachable h b := by
  induction hab with
  | refl => exact ha
  | tail _ hst ih => exact Reachable.step ih hst

theorem removeFirst_spec (x : Nat × Nat × Nat) :
    ∀ (l pre post : List (Nat × Nat × Nat)), removeFirst x l = some (pre, post) →
      l = pre ++ x :: post := by
  intro l
  induction l with
  | nil => intro pre post h; simp [removeFirst] at h
  | cons y ys ih =>
    intro pre post h
    unfold removeFirst at h
    by_cases hy : y = x
    · simp only [hy, if_true, Option.some.injEq, Prod.mk.injEq] at h
      obtain ⟨h1, h2⟩ := h
      subst h1; subst h2; subst hy; rfl
    · simp only [hy, if_false] at h
      cases hr : removeFirst x ys with
      | none => simp [hr] at h
      | some pp =>
        obtain ⟨pre', post'⟩ := pp
        simp only [hr, Option.some.injEq, Prod.mk.injEq] at h
        obtain ⟨h1, h2⟩ := h
        subst h1; subst h2
        rw [ih pre' post' hr]; rfl

theorem isInstalling_iff (pc : Pc) : isInstalling pc = true ↔ ∃ w, pc = .installing w := by
  cases pc <;> simp [isInstalling]

/-- every accepted event is zero, one or two steps of the transition system -/
theorem applyEv_sound {s s' : State} {t : Nat} {e : Ev} (h : applyEv s t e = some s') :
    Steps false s s' := by
  cases e with
  | call want =>
    simp only [applyEv] at h
    cases ht : s.threads[t]? with
    | none => simp [ht] at h
    | some stack =>
      simp only [ht] at h
      have hfree : stack = [] ∨ ∃ f rest w, stack = f :: rest ∧ f.pc = .installing w := by
        cases stack with
        | nil => exact Or.inl rfl
        | cons f rest =>
          right
          by_cases hi : isInstalling f.pc = true
          · obtain ⟨w, hw⟩ := (isInstalling_iff f.pc).1 hi
            exact ⟨f, rest, w, rfl, hw⟩
          · simp [hi] at h
      cases hr : removeFirst (t, want, 0) s.pending with
      | none => simp [hr] at h
      | some pp =>
        obtain ⟨pre, post⟩ := pp
        have hp := removeFirst_spec _ _ _ _ hr
        have hs' : s' = { s with threads := s.threads.set t (⟨want, .start, 0⟩ :: stack),
                                 pending := pre ++ post } := by
          simp only [hr] at h
          cases stack with
          | nil => simp at h; exact h.symm
          | cons f rest => simp at h; exact h.2.symm
        subst hs'
        exact Steps.single (Step.spawn s t want 0 stack pre post ht hfree hp)
  | installBegin =>
    simp only [applyEv] at h
    split at h
    · split at h
      · simp only [Option.some.injEq] at h; subst h; exact Steps.refl s
      · simp at h
    · simp at h
  | installEnd =>
    simp only [applyEv] at h
    split at h
    · rename_i f rest ht
      split at h
      · rename_i hpc
        simp only [Option.some.injEq] at h
        subst h
        -- installing 0 → done, then the frame returns
        have h1 : Step false s { s with threads := s.threads.set t ({ f with pc := .done } :: rest),
                                        pool := s.pool } :=
          Step.top s t f { f with pc := .done } rest none ht (by simp [stepFrame, hpc])
        have hlen : t < s.threads.length := by
          rcases Nat.lt_or_ge t s.threads.length with hlt | hge
          · exact hlt
          · rw [List.getElem?_eq_none hge] at ht; simp at ht
        have h2 := Step.pop (h := false) { s with threads := s.threads.set t ({ f with pc := .done } :: rest) }
          t { f with pc := .done } rest (by simp [List.getElem?_set, hlen]) rfl
        simp only [List.set_set] at h2
        exact Steps.tail (Steps.single h1) h2
      · simp at h
    · simp at h
  | readAcq | readRel _ | writeAcq | writeRel _ =>
    simp only [applyEv] at h
    split at h
    · rename_i f rest ht
      split at h
      · rename_i f' p hsf
        split at h
        · simp only [Option.some.injEq] at h; subst h
          have := Step.top s t f f' rest p ht hsf
          cases p <;> exact Steps.single this
        · simp at h
      · simp at h
    · simp at h

theorem replay_sound : ∀ (log : List (Nat × Ev)) (s s' : State) (i : Nat),
    replay s log i = .ok s' → Steps false s s' := by
  intro log
  induction log with
  | nil => intro s s' i h; simp only [replay, Except.ok.injEq] at h; subst h; exact Steps.refl s
  | cons te rest ih =>
    intro s s' i h
    obtain ⟨t, e⟩ := te
    simp only [replay] at h
    cases ha : applyEv s t e with
    | none => simp [ha] at h
    | some s1 =>
      simp only [ha] at h
      exact Steps.trans (applyEv_sound ha) (ih s1 s' (i + 1) h)

theorem pendingOf_lt (n : Nat) : ∀ (log : List (Nat × Ev)), (∀ p ∈ log, p.1 < n) →
    ∀ p ∈ pendingOf log, p.1 < n := by
  intro log
  induction log with
  | nil => intro _ p hp; simp [pendingOf] at hp
  | cons te rest ih =>
    intro hlt p hp
    obtain ⟨t, e⟩ := te
    have hrest : ∀ p ∈ rest, p.1 < n := fun p hp => hlt p (List.mem_cons_of_mem _ hp)
    cases e with
    | call want =>
      simp only [pendingOf, List.mem_cons] at hp
      rcases hp with rfl | hp
      · exact hlt (t, Ev.call want) (List.mem_cons_self ..)
      · exact ih hrest p hp
    | readAcq | readRel _ | writeAcq | writeRel _ | installBegin | installEnd =>
      simp only [pendingOf] at hp
      exact ih hrest p hp

/-- **A conforming log is a run of the model that ends with every call returned**: it starts
in a state the reachability relation starts from, every event is a move of `Step false`, hence
every intermediate state is `Reachable false`, and the final state is `AllDone`. -/
theorem conforms_sound (pool : Option Nat) (n : Nat) (log : List (Nat × Ev))
    (h : conforms pool n log = true) :
    Reachable false (initOf pool n log) ∧
      ∃ s, Steps false (initOf pool n log) s ∧ Reachable false s ∧ AllDone s := by
  simp only [conforms, Bool.and_eq_true, List.all_eq_true, decide_eq_true_eq] at h
  obtain ⟨hlt, h2⟩ := h
  have hinit : Reachable false (initOf pool n log) :=
    Reachable.init pool n (pendingOf log) (pendingOf_lt n log hlt)
  refine ⟨hinit, ?_⟩
  cases hr : replay (initOf pool n log) log 0 with
  | error i => simp [hr] at h2
  | ok s =>
    simp only [hr, Bool.and_eq_true, List.isEmpty_iff] at h2
    have hst := replay_sound log _ s 0 hr
    exact ⟨s, hst, Steps.reachable hinit hst, ⟨h2.1, h2.2⟩⟩

/-- a prefix of a conforming log leads to a reachable state too (what a hung run leaves behind) -/
theorem replay_prefix_reachable (pool : Option Nat) (n : Nat) (log : List (Nat × Ev)) (s : State)
    (hlt : ∀ p ∈ log, p.1 < n) (hr : replay (initOf pool n log) log 0 = .ok s) :
    Reachable false s :=
  Steps.reachable (Reachable.init pool n (pendingOf log) (pendingOf_lt n log hlt))
    (replay_sound log _ s 0 hr)

/-! non-vacuity -/

/-- the log of two threads that both create the pool (first-use race, sizes 2 and 3) conforms -/
example : conforms none 2
    [(0, .call 2), (1, .call 3), (0, .readAcq), (1, .readAcq), (0, .readRel none), (1, .readRel none),
     (1, .writeAcq), (1, .writeRel (some 3)), (0, .writeAcq), (0, .writeRel (some 2)),
     (1, .readAcq), (0, .readAcq), (1, .readRel (some 2)), (0, .readRel (some 2)),
     (1, .installBegin), (0, .installBegin), (1, .installEnd), (0, .installEnd)] = true := by decide

/-- a nested call on the same thread while the outer one waits in `install` conforms -/
example : conforms (some 2) 1
    [(0, .call 2), (0, .readAcq), (0, .readRel (some 2)), (0, .readAcq), (0, .readRel (some 2)),
     (0, .installBegin),
     (0, .call 3), (0, .readAcq), (0, .readRel (some 2)), (0, .writeAcq), (0, .writeRel (some 3)),
     (0, .readAcq), (0, .readRel (some 3)), (0, .installBegin), (0, .installEnd),
     (0, .installEnd)] = true := by decide

/-- the code before the repair (read guard kept across `install`) does NOT conform: `install`
is entered while the frame still holds the read lock -/
example : (match replay (initOf (some 2) 1 [(0, .call 2)])
    [(0, .call 2), (0, .readAcq), (0, .readRel (some 2)), (0, .readAcq), (0, .installBegin),
     (0, .installEnd), (0, .readRel (some 2))] 0 with | .error i => i == 4 | .ok _ => false) = true := by decide

/-- a write lock taken while another thread reads does not conform -/
example : (match replay (initOf none 2 [(0, .call 2), (1, .call 3)])
    [(0, .call 2), (1, .call 3), (0, .readAcq), (0, .readRel none), (1, .readAcq),
     (0, .writeAcq)] 0 with | .error i => i == 5 | .ok _ => false) = true := by decide

end Qvnt.Pool
