/-
`operator/single/mod.rs`, `operator/multi/mod.rs`: act_on, dgr, c, apply (buffer ping-pong), *=; `QReg::apply`.
(split out of GenRegs2.lean so that an equality that no longer holds blocks only the properties that rely on it)
-/
import Qvnt.Lemmas.GenOps.single_act_on_eq
import Qvnt.Lemmas.GenOps.single_dgr_eq
import Qvnt.Lemmas.GenOps.single_c_eq
import Qvnt.Lemmas.GenOps.single_apply_eq
import Qvnt.Lemmas.GenOps.multi_act_on_eq
import Qvnt.Lemmas.GenOps.multi_dgr_eq
import Qvnt.Lemmas.GenOps.multi_mul_assign_eq
import Qvnt.Lemmas.GenOps.multi_c_eq
import Qvnt.Lemmas.GenOps.multi_apply_eq
import Qvnt.Lemmas.GenOps.quant_apply_eq
import Qvnt.Lemmas.GenOps.x_ctrl
