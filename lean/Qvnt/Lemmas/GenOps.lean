/-
`operator/single/mod.rs`, `operator/multi/mod.rs`: act_on, dgr, c, apply (buffer ping-pong), *=; `QReg::apply`.
(split out of GenRegs2.lean so that an equality that no longer holds blocks only the properties that rely on it)
-/
import Qvnt.Lemmas.GenPre

set_option linter.unusedSectionVars false

namespace Qvnt.Gen2
open Qvnt Qvnt.Gen

variable {R : Type}

/-! ### `SingleOp`, `MultiOp` (`operator/single/mod.rs`, `operator/multi/mod.rs`) -/
section ops
variable [CommRing R] [Consts R] [Div R] [LE R] [DecidableLE R] [LT R] [DecidableLT R] [HasSqrt R] [RegConsts R]

theorem single_act_on_eq (g : SingleOp R) : single_act_on g = g.actOn := rfl
theorem single_dgr_eq (g : SingleOp R) : single_dgr g = g.dgr := rfl

theorem single_c_eq (g : SingleOp R) (c : Nat) : single_c g c = g.c c := by
  unfold single_c SingleOp.c single_act_on SingleOp.actOn
  by_cases h : (g.act ||| g.ctrl) &&& c = 0 <;> simp [h]

/-- one sweep: the translated `SingleOp::apply` fills the output buffer with the model's `applyArr` -/
theorem single_apply_eq (g : SingleOp R) (hc : g.ctrl < 2 ^ 64) (a : Array (Cx R)) (o : List (Cx R))
    (ho : o.length = a.size) :
    single_apply g a.toList o = (g.applyArr a).toList := by
  unfold single_apply atomForEach SingleOp.applyArr
  apply List.ext_getElem
  · simp [Rs.mapIdx, Rs.enumerate, ho]
  · intro i h1 h2
    rw [mapIdx_getElem]
    simp only [Array.getElem_toList, Array.getElem_ofFn]
    have : (fun i => a.toList.getD i 0) = bufFn a := by
      funext j; simp [bufFn, List.getD_eq_getElem?_getD, Array.getD_eq_getD_getElem?]
    rw [this, forEach_eq g hc]

theorem multi_act_on_eq (o : MultiOp R) : multi_act_on o = MultiOp.actOn o := rfl

theorem multi_dgr_eq (o : MultiOp R) : multi_dgr o = MultiOp.dgr o := by
  simp [multi_dgr, MultiOp.dgr, single_dgr_eq]

theorem multi_mul_assign_eq (a b : MultiOp R) : multi_mul_assign a b = MultiOp.mul a b := rfl

/-- `MultiOp::c`: the translated function never panics (the `unwrap` of every element succeeds whenever
the product's own test passed) and returns what the model returns -/
theorem multi_c_eq (o : MultiOp R) (cm : Nat) : multi_c o cm = some (MultiOp.c o cm) ∨
    (MultiOp.c o cm = none ∧ MultiOp.actOn o &&& cm = 0) := by
  unfold multi_c MultiOp.c
  rw [multi_act_on_eq]
  by_cases h : MultiOp.actOn o &&& cm = 0
  · simp only [h, bne_self_eq_false, Bool.false_eq_true, ↓reduceIte, ne_eq, not_true_eq_false]
    have hm : List.mapM (fun a1 => Option.bind (single_c a1 cm) fun u3 => some u3) o = List.mapM (fun g => g.c cm) o := by
      congr 1; funext g; simp [single_c_eq]
    rw [hm]
    cases hc : List.mapM (fun g => SingleOp.c g cm) o with
    | none => right; simp
    | some l => left; simp
  · left; simp [h]

/-- `MultiOp::apply` with its buffer ping-pong: the translated function leaves in `psi_o` exactly what
the model's `applyArr` computes, for every queue whose control masks are machine words -/
theorem multi_apply_eq (o : MultiOp R) (hc : ∀ g ∈ o, g.ctrl < 2 ^ 64) (a : Array (Cx R)) (out : List (Cx R))
    (ho : out.length = a.size) :
    multi_apply o a.toList out = (MultiOp.applyArr o a).toList := by
  unfold multi_apply MultiOp.applyArr
  -- invariant of the fold: (psi_o, psi_i) = (scratch of the right length, current buffer)
  suffices h : ∀ (l : MultiOp R) (hl : ∀ g ∈ l, g.ctrl < 2 ^ 64) (cur : Array (Cx R)) (scr : List (Cx R)),
      scr.length = cur.size →
      (List.foldl (fun (st : List (Cx R) × List (Cx R)) (g : SingleOp R) =>
          (st.2, single_apply g st.2 st.1)) (scr, cur.toList) l).2 = (List.foldl (fun a g => g.applyArr a) cur l).toList by
    have := h o hc a out ho
    simpa using this
  intro l
  induction l with
  | nil => intro _ cur scr _; simp
  | cons g l ih =>
    intro hl cur scr hs
    simp only [List.foldl_cons]
    rw [single_apply_eq g (hl g (by simp)) cur scr hs]
    apply ih (fun g' hg' => hl g' (by simp [hg']))
    simp [SingleOp.applyArr]

end ops

section apply
variable [CommRing R] [Consts R] [Div R] [LE R] [DecidableLE R] [LT R] [DecidableLT R] [HasSqrt R] [RegConsts R]

/-- `QReg::apply` (the sequential arm; the parallel arm is its twin): scratch buffer, one `MultiOp::apply`, swap -/
theorem quant_apply_eq (r : QReg R) (o : MultiOp R) (hc : ∀ g ∈ o, g.ctrl < 2 ^ 64) :
    quant_apply (ofModel r) o = ofModel (r.apply o) := by
  unfold quant_apply QReg.apply
  simp only [ofModel]
  rw [multi_apply_eq o hc r.psi _ (by simp [Rs.resize])]

theorem x_ctrl (v : Nat) : ∀ g ∈ (Op.x v : MultiOp R), g.ctrl < 2 ^ 64 := by
  intro g hg
  unfold Op.x MultiOp.ofSingle at hg
  split at hg
  · simp at hg
  · simp at hg; subst hg; simp [SingleOp.ofAtom]

end apply
end Qvnt.Gen2
