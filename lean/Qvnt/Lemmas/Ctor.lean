/-
LEMMAS — the multi-qubit constructors (`multi::h::h`, `multi::qft::qft`,
`multi::qft::qft_swapped`) build exactly the reference circuits of `Spec/Gates` and
`Spec/Denote`.

Method: each Rust loop is shown to return a *closed-form* queue (`pairUp (bitsOf m)`,
`qftOps phaseOf (bitsOf m)`, `swapOps (bitsOf m)`), then the closed form is related to the
reference circuit.
-/
import Qvnt.Lemmas.Bits
import Qvnt.Lemmas.Kernels
import Qvnt.Lemmas.Structure
import Qvnt.Spec.Denote

namespace Qvnt
open Qvnt.Spec

/-! ## 0. generic helpers -/

section generic

/-- the union of a list of masks -/
def orAll (l : List Nat) : Nat := l.foldl (· ||| ·) 0

theorem foldl_or_eq (l : List Nat) (acc : Nat) :
    l.foldl (· ||| ·) acc = acc ||| orAll l := by
  induction l generalizing acc with
  | nil => simp [orAll]
  | cons a l ih =>
    simp only [orAll, List.foldl_cons]
    rw [ih, ih (0 ||| a), Nat.zero_or, Nat.or_assoc]

theorem orAll_nil : orAll [] = 0 := rfl

theorem orAll_cons (a : Nat) (l : List Nat) : orAll (a :: l) = a ||| orAll l := by
  simp only [orAll, List.foldl_cons]
  rw [foldl_or_eq, Nat.zero_or]; rfl

theorem orAll_append (a b : List Nat) : orAll (a ++ b) = orAll a ||| orAll b := by
  induction a with
  | nil => simp [orAll_nil]
  | cons x a ih => rw [List.cons_append, orAll_cons, orAll_cons, ih, Nat.or_assoc]

theorem testBit_orAll (l : List Nat) (b : Nat) :
    (orAll l).testBit b = l.any (fun a => a.testBit b) := by
  induction l with
  | nil => simp [orAll_nil]
  | cons a l ih => rw [orAll_cons, Nat.testBit_or, ih, List.any_cons]

theorem orAll_bitsOf (m : Nat) (hm : m < 2 ^ 64) : orAll (bitsOf m) = m :=
  bitsOf_fold_or m hm

variable {R : Type}

theorem testBit_actOn (o : MultiOp R) (b : Nat) :
    (MultiOp.actOn o).testBit b = o.any (fun g => g.actOn.testBit b) := by
  induction o with
  | nil => simp [MultiOp.actOn_nil]
  | cons g o ih => rw [MultiOp.actOn_cons, Nat.testBit_or, ih, List.any_cons]

/-- a successful `mapM` in `Option` is a `map` -/
theorem mapM_option_eq_some {α β : Type} (f : α → Option β) (g : α → β) (l : List α)
    (h : ∀ x ∈ l, f x = some (g x)) : l.mapM f = some (l.map g) := by
  induction l with
  | nil => rfl
  | cons x l ih =>
    rw [List.mapM_cons, h x List.mem_cons_self,
      ih (fun y hy => h y (List.mem_cons_of_mem _ hy))]
    rfl

theorem getD_eq_getElem' (l : List Nat) (i : Nat) (h : i < l.length) : l.getD i 0 = l[i] := by
  simp [List.getD_eq_getElem?_getD, h]

theorem getD_mem {l : List Nat} {i : Nat} (h : i < l.length) : l.getD i 0 ∈ l := by
  rw [getD_eq_getElem' _ _ h]; exact List.getElem_mem h

theorem getD_lt_of_pairwise {l : List Nat} (hp : l.Pairwise (· < ·)) {i j : Nat}
    (hij : i < j) (hj : j < l.length) : l.getD i 0 < l.getD j 0 := by
  rw [getD_eq_getElem' _ _ hj, getD_eq_getElem' _ _ (Nat.lt_trans hij hj)]
  exact List.pairwise_iff_getElem.1 hp i j (Nat.lt_trans hij hj) hj hij

end generic

/-- `v` is a list of distinct single-bit masks, ascending -/
structure BitList (v : List Nat) : Prop where
  pow : ∀ a ∈ v, ∃ i, a = 2 ^ i
  asc : v.Pairwise (· < ·)

theorem bitList_bitsOf (m : Nat) : BitList (bitsOf m) :=
  ⟨fun a ha => by
      obtain ⟨i, _, rfl, _⟩ := (mem_bitsOf m a).1 ha
      exact ⟨i, rfl⟩,
    bitsOf_pairwise_lt m⟩

theorem BitList.tail {a : Nat} {v : List Nat} (h : BitList (a :: v)) : BitList v :=
  ⟨fun x hx => h.pow x (List.mem_cons_of_mem _ hx), (List.pairwise_cons.1 h.asc).2⟩

theorem BitList.getD_pow {v : List Nat} (h : BitList v) {i : Nat} (hi : i < v.length) :
    ∃ k, v.getD i 0 = 2 ^ k := h.pow _ (getD_mem hi)

theorem BitList.getD_ne {v : List Nat} (h : BitList v) {i j : Nat} (hij : i ≠ j)
    (hi : i < v.length) (hj : j < v.length) : v.getD i 0 ≠ v.getD j 0 := by
  rcases Nat.lt_or_gt_of_ne hij with hlt | hlt
  · exact Nat.ne_of_lt (getD_lt_of_pairwise h.asc hlt hj)
  · exact Nat.ne_of_gt (getD_lt_of_pairwise h.asc hlt hi)

/-- two distinct entries are disjoint single-bit masks `2^a`, `2^b`, `a ≠ b` -/
theorem BitList.getD_two {v : List Nat} (h : BitList v) {i j : Nat} (hij : i ≠ j)
    (hi : i < v.length) (hj : j < v.length) :
    ∃ a b, a ≠ b ∧ v.getD i 0 = 2 ^ a ∧ v.getD j 0 = 2 ^ b := by
  obtain ⟨a, ha⟩ := h.getD_pow hi
  obtain ⟨b, hb⟩ := h.getD_pow hj
  refine ⟨a, b, ?_, ha, hb⟩
  rintro rfl
  exact h.getD_ne hij hi hj (ha.trans hb.symm)

/-! ## 1. `multi::h::h` -/

section hadamard
variable {R : Type}

/-- closed form of the queue built by `multi::h::h` from the ascending bit list:
consecutive bits are paired into `h2`, a left-over bit gives a final `h1` -/
def pairUp : List Nat → MultiOp R
  | [] => []
  | [a] => [SingleOp.ofAtom (.h1 a)]
  | a :: b :: t => SingleOp.ofAtom (.h2 b a (b ||| a)) :: pairUp t

theorem pairUp_append : ∀ (l r : List Nat), l.length % 2 = 0 →
    (pairUp (l ++ r) : MultiOp R) = pairUp l ++ pairUp r
  | [], _, _ => rfl
  | [_], _, h => by simp at h
  | a :: b :: t, r, h => by
    have ht : t.length % 2 = 0 := by simp only [List.length_cons] at h; omega
    simp only [List.cons_append, pairUp, pairUp_append t r ht]

/-- loop invariant of `multi::h::h`: at bit position `k` the queue is `pairUp` of an even
prefix `l` of the bits below `k`, and the pending unpaired bit (if any) is `first`. The loop
never runs out of fuel. (No bound on `m` is needed: `pos` wraps to `0` after bit 63.) -/
theorem hLoop_spec (m : Nat) :
    ∀ d k fuel : Nat, k + d = 64 → d + 1 ≤ fuel →
      ∀ (l : List Nat) (first : Nat) (isFirst : Bool), l.length % 2 = 0 →
        bitsBelow m k = l ++ (if isFirst then [] else [first]) →
        ∃ (l' : List Nat) (first' : Nat) (isFirst' : Bool),
          Op.hLoop (R := R) m fuel (posOf k) first isFirst (pairUp l)
            = some (first', isFirst', pairUp l') ∧ l'.length % 2 = 0 ∧
          bitsBelow m 64 = l' ++ (if isFirst' then [] else [first']) := by
  intro d
  induction d with
  | zero =>
    intro k fuel hk hf l first isFirst hl hb
    have hk' : k = 64 := by omega
    subst hk'
    obtain ⟨f, rfl⟩ : ∃ f, fuel = f + 1 := ⟨fuel - 1, by omega⟩
    refine ⟨l, first, isFirst, ?_, hl, hb⟩
    rw [posOf_64, Op.hLoop]
    simp
  | succ d ih =>
    intro k fuel hk hf l first isFirst hl hb
    have hk64 : k < 64 := by omega
    obtain ⟨f, rfl⟩ : ∃ f, fuel = f + 1 := ⟨fuel - 1, by omega⟩
    have hpos : 0 < 2 ^ k := Nat.pow_pos (by decide)
    by_cases hle : 2 ^ k ≤ m
    · cases hbit : m.testBit k
      · -- bit `k` clear: nothing changes
        have hz := (two_pow_and_eq_zero_iff m k).2 hbit
        have hstep : Op.hLoop (R := R) m (f + 1) (posOf k) first isFirst (pairUp l)
            = Op.hLoop m f (posOf (k + 1)) first isFirst (pairUp l) := by
          rw [Op.hLoop, shl1_posOf, posOf_of_lt k hk64]
          simp [hle, hz]
        rw [hstep]
        refine ih (k + 1) f (by omega) (by omega) l first isFirst hl ?_
        rw [bitsBelow_succ, hbit, hb]; simp
      · have hnz := (two_pow_and_ne_zero_iff m k).2 hbit
        cases isFirst
        · -- second bit of a pair: push `h2 pos first`
          have hstep : Op.hLoop (R := R) m (f + 1) (posOf k) first false (pairUp l)
              = Op.hLoop m f (posOf (k + 1)) first true (pairUp (l ++ [first, 2 ^ k])) := by
            rw [Op.hLoop, shl1_posOf, posOf_of_lt k hk64, pairUp_append l _ hl]
            simp [hle, hnz, pairUp]
          rw [hstep]
          refine ih (k + 1) f (by omega) (by omega) (l ++ [first, 2 ^ k]) first true ?_ ?_
          · simp only [List.length_append, List.length_cons, List.length_nil]; omega
          · rw [bitsBelow_succ, hbit, hb]; simp
        · -- first bit of a pair: remember it
          have hstep : Op.hLoop (R := R) m (f + 1) (posOf k) first true (pairUp l)
              = Op.hLoop m f (posOf (k + 1)) (2 ^ k) false (pairUp l) := by
            rw [Op.hLoop, shl1_posOf, posOf_of_lt k hk64]
            simp [hle, hnz]
          rw [hstep]
          refine ih (k + 1) f (by omega) (by omega) l (2 ^ k) false hl ?_
          rw [bitsBelow_succ, hbit, hb]; simp
    · -- `pos > a_mask`: the loop ends, no set bit at or above `k`
      refine ⟨l, first, isFirst, ?_, hl, ?_⟩
      · rw [Op.hLoop, posOf_of_lt k hk64]
        simp [hle]
      · rw [bitsBelow_of_le m k 64 (by omega)
          (fun i h1 _ => testBit_eq_false_of_lt m k i (by omega) h1), hb]

theorem ofSingle_h1 (a : Nat) :
    MultiOp.ofSingle (SingleOp.ofAtom (Atom.h1 a : Atom R)) = [SingleOp.ofAtom (.h1 a)] := rfl

theorem pairUp_snoc (l : List Nat) (a : Nat) (hl : l.length % 2 = 0) :
    (pairUp (l ++ [a]) : MultiOp R) = pairUp l ++ [SingleOp.ofAtom (.h1 a)] :=
  pairUp_append l [a] hl

/-- `multi::h::h` returns the closed form, for every 64-bit mask -/
theorem h_eq (m : Nat) (hm : m < 2 ^ 64) : Op.h (R := R) m = some (pairUp (bitsOf m)) := by
  have hlen := length_bitsOf m hm
  rcases hp : popcount m with _ | _ | n
  · rw [hp] at hlen
    have : bitsOf m = [] := List.length_eq_zero_iff.1 hlen
    simp only [Op.h, hp, this, pairUp]
  · obtain ⟨a, ha⟩ := (bitsOf_eq_singleton_iff m hm).2 hp
    have hma : a = m := by
      have := bitsOf_fold_or m hm
      rw [ha] at this
      simpa using this
    subst hma
    simp only [Op.h, hp, ha, pairUp, ofSingle_h1]
  · obtain ⟨l', first', isFirst', hrun, hl', hb⟩ :=
      hLoop_spec (R := R) m 64 0 (W + 2) (by decide) (by decide) [] 0 true rfl rfl
    rw [posOf_zero] at hrun
    have hrun' : Op.hLoop (R := R) m (W + 2) 1 0 true [] = some (first', isFirst', pairUp l') :=
      hrun
    simp only [Op.h, hp, hrun']
    rw [bitsOf, show W = 64 from rfl, hb]
    cases isFirst'
    · simp [pairUp_snoc l' first' hl']
    · simp

theorem pairUp_actOn : ∀ l : List Nat, MultiOp.actOn (pairUp l : MultiOp R) = orAll l
  | [] => rfl
  | [a] => by
    rw [pairUp, MultiOp.actOn_singleton, orAll_cons, orAll_nil]
    simp [SingleOp.actOn, SingleOp.ofAtom, Atom.actsOn]
  | a :: b :: t => by
    rw [pairUp, MultiOp.actOn_cons, pairUp_actOn t, orAll_cons, orAll_cons]
    simp only [SingleOp.actOn, SingleOp.ofAtom, Atom.actsOn, Nat.or_zero]
    rw [Nat.or_comm b a, Nat.or_assoc]

theorem pairUp_ctrl : ∀ (l : List Nat) (g : SingleOp R), g ∈ (pairUp l : MultiOp R) → g.ctrl = 0
  | [], g, hg => by simp [pairUp] at hg
  | [a], g, hg => by
    simp only [pairUp, List.mem_singleton] at hg
    subst hg; rfl
  | a :: b :: t, g, hg => by
    simp only [pairUp, List.mem_cons] at hg
    rcases hg with rfl | hg
    · rfl
    · exact pairUp_ctrl t g hg

theorem h_eq' (m : Nat) (hm : m < 2 ^ 64) (o : MultiOp R) (ho : Op.h m = some o) :
    o = pairUp (bitsOf m) := by
  rw [h_eq m hm] at ho
  exact (Option.some.inj ho).symm

theorem h_isSome (m : Nat) (hm : m < 2 ^ 64) : ∃ o : MultiOp R, Op.h m = some o :=
  ⟨_, h_eq m hm⟩

theorem h_actOn (m : Nat) (hm : m < 2 ^ 64) (o : MultiOp R) (ho : Op.h m = some o) :
    MultiOp.actOn o = m := by
  rw [h_eq' m hm o ho]
  rw [pairUp_actOn, orAll_bitsOf m hm]

theorem h_ctrl_free (m : Nat) (hm : m < 2 ^ 64) (o : MultiOp R) (ho : Op.h m = some o) :
    ∀ g ∈ o, g.ctrl = 0 := by
  rw [h_eq' m hm o ho]
  exact pairUp_ctrl _

/-- `h` of a single-bit mask is the one-element queue `[h1]` (any bit position) -/
theorem h_two_pow (k : Nat) :
    Op.h (R := R) (2 ^ k) = some [SingleOp.ofAtom (.h1 (2 ^ k))] := by
  simp only [Op.h, popcount_two_pow, ofSingle_h1]

end hadamard

section hadamardSem
variable {R : Type} [CommRing R] [Consts R]

theorem ofAtom_apply (g : Atom R) (ψ : State R) : (SingleOp.ofAtom g).apply ψ = g.op ψ := by
  rw [SingleOp.apply_eq_ctrl]
  exact Spec.ctrl_zero _ ψ

/-- `H` on each mask of the list, first element first -/
def hAll (l : List Nat) (ψ : State R) : State R := l.foldl (fun ψ a => act1 matH a ψ) ψ

theorem actAll_onEach (m : Nat) (ψ : State R) :
    actAll (onEach matH m) ψ = hAll (bitsOf m) ψ := by
  simp only [actAll, onEach, hAll, List.foldl_map]
  congr 1
  funext φ a
  exact Spec.ctrl_zero _ φ

theorem pairUp_apply (hs : 2 * (Consts.invSqrt2 : R) * Consts.invSqrt2 = 1)
    (hh : 2 * (Consts.half : R) = 1) :
    ∀ l : List Nat, BitList l → ∀ ψ : State R, (pairUp l : MultiOp R).apply ψ = hAll l ψ
  | [], _, _ => rfl
  | [a], _, ψ => by
    rw [pairUp, MultiOp.apply_singleton, ofAtom_apply]
    funext idx
    exact h1_eq a ψ idx
  | a :: b :: t, hl, ψ => by
    rw [pairUp, MultiOp.apply_cons, pairUp_apply hs hh t hl.tail.tail, ofAtom_apply]
    obtain ⟨i, rfl⟩ := hl.pow a (by simp)
    obtain ⟨j, rfl⟩ := hl.pow b (by simp)
    have hij : j ≠ i := by
      rintro rfl
      have := (List.pairwise_cons.1 hl.asc).1 (2 ^ j) (by simp)
      omega
    have : (Atom.h2 (2 ^ j) (2 ^ i) (2 ^ j ||| 2 ^ i) : Atom R).op ψ
        = act1 matH (2 ^ j) (act1 matH (2 ^ i) ψ) := by
      funext idx
      exact h2_eq j i hij hs hh ψ idx
    rw [this]
    rfl

theorem h_apply (m : Nat) (hm : m < 2 ^ 64)
    (hs : 2 * (Consts.invSqrt2 : R) * Consts.invSqrt2 = 1) (hh : 2 * (Consts.half : R) = 1)
    (o : MultiOp R) (ho : Op.h m = some o) (ψ : State R) :
    o.apply ψ = actAll (onEach matH m) ψ := by
  rw [h_eq' m hm o ho]
  rw [pairUp_apply hs hh _ (bitList_bitsOf m), actAll_onEach]

end hadamardSem

/-! ## 2. `multi::qft::qft` -/

section qftDefs
variable {R : Type}

/-- the two elements stage `i` pushes for the later bit `v[i+k+1]`: `RZ(phaseOf (k+1))` on it,
controlled by `v[i]`, then `RZ(phaseOf (k+2))` on `v[i]` -/
def rotPair (phaseOf : QftPhases R) (v : List Nat) (i k : Nat) : MultiOp R :=
  [(SingleOp.ofAtom (.rz (v.getD (i + k + 1) 0) (phaseOf (k + 1)))).addCtrl (v.getD i 0),
   SingleOp.ofAtom (.rz (v.getD i 0) (phaseOf (k + 2)))]

def qftStage (phaseOf : QftPhases R) (v : List Nat) (i : Nat) : MultiOp R :=
  SingleOp.ofAtom (.h1 (v.getD i 0)) ::
    (List.range (v.length - i - 1)).flatMap (rotPair phaseOf v i)

/-- closed form of the queue built by `multi::qft::qft` from the ascending bit list -/
def qftOps (phaseOf : QftPhases R) (v : List Nat) : MultiOp R :=
  (List.range v.length).flatMap (qftStage phaseOf v)

theorem checked_rz (k : Nat) (ph : Cx R) :
    SingleOp.checked (Atom.rz (2 ^ k) ph) = some (SingleOp.ofAtom (.rz (2 ^ k) ph)) := by
  simp [SingleOp.checked, Atom.isValid, popcount_two_pow]

theorem ofAtom_rz_c (a b : Nat) (hab : a ≠ b) (ph : Cx R) :
    (SingleOp.ofAtom (Atom.rz (2 ^ b) ph)).c (2 ^ a)
      = some ((SingleOp.ofAtom (Atom.rz (2 ^ b) ph)).addCtrl (2 ^ a)) := by
  apply SingleOp.c_eq_some
  simp only [SingleOp.actOn, SingleOp.ofAtom, Atom.actsOn, Nat.or_zero]
  exact two_pow_and_two_pow_of_ne b a (Ne.symm hab)

theorem rot_step (phaseOf : QftPhases R) (v : List Nat) (hv : BitList v) (i k : Nat)
    (hik : i + k + 1 < v.length) :
    (match SingleOp.checked (Atom.rz (v.getD (i + (k + 1)) 0) (phaseOf (k + 1))),
        SingleOp.checked (Atom.rz (v.getD i 0) (phaseOf (k + 1 + 1))) with
      | some g, some g' => Option.map (fun cg => [cg, g']) (g.c (v.getD i 0))
      | _, _ => none) = some (rotPair phaseOf v i k) := by
  obtain ⟨a, b, hab, ha, hb⟩ :=
    hv.getD_two (i := i) (j := i + k + 1) (by omega) (by omega) hik
  simp only [rotPair, ← Nat.add_assoc, ha, hb, checked_rz, ofAtom_rz_c a b hab, Option.map_some]

theorem stage_eq (phaseOf : QftPhases R) (v : List Nat) (hv : BitList v) (cnt : Nat)
    (hc : v.length = cnt) (i : Nat) (hi : i < cnt) :
    (do
      let hi ← Op.h (v.getD i 0)
      let rots ←
        List.mapM
            (fun k =>
              match SingleOp.checked (Atom.rz (v.getD (i + (k + 1)) 0) (phaseOf (k + 1))),
                SingleOp.checked (Atom.rz (v.getD i 0) (phaseOf (k + 1 + 1))) with
              | some g, some g' => Option.map (fun cg => [cg, g']) (g.c (v.getD i 0))
              | _, _ => none)
            (List.range (cnt - i - 1))
      pure (hi ++ rots.flatten)) = some (qftStage phaseOf v i) := by
  subst hc
  obtain ⟨a, ha⟩ := hv.getD_pow hi
  have hh1 : Op.h (R := R) (v.getD i 0) = some [SingleOp.ofAtom (.h1 (v.getD i 0))] := by
    rw [ha]; exact h_two_pow a
  rw [hh1, mapM_option_eq_some _ (rotPair phaseOf v i) _
    (fun k hk => rot_step phaseOf v hv i k (by have := List.mem_range.1 hk; omega))]
  rfl

theorem qftOps_succ (phaseOf : QftPhases R) (v : List Nat) (c : Nat) (hlen : v.length = c + 1) :
    qftOps phaseOf v
      = ((List.range c).map (qftStage phaseOf v)).flatten
          ++ [SingleOp.ofAtom (.h1 (v.getD c 0))] := by
  unfold qftOps
  rw [hlen, List.range_succ, List.flatMap_append, List.flatMap_def]
  simp [qftStage, hlen]

theorem qft_assemble (phaseOf : QftPhases R) (v : List Nat) (hv : BitList v) (c : Nat)
    (hlen : v.length = c + 1) (f : Nat → Option (MultiOp R))
    (hf : ∀ i, i < c + 1 → f i = some (qftStage phaseOf v i)) :
    (do
      let stages ← (List.range (c + 1 - 1)).mapM f
      let last ← Op.h (v.getD (c + 1 - 1) 0)
      pure (stages.flatten ++ last)) = some (qftOps phaseOf v) := by
  obtain ⟨a, ha⟩ := hv.getD_pow (i := c + 1 - 1) (by omega)
  have hh1 : Op.h (R := R) (v.getD (c + 1 - 1) 0)
      = some [SingleOp.ofAtom (.h1 (v.getD (c + 1 - 1) 0))] := by
    rw [ha]; exact h_two_pow a
  rw [hh1, mapM_option_eq_some f (qftStage phaseOf v) _
    (fun i hi => hf i (by have := List.mem_range.1 hi; omega)),
    qftOps_succ phaseOf v c hlen]
  rfl

theorem qft_eq (phaseOf : QftPhases R) (m : Nat) (hm : m < 2 ^ 64) :
    Op.qft phaseOf m = some (qftOps phaseOf (bitsOf m)) := by
  have hlen := length_bitsOf m hm
  have hv := bitList_bitsOf m
  rcases hp : popcount m with _ | _ | n
  · rw [hp] at hlen
    have : bitsOf m = [] := List.length_eq_zero_iff.1 hlen
    simp only [Op.qft, hp, this]
    rfl
  · obtain ⟨a, ha⟩ := (bitsOf_eq_singleton_iff m hm).2 hp
    simp only [Op.qft, hp]
    rw [h_eq m hm, ha]
    rfl
  · rw [hp] at hlen
    simp only [Op.qft, hp]
    rw [qftBits_eq_bitsOf]
    generalize bitsOf m = v at hlen hv ⊢
    exact qft_assemble phaseOf v hv (n + 1) hlen _
      (fun i hi => stage_eq phaseOf v hv (n + 1 + 1) hlen i hi)

end qftDefs

section den
variable {R : Type} [CommRing R] [Consts R]

/-- the queue `o` means the reference circuit `gs` -/
def Den (o : MultiOp R) (gs : List (SGate R)) : Prop := ∀ ψ : State R, o.apply ψ = actAll gs ψ

/-- the queue element `g` means the spec gate `s` -/
def Sim (g : SingleOp R) (s : SGate R) : Prop := ∀ ψ : State R, g.apply ψ = s.act ψ

theorem Den.nil : Den ([] : MultiOp R) [] := fun _ => rfl

theorem Den.cons {g : SingleOp R} {s : SGate R} {o : MultiOp R} {gs : List (SGate R)}
    (h : Sim g s) (ho : Den o gs) : Den (g :: o) (s :: gs) := by
  intro ψ
  rw [MultiOp.apply_cons, h ψ, ho]
  rfl

theorem Den.append {a b : MultiOp R} {ga gb : List (SGate R)} (ha : Den a ga) (hb : Den b gb) :
    Den (a ++ b) (ga ++ gb) := by
  intro ψ
  rw [MultiOp.apply_append, ha ψ, hb]
  simp only [actAll, List.foldl_append]

theorem Den.flatMap {α : Type} (l : List α) (f : α → MultiOp R) (g : α → List (SGate R))
    (h : ∀ x ∈ l, Den (f x) (g x)) : Den (l.flatMap f) (l.flatMap g) := by
  induction l with
  | nil => exact Den.nil
  | cons x l ih =>
    rw [List.flatMap_cons, List.flatMap_cons]
    exact Den.append (h x List.mem_cons_self) (ih (fun y hy => h y (List.mem_cons_of_mem _ hy)))

theorem Den.map {α : Type} (l : List α) (f : α → SingleOp R) (g : α → SGate R)
    (h : ∀ x ∈ l, Sim (f x) (g x)) : Den (l.map f) (l.map g) := by
  induction l with
  | nil => exact Den.nil
  | cons x l ih =>
    rw [List.map_cons, List.map_cons]
    exact Den.cons (h x List.mem_cons_self) (ih (fun y hy => h y (List.mem_cons_of_mem _ hy)))

theorem sim_h1 (a : Nat) : Sim (SingleOp.ofAtom (Atom.h1 a : Atom R)) (plain (.one matH a)) := by
  intro ψ
  rw [ofAtom_apply]
  show _ = Spec.ctrl 0 (act1 matH a) ψ
  rw [Spec.ctrl_zero]
  funext idx
  exact h1_eq a ψ idx

theorem sim_rz (a : Nat) (ph : Cx R) :
    Sim (SingleOp.ofAtom (Atom.rz a ph)) (plain (.one (matRZ ph.re ph.im) a)) := by
  intro ψ
  rw [ofAtom_apply]
  show _ = Spec.ctrl 0 (act1 (matRZ ph.re ph.im) a) ψ
  rw [Spec.ctrl_zero]
  funext idx
  exact rz_eq a ph ψ idx

theorem sim_crz (a c : Nat) (ph : Cx R) :
    Sim ((SingleOp.ofAtom (Atom.rz a ph)).addCtrl c) ⟨c, .one (matRZ ph.re ph.im) a⟩ := by
  intro ψ
  rw [SingleOp.addCtrl_apply]
  show Spec.ctrl (0 ||| c) _ ψ = Spec.ctrl c (act1 (matRZ ph.re ph.im) a) ψ
  rw [Nat.zero_or]
  congr 1
  funext φ idx
  exact rz_eq a ph φ idx

theorem qftOps_den (phaseOf : QftPhases R) (v : List Nat) :
    Den (qftOps phaseOf v) (qftCircuit phaseOf v) := by
  unfold qftOps qftCircuit
  apply Den.flatMap
  intro i _
  refine Den.cons (sim_h1 _) ?_
  apply Den.flatMap
  intro k _
  exact Den.cons (sim_crz _ _ _) (Den.cons (sim_rz _ _) Den.nil)

end den

section qftActOn
variable {R : Type}

theorem ofAtom_rz_actOn (a : Nat) (ph : Cx R) : (SingleOp.ofAtom (Atom.rz a ph)).actOn = a := by
  simp [SingleOp.actOn, SingleOp.ofAtom, Atom.actsOn]

theorem ofAtom_h1_actOn (a : Nat) : (SingleOp.ofAtom (Atom.h1 a : Atom R)).actOn = a := by
  simp [SingleOp.actOn, SingleOp.ofAtom, Atom.actsOn]

/-- a queue whose elements each touch only bits of `M`, and which touches every bit of `M` -/
theorem actOn_eq_of_testBit (o : MultiOp R) (M : Nat)
    (hsub : ∀ g ∈ o, ∀ b, g.actOn.testBit b = true → M.testBit b = true)
    (hsup : ∀ b, M.testBit b = true → ∃ g ∈ o, g.actOn.testBit b = true) :
    MultiOp.actOn o = M := by
  apply Nat.eq_of_testBit_eq
  intro b
  rw [testBit_actOn, Bool.eq_iff_iff, List.any_eq_true]
  constructor
  · rintro ⟨g, hg, hb⟩; exact hsub g hg b hb
  · intro hb; exact hsup b hb

theorem testBit_orAll_of_mem {v : List Nat} {a b : Nat} (ha : a ∈ v) (hb : a.testBit b = true) :
    (orAll v).testBit b = true := by
  rw [testBit_orAll, List.any_eq_true]; exact ⟨a, ha, hb⟩

theorem qftOps_sub (phaseOf : QftPhases R) (v : List Nat) (g : SingleOp R)
    (hg : g ∈ qftOps phaseOf v) (b : Nat) (hb : g.actOn.testBit b = true) :
    (orAll v).testBit b = true := by
  unfold qftOps at hg
  obtain ⟨i, hi, hg⟩ := List.mem_flatMap.1 hg
  have hi' := List.mem_range.1 hi
  rcases List.mem_cons.1 hg with rfl | hg
  · rw [ofAtom_h1_actOn] at hb
    exact testBit_orAll_of_mem (getD_mem hi') hb
  · obtain ⟨k, hk, hg⟩ := List.mem_flatMap.1 hg
    have hk' := List.mem_range.1 hk
    simp only [rotPair, List.mem_cons, List.not_mem_nil, or_false] at hg
    rcases hg with rfl | rfl
    · rw [SingleOp.addCtrl_actOn, ofAtom_rz_actOn, Nat.testBit_or, Bool.or_eq_true] at hb
      rcases hb with hb | hb
      · exact testBit_orAll_of_mem (getD_mem (i := i + k + 1) (by omega)) hb
      · exact testBit_orAll_of_mem (getD_mem hi') hb
    · rw [ofAtom_rz_actOn] at hb
      exact testBit_orAll_of_mem (getD_mem hi') hb

theorem qftOps_actOn (phaseOf : QftPhases R) (v : List Nat) :
    MultiOp.actOn (qftOps phaseOf v) = orAll v := by
  apply actOn_eq_of_testBit _ _ (qftOps_sub phaseOf v)
  intro b hb
  rw [testBit_orAll, List.any_eq_true] at hb
  obtain ⟨a, ha, hb⟩ := hb
  obtain ⟨i, hi, rfl⟩ := List.getElem_of_mem ha
  refine ⟨SingleOp.ofAtom (.h1 (v.getD i 0)), ?_, ?_⟩
  · unfold qftOps
    exact List.mem_flatMap.2 ⟨i, List.mem_range.2 hi, List.mem_cons_self⟩
  · rw [ofAtom_h1_actOn, getD_eq_getElem' v i hi]; exact hb

end qftActOn

/-! ## 3. `multi::qft::qft_swapped` -/

section swapped
variable {R : Type}

/-- closed form of the swaps `qft_swapped` prepends: bit `i` with bit `len-1-i` -/
def swapOps (v : List Nat) : MultiOp R :=
  (List.range (v.length / 2)).map (fun i =>
    SingleOp.ofAtom (.swap (v.getD i 0 ||| v.getD (v.length - 1 - i) 0)))

theorem swap_step (v : List Nat) (hv : BitList v) (i : Nat) (hi : i < v.length / 2) :
    (SingleOp.checked (Atom.swap (v.getD i 0 ||| v.getD (v.length - i - 1) 0) : Atom R)).map
        MultiOp.ofSingle
      = some [SingleOp.ofAtom (.swap (v.getD i 0 ||| v.getD (v.length - 1 - i) 0))] := by
  have hidx : v.length - i - 1 = v.length - 1 - i := by omega
  obtain ⟨a, b, hab, ha, hb⟩ :=
    hv.getD_two (i := i) (j := v.length - 1 - i) (by omega) (by omega) (by omega)
  rw [hidx, ha, hb]
  simp only [SingleOp.checked, Atom.isValid, KBits.popcount_two_pow_or hab, beq_self_eq_true,
    if_true, Option.map_some]
  rfl

theorem flatten_map_singleton {α β : Type} (l : List α) (g : α → β) :
    (l.map (fun x => [g x])).flatten = l.map g := by
  induction l with
  | nil => rfl
  | cons x l ih => simp [ih]

theorem swapped_assemble (v : List Nat) (f : Nat → Option (MultiOp R)) (q : MultiOp R)
    (hf : ∀ i, i < v.length / 2 →
      f i = some [SingleOp.ofAtom (.swap (v.getD i 0 ||| v.getD (v.length - 1 - i) 0))]) :
    (do
      let swaps ← (List.range (v.length / 2)).mapM f
      let q ← some q
      pure (swaps.flatten ++ q)) = some (swapOps v ++ q) := by
  rw [mapM_option_eq_some f
    (fun i => [SingleOp.ofAtom (.swap (v.getD i 0 ||| v.getD (v.length - 1 - i) 0))]) _
    (fun i hi => hf i (List.mem_range.1 hi))]
  show some (_ ++ q) = _
  rw [flatten_map_singleton]
  rfl

theorem qftSwapped_eq (phaseOf : QftPhases R) (m : Nat) (hm : m < 2 ^ 64) :
    Op.qftSwapped phaseOf m
      = some (swapOps (bitsOf m) ++ qftOps phaseOf (bitsOf m)) := by
  simp only [Op.qftSwapped, maskBitsLoop_eq m hm, qft_eq phaseOf m hm]
  exact swapped_assemble (bitsOf m) _ _ (fun i hi => swap_step _ (bitList_bitsOf m) i hi)

theorem or_eq_right_of_testBit {x y : Nat} (h : ∀ b, x.testBit b = true → y.testBit b = true) :
    x ||| y = y := by
  apply Nat.eq_of_testBit_eq
  intro b
  rw [Nat.testBit_or]
  cases hx : x.testBit b
  · simp
  · simp [h b hx]

theorem swapOps_sub (v : List Nat) (b : Nat)
    (hb : (MultiOp.actOn (swapOps v : MultiOp R)).testBit b = true) :
    (orAll v).testBit b = true := by
  rw [testBit_actOn, List.any_eq_true] at hb
  obtain ⟨g, hg, hb⟩ := hb
  obtain ⟨i, hi, rfl⟩ := List.mem_map.1 hg
  have hi' := List.mem_range.1 hi
  have hact : (SingleOp.ofAtom (Atom.swap (v.getD i 0 ||| v.getD (v.length - 1 - i) 0)
      : Atom R)).actOn = v.getD i 0 ||| v.getD (v.length - 1 - i) 0 := by
    simp [SingleOp.actOn, SingleOp.ofAtom, Atom.actsOn]
  rw [hact, Nat.testBit_or, Bool.or_eq_true] at hb
  rcases hb with hb | hb
  · exact testBit_orAll_of_mem (getD_mem (i := i) (by omega)) hb
  · exact testBit_orAll_of_mem (getD_mem (i := v.length - 1 - i) (by omega)) hb

theorem swapped_actOn (phaseOf : QftPhases R) (v : List Nat) :
    MultiOp.actOn (swapOps v ++ qftOps phaseOf v) = orAll v := by
  rw [MultiOp.actOn_append, qftOps_actOn]
  exact or_eq_right_of_testBit (swapOps_sub v)

end swapped

section swappedSem
variable {R : Type} [CommRing R] [Consts R]

theorem sim_swap (a b : Nat) (hab : a ≠ b) :
    Sim (SingleOp.ofAtom (Atom.swap (2 ^ a ||| 2 ^ b) : Atom R))
      (plain (.two matSwap (2 ^ a) (2 ^ b))) := by
  intro ψ
  rw [ofAtom_apply]
  show _ = Spec.ctrl 0 (act2 matSwap (2 ^ a) (2 ^ b)) ψ
  rw [Spec.ctrl_zero]
  funext idx
  exact swap_eq a b hab ψ idx

theorem swapOps_den (v : List Nat) (hv : BitList v) :
    Den (swapOps v : MultiOp R) (reverseCircuit v) := by
  unfold swapOps reverseCircuit
  apply Den.map
  intro i hi
  have hi' := List.mem_range.1 hi
  obtain ⟨a, b, hab, ha, hb⟩ :=
    hv.getD_two (i := i) (j := v.length - 1 - i) (by omega) (by omega) (by omega)
  rw [ha, hb]
  exact sim_swap a b hab

end swappedSem
/-! ## 4. the main statements for `qft` / `qft_swapped` -/

section mainQft
variable {R : Type}

theorem qft_eq' (phaseOf : QftPhases R) (m : Nat) (hm : m < 2 ^ 64) (o : MultiOp R)
    (ho : Op.qft phaseOf m = some o) : o = qftOps phaseOf (bitsOf m) := by
  rw [qft_eq phaseOf m hm] at ho
  exact (Option.some.inj ho).symm

theorem qftSwapped_eq' (phaseOf : QftPhases R) (m : Nat) (hm : m < 2 ^ 64) (o : MultiOp R)
    (ho : Op.qftSwapped phaseOf m = some o) :
    o = swapOps (bitsOf m) ++ qftOps phaseOf (bitsOf m) := by
  rw [qftSwapped_eq phaseOf m hm] at ho
  exact (Option.some.inj ho).symm

theorem qft_isSome (m : Nat) (hm : m < 2 ^ 64) (phaseOf : QftPhases R) :
    ∃ o : MultiOp R, Op.qft phaseOf m = some o :=
  ⟨_, qft_eq phaseOf m hm⟩

theorem qft_actOn (m : Nat) (hm : m < 2 ^ 64) (phaseOf : QftPhases R) (o : MultiOp R)
    (ho : Op.qft phaseOf m = some o) : MultiOp.actOn o = m := by
  rw [qft_eq' phaseOf m hm o ho, qftOps_actOn, orAll_bitsOf m hm]

theorem qftSwapped_isSome (m : Nat) (hm : m < 2 ^ 64) (phaseOf : QftPhases R) :
    ∃ o : MultiOp R, Op.qftSwapped phaseOf m = some o :=
  ⟨_, qftSwapped_eq phaseOf m hm⟩

theorem qftSwapped_actOn (m : Nat) (hm : m < 2 ^ 64) (phaseOf : QftPhases R) (o : MultiOp R)
    (ho : Op.qftSwapped phaseOf m = some o) : MultiOp.actOn o = m := by
  rw [qftSwapped_eq' phaseOf m hm o ho, swapped_actOn, orAll_bitsOf m hm]

end mainQft

section mainQftSem
variable {R : Type} [CommRing R] [Consts R]

/- `hs` / `hh` are part of the requested interface; the QFT queues contain no `h2` kernel, so
the proofs do not use them. -/
set_option linter.unusedVariables false in
theorem qft_apply (m : Nat) (hm : m < 2 ^ 64)
    (hs : 2 * (Consts.invSqrt2 : R) * Consts.invSqrt2 = 1) (hh : 2 * (Consts.half : R) = 1)
    (phaseOf : QftPhases R) (o : MultiOp R) (ho : Op.qft phaseOf m = some o) (ψ : State R) :
    o.apply ψ = actAll (qftCircuit phaseOf (bitsOf m)) ψ := by
  rw [qft_eq' phaseOf m hm o ho]
  exact qftOps_den phaseOf (bitsOf m) ψ

set_option linter.unusedVariables false in
theorem qftSwapped_apply (m : Nat) (hm : m < 2 ^ 64)
    (hs : 2 * (Consts.invSqrt2 : R) * Consts.invSqrt2 = 1) (hh : 2 * (Consts.half : R) = 1)
    (phaseOf : QftPhases R) (o : MultiOp R) (ho : Op.qftSwapped phaseOf m = some o)
    (ψ : State R) :
    o.apply ψ = actAll (reverseCircuit (bitsOf m) ++ qftCircuit phaseOf (bitsOf m)) ψ := by
  rw [qftSwapped_eq' phaseOf m hm o ho]
  exact Den.append (swapOps_den _ (bitList_bitsOf m)) (qftOps_den phaseOf (bitsOf m)) ψ

end mainQftSem

/-! ### axiom audit -/
#print axioms hLoop_spec
#print axioms h_eq
#print axioms h_isSome
#print axioms h_apply
#print axioms h_actOn
#print axioms h_ctrl_free
#print axioms qft_eq
#print axioms qft_isSome
#print axioms qft_apply
#print axioms qft_actOn
#print axioms qftSwapped_eq
#print axioms qftSwapped_isSome
#print axioms qftSwapped_apply
#print axioms qftSwapped_actOn

end Qvnt
