/- `scale_toList` of GenQProb.lean (one module per declaration, tools/lean_split.py) -/
import Qvnt.Generated.Regs
import Qvnt.Generated.Kernels
import Qvnt.Lemmas.Bits
import Mathlib.Tactic.Ring
import Mathlib.Algebra.Ring.Basic
import Qvnt.Lemmas.Queue

set_option linter.unusedSectionVars false
namespace Qvnt.Gen2
open Qvnt Qvnt.Gen
variable {R : Type}
section arith
variable [Add R] [Sub R] [Mul R] [Div R] [Neg R] [Zero R] [One R] [Consts R]
  [LE R] [DecidableLE R] [LT R] [DecidableLT R] [HasSqrt R] [RegConsts R]

theorem scale_toList (a : Array (Cx R)) (k : R) :
    (a.map (fun v => v.scale k)).toList = List.map (fun v => Cx.scale v k) a.toList := by simp

end arith
end Qvnt.Gen2
