/- `quant_rescale_eq` of GenQProb.lean (one module per declaration, tools/lean_split.py) -/
import Qvnt.Generated.Regs
import Qvnt.Generated.Kernels
import Qvnt.Lemmas.Bits
import Mathlib.Tactic.Ring
import Mathlib.Algebra.Ring.Basic
import Qvnt.Lemmas.Queue
import Qvnt.Lemmas.GenPre.ofModel
import Qvnt.Lemmas.GenQProb.quant_get_absolute_eq

set_option linter.unusedSectionVars false
namespace Qvnt.Gen2
open Qvnt Qvnt.Gen
variable {R : Type}
section arith
variable [Add R] [Sub R] [Mul R] [Div R] [Neg R] [Zero R] [One R] [Consts R]
  [LE R] [DecidableLE R] [LT R] [DecidableLT R] [HasSqrt R] [RegConsts R]

theorem quant_rescale_eq (r : QReg R) : quant_rescale (ofModel r) = ofModel r.rescale := by
  have habs := quant_get_absolute_eq r
  unfold quant_rescale QReg.rescale
  simp only [habs]
  by_cases h : (0 : R) < HasSqrt.sqrt r.getAbsolute
  · simp [h, ofModel, GT.gt]
  · simp [h, ofModel, GT.gt]

end arith
end Qvnt.Gen2
