/- `quant_get_absolute_eq` of GenQProb.lean (one module per declaration, tools/lean_split.py) -/
import Qvnt.Generated.Regs
import Qvnt.Generated.Kernels
import Qvnt.Lemmas.Bits
import Mathlib.Tactic.Ring
import Mathlib.Algebra.Ring.Basic
import Qvnt.Lemmas.Queue
import Qvnt.Lemmas.GenPre.ofModel

set_option linter.unusedSectionVars false
namespace Qvnt.Gen2
open Qvnt Qvnt.Gen
variable {R : Type}
section arith
variable [Add R] [Sub R] [Mul R] [Div R] [Neg R] [Zero R] [One R] [Consts R]
  [LE R] [DecidableLE R] [LT R] [DecidableLT R] [HasSqrt R] [RegConsts R]

theorem quant_get_absolute_eq (r : QReg R) : quant_get_absolute (ofModel r) = r.getAbsolute := by
  simp only [quant_get_absolute, QReg.getAbsolute, ofModel, Rs.sum, List.foldl_map, ← Array.foldl_toList]

end arith
end Qvnt.Gen2
