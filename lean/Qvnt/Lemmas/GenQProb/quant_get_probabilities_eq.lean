/- `quant_get_probabilities_eq` of GenQProb.lean (one module per declaration, tools/lean_split.py) -/
import Qvnt.Generated.Regs
import Qvnt.Generated.Kernels
import Qvnt.Lemmas.Bits
import Mathlib.Tactic.Ring
import Mathlib.Algebra.Ring.Basic
import Qvnt.Lemmas.Queue
import Qvnt.Lemmas.GenPre.ofModel
import Qvnt.Lemmas.GenPre.shl_one
import Qvnt.Lemmas.GenQProb.quant_get_absolute_eq

set_option linter.unusedSectionVars false
namespace Qvnt.Gen2
open Qvnt Qvnt.Gen
variable {R : Type}
section arith
variable [Add R] [Sub R] [Mul R] [Div R] [Neg R] [Zero R] [One R] [Consts R]
  [LE R] [DecidableLE R] [LT R] [DecidableLT R] [HasSqrt R] [RegConsts R]

theorem quant_get_probabilities_eq (r : QReg R) (h : r.qNum < 64) (hs : 2 ^ r.qNum ≤ r.psi.size) :
    quant_get_probabilities (ofModel r) = r.getProbabilities := by
  have habs := quant_get_absolute_eq r
  simp only [quant_get_absolute, ofModel] at habs
  simp only [quant_get_probabilities, QReg.getProbabilities, ofModel, habs, shl_one _ h]
  apply List.ext_getElem
  · simp; omega
  · intro i h1 h2
    have hi : i < r.psi.size := by simp at h2; omega
    simp [Array.getD, hi]

end arith
end Qvnt.Gen2
