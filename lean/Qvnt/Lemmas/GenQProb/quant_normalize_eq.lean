/- `quant_normalize_eq` of GenQProb.lean (one module per declaration, tools/lean_split.py) -/
import Qvnt.Generated.Regs
import Qvnt.Generated.Kernels
import Qvnt.Lemmas.Bits
import Mathlib.Tactic.Ring
import Mathlib.Algebra.Ring.Basic
import Qvnt.Lemmas.Queue
import Qvnt.Lemmas.GenPre.ofModel
import Qvnt.Lemmas.GenQuant.quant_reset_eq
import Qvnt.Lemmas.GenQProb.quant_get_absolute_eq

set_option linter.unusedSectionVars false
namespace Qvnt.Gen2
open Qvnt Qvnt.Gen
variable {R : Type}
section arith
variable [Add R] [Sub R] [Mul R] [Div R] [Neg R] [Zero R] [One R] [Consts R]
  [LE R] [DecidableLE R] [LT R] [DecidableLT R] [HasSqrt R] [RegConsts R]

theorem quant_normalize_eq (r : QReg R) : quant_normalize (ofModel r) = ofModel r.normalize := by
  have habs := quant_get_absolute_eq r
  unfold quant_normalize QReg.normalize
  simp only [habs]
  by_cases h1 : HasSqrt.sqrt r.getAbsolute ≤ (RegConsts.tiny : R)
  · simp [h1, quant_reset_eq]
  · by_cases h2 : (1 : R) - HasSqrt.sqrt r.getAbsolute ≤ RegConsts.close
    · simp [h1, h2]
    · simp [h1, h2, ofModel]

end arith
end Qvnt.Gen2
