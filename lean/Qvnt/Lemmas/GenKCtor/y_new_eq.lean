/- `y_new_eq` of GenKCtor.lean (one module per declaration, tools/lean_split.py) -/
import Qvnt.Generated.Kernels
import Qvnt.Lemmas.Bits
import Mathlib.Tactic.Ring
import Mathlib.Algebra.Ring.Basic
import Qvnt.Lemmas.GenCore.yIPow_eq
import Qvnt.Lemmas.GenKTac

namespace Qvnt.Gen
open Qvnt
variable {R : Type}
section ctor

theorem y_new_eq (a : Nat) : (Gen.y_new a : Atom R) = .y a (yIPow a) := by
  unfold Gen.y_new; simp only [yIPow_eq]

end ctor
end Qvnt.Gen
