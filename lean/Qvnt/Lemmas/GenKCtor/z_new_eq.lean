/- `z_new_eq` of GenKCtor.lean (one module per declaration, tools/lean_split.py) -/
import Qvnt.Generated.Kernels
import Qvnt.Lemmas.Bits
import Mathlib.Tactic.Ring
import Mathlib.Algebra.Ring.Basic
import Qvnt.Lemmas.GenKTac

namespace Qvnt.Gen
open Qvnt
variable {R : Type}
section ctor

theorem z_new_eq (a : Nat) : (Gen.z_new a : Atom R) = .z a := rfl

end ctor
end Qvnt.Gen
