/- `h2_new_eq` of GenKCtor.lean (one module per declaration, tools/lean_split.py) -/
import Qvnt.Generated.Kernels
import Qvnt.Lemmas.Bits
import Mathlib.Tactic.Ring
import Mathlib.Algebra.Ring.Basic
import Qvnt.Lemmas.GenKTac

namespace Qvnt.Gen
open Qvnt
variable {R : Type}
section ctor

theorem h2_new_eq (a b : Nat) : (Gen.h2_new a b : Atom R) = .h2 a b (a ||| b) := rfl

end ctor
end Qvnt.Gen
