/- `rz_new_eq` of GenKCtor.lean (one module per declaration, tools/lean_split.py) -/
import Qvnt.Generated.Kernels
import Qvnt.Lemmas.Bits
import Mathlib.Tactic.Ring
import Mathlib.Algebra.Ring.Basic
import Qvnt.Lemmas.GenKTac

namespace Qvnt.Gen
open Qvnt
variable {R : Type}
section ctor
variable [Div R] [Mul R] [Consts R] [Trig R]

theorem rz_new_eq (a : Nat) (θ : R) : Gen.rz_new a θ = .rz a (halfPhaseDiv θ) := rfl

end ctor
end Qvnt.Gen
