/- `sqrt_swap_new_eq` of GenKCtor.lean (one module per declaration, tools/lean_split.py) -/
import Qvnt.Generated.Kernels
import Qvnt.Lemmas.Bits
import Mathlib.Tactic.Ring
import Mathlib.Algebra.Ring.Basic
import Qvnt.Lemmas.GenKTac

namespace Qvnt.Gen
open Qvnt
variable {R : Type}
section ctor

theorem sqrt_swap_new_eq (a : Nat) : (Gen.sqrt_swap_new a : Atom R) = .sqrtSwap a false := rfl

end ctor
end Qvnt.Gen
