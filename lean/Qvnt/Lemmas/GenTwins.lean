/-
every `match` on the threading model has a parallel arm that is the rayon twin of the sequential arm.
(split out of GenRegs2.lean so that an equality that no longer holds blocks only the properties that rely on it)
-/
import Qvnt.Generated.Regs

set_option linter.unusedSectionVars false

namespace Qvnt.Gen2
open Qvnt Qvnt.Gen

variable {R : Type}


/-- every `match` on the threading model in the translated functions has a parallel arm that is the
sequential arm with rayon's adaptors (`par_iter`, `par_iter_mut`, `into_par_iter`, `apply_sync`) -/
theorem parTwins_all : (parTwins.all (fun p => p.2)) = true := by decide
end Qvnt.Gen2
