/-
`register/quant.rs`: measure_mask, measure, reset_by_mask, get_vreg_by.
(split out of GenRegs3.lean so that an equality that no longer holds blocks only the properties that rely on it)
-/
import Qvnt.Lemmas.GenMeas.quant_measure_mask_eq
import Qvnt.Lemmas.GenMeas.quant_measure_eq
import Qvnt.Lemmas.GenMeas.quant_reset_by_mask_eq
import Qvnt.Lemmas.GenMeas.quant_measure_mask_weights_eq
