/-
`register/quant.rs`: measure_mask, measure, reset_by_mask, get_vreg_by.
(split out of GenRegs3.lean so that an equality that no longer holds blocks only the properties that rely on it)
-/
import Qvnt.Lemmas.GenCreg
import Qvnt.Lemmas.GenQProb
import Qvnt.Lemmas.GenOps
import Qvnt.Lemmas.GenVirtl

set_option linter.unusedSectionVars false

namespace Qvnt.Gen2
open Qvnt Qvnt.Gen

variable {R : Type}

section arith
variable [Add R] [Sub R] [Mul R] [Div R] [Neg R] [Zero R] [One R] [Consts R]
  [LE R] [DecidableLE R] [LT R] [DecidableLT R] [HasSqrt R] [RegConsts R]

/-- `measure_mask` on the stream of drawn basis indices: nothing is drawn for an empty effective mask,
otherwise the head of the stream is the drawn index (an exhausted stream is `none`) -/
theorem quant_measure_mask_eq (r : QReg R) (mask : Nat) (ds : List Nat) :
    quant_measure_mask (ofModel r) mask ds =
      if mask &&& r.qMask = 0 then some (cregOfModel (CReg.new r.qNum), ofModel r, ds)
      else match ds with
        | [] => none
        | d :: rest => some (cregOfModel (r.measureMask mask d).2, ofModel (r.measureMask mask d).1, rest) := by
  unfold quant_measure_mask QReg.measureMask
  by_cases h : mask &&& r.qMask = 0
  · have h' : (mask &&& (ofModel r).q_mask == 0) = true := by simpa [ofModel] using h
    simp only [h', ↓reduceIte, h]
    rw [creg_eq_of_toModel _ _ (creg_new_eq _)]
    rfl
  · have h' : (mask &&& (ofModel r).q_mask == 0) = false := by simpa [ofModel] using h
    simp only [h', Bool.false_eq_true, ↓reduceIte, h]
    cases ds with
    | nil => rfl
    | cons d rest =>
      simp only [quant_collapse_mask_eq, quant_rescale_eq]
      rw [creg_eq_of_toModel _ _ (creg_with_state_eq _ _)]
      simp [ofModel, QReg.rescale, QReg.collapseMask]
      split <;> rfl

theorem quant_measure_eq (r : QReg R) (ds : List Nat) :
    quant_measure (ofModel r) ds = quant_measure_mask (ofModel r) r.qMask ds := by
  unfold quant_measure
  cases h : quant_measure_mask (ofModel r) (ofModel r).q_mask ds with
  | none => simp [ofModel] at h ⊢; simp [h]
  | some v => obtain ⟨c, q, d⟩ := v; simp [ofModel] at h ⊢; simp [h]

end arith

section apply
variable [CommRing R] [Consts R] [Div R] [LE R] [DecidableLE R] [LT R] [DecidableLT R] [HasSqrt R] [RegConsts R]

/-- `reset_by_mask` on the stream of drawn basis indices -/
theorem quant_reset_by_mask_eq (r : QReg R) (mask : Nat) (ds : List Nat) :
    quant_reset_by_mask (ofModel r) mask ds =
      if mask &&& r.qMask = r.qMask then some (ofModel (r.resetByMask mask 0), ds)
      else if mask &&& r.qMask = 0 then some (ofModel (r.resetByMask mask 0), ds)
      else match ds with
        | [] => none
        | d :: rest => some (ofModel (r.resetByMask mask d), rest) := by
  unfold quant_reset_by_mask
  by_cases h : mask &&& r.qMask = r.qMask
  · have h' : (mask &&& (ofModel r).q_mask == (ofModel r).q_mask) = true := by simpa [ofModel] using h
    simp only [h', h, ↓reduceIte, quant_reset_eq, QReg.resetByMask]
  · have h' : (mask &&& (ofModel r).q_mask == (ofModel r).q_mask) = false := by simpa [ofModel] using h
    simp only [h', h, Bool.false_eq_true, ↓reduceIte, quant_measure_mask_eq]
    by_cases h0 : mask &&& r.qMask = 0
    · simp only [h0, ↓reduceIte, Option.bind_some]
      have hne : ¬ (0 = r.qMask) := fun e => h (by rw [h0]; exact e)
      simp [QReg.resetByMask, QReg.measureMask, h0, cregOfModel, CReg.new, CReg.withState, creg_get, hne]
    · simp only [h0, ↓reduceIte]
      cases ds with
      | nil => rfl
      | cons d rest =>
        simp only [Option.bind_some, QReg.resetByMask, h, ↓reduceIte]
        have hv : creg_get (cregOfModel (r.measureMask mask d).2) = (r.measureMask mask d).2.value := rfl
        simp only [hv]
        by_cases hz : (r.measureMask mask d).2.value = 0
        · simp [hz]
        · simp [hz, quant_apply_eq _ _ (x_ctrl _)]


end apply
end Qvnt.Gen2
