/-
LEMMAS — C15, the qubit-reversal circuit: each swap gate permutes basis indices, the circuit
`reverseCircuit` reads the amplitude at the index whose selected bits are reversed
(`actAll_reverseCircuit`), and reversing twice is the identity (`rev_involutive`).
Two-sided induction on the list of bit positions (`List.bidirectionalRec`).
-/
import Qvnt.Lemmas.DftBits
import Qvnt.Lemmas.SpecAlg
import Mathlib.Data.List.Induction
import Mathlib.Data.List.GetD
namespace Qvnt.Dft
open Qvnt Qvnt.Spec
variable {R : Type} [CommRing R] [Consts R]

/-! ### the swap gate -/

theorem swap_idx (idx p q : Nat) (hpq : p ≠ q) (bp bq : Bool)
    (hp : idx.testBit p = bp) (hq : idx.testBit q = bq) :
    idx ^^^ (if bp = bq then 0 else 2 ^ p) ^^^ (if bp = bq then 0 else 2 ^ q)
      = putB p bq (putB q bp idx) := by
  apply Nat.eq_of_testBit_eq; intro i
  simp only [testBit_putB]
  by_cases h1 : i = p
  · subst h1
    subst hp hq
    by_cases e : idx.testBit i = idx.testBit q
    · simp [e]
    · have hqi : q ≠ i := fun e => hpq e.symm
      simp only [e, if_false, Nat.testBit_xor, Nat.testBit_two_pow, hqi]
      revert e
      cases idx.testBit i <;> cases idx.testBit q <;> simp
  · by_cases h2 : i = q
    · subst h2
      subst hp hq
      by_cases e : idx.testBit p = idx.testBit i
      · simp [e, h1]
      · have hpi : p ≠ i := fun e => h1 e.symm
        simp only [e, if_false, Nat.testBit_xor, Nat.testBit_two_pow, hpi, h1]
        revert e
        cases idx.testBit i <;> cases idx.testBit p <;> simp
    · have h1' : p ≠ i := fun e => h1 e.symm
      have h2' : q ≠ i := fun e => h2 e.symm
      split <;> simp [h1', h2', Nat.testBit_xor]

omit [Consts R] in
theorem act2_swap (p q : Nat) (hpq : p ≠ q) (ψ : State R) (idx : Nat) :
    act2 matSwap (2 ^ p) (2 ^ q) ψ idx
      = ψ (putB p (idx.testBit q) (putB q (idx.testBit p) idx)) := by
  by_cases hp : idx &&& 2 ^ p = 0 <;> by_cases hq : idx &&& 2 ^ q = 0
  · have tp := (and_two_pow_eq_zero_iff' idx p).1 hp
    have tq := (and_two_pow_eq_zero_iff' idx q).1 hq
    rw [← swap_idx idx p q hpq _ _ rfl rfl]
    simp [act2, bitAt, matSwap, hp, hq, tp, tq]
  · have tp := (and_two_pow_eq_zero_iff' idx p).1 hp
    have tq := (and_two_pow_ne_zero_iff idx q).1 hq
    rw [← swap_idx idx p q hpq _ _ rfl rfl]
    simp [act2, bitAt, matSwap, hp, hq, tp, tq]
  · have tp := (and_two_pow_ne_zero_iff idx p).1 hp
    have tq := (and_two_pow_eq_zero_iff' idx q).1 hq
    rw [← swap_idx idx p q hpq _ _ rfl rfl]
    simp [act2, bitAt, matSwap, hp, hq, tp, tq]
  · have tp := (and_two_pow_ne_zero_iff idx p).1 hp
    have tq := (and_two_pow_ne_zero_iff idx q).1 hq
    rw [← swap_idx idx p q hpq _ _ rfl rfl]
    simp [act2, bitAt, matSwap, hp, hq, tp, tq]

omit [Consts R] in
theorem plain_swap_act (p q : Nat) (hpq : p ≠ q) (ψ : State R) (idx : Nat) :
    (plain (.two matSwap (2 ^ p) (2 ^ q)) : SGate R).act ψ idx
      = ψ (putB p (idx.testBit q) (putB q (idx.testBit p) idx)) := by
  rw [← act2_swap p q hpq ψ idx]
  simp [SGate.act, plain, Spec.ctrl, Prim.act]

/-! ### snoc forms of `sv` / `wrv` -/

theorem sv_snoc (ps : List Nat) (q idx : Nat) :
    sv (ps ++ [q]) idx = sv ps idx + 2 ^ ps.length * (idx.testBit q).toNat := by
  induction ps with
  | nil => simp [sv]
  | cons p ps ih =>
    rw [List.cons_append, sv, ih, sv, List.length_cons, pow_succ]
    ring

theorem wrv_snoc (ps : List Nat) (q idx K : Nat) :
    wrv (ps ++ [q]) idx K = wrv ps (putB q (K.testBit 0) idx) (K / 2) := by
  induction ps with
  | nil => rfl
  | cons p ps ih =>
    rw [List.cons_append, wrv, ih, wrv, List.length_append, List.length_singleton,
      Nat.testBit_div_two]

/-! ### peeling both ends -/

theorem toNat_add_testBit_zero (b : Bool) (m : Nat) : (b.toNat + 2 * m).testBit 0 = b := by
  cases b <;> simp [Nat.testBit_zero]

theorem toNat_add_div_two (b : Bool) (m : Nat) : (b.toNat + 2 * m) / 2 = m := by
  cases b
  · simp
  · simp; omega

theorem testBit_add_pow_mul_lt {s n : Nat} (hs : s < 2 ^ n) (b : Bool) {t : Nat} (ht : t < n) :
    (s + 2 ^ n * b.toNat).testBit t = s.testBit t := by
  rw [Nat.add_comm, Nat.testBit_two_pow_mul_add _ hs, if_pos ht]

theorem testBit_add_pow_mul_eq {s n : Nat} (hs : s < 2 ^ n) (b : Bool) :
    (s + 2 ^ n * b.toNat).testBit n = b := by
  rw [Nat.add_comm, Nat.testBit_two_pow_mul_add _ hs, if_neg (Nat.lt_irrefl n), Nat.sub_self]
  cases b <;> rfl

theorem nodup_parts {p q : Nat} {mid : List Nat} (h : (p :: (mid ++ [q])).Nodup) :
    p ≠ q ∧ p ∉ mid ∧ q ∉ mid ∧ mid.Nodup := by
  rw [List.nodup_cons, List.mem_append, List.mem_singleton, not_or] at h
  obtain ⟨⟨h1, h2⟩, h3⟩ := h
  rw [List.nodup_append] at h3
  obtain ⟨h4, _, h5⟩ := h3
  refine ⟨h2, h1, ?_, h4⟩
  intro hq
  exact h5 q hq q (List.mem_singleton_self q) rfl

theorem rev_step (p q : Nat) (mid : List Nat) (hnd : (p :: (mid ++ [q])).Nodup) (idx : Nat) :
    wrv (p :: (mid ++ [q])) idx (sv (p :: (mid ++ [q])) idx)
      = putB p (idx.testBit q) (putB q (idx.testBit p) (wrv mid idx (sv mid idx))) := by
  obtain ⟨_, _, hq, _⟩ := nodup_parts hnd
  have hs := sv_lt mid idx
  rw [wrv, wrv_snoc, List.length_append, List.length_singleton, ← Nat.testBit_div_two,
    sv, sv_snoc, toNat_add_testBit_zero, toNat_add_div_two, testBit_add_pow_mul_eq hs,
    wrv_putB_comm mid hq]
  congr 2
  exact wrv_congr mid idx (fun t ht => testBit_add_pow_mul_lt hs _ ht)

/-! ### the circuit -/

omit [CommRing R] [Consts R] in
theorem reverseCircuit_step [Add R] [Sub R] [Mul R] [Neg R] [Zero R] [One R]
    (a b : Nat) (w : List Nat) :
    (reverseCircuit (a :: (w ++ [b])) : List (SGate R))
      = plain (.two matSwap a b) :: reverseCircuit w := by
  unfold reverseCircuit
  have hl : (a :: (w ++ [b])).length / 2 = w.length / 2 + 1 := by
    simp only [List.length_cons, List.length_append, List.length_nil]; omega
  rw [hl, List.range_succ_eq_map, List.map_cons, List.map_map]
  congr 1
  · have e : (a :: (w ++ [b])).length - 1 - 0 = w.length + 1 := by
      simp only [List.length_cons, List.length_append, List.length_nil]; omega
    rw [e, List.getD_cons_zero, List.getD_cons_succ, List.getD_append_right _ _ _ _ (Nat.le_refl _),
      Nat.sub_self, List.getD_cons_zero]
  · apply List.map_congr_left
    intro i hi
    rw [List.mem_range] at hi
    have hi' : i < w.length := by omega
    have e : (a :: (w ++ [b])).length - 1 - (i + 1) = (w.length - 1 - i) + 1 := by
      simp only [List.length_cons, List.length_append, List.length_nil]; omega
    simp only [Function.comp_apply, Nat.succ_eq_add_one]
    rw [e, List.getD_cons_succ, List.getD_cons_succ, List.getD_append _ _ _ _ hi',
      List.getD_append _ _ _ _ (by omega)]

omit [Consts R] in
/-- the qubit-reversal circuit permutes basis indices: it reads the amplitude at the index whose selected bits are reversed -/
theorem actAll_reverseCircuit (ps : List Nat) (hnd : ps.Nodup) (ψ : State R) (idx : Nat) :
    actAll (reverseCircuit (pows ps)) ψ idx = ψ (wrv ps idx (sv ps idx)) := by
  induction ps using List.bidirectionalRec generalizing ψ idx with
  | nil => rfl
  | singleton p =>
    have e : (reverseCircuit (pows [p]) : List (SGate R)) = [] := by simp [reverseCircuit]
    rw [e, actAll_nil, wrv, wrv, sv, sv, List.length_nil, toNat_add_testBit_zero, putB_self]
  | cons_append p mid q ih =>
    obtain ⟨hpq, hp, hq, hmid⟩ := nodup_parts hnd
    have e : pows (p :: (mid ++ [q])) = 2 ^ p :: (pows mid ++ [2 ^ q]) := by
      rw [pows_cons, pows_append]; rfl
    rw [e, reverseCircuit_step, actAll_cons, ih hmid, plain_swap_act p q hpq,
      testBit_wrv_not_mem mid hq, testBit_wrv_not_mem mid hp, ← rev_step p q mid hnd]

/-- reversing the selected bits twice gives back the index -/
theorem rev_involutive (ps : List Nat) (hnd : ps.Nodup) (idx : Nat) :
    wrv ps (wrv ps idx (sv ps idx)) (sv ps (wrv ps idx (sv ps idx))) = idx := by
  induction ps using List.bidirectionalRec generalizing idx with
  | nil => rfl
  | singleton p =>
    have e : ∀ x, wrv [p] x (sv [p] x) = x := by
      intro x
      rw [wrv, wrv, sv, sv, List.length_nil, toNat_add_testBit_zero, putB_self]
    rw [e, e]
  | cons_append p mid q ih =>
    obtain ⟨hpq, hp, hq, hmid⟩ := nodup_parts hnd
    rw [rev_step p q mid hnd idx, rev_step p q mid hnd]
    rw [sv_putB_not_mem mid hp, sv_putB_not_mem mid hq, wrv_putB_comm mid hp,
      wrv_putB_comm mid hq, ih hmid]
    apply Nat.eq_of_testBit_eq; intro i
    simp only [testBit_putB]
    by_cases h1 : i = p
    · subst h1; simp [Ne.symm hpq]
    · by_cases h2 : i = q
      · subst h2; simp [h1]
      · simp [h1, h2]

#print axioms actAll_reverseCircuit
#print axioms rev_involutive

end Qvnt.Dft
