/- `bits_from_eq` of GenBits.lean (one module per declaration, tools/lean_split.py) -/
import Qvnt.Generated.Regs
import Qvnt.Generated.Kernels
import Qvnt.Lemmas.Bits
import Mathlib.Tactic.Ring
import Mathlib.Algebra.Ring.Basic
import Qvnt.Lemmas.Queue
import Qvnt.Lemmas.GenBits.bitsOfModel

set_option linter.unusedSectionVars false
namespace Qvnt.Gen2
open Qvnt Qvnt.Gen
variable {R : Type}

theorem bits_from_eq (m : Nat) : bits_from m = bitsOfModel (Qvnt.BitsIter.ofMask m) := rfl

end Qvnt.Gen2
