/- `bitsList_eq` of GenBits.lean (one module per declaration, tools/lean_split.py) -/
import Qvnt.Generated.Regs
import Qvnt.Generated.Kernels
import Qvnt.Lemmas.Bits
import Mathlib.Tactic.Ring
import Mathlib.Algebra.Ring.Basic
import Qvnt.Lemmas.Queue
import Qvnt.Lemmas.GenBits.bits_from_eq
import Qvnt.Lemmas.GenBits.bitsCollect_eq

set_option linter.unusedSectionVars false
namespace Qvnt.Gen2
open Qvnt Qvnt.Gen
variable {R : Type}

theorem bitsList_eq (m : Nat) : bitsList m = bitsIterList m := by
  unfold bitsList bitsIterList
  rw [bits_from_eq, bitsCollect_eq _ _ (by simp [Qvnt.BitsIter.ofMask])]

end Qvnt.Gen2
