/- `bitsOfModel` of GenBits.lean (one module per declaration, tools/lean_split.py) -/
import Qvnt.Generated.Regs
import Qvnt.Generated.Kernels
import Qvnt.Lemmas.Bits
import Mathlib.Tactic.Ring
import Mathlib.Algebra.Ring.Basic
import Qvnt.Lemmas.Queue

set_option linter.unusedSectionVars false
namespace Qvnt.Gen2
open Qvnt Qvnt.Gen
variable {R : Type}

/-- the model's iterator state as the translated record -/
def bitsOfModel (it : Qvnt.BitsIter) : BitsIterG := ⟨it.bits, it.pos⟩

end Qvnt.Gen2
