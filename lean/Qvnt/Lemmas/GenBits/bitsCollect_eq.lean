/- `bitsCollect_eq` of GenBits.lean (one module per declaration, tools/lean_split.py) -/
import Qvnt.Generated.Regs
import Qvnt.Generated.Kernels
import Qvnt.Lemmas.Bits
import Mathlib.Tactic.Ring
import Mathlib.Algebra.Ring.Basic
import Qvnt.Lemmas.Queue
import Qvnt.Lemmas.GenBits.bitsOfModel
import Qvnt.Lemmas.GenBits.bits_next_eq

set_option linter.unusedSectionVars false
namespace Qvnt.Gen2
open Qvnt Qvnt.Gen
variable {R : Type}

theorem bitsCollect_eq (fuel : Nat) (it : Qvnt.BitsIter) (h : it.pos < 2 ^ 64) :
    bitsCollect fuel (bitsOfModel it) = it.collect fuel := by
  induction fuel generalizing it with
  | zero => simp [bitsCollect, Qvnt.BitsIter.collect]
  | succ n ih =>
    unfold bitsCollect Qvnt.BitsIter.collect
    rw [bits_next_eq _ _ h]
    cases hn : it.next (n + 1) with
    | none => simp
    | some r =>
      obtain ⟨o, it'⟩ := r
      cases o with
      | none => simp
      | some p =>
        have hp : it'.pos < 2 ^ 64 := by
          unfold Qvnt.BitsIter.next at hn
          -- every successor state has `pos = shl1 _`
          have key : ∀ (f : Nat) (i : Qvnt.BitsIter) q i', i.next f = some (some q, i') → i'.pos < 2 ^ 64 := by
            intro f
            induction f with
            | zero => intro i q i' hh; simp [Qvnt.BitsIter.next] at hh
            | succ f ihf =>
              intro i q i' hh
              unfold Qvnt.BitsIter.next at hh
              split at hh
              · simp at hh; rw [← hh.2]; unfold shl1 W; exact Nat.mod_lt _ (by decide)
              · split at hh
                · simp at hh
                · exact ihf _ _ _ hh
          exact key (n + 1) it p it' (by unfold Qvnt.BitsIter.next; exact hn)
        simp [ih it' hp]
        cases it'.collect n <;> simp

end Qvnt.Gen2
