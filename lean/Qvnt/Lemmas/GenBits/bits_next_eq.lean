/- `bits_next_eq` of GenBits.lean (one module per declaration, tools/lean_split.py) -/
import Qvnt.Generated.Regs
import Qvnt.Generated.Kernels
import Qvnt.Lemmas.Bits
import Mathlib.Tactic.Ring
import Mathlib.Algebra.Ring.Basic
import Qvnt.Lemmas.Queue
import Qvnt.Lemmas.GenBits.bitsOfModel
import Qvnt.Lemmas.GenBits.shl_pos

set_option linter.unusedSectionVars false
namespace Qvnt.Gen2
open Qvnt Qvnt.Gen
variable {R : Type}

theorem bits_next_eq (fuel : Nat) (it : Qvnt.BitsIter) (h : it.pos < 2 ^ 64) :
    bits_next fuel (bitsOfModel it) = (it.next fuel).map (fun r => (r.1, bitsOfModel r.2)) := by
  unfold bits_next
  induction fuel generalizing it with
  | zero => simp [bits_next_loop1, Qvnt.BitsIter.next]
  | succ n ih =>
    unfold bits_next_loop1 Qvnt.BitsIter.next
    simp only [bitsOfModel]
    by_cases h1 : it.pos &&& it.bits = 0
    · by_cases h2 : (decide (it.pos > it.bits) || it.pos == 0) = true
      · simp [h1, h2]
      · have h2' : ¬ (it.bits < it.pos ∨ it.pos = 0) := by simpa using h2
        have := ih ⟨it.bits, shl1 it.pos⟩ (by unfold shl1 W; exact Nat.mod_lt _ (by decide))
        simp [bitsOfModel] at this
        simp [h1, h2', shl_pos _ h, this]
    · simp [h1, shl_pos _ h]

end Qvnt.Gen2
