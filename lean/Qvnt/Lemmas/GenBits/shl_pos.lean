/- `shl_pos` of GenBits.lean (one module per declaration, tools/lean_split.py) -/
import Qvnt.Generated.Regs
import Qvnt.Generated.Kernels
import Qvnt.Lemmas.Bits
import Mathlib.Tactic.Ring
import Mathlib.Algebra.Ring.Basic
import Qvnt.Lemmas.Queue

set_option linter.unusedSectionVars false
namespace Qvnt.Gen2
open Qvnt Qvnt.Gen
variable {R : Type}

theorem shl_pos (p : Nat) (_h : p < 2 ^ 64) : shlW 64 p 1 = shl1 p := by
  unfold shlW shl1 W; simp

end Qvnt.Gen2
