/-
LEMMAS — every kernel of `Atom.op` equals the action of its documented matrix.
-/
import Qvnt.Model.Cx
import Qvnt.Model.Bits
import Qvnt.Model.Atom
import Qvnt.Spec.Gates
import Mathlib.Tactic.Ring
import Mathlib.Tactic.LinearCombination
import Mathlib.Algebra.Ring.Basic

namespace Qvnt
open Qvnt.Spec

set_option linter.unusedSimpArgs false
set_option linter.unusedTactic false
set_option linter.unreachableTactic false

namespace KBits

theorem popcount_zero : popcount 0 = 0 := by simp [popcount]

theorem popcount_eq (n : Nat) : popcount n = n % 2 + popcount (n / 2) := by
  cases n with
  | zero => simp [popcount]
  | succ n => rw [popcount]

theorem popcount_one : popcount 1 = 1 := by
  rw [popcount_eq]; simp [popcount_zero]

theorem popcount_two_mul (n : Nat) : popcount (2 * n) = popcount n := by
  rw [popcount_eq (2 * n)]; simp

theorem popcount_two_pow (k : Nat) : popcount (2 ^ k) = 1 := by
  induction k with
  | zero => simpa using popcount_one
  | succ k ih => rw [Nat.pow_succ, Nat.mul_comm, popcount_two_mul, ih]

theorem popcount_or_disjoint (a : Nat) : ∀ b : Nat, a &&& b = 0 →
    popcount (a ||| b) = popcount a + popcount b := by
  induction a using Nat.strongRecOn with
  | _ a ih =>
    intro b hab
    by_cases ha : a = 0
    · subst ha; simp [popcount_zero]
    · have hlt : a / 2 < a := by omega
      have hdiv : a / 2 &&& b / 2 = 0 := by rw [← Nat.and_div_two, hab]
      have h1 := Nat.or_mod_two_eq_one (a := a) (b := b)
      have h2 := Nat.and_mod_two_eq_one (a := a) (b := b)
      rw [hab] at h2
      rw [popcount_eq (a ||| b), popcount_eq a, popcount_eq b, Nat.or_div_two, ih _ hlt _ hdiv]
      omega

theorem two_pow_and_two_pow {i j : Nat} (h : i ≠ j) : 2 ^ i &&& 2 ^ j = 0 := by
  apply Nat.eq_of_testBit_eq; intro k
  by_cases h1 : i = k <;> by_cases h2 : j = k <;> simp [Nat.testBit_two_pow, h1, h2]
  omega

theorem two_pow_or_eq_xor {i j : Nat} (h : i ≠ j) : 2 ^ i ||| 2 ^ j = 2 ^ i ^^^ 2 ^ j := by
  apply Nat.eq_of_testBit_eq; intro k
  by_cases h1 : i = k <;> by_cases h2 : j = k <;> simp [Nat.testBit_two_pow, h1, h2]
  omega

theorem popcount_two_pow_or {i j : Nat} (h : i ≠ j) : popcount (2 ^ i ||| 2 ^ j) = 2 := by
  rw [popcount_or_disjoint _ _ (two_pow_and_two_pow h), popcount_two_pow, popcount_two_pow]

theorem and_two_pow_eq (idx k : Nat) :
    idx &&& 2 ^ k = if idx.testBit k then 2 ^ k else 0 := by
  by_cases hb : idx.testBit k
  · rw [if_pos hb]
    apply Nat.eq_of_testBit_eq; intro m
    by_cases hm : k = m
    · subst hm; simp [hb]
    · simp [Nat.testBit_two_pow, hm]
  · rw [if_neg hb]
    apply Nat.eq_of_testBit_eq; intro m
    by_cases hm : k = m
    · subst hm; simp [hb]
    · simp [Nat.testBit_two_pow, hm]

theorem and_two_pow_eq_zero_iff (idx k : Nat) :
    idx &&& 2 ^ k = 0 ↔ idx.testBit k = false := by
  rw [and_two_pow_eq]
  by_cases hb : idx.testBit k <;> simp [hb]

theorem popcount_and_two_pow (idx k : Nat) :
    popcount (idx &&& 2 ^ k) = if idx.testBit k then 1 else 0 := by
  rw [and_two_pow_eq]
  by_cases hb : idx.testBit k <;> simp [hb, popcount_two_pow, popcount_zero]

theorem xor_two_pow_and_two_pow {i j : Nat} (h : i ≠ j) (idx : Nat) :
    (idx ^^^ 2 ^ i) &&& 2 ^ j = idx &&& 2 ^ j := by
  rw [Nat.and_xor_distrib_right, two_pow_and_two_pow h, Nat.xor_zero]

theorem popcount_and_two_pow_or {i j : Nat} (h : i ≠ j) (idx : Nat) :
    popcount (idx &&& (2 ^ i ||| 2 ^ j)) =
      (if idx.testBit i then 1 else 0) + (if idx.testBit j then 1 else 0) := by
  rw [Nat.and_or_distrib_left, popcount_or_disjoint, popcount_and_two_pow, popcount_and_two_pow]
  rw [and_two_pow_eq, and_two_pow_eq]
  by_cases hi : idx.testBit i <;> by_cases hj : idx.testBit j <;>
    simp [hi, hj, two_pow_and_two_pow h]

theorem oddParity_two_pow (idx k : Nat) : Atom.oddParity idx (2 ^ k) = idx.testBit k := by
  unfold Atom.oddParity
  rw [popcount_and_two_pow]
  by_cases hb : idx.testBit k <;> simp [hb]

theorem oddParity_two_pow_or {i j : Nat} (h : i ≠ j) (idx : Nat) :
    Atom.oddParity idx (2 ^ i ||| 2 ^ j) = (idx.testBit i != idx.testBit j) := by
  unfold Atom.oddParity
  rw [popcount_and_two_pow_or h]
  by_cases hi : idx.testBit i <;> by_cases hj : idx.testBit j <;> simp [hi, hj]

theorem popcount_and_two_pow_or_odd {i j : Nat} (h : i ≠ j) (idx : Nat) :
    popcount (idx &&& (2 ^ i ||| 2 ^ j)) % 2 = 1 ↔ idx.testBit i ≠ idx.testBit j := by
  rw [popcount_and_two_pow_or h]
  by_cases hi : idx.testBit i <;> by_cases hj : idx.testBit j <;> simp [hi, hj]

theorem xor_xor_two_pow {i j : Nat} (h : i ≠ j) (idx : Nat) :
    idx ^^^ 2 ^ i ^^^ 2 ^ j = idx ^^^ (2 ^ i ||| 2 ^ j) := by
  rw [two_pow_or_eq_xor h, Nat.xor_assoc]

end KBits
open KBits

section OneQubit
variable {R : Type} [CommRing R] [Consts R]

theorem rx_eq (a : Nat) (ph : Cx R) (ψ : State R) (idx : Nat) :
    (Atom.rx a ph).op ψ idx = act1 (matRX ph.re ph.im) a ψ idx := by
  by_cases h : idx &&& a = 0 <;>
    apply Cx.ext' <;> simp [Atom.op, act1, matRX, cR, h] <;> ring

theorem ry_eq (a : Nat) (ph : Cx R) (ψ : State R) (idx : Nat) :
    (Atom.ry a ph).op ψ idx = act1 (matRY ph.re ph.im) a ψ idx := by
  by_cases h : idx &&& a = 0 <;>
    apply Cx.ext' <;> simp [Atom.op, act1, matRY, cR, h] <;> ring

theorem rz_eq (a : Nat) (ph : Cx R) (ψ : State R) (idx : Nat) :
    (Atom.rz a ph).op ψ idx = act1 (matRZ ph.re ph.im) a ψ idx := by
  by_cases h : idx &&& a = 0 <;>
    apply Cx.ext' <;> simp [Atom.op, act1, matRZ, cR, h] <;> ring

theorem h1_eq (a : Nat) (ψ : State R) (idx : Nat) :
    (Atom.h1 a).op ψ idx = act1 matH a ψ idx := by
  by_cases h : idx &&& a = 0 <;>
    apply Cx.ext' <;> simp [Atom.op, act1, matH, cR, h] <;> ring

/-! ### Pauli-type kernels on a single-bit mask -/

theorem x_eq (a : Nat) (ψ : State R) (idx : Nat) :
    (Atom.x a).op ψ idx = act1 matX a ψ idx := by
  by_cases h : idx &&& a = 0 <;>
    apply Cx.ext' <;> simp [Atom.op, act1, matX, h]

theorem x_eq_one (k : Nat) (ψ : State R) (idx : Nat) :
    (Atom.x (2 ^ k)).op ψ idx = act1 matX (2 ^ k) ψ idx := x_eq _ ψ idx

theorem yIPow_two_pow (k : Nat) : yIPow (2 ^ k) = 4294967293 := by
  simp [yIPow, popcount_two_pow]

theorem negWord_zero : negWord 0 = 0 := by simp [negWord, W]
theorem negWord_one : negWord 1 = 18446744073709551615 := by simp [negWord, W]

theorem y_eq_one (k : Nat) (ψ : State R) (idx : Nat) :
    (Atom.y (2 ^ k) (yIPow (2 ^ k))).op ψ idx = act1 matY (2 ^ k) ψ idx := by
  rw [yIPow_two_pow]
  unfold Atom.op act1
  simp only [popcount_and_two_pow, and_two_pow_eq_zero_iff]
  by_cases hb : idx.testBit k <;>
    apply Cx.ext' <;> simp [hb, rotate, matY, cI, cNegI]

theorem z_eq_one (k : Nat) (ψ : State R) (idx : Nat) :
    (Atom.z (2 ^ k)).op ψ idx = act1 matZ (2 ^ k) ψ idx := by
  unfold Atom.op act1
  simp only [oddParity_two_pow, and_two_pow_eq_zero_iff]
  by_cases hb : idx.testBit k <;>
    apply Cx.ext' <;> simp [hb, matZ]

theorem s_eq_one (k : Nat) (ψ : State R) (idx : Nat) :
    (Atom.s (2 ^ k) false).op ψ idx = act1 matS (2 ^ k) ψ idx := by
  unfold Atom.op act1
  simp only [popcount_and_two_pow, and_two_pow_eq_zero_iff]
  by_cases hb : idx.testBit k <;>
    apply Cx.ext' <;> simp [hb, rotate, matS, cI]

theorem s_dgr_eq_one (k : Nat) (ψ : State R) (idx : Nat) :
    (Atom.s (2 ^ k) true).op ψ idx = act1 matS.adj (2 ^ k) ψ idx := by
  unfold Atom.op act1
  simp only [popcount_and_two_pow, and_two_pow_eq_zero_iff]
  by_cases hb : idx.testBit k <;>
    apply Cx.ext' <;> simp [hb, rotate, matS, cI, Mat2.adj, negWord_zero, negWord_one]

theorem t_eq_one (k : Nat) (ψ : State R) (idx : Nat) :
    (Atom.t (2 ^ k) false).op ψ idx = act1 matT (2 ^ k) ψ idx := by
  unfold Atom.op act1
  simp only [popcount_and_two_pow, and_two_pow_eq_zero_iff]
  by_cases hb : idx.testBit k <;>
    apply Cx.ext' <;> simp [hb, rotate, matT]

theorem t_dgr_eq_one (k : Nat) (ψ : State R) (idx : Nat) :
    (Atom.t (2 ^ k) true).op ψ idx = act1 matT.adj (2 ^ k) ψ idx := by
  unfold Atom.op act1
  simp only [popcount_and_two_pow, and_two_pow_eq_zero_iff]
  by_cases hb : idx.testBit k <;>
    apply Cx.ext' <;> simp [hb, rotate, matT, Mat2.adj, negWord_zero, negWord_one] <;> ring

/-! ### daggers -/

omit [Consts R] in
theorem matRX_adj (c s : R) : (matRX c s).adj = matRX c (-s) := by
  simp only [matRX, Mat2.adj, cR, Mat2.mk.injEq]
  refine ⟨?_, ?_, ?_, ?_⟩ <;> apply Cx.ext' <;> simp
omit [Consts R] in
theorem matRY_adj (c s : R) : (matRY c s).adj = matRY c (-s) := by
  simp only [matRY, Mat2.adj, cR, Mat2.mk.injEq]
  refine ⟨?_, ?_, ?_, ?_⟩ <;> apply Cx.ext' <;> simp
omit [Consts R] in
theorem matRZ_adj (c s : R) : (matRZ c s).adj = matRZ c (-s) := by
  simp only [matRZ, Mat2.adj, Mat2.mk.injEq]
  refine ⟨?_, ?_, ?_, ?_⟩ <;> apply Cx.ext' <;> simp
theorem matH_adj : (matH : Mat2 R).adj = matH := by
  simp only [matH, Mat2.adj, cR, Mat2.mk.injEq]
  refine ⟨?_, ?_, ?_, ?_⟩ <;> apply Cx.ext' <;> simp
omit [Consts R] in
theorem matX_adj : (matX : Mat2 R).adj = matX := by
  simp only [matX, Mat2.adj, Mat2.mk.injEq]
  refine ⟨?_, ?_, ?_, ?_⟩ <;> apply Cx.ext' <;> simp
omit [Consts R] in
theorem matY_adj : (matY : Mat2 R).adj = matY := by
  simp only [matY, Mat2.adj, cI, cNegI, Mat2.mk.injEq]
  refine ⟨?_, ?_, ?_, ?_⟩ <;> apply Cx.ext' <;> simp
omit [Consts R] in
theorem matZ_adj : (matZ : Mat2 R).adj = matZ := by
  simp only [matZ, Mat2.adj, Mat2.mk.injEq]
  refine ⟨?_, ?_, ?_, ?_⟩ <;> apply Cx.ext' <;> simp

theorem rx_dgr_eq (a : Nat) (ph : Cx R) (ψ : State R) (idx : Nat) :
    (Atom.rx a ph).dgr.op ψ idx = act1 (matRX ph.re ph.im).adj a ψ idx := by
  rw [matRX_adj]; exact rx_eq a ph.conj ψ idx
theorem ry_dgr_eq (a : Nat) (ph : Cx R) (ψ : State R) (idx : Nat) :
    (Atom.ry a ph).dgr.op ψ idx = act1 (matRY ph.re ph.im).adj a ψ idx := by
  rw [matRY_adj]; exact ry_eq a ph.conj ψ idx
theorem rz_dgr_eq (a : Nat) (ph : Cx R) (ψ : State R) (idx : Nat) :
    (Atom.rz a ph).dgr.op ψ idx = act1 (matRZ ph.re ph.im).adj a ψ idx := by
  rw [matRZ_adj]; exact rz_eq a ph.conj ψ idx
theorem h1_dgr_eq (a : Nat) (ψ : State R) (idx : Nat) :
    (Atom.h1 a : Atom R).dgr.op ψ idx = act1 (matH : Mat2 R).adj a ψ idx := by
  rw [matH_adj]; exact h1_eq a ψ idx
theorem x_dgr_eq_one (k : Nat) (ψ : State R) (idx : Nat) :
    (Atom.x (2 ^ k) : Atom R).dgr.op ψ idx = act1 (matX : Mat2 R).adj (2 ^ k) ψ idx := by
  rw [matX_adj]; exact x_eq_one k ψ idx
theorem y_dgr_eq_one (k : Nat) (ψ : State R) (idx : Nat) :
    (Atom.y (2 ^ k) (yIPow (2 ^ k)) : Atom R).dgr.op ψ idx
      = act1 (matY : Mat2 R).adj (2 ^ k) ψ idx := by
  rw [matY_adj]; exact y_eq_one k ψ idx
theorem z_dgr_eq_one (k : Nat) (ψ : State R) (idx : Nat) :
    (Atom.z (2 ^ k) : Atom R).dgr.op ψ idx = act1 (matZ : Mat2 R).adj (2 ^ k) ψ idx := by
  rw [matZ_adj]; exact z_eq_one k ψ idx
theorem s_dgr_op_eq_one (k : Nat) (ψ : State R) (idx : Nat) :
    (Atom.s (2 ^ k) false : Atom R).dgr.op ψ idx = act1 (matS : Mat2 R).adj (2 ^ k) ψ idx :=
  s_dgr_eq_one k ψ idx
theorem t_dgr_op_eq_one (k : Nat) (ψ : State R) (idx : Nat) :
    (Atom.t (2 ^ k) false : Atom R).dgr.op ψ idx = act1 (matT : Mat2 R).adj (2 ^ k) ψ idx :=
  t_dgr_eq_one k ψ idx

end OneQubit

section TwoQubit
variable {R : Type} [CommRing R] [Consts R]

theorem xor_two_pow_or {i j : Nat} (h : i ≠ j) (idx : Nat) :
    idx ^^^ (2 ^ i ||| 2 ^ j) = idx ^^^ 2 ^ i ^^^ 2 ^ j := (xor_xor_two_pow h idx).symm

theorem rxx_eq (i j : Nat) (h : i ≠ j) (ph : Cx R) (ψ : State R) (idx : Nat) :
    (Atom.rxx (2 ^ i ||| 2 ^ j) ph).op ψ idx
      = act2 (matRXX ph.re ph.im) (2 ^ i) (2 ^ j) ψ idx := by
  unfold Atom.op act2 bitAt
  simp only [and_two_pow_eq_zero_iff, xor_two_pow_or h]
  by_cases hi : idx.testBit i <;> by_cases hj : idx.testBit j <;>
    apply Cx.ext' <;> simp [hi, hj, matRXX, mat4, cR] <;> ring

theorem ryy_eq (i j : Nat) (h : i ≠ j) (ph : Cx R) (ψ : State R) (idx : Nat) :
    (Atom.ryy (2 ^ i ||| 2 ^ j) ph).op ψ idx
      = act2 (matRYY ph.re ph.im) (2 ^ i) (2 ^ j) ψ idx := by
  unfold Atom.op act2 bitAt
  simp only [popcount_and_two_pow_or h, and_two_pow_eq_zero_iff, xor_two_pow_or h]
  by_cases hi : idx.testBit i <;> by_cases hj : idx.testBit j <;>
    apply Cx.ext' <;> simp [hi, hj, matRYY, mat4, cR, cI, Mat4.adj] <;> ring

theorem rzz_eq (i j : Nat) (h : i ≠ j) (ph : Cx R) (ψ : State R) (idx : Nat) :
    (Atom.rzz (2 ^ i ||| 2 ^ j) ph).op ψ idx
      = act2 (matRZZ ph.re ph.im) (2 ^ i) (2 ^ j) ψ idx := by
  unfold Atom.op act2 bitAt
  simp only [popcount_and_two_pow_or h, and_two_pow_eq_zero_iff, xor_two_pow_or h]
  by_cases hi : idx.testBit i <;> by_cases hj : idx.testBit j <;>
    apply Cx.ext' <;> simp [hi, hj, matRZZ, mat4, cR, cI, Mat4.adj] <;> ring

theorem swap_eq (i j : Nat) (h : i ≠ j) (ψ : State R) (idx : Nat) :
    (Atom.swap (2 ^ i ||| 2 ^ j) : Atom R).op ψ idx
      = act2 (matSwap) (2 ^ i) (2 ^ j) ψ idx := by
  unfold Atom.op act2 bitAt
  simp only [oddParity_two_pow_or h, and_two_pow_eq_zero_iff, xor_two_pow_or h]
  by_cases hi : idx.testBit i <;> by_cases hj : idx.testBit j <;>
    apply Cx.ext' <;> simp [hi, hj, matSwap, mat4, cR, cI, Mat4.adj] <;> ring

theorem iSwap_eq (i j : Nat) (h : i ≠ j) (ψ : State R) (idx : Nat) :
    (Atom.iSwap (2 ^ i ||| 2 ^ j) false : Atom R).op ψ idx
      = act2 (matISwap) (2 ^ i) (2 ^ j) ψ idx := by
  unfold Atom.op act2 bitAt
  simp only [oddParity_two_pow_or h, and_two_pow_eq_zero_iff, xor_two_pow_or h]
  by_cases hi : idx.testBit i <;> by_cases hj : idx.testBit j <;>
    apply Cx.ext' <;> simp [hi, hj, matISwap, mat4, cR, cI, Mat4.adj] <;> ring

theorem sqrtSwap_eq (i j : Nat) (h : i ≠ j) (ψ : State R) (idx : Nat) :
    (Atom.sqrtSwap (2 ^ i ||| 2 ^ j) false : Atom R).op ψ idx
      = act2 (matSqrtSwap) (2 ^ i) (2 ^ j) ψ idx := by
  unfold Atom.op act2 bitAt
  simp only [oddParity_two_pow_or h, and_two_pow_eq_zero_iff, xor_two_pow_or h]
  by_cases hi : idx.testBit i <;> by_cases hj : idx.testBit j <;>
    apply Cx.ext' <;> simp [hi, hj, matSqrtSwap, mat4, cR, cI, Mat4.adj] <;> ring

theorem sqrtISwap_eq (i j : Nat) (h : i ≠ j) (ψ : State R) (idx : Nat) :
    (Atom.sqrtISwap (2 ^ i ||| 2 ^ j) false : Atom R).op ψ idx
      = act2 (matSqrtISwap) (2 ^ i) (2 ^ j) ψ idx := by
  unfold Atom.op act2 bitAt
  simp only [oddParity_two_pow_or h, and_two_pow_eq_zero_iff, xor_two_pow_or h]
  by_cases hi : idx.testBit i <;> by_cases hj : idx.testBit j <;>
    apply Cx.ext' <;> simp [hi, hj, matSqrtISwap, mat4, cR, cI, Mat4.adj] <;> ring

/-! ### two-qubit daggers -/

theorem iSwap_dgr_eq (i j : Nat) (h : i ≠ j) (ψ : State R) (idx : Nat) :
    (Atom.iSwap (2 ^ i ||| 2 ^ j) true : Atom R).op ψ idx
      = act2 (Mat4.adj matISwap) (2 ^ i) (2 ^ j) ψ idx := by
  unfold Atom.op act2 bitAt
  simp only [oddParity_two_pow_or h, and_two_pow_eq_zero_iff, xor_two_pow_or h]
  by_cases hi : idx.testBit i <;> by_cases hj : idx.testBit j <;>
    apply Cx.ext' <;> simp [hi, hj, matISwap, mat4, cR, cI, Mat4.adj] <;> ring

theorem sqrtSwap_dgr_eq (i j : Nat) (h : i ≠ j) (ψ : State R) (idx : Nat) :
    (Atom.sqrtSwap (2 ^ i ||| 2 ^ j) true : Atom R).op ψ idx
      = act2 (Mat4.adj matSqrtSwap) (2 ^ i) (2 ^ j) ψ idx := by
  unfold Atom.op act2 bitAt
  simp only [oddParity_two_pow_or h, and_two_pow_eq_zero_iff, xor_two_pow_or h]
  by_cases hi : idx.testBit i <;> by_cases hj : idx.testBit j <;>
    apply Cx.ext' <;> simp [hi, hj, matSqrtSwap, mat4, cR, cI, Mat4.adj] <;> ring

theorem sqrtISwap_dgr_eq (i j : Nat) (h : i ≠ j) (ψ : State R) (idx : Nat) :
    (Atom.sqrtISwap (2 ^ i ||| 2 ^ j) true : Atom R).op ψ idx
      = act2 (Mat4.adj matSqrtISwap) (2 ^ i) (2 ^ j) ψ idx := by
  unfold Atom.op act2 bitAt
  simp only [oddParity_two_pow_or h, and_two_pow_eq_zero_iff, xor_two_pow_or h]
  by_cases hi : idx.testBit i <;> by_cases hj : idx.testBit j <;>
    apply Cx.ext' <;> simp [hi, hj, matSqrtISwap, mat4, cR, cI, Mat4.adj] <;> ring

theorem swap_dgr_eq (i j : Nat) (h : i ≠ j) (ψ : State R) (idx : Nat) :
    ((Atom.swap (2 ^ i ||| 2 ^ j) : Atom R).dgr).op ψ idx
      = act2 (Mat4.adj matSwap) (2 ^ i) (2 ^ j) ψ idx := by
  change (Atom.swap (2 ^ i ||| 2 ^ j) : Atom R).op ψ idx = _
  unfold Atom.op act2 bitAt
  simp only [oddParity_two_pow_or h, and_two_pow_eq_zero_iff, xor_two_pow_or h]
  by_cases hi : idx.testBit i <;> by_cases hj : idx.testBit j <;>
    apply Cx.ext' <;> simp [hi, hj, matSwap, Atom.dgr, mat4, cR, cI, Mat4.adj] <;> ring

theorem rxx_dgr_eq (i j : Nat) (h : i ≠ j) (ph : Cx R) (ψ : State R) (idx : Nat) :
    ((Atom.rxx (2 ^ i ||| 2 ^ j) ph).dgr).op ψ idx
      = act2 (Mat4.adj (matRXX ph.re ph.im)) (2 ^ i) (2 ^ j) ψ idx := by
  change (Atom.rxx (2 ^ i ||| 2 ^ j) ph.conj).op ψ idx = _
  unfold Atom.op act2 bitAt
  simp only [and_two_pow_eq_zero_iff, xor_two_pow_or h]
  by_cases hi : idx.testBit i <;> by_cases hj : idx.testBit j <;>
    apply Cx.ext' <;> simp [hi, hj, matRXX, Atom.dgr, mat4, cR, cI, Mat4.adj] <;> ring

theorem ryy_dgr_eq (i j : Nat) (h : i ≠ j) (ph : Cx R) (ψ : State R) (idx : Nat) :
    ((Atom.ryy (2 ^ i ||| 2 ^ j) ph).dgr).op ψ idx
      = act2 (Mat4.adj (matRYY ph.re ph.im)) (2 ^ i) (2 ^ j) ψ idx := by
  change (Atom.ryy (2 ^ i ||| 2 ^ j) ph.conj).op ψ idx = _
  unfold Atom.op act2 bitAt
  simp only [popcount_and_two_pow_or h, and_two_pow_eq_zero_iff, xor_two_pow_or h]
  by_cases hi : idx.testBit i <;> by_cases hj : idx.testBit j <;>
    apply Cx.ext' <;> simp [hi, hj, matRYY, Atom.dgr, mat4, cR, cI, Mat4.adj] <;> ring

theorem rzz_dgr_eq (i j : Nat) (h : i ≠ j) (ph : Cx R) (ψ : State R) (idx : Nat) :
    ((Atom.rzz (2 ^ i ||| 2 ^ j) ph).dgr).op ψ idx
      = act2 (Mat4.adj (matRZZ ph.re ph.im)) (2 ^ i) (2 ^ j) ψ idx := by
  change (Atom.rzz (2 ^ i ||| 2 ^ j) ph.conj).op ψ idx = _
  unfold Atom.op act2 bitAt
  simp only [popcount_and_two_pow_or h, and_two_pow_eq_zero_iff, xor_two_pow_or h]
  by_cases hi : idx.testBit i <;> by_cases hj : idx.testBit j <;>
    apply Cx.ext' <;> simp [hi, hj, matRZZ, Atom.dgr, mat4, cR, cI, Mat4.adj] <;> ring

/-! ### H ⊗ H -/

theorem invSqrt2_sq (hs : 2 * (Consts.invSqrt2 : R) * Consts.invSqrt2 = 1)
    (hh : 2 * (Consts.half : R) = 1) :
    (Consts.invSqrt2 : R) * Consts.invSqrt2 = Consts.half := by
  linear_combination (Consts.half : R) * hs - ((Consts.invSqrt2 : R) * Consts.invSqrt2) * hh

theorem h2_eq (i j : Nat) (h : i ≠ j)
    (hs : 2 * (Consts.invSqrt2 : R) * Consts.invSqrt2 = 1) (hh : 2 * (Consts.half : R) = 1)
    (ψ : State R) (idx : Nat) :
    (Atom.h2 (2 ^ i) (2 ^ j) (2 ^ i ||| 2 ^ j)).op ψ idx
      = act1 matH (2 ^ i) (act1 matH (2 ^ j) ψ) idx := by
  have hr := invSqrt2_sq hs hh
  unfold Atom.op act1
  rw [← hr]
  simp only [xor_two_pow_and_two_pow h, and_two_pow_eq_zero_iff, xor_two_pow_or h]
  by_cases hi : idx.testBit i <;> by_cases hj : idx.testBit j <;>
    apply Cx.ext' <;> simp [and_two_pow_eq_zero_iff, hi, hj, matH, cR] <;> ring

end TwoQubit

/-! ### `dgr` is definitional on each constructor -/
section DgrRfl
variable {R : Type} [Neg R]
theorem dgr_rx (a : Nat) (ph : Cx R) : (Atom.rx a ph).dgr = Atom.rx a ph.conj := rfl
theorem dgr_ry (a : Nat) (ph : Cx R) : (Atom.ry a ph).dgr = Atom.ry a ph.conj := rfl
theorem dgr_rz (a : Nat) (ph : Cx R) : (Atom.rz a ph).dgr = Atom.rz a ph.conj := rfl
theorem dgr_rxx (ab : Nat) (ph : Cx R) : (Atom.rxx ab ph).dgr = Atom.rxx ab ph.conj := rfl
theorem dgr_ryy (ab : Nat) (ph : Cx R) : (Atom.ryy ab ph).dgr = Atom.ryy ab ph.conj := rfl
theorem dgr_rzz (ab : Nat) (ph : Cx R) : (Atom.rzz ab ph).dgr = Atom.rzz ab ph.conj := rfl
theorem dgr_s (a : Nat) (d : Bool) : (Atom.s a d : Atom R).dgr = Atom.s a (!d) := rfl
theorem dgr_t (a : Nat) (d : Bool) : (Atom.t a d : Atom R).dgr = Atom.t a (!d) := rfl
theorem dgr_iSwap (ab : Nat) (d : Bool) : (Atom.iSwap ab d : Atom R).dgr = Atom.iSwap ab (!d) := rfl
theorem dgr_sqrtSwap (ab : Nat) (d : Bool) :
    (Atom.sqrtSwap ab d : Atom R).dgr = Atom.sqrtSwap ab (!d) := rfl
theorem dgr_sqrtISwap (ab : Nat) (d : Bool) :
    (Atom.sqrtISwap ab d : Atom R).dgr = Atom.sqrtISwap ab (!d) := rfl
theorem dgr_h2 (a b ab : Nat) : (Atom.h2 a b ab : Atom R).dgr = Atom.h2 a b ab := rfl
end DgrRfl

#print axioms rx_eq
#print axioms ry_eq
#print axioms rz_eq
#print axioms h1_eq
#print axioms x_eq
#print axioms x_eq_one
#print axioms y_eq_one
#print axioms z_eq_one
#print axioms s_eq_one
#print axioms s_dgr_eq_one
#print axioms t_eq_one
#print axioms t_dgr_eq_one
#print axioms rx_dgr_eq
#print axioms ry_dgr_eq
#print axioms rz_dgr_eq
#print axioms h1_dgr_eq
#print axioms x_dgr_eq_one
#print axioms y_dgr_eq_one
#print axioms z_dgr_eq_one
#print axioms s_dgr_op_eq_one
#print axioms t_dgr_op_eq_one
#print axioms rxx_eq
#print axioms ryy_eq
#print axioms rzz_eq
#print axioms swap_eq
#print axioms iSwap_eq
#print axioms sqrtSwap_eq
#print axioms sqrtISwap_eq
#print axioms iSwap_dgr_eq
#print axioms sqrtSwap_dgr_eq
#print axioms sqrtISwap_dgr_eq
#print axioms swap_dgr_eq
#print axioms rxx_dgr_eq
#print axioms ryy_dgr_eq
#print axioms rzz_dgr_eq
#print axioms h2_eq

end Qvnt
