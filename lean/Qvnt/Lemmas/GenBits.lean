/-
`math/bits_iter.rs`: from, next, collect.
(split out of GenRegs2.lean so that an equality that no longer holds blocks only the properties that rely on it)
-/
import Qvnt.Lemmas.GenPre

set_option linter.unusedSectionVars false

namespace Qvnt.Gen2
open Qvnt Qvnt.Gen

variable {R : Type}

/-! ### `BitsIter::next` (`math/bits_iter.rs`) -/

/-- the model's iterator state as the translated record -/
def bitsOfModel (it : Qvnt.BitsIter) : BitsIterG := ⟨it.bits, it.pos⟩

theorem bits_from_eq (m : Nat) : bits_from m = bitsOfModel (Qvnt.BitsIter.ofMask m) := rfl

theorem shl_pos (p : Nat) (_h : p < 2 ^ 64) : shlW 64 p 1 = shl1 p := by
  unfold shlW shl1 W; simp

theorem bits_next_eq (fuel : Nat) (it : Qvnt.BitsIter) (h : it.pos < 2 ^ 64) :
    bits_next fuel (bitsOfModel it) = (it.next fuel).map (fun r => (r.1, bitsOfModel r.2)) := by
  unfold bits_next
  induction fuel generalizing it with
  | zero => simp [bits_next_loop1, Qvnt.BitsIter.next]
  | succ n ih =>
    unfold bits_next_loop1 Qvnt.BitsIter.next
    simp only [bitsOfModel]
    by_cases h1 : it.pos &&& it.bits = 0
    · by_cases h2 : (decide (it.pos > it.bits) || it.pos == 0) = true
      · simp [h1, h2]
      · have h2' : ¬ (it.bits < it.pos ∨ it.pos = 0) := by simpa using h2
        have := ih ⟨it.bits, shl1 it.pos⟩ (by unfold shl1 W; exact Nat.mod_lt _ (by decide))
        simp [bitsOfModel] at this
        simp [h1, h2', shl_pos _ h, this]
    · simp [h1, shl_pos _ h]

theorem bitsCollect_eq (fuel : Nat) (it : Qvnt.BitsIter) (h : it.pos < 2 ^ 64) :
    bitsCollect fuel (bitsOfModel it) = it.collect fuel := by
  induction fuel generalizing it with
  | zero => simp [bitsCollect, Qvnt.BitsIter.collect]
  | succ n ih =>
    unfold bitsCollect Qvnt.BitsIter.collect
    rw [bits_next_eq _ _ h]
    cases hn : it.next (n + 1) with
    | none => simp
    | some r =>
      obtain ⟨o, it'⟩ := r
      cases o with
      | none => simp
      | some p =>
        have hp : it'.pos < 2 ^ 64 := by
          unfold Qvnt.BitsIter.next at hn
          -- every successor state has `pos = shl1 _`
          have key : ∀ (f : Nat) (i : Qvnt.BitsIter) q i', i.next f = some (some q, i') → i'.pos < 2 ^ 64 := by
            intro f
            induction f with
            | zero => intro i q i' hh; simp [Qvnt.BitsIter.next] at hh
            | succ f ihf =>
              intro i q i' hh
              unfold Qvnt.BitsIter.next at hh
              split at hh
              · simp at hh; rw [← hh.2]; unfold shl1 W; exact Nat.mod_lt _ (by decide)
              · split at hh
                · simp at hh
                · exact ihf _ _ _ hh
          exact key (n + 1) it p it' (by unfold Qvnt.BitsIter.next; exact hn)
        simp [ih it' hp]
        cases it'.collect n <;> simp

theorem bitsList_eq (m : Nat) : bitsList m = bitsIterList m := by
  unfold bitsList bitsIterList
  rw [bits_from_eq, bitsCollect_eq _ _ (by simp [Qvnt.BitsIter.ofMask])]

end Qvnt.Gen2
