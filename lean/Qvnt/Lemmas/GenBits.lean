/-
`math/bits_iter.rs`: from, next, collect.
(split out of GenRegs2.lean so that an equality that no longer holds blocks only the properties that rely on it)
-/
import Qvnt.Lemmas.GenBits.bitsOfModel
import Qvnt.Lemmas.GenBits.bits_from_eq
import Qvnt.Lemmas.GenBits.shl_pos
import Qvnt.Lemmas.GenBits.bits_next_eq
import Qvnt.Lemmas.GenBits.bitsCollect_eq
import Qvnt.Lemmas.GenBits.bitsList_eq
