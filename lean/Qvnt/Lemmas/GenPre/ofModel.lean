/- `ofModel` of GenPre.lean (one module per declaration, tools/lean_split.py) -/
import Qvnt.Generated.Regs
import Qvnt.Generated.Kernels
import Qvnt.Lemmas.Bits
import Mathlib.Tactic.Ring
import Mathlib.Algebra.Ring.Basic
import Qvnt.Lemmas.Queue

set_option linter.unusedSectionVars false
namespace Qvnt.Gen2
open Qvnt Qvnt.Gen
variable {R : Type}

/-- the model's register as the translated record (buffer as a list) -/
def ofModel (r : QReg R) : QRegG R := ⟨r.psi.toList, r.qNum, r.qMask⟩

end Qvnt.Gen2
