/- `mask_eq` of GenPre.lean (one module per declaration, tools/lean_split.py) -/
import Qvnt.Generated.Regs
import Qvnt.Generated.Kernels
import Qvnt.Lemmas.Bits
import Mathlib.Tactic.Ring
import Mathlib.Algebra.Ring.Basic
import Qvnt.Lemmas.Queue

set_option linter.unusedSectionVars false
namespace Qvnt.Gen2
open Qvnt Qvnt.Gen
variable {R : Type}

theorem mask_eq (n : Nat) (h : n < 64) : wrapSub 64 (2 ^ n) 1 = 2 ^ n - 1 := by
  unfold wrapSub
  have h2 : 2 ^ n < 2 ^ 64 := Nat.pow_lt_pow_right (by decide) h
  have h3 : 0 < 2 ^ n := Nat.two_pow_pos n
  rw [Nat.mod_eq_of_lt h2]
  have : (1 : Nat) % 2 ^ 64 = 1 := by decide
  rw [this]
  have e : 2 ^ n + 2 ^ 64 - 1 = (2 ^ n - 1) + 2 ^ 64 := by omega
  rw [e, Nat.add_mod_right, Nat.mod_eq_of_lt (by omega)]

end Qvnt.Gen2
