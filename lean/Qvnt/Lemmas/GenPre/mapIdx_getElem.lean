/- `mapIdx_getElem` of GenPre.lean (one module per declaration, tools/lean_split.py) -/
import Qvnt.Generated.Regs
import Qvnt.Generated.Kernels
import Qvnt.Lemmas.Bits
import Mathlib.Tactic.Ring
import Mathlib.Algebra.Ring.Basic
import Qvnt.Lemmas.Queue

set_option linter.unusedSectionVars false
namespace Qvnt.Gen2
open Qvnt Qvnt.Gen
variable {R : Type}

theorem mapIdx_getElem {α : Type} (l : List α) (f : Nat → α → α) (i : Nat) (h : i < (Rs.mapIdx l f).length) :
    (Rs.mapIdx l f)[i] = f i (l[i]'(by simpa [Rs.mapIdx, Rs.enumerate] using h)) := by
  simp [Rs.mapIdx, Rs.enumerate]

end Qvnt.Gen2
