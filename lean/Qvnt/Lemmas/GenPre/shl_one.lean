/- `shl_one` of GenPre.lean (one module per declaration, tools/lean_split.py) -/
import Qvnt.Generated.Regs
import Qvnt.Generated.Kernels
import Qvnt.Lemmas.Bits
import Mathlib.Tactic.Ring
import Mathlib.Algebra.Ring.Basic
import Qvnt.Lemmas.Queue

set_option linter.unusedSectionVars false
namespace Qvnt.Gen2
open Qvnt Qvnt.Gen
variable {R : Type}

theorem shl_one (n : Nat) (h : n < 64) : shlW 64 1 n = 2 ^ n := by
  unfold shlW
  rw [Nat.one_mul, Nat.mod_eq_of_lt h, Nat.mod_eq_of_lt (Nat.pow_lt_pow_right (by decide) h)]

end Qvnt.Gen2
