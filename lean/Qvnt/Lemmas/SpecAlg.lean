/-
LEMMAS — algebra of the reference semantics (`Qvnt/Spec/Gates.lean`): the documented
matrices are unitary, a unitary gate followed by its dagger is the identity, every spec gate
is linear, and gates on disjoint qubits commute.
-/
import Qvnt.Spec.Unitary
import Mathlib.Tactic.Ring
import Mathlib.Tactic.LinearCombination
import Mathlib.Tactic.IntervalCases
import Mathlib.Algebra.Ring.Basic

namespace Qvnt.Spec
open Qvnt

variable {R : Type} [CommRing R]

/-! ### `Cx R` is a commutative ring -/

instance instCommRingCx : CommRing (Cx R) where
  add := (· + ·)
  mul := (· * ·)
  zero := 0
  one := 1
  neg := Neg.neg
  sub := Sub.sub
  nsmul := nsmulRec
  zsmul := zsmulRec
  add_assoc := by intros; ext <;> simp <;> ring
  zero_add := by intros; ext <;> simp
  add_zero := by intros; ext <;> simp
  add_comm := by intros; ext <;> simp <;> ring
  left_distrib := by intros; ext <;> simp <;> ring
  right_distrib := by intros; ext <;> simp <;> ring
  zero_mul := by intros; ext <;> simp
  mul_zero := by intros; ext <;> simp
  mul_assoc := by intros; ext <;> simp <;> ring
  one_mul := by intros; ext <;> simp
  mul_one := by intros; ext <;> simp
  neg_add_cancel := by intros; ext <;> simp
  mul_comm := by intros; ext <;> simp <;> ring
  sub_eq_add_neg := by intros; ext <;> simp <;> ring

@[simp] theorem Cx.conj_conj (z : Cx R) : z.conj.conj = z := by ext <;> simp

@[simp] theorem Cx.conj_zero : (0 : Cx R).conj = 0 := by ext <;> simp
@[simp] theorem Cx.conj_one : (1 : Cx R).conj = 1 := by ext <;> simp
theorem Cx.conj_add (a b : Cx R) : (a + b).conj = a.conj + b.conj := by ext <;> simp; ring
theorem Cx.conj_mul (a b : Cx R) : (a * b).conj = a.conj * b.conj := by ext <;> simp; ring

/-! ### bit facts -/

theorem xor_cancel (x a : Nat) : (x ^^^ a) ^^^ a = x := by
  rw [Nat.xor_assoc, Nat.xor_self, Nat.xor_zero]

theorem xor_right_comm (x a b : Nat) : x ^^^ a ^^^ b = x ^^^ b ^^^ a := by
  rw [Nat.xor_assoc, Nat.xor_comm a b, ← Nat.xor_assoc]

/-- xoring with something disjoint from `c` does not change the bits under `c` -/
theorem xor_and_of_disj {s c : Nat} (h : s &&& c = 0) (x : Nat) : (x ^^^ s) &&& c = x &&& c := by
  rw [Nat.and_xor_distrib_right, h, Nat.xor_zero]

theorem and_two_pow_cases (x k : Nat) : x &&& 2 ^ k = 0 ∨ x &&& 2 ^ k = 2 ^ k := by
  by_cases h : x.testBit k
  · right
    apply Nat.eq_of_testBit_eq
    intro i
    simp only [Nat.testBit_and, Nat.testBit_two_pow]
    by_cases hk : k = i
    · subst hk; simp [h]
    · simp [hk]
  · left
    apply Nat.eq_of_testBit_eq
    intro i
    simp only [Nat.testBit_and, Nat.testBit_two_pow]
    by_cases hk : k = i
    · subst hk; simp [h]
    · simp [hk]

theorem two_pow_and_two_pow {i j : Nat} (h : i ≠ j) : 2 ^ i &&& 2 ^ j = 0 := by
  apply Nat.eq_of_testBit_eq
  intro k
  simp [Nat.testBit_and, Nat.testBit_two_pow]
  omega

theorem xor_two_pow_and_eq_zero (x k : Nat) : (x ^^^ 2 ^ k) &&& 2 ^ k = 0 ↔ x &&& 2 ^ k ≠ 0 := by
  rw [Nat.and_xor_distrib_right, Nat.and_self]
  have hp : (2 : Nat) ^ k ≠ 0 := by positivity
  rcases and_two_pow_cases x k with h | h <;> rw [h] <;> simp

theorem xor_two_pow_and_ne_zero (x k : Nat) : (x ^^^ 2 ^ k) &&& 2 ^ k ≠ 0 ↔ x &&& 2 ^ k = 0 := by
  rw [Ne, xor_two_pow_and_eq_zero]; simp

theorem xor_two_pow_xor_two_pow (x k : Nat) : (x ^^^ 2 ^ k) ^^^ 2 ^ k = x := xor_cancel _ _

theorem xor_two_pow_and_two_pow (x : Nat) {i j : Nat} (h : i ≠ j) :
    (x ^^^ 2 ^ i) &&& 2 ^ j = x &&& 2 ^ j :=
  xor_and_of_disj (two_pow_and_two_pow h) x

theorem xor_two_pow_and_of_disj {c k : Nat} (h : c &&& 2 ^ k = 0) (x : Nat) :
    (x ^^^ 2 ^ k) &&& c = x &&& c :=
  xor_and_of_disj (by rw [Nat.and_comm]; exact h) x

/-! ### A. the documented matrices are unitary -/

section unitary2

theorem Mat2.adj_adj (M : Mat2 R) : M.adj.adj = M := by
  cases M; simp [Mat2.adj]

theorem Mat2.adj_unitary (M : Mat2 R) (h : M.IsUnitary) : M.adj.IsUnitary := by
  constructor <;> simp only [Mat2.adj, Cx.conj_conj]
  · exact h.r00
  · exact h.r01
  · exact h.r10
  · exact h.r11
  · exact h.l00
  · exact h.l01
  · exact h.l10
  · exact h.l11

end unitary2

theorem matX_unitary : (matX : Mat2 R).IsUnitary := by
  constructor <;> ext <;> simp [matX]

theorem matY_unitary : (matY : Mat2 R).IsUnitary := by
  constructor <;> ext <;> simp [matY, cI, cNegI]

theorem matZ_unitary : (matZ : Mat2 R).IsUnitary := by
  constructor <;> ext <;> simp [matZ]

theorem matS_unitary : (matS : Mat2 R).IsUnitary := by
  constructor <;> ext <;> simp [matS, cI]

theorem matT_unitary [Consts R] (h : 2 * (Consts.invSqrt2 : R) * Consts.invSqrt2 = 1) :
    (matT : Mat2 R).IsUnitary := by
  constructor <;> ext <;> simp [matT] <;> first | ring1 | linear_combination h

theorem matH_unitary [Consts R] (h : 2 * (Consts.invSqrt2 : R) * Consts.invSqrt2 = 1) :
    (matH : Mat2 R).IsUnitary := by
  constructor <;> ext <;> simp [matH, cR] <;> first | ring1 | linear_combination h

theorem matRX_unitary (c s : R) (h : c * c + s * s = 1) : (matRX c s).IsUnitary := by
  constructor <;> ext <;> simp [matRX, cR] <;> first | ring1 | linear_combination h

theorem matRY_unitary (c s : R) (h : c * c + s * s = 1) : (matRY c s).IsUnitary := by
  constructor <;> ext <;> simp [matRY, cR] <;> first | ring1 | linear_combination h

theorem matRZ_unitary (c s : R) (h : c * c + s * s = 1) : (matRZ c s).IsUnitary := by
  constructor <;> ext <;> simp [matRZ] <;> first | ring1 | linear_combination h

/-! #### 4×4 -/

theorem Mat4.adj_adj (M : Mat4 R) : Mat4.adj (Mat4.adj M) = M := by
  funext i j; simp [Mat4.adj]

theorem Mat4.adj_unitary (M : Mat4 R) (h : Mat4.IsUnitary M) : Mat4.IsUnitary (Mat4.adj M) where
  left := fun i j hi hj => by simpa [Mat4.adj] using h.right i j hi hj
  right := fun i j hi hj => by simpa [Mat4.adj] using h.left i j hi hj

section mat4
variable (r0 r1 r2 r3 : List (Cx R)) (rs : List (List (Cx R))) (a b c d z : Cx R) (l : List (Cx R))

@[simp] theorem mat4_row0 (j : Nat) : mat4 (r0 :: rs) 0 j = r0.getD j 0 := rfl
@[simp] theorem mat4_row1 (j : Nat) : mat4 (r0 :: r1 :: rs) 1 j = r1.getD j 0 := rfl
@[simp] theorem mat4_row2 (j : Nat) : mat4 (r0 :: r1 :: r2 :: rs) 2 j = r2.getD j 0 := rfl
@[simp] theorem mat4_row3 (j : Nat) : mat4 (r0 :: r1 :: r2 :: r3 :: rs) 3 j = r3.getD j 0 := rfl
omit [CommRing R] in
@[simp] theorem getD_c0 : (a :: l).getD 0 z = a := rfl
omit [CommRing R] in
@[simp] theorem getD_c1 : (a :: b :: l).getD 1 z = b := rfl
omit [CommRing R] in
@[simp] theorem getD_c2 : (a :: b :: c :: l).getD 2 z = c := rfl
omit [CommRing R] in
@[simp] theorem getD_c3 : (a :: b :: c :: d :: l).getD 3 z = d := rfl

end mat4

theorem matSwap_unitary : Mat4.IsUnitary (matSwap : Mat4 R) := by
  constructor <;> intro i j hi hj <;> interval_cases i <;> interval_cases j <;>
    simp [matSwap]

theorem matISwap_unitary : Mat4.IsUnitary (matISwap : Mat4 R) := by
  constructor <;> intro i j hi hj <;> interval_cases i <;> interval_cases j <;>
    simp [matISwap] <;> ext <;> simp [cI]

theorem matSqrtSwap_unitary [Consts R] (h : 2 * (Consts.half : R) = 1) :
    Mat4.IsUnitary (matSqrtSwap : Mat4 R) := by
  constructor <;> intro i j hi hj <;> interval_cases i <;> interval_cases j <;>
    simp [matSqrtSwap] <;> ext <;> simp <;>
    first | ring1 | linear_combination (Consts.half : R) * h
          | linear_combination (2 * (Consts.half : R) + 1) * h

theorem matSqrtISwap_unitary [Consts R] (h : 2 * (Consts.invSqrt2 : R) * Consts.invSqrt2 = 1) :
    Mat4.IsUnitary (matSqrtISwap : Mat4 R) := by
  constructor <;> intro i j hi hj <;> interval_cases i <;> interval_cases j <;>
    simp [matSqrtISwap, cR] <;> ext <;> simp <;>
    first | ring1 | linear_combination h

theorem matRXX_unitary (c s : R) (h : c * c + s * s = 1) : Mat4.IsUnitary (matRXX c s) := by
  constructor <;> intro i j hi hj <;> interval_cases i <;> interval_cases j <;>
    simp [matRXX, cR] <;> ext <;> simp <;>
    first | ring1 | linear_combination h

theorem matRYY_unitary (c s : R) (h : c * c + s * s = 1) : Mat4.IsUnitary (matRYY c s) := by
  constructor <;> intro i j hi hj <;> interval_cases i <;> interval_cases j <;>
    simp [matRYY, cR] <;> ext <;> simp <;>
    first | ring1 | linear_combination h

theorem matRZZ_unitary (c s : R) (h : c * c + s * s = 1) : Mat4.IsUnitary (matRZZ c s) := by
  constructor <;> intro i j hi hj <;> interval_cases i <;> interval_cases j <;>
    simp [matRZZ] <;> ext <;> simp <;>
    first | ring1 | linear_combination h

/-! ### B. a unitary gate followed by its dagger is the identity -/

theorem act1_adj_cancel (M : Mat2 R) (h : M.IsUnitary) (k : Nat) (ψ : State R) :
    act1 M.adj (2 ^ k) (act1 M (2 ^ k) ψ) = ψ := by
  funext idx
  by_cases h0 : idx &&& 2 ^ k = 0
  · have h1 : (idx ^^^ 2 ^ k) &&& 2 ^ k ≠ 0 := (xor_two_pow_and_ne_zero idx k).2 h0
    simp only [act1, h0, h1, if_true, if_false, xor_cancel, Mat2.adj]
    linear_combination (ψ idx) * h.l00 + (ψ (idx ^^^ 2 ^ k)) * h.l01
  · have h1 : (idx ^^^ 2 ^ k) &&& 2 ^ k = 0 := (xor_two_pow_and_eq_zero idx k).2 h0
    simp only [act1, h0, h1, if_true, if_false, xor_cancel, Mat2.adj]
    linear_combination (ψ idx) * h.l11 + (ψ (idx ^^^ 2 ^ k)) * h.l10

theorem act1_cancel_adj (M : Mat2 R) (h : M.IsUnitary) (k : Nat) (ψ : State R) :
    act1 M (2 ^ k) (act1 M.adj (2 ^ k) ψ) = ψ := by
  have := act1_adj_cancel M.adj (Mat2.adj_unitary M h) k ψ
  rwa [Mat2.adj_adj] at this

theorem xor_aba (x a b : Nat) : x ^^^ a ^^^ b ^^^ a = x ^^^ b := by
  rw [xor_right_comm x a b, xor_cancel]

theorem bitAt_of_zero {x a : Nat} (h : x &&& a = 0) : bitAt x a = 0 := by simp [bitAt, h]
theorem bitAt_of_ne {x a : Nat} (h : x &&& a ≠ 0) : bitAt x a = 1 := by simp [bitAt, h]
theorem bitAt_xor_disj {s c : Nat} (h : s &&& c = 0) (x : Nat) : bitAt (x ^^^ s) c = bitAt x c := by
  simp [bitAt, xor_and_of_disj h]
theorem bitAt_xor_two_pow {x k : Nat} (h : x &&& 2 ^ k = 0) : bitAt (x ^^^ 2 ^ k) (2 ^ k) = 1 :=
  bitAt_of_ne ((xor_two_pow_and_ne_zero x k).2 h)

section act2
variable (M : Mat4 R) {i j : Nat} (hij : i ≠ j) {base : Nat}
  (h1 : base &&& 2 ^ i = 0) (h2 : base &&& 2 ^ j = 0) (ψ : State R)
include h1 h2

theorem act2_at0 : act2 M (2 ^ i) (2 ^ j) ψ base =
    M 0 0 * ψ base + M 0 1 * ψ (base ^^^ 2 ^ i) + M 0 2 * ψ (base ^^^ 2 ^ j)
      + M 0 3 * ψ (base ^^^ 2 ^ i ^^^ 2 ^ j) := by
  simp [act2, bitAt_of_zero h1, bitAt_of_zero h2]

include hij

theorem act2_at1 : act2 M (2 ^ i) (2 ^ j) ψ (base ^^^ 2 ^ i) =
    M 1 0 * ψ base + M 1 1 * ψ (base ^^^ 2 ^ i) + M 1 2 * ψ (base ^^^ 2 ^ j)
      + M 1 3 * ψ (base ^^^ 2 ^ i ^^^ 2 ^ j) := by
  have e1 : bitAt (base ^^^ 2 ^ i) (2 ^ i) = 1 := bitAt_xor_two_pow h1
  have e2 : bitAt (base ^^^ 2 ^ i) (2 ^ j) = 0 := by
    rw [bitAt_xor_disj (two_pow_and_two_pow hij)]; exact bitAt_of_zero h2
  simp [act2, e1, e2, xor_cancel]

theorem act2_at2 : act2 M (2 ^ i) (2 ^ j) ψ (base ^^^ 2 ^ j) =
    M 2 0 * ψ base + M 2 1 * ψ (base ^^^ 2 ^ i) + M 2 2 * ψ (base ^^^ 2 ^ j)
      + M 2 3 * ψ (base ^^^ 2 ^ i ^^^ 2 ^ j) := by
  have e1 : bitAt (base ^^^ 2 ^ j) (2 ^ j) = 1 := bitAt_xor_two_pow h2
  have e2 : bitAt (base ^^^ 2 ^ j) (2 ^ i) = 0 := by
    rw [bitAt_xor_disj (two_pow_and_two_pow hij.symm)]; exact bitAt_of_zero h1
  simp [act2, e1, e2, xor_cancel, xor_right_comm base (2 ^ j) (2 ^ i)]

theorem act2_at3 : act2 M (2 ^ i) (2 ^ j) ψ (base ^^^ 2 ^ i ^^^ 2 ^ j) =
    M 3 0 * ψ base + M 3 1 * ψ (base ^^^ 2 ^ i) + M 3 2 * ψ (base ^^^ 2 ^ j)
      + M 3 3 * ψ (base ^^^ 2 ^ i ^^^ 2 ^ j) := by
  have e1 : bitAt (base ^^^ 2 ^ i ^^^ 2 ^ j) (2 ^ j) = 1 :=
    bitAt_xor_two_pow (by rw [xor_two_pow_and_two_pow _ hij]; exact h2)
  have e2 : bitAt (base ^^^ 2 ^ i ^^^ 2 ^ j) (2 ^ i) = 1 := by
    rw [bitAt_xor_disj (two_pow_and_two_pow hij.symm)]; exact bitAt_xor_two_pow h1
  simp [act2, e1, e2, xor_cancel, xor_aba]

end act2

theorem bits2_decomp (idx : Nat) {i j : Nat} (hij : i ≠ j) :
    ∃ base, base &&& 2 ^ i = 0 ∧ base &&& 2 ^ j = 0 ∧
      (idx = base ∨ idx = base ^^^ 2 ^ i ∨ idx = base ^^^ 2 ^ j ∨ idx = base ^^^ 2 ^ i ^^^ 2 ^ j) := by
  by_cases ha : idx &&& 2 ^ i = 0 <;> by_cases hb : idx &&& 2 ^ j = 0
  · exact ⟨idx, ha, hb, Or.inl rfl⟩
  · refine ⟨idx ^^^ 2 ^ j, ?_, (xor_two_pow_and_eq_zero _ _).2 hb, Or.inr (Or.inr (Or.inl ?_))⟩
    · rw [xor_two_pow_and_two_pow _ hij.symm]; exact ha
    · rw [xor_cancel]
  · refine ⟨idx ^^^ 2 ^ i, (xor_two_pow_and_eq_zero _ _).2 ha, ?_, Or.inr (Or.inl ?_)⟩
    · rw [xor_two_pow_and_two_pow _ hij]; exact hb
    · rw [xor_cancel]
  · refine ⟨idx ^^^ 2 ^ i ^^^ 2 ^ j, ?_, ?_, Or.inr (Or.inr (Or.inr ?_))⟩
    · rw [xor_two_pow_and_two_pow _ hij.symm]; exact (xor_two_pow_and_eq_zero _ _).2 ha
    · apply (xor_two_pow_and_eq_zero _ _).2
      rw [xor_two_pow_and_two_pow _ hij]; exact hb
    · rw [xor_aba, xor_cancel]

theorem bits2_induction {P : Nat → Prop} {i j : Nat} (hij : i ≠ j)
    (H : ∀ base, base &&& 2 ^ i = 0 → base &&& 2 ^ j = 0 →
      P base ∧ P (base ^^^ 2 ^ i) ∧ P (base ^^^ 2 ^ j) ∧ P (base ^^^ 2 ^ i ^^^ 2 ^ j)) :
    ∀ idx, P idx := by
  intro idx
  obtain ⟨base, h1, h2, hh⟩ := bits2_decomp idx hij
  obtain ⟨p0, p1, p2, p3⟩ := H base h1 h2
  rcases hh with hh | hh | hh | hh <;> rw [hh] <;> assumption

theorem act2_adj_cancel (M : Mat4 R) (h : Mat4.IsUnitary M) (i j : Nat) (hij : i ≠ j)
    (ψ : State R) : act2 (Mat4.adj M) (2 ^ i) (2 ^ j) (act2 M (2 ^ i) (2 ^ j) ψ) = ψ := by
  funext idx
  refine bits2_induction
    (P := fun idx => act2 (Mat4.adj M) (2 ^ i) (2 ^ j) (act2 M (2 ^ i) (2 ^ j) ψ) idx = ψ idx)
    hij ?_ idx
  intro base h1 h2
  refine ⟨?_, ?_, ?_, ?_⟩
  · rw [act2_at0 _ h1 h2, act2_at0 M h1 h2, act2_at1 M hij h1 h2, act2_at2 M hij h1 h2,
      act2_at3 M hij h1 h2]
    simp only [Mat4.adj]
    have l0 := h.left 0 0 (by omega) (by omega)
    have l1 := h.left 0 1 (by omega) (by omega)
    have l2 := h.left 0 2 (by omega) (by omega)
    have l3 := h.left 0 3 (by omega) (by omega)
    simp only [if_true, Nat.reduceEqDiff, if_false] at l0 l1 l2 l3
    linear_combination (ψ base) * l0 + (ψ (base ^^^ 2 ^ i)) * l1 + (ψ (base ^^^ 2 ^ j)) * l2
      + (ψ (base ^^^ 2 ^ i ^^^ 2 ^ j)) * l3
  · rw [act2_at1 _ hij h1 h2, act2_at0 M h1 h2, act2_at1 M hij h1 h2, act2_at2 M hij h1 h2,
      act2_at3 M hij h1 h2]
    simp only [Mat4.adj]
    have l0 := h.left 1 0 (by omega) (by omega)
    have l1 := h.left 1 1 (by omega) (by omega)
    have l2 := h.left 1 2 (by omega) (by omega)
    have l3 := h.left 1 3 (by omega) (by omega)
    simp only [if_true, Nat.reduceEqDiff, if_false] at l0 l1 l2 l3
    linear_combination (ψ base) * l0 + (ψ (base ^^^ 2 ^ i)) * l1 + (ψ (base ^^^ 2 ^ j)) * l2
      + (ψ (base ^^^ 2 ^ i ^^^ 2 ^ j)) * l3
  · rw [act2_at2 _ hij h1 h2, act2_at0 M h1 h2, act2_at1 M hij h1 h2, act2_at2 M hij h1 h2,
      act2_at3 M hij h1 h2]
    simp only [Mat4.adj]
    have l0 := h.left 2 0 (by omega) (by omega)
    have l1 := h.left 2 1 (by omega) (by omega)
    have l2 := h.left 2 2 (by omega) (by omega)
    have l3 := h.left 2 3 (by omega) (by omega)
    simp only [if_true, Nat.reduceEqDiff, if_false] at l0 l1 l2 l3
    linear_combination (ψ base) * l0 + (ψ (base ^^^ 2 ^ i)) * l1 + (ψ (base ^^^ 2 ^ j)) * l2
      + (ψ (base ^^^ 2 ^ i ^^^ 2 ^ j)) * l3
  · rw [act2_at3 _ hij h1 h2, act2_at0 M h1 h2, act2_at1 M hij h1 h2, act2_at2 M hij h1 h2,
      act2_at3 M hij h1 h2]
    simp only [Mat4.adj]
    have l0 := h.left 3 0 (by omega) (by omega)
    have l1 := h.left 3 1 (by omega) (by omega)
    have l2 := h.left 3 2 (by omega) (by omega)
    have l3 := h.left 3 3 (by omega) (by omega)
    simp only [if_true, Nat.reduceEqDiff, if_false] at l0 l1 l2 l3
    linear_combination (ψ base) * l0 + (ψ (base ^^^ 2 ^ i)) * l1 + (ψ (base ^^^ 2 ^ j)) * l2
      + (ψ (base ^^^ 2 ^ i ^^^ 2 ^ j)) * l3

theorem act2_cancel_adj (M : Mat4 R) (h : Mat4.IsUnitary M) (i j : Nat) (hij : i ≠ j)
    (ψ : State R) : act2 M (2 ^ i) (2 ^ j) (act2 (Mat4.adj M) (2 ^ i) (2 ^ j) ψ) = ψ := by
  have := act2_adj_cancel (Mat4.adj M) (Mat4.adj_unitary M h) i j hij ψ
  rwa [Mat4.adj_adj] at this

/-! #### controls -/

/-- `A` computes the amplitude at `idx` from amplitudes whose bits under `c` agree with `idx` -/
def ReadsWithin (c : Nat) (A : State R → State R) : Prop :=
  ∀ ψ φ idx, (∀ j, j &&& c = idx &&& c → ψ j = φ j) → A ψ idx = A φ idx

omit [CommRing R] in
theorem ctrl_adj_cancel (c : Nat) (A A' : State R → State R)
    (hloc : ∀ ψ φ idx, (∀ j, j &&& c = idx &&& c → ψ j = φ j) → A ψ idx = A φ idx)
    (hloc' : ∀ ψ φ idx, (∀ j, j &&& c = idx &&& c → ψ j = φ j) → A' ψ idx = A' φ idx)
    (hinv : ∀ ψ, A' (A ψ) = ψ) (ψ : State R) : ctrl c A' (ctrl c A ψ) = ψ := by
  have _ := hloc
  funext idx
  by_cases hc : idx &&& c = c
  · have e : A' (ctrl c A ψ) idx = A' (A ψ) idx := by
      apply hloc'
      intro j hj
      simp [ctrl, hj, hc]
    simp only [ctrl, hc, if_true] at e ⊢
    rw [e, hinv]
  · simp [ctrl, hc]

theorem act1_readsWithin (M : Mat2 R) {a c : Nat} (hc : a &&& c = 0) :
    ReadsWithin c (act1 M a) := by
  intro ψ φ idx H
  simp only [act1]
  rw [H idx rfl, H (idx ^^^ a) (xor_and_of_disj hc idx)]

theorem act2_readsWithin (M : Mat4 R) {a b c : Nat} (ha : a &&& c = 0) (hb : b &&& c = 0) :
    ReadsWithin c (act2 M a b) := by
  intro ψ φ idx H
  have key : ∀ (p q : Prop) [Decidable p] [Decidable q],
      ψ (idx ^^^ (if p then 0 else a) ^^^ (if q then 0 else b))
        = φ (idx ^^^ (if p then 0 else a) ^^^ (if q then 0 else b)) := by
    intro p q _ _
    apply H
    have e1 : (if p then 0 else a) &&& c = 0 := by split <;> simp [ha]
    have e2 : (if q then 0 else b) &&& c = 0 := by split <;> simp [hb]
    rw [xor_and_of_disj e2, xor_and_of_disj e1]
  simp only [act2, key]

theorem Prim.adj_adj (p : Prim R) : p.adj.adj = p := by
  cases p <;> simp [Prim.adj, Mat2.adj_adj, Mat4.adj_adj]

theorem SGate.adj_adj (g : SGate R) : g.adj.adj = g := by
  cases g; simp [SGate.adj, Prim.adj_adj]

theorem SGate.adj_WF (g : SGate R) (hw : g.WF) : g.adj.WF := by
  obtain ⟨c, p⟩ := g
  cases p <;> exact hw

theorem SGate.adj_isUnitary (g : SGate R) (hu : g.IsUnitary) : g.adj.IsUnitary := by
  obtain ⟨c, p⟩ := g
  cases p with
  | idle => trivial
  | one M a => exact Mat2.adj_unitary M hu
  | two M a b => exact Mat4.adj_unitary M hu

theorem SGate.act_adj_cancel (g : SGate R) (hw : g.WF) (hu : g.IsUnitary) (ψ : State R) :
    g.adj.act (g.act ψ) = ψ := by
  obtain ⟨c, p⟩ := g
  cases p with
  | idle =>
    funext idx
    simp [SGate.act, SGate.adj, Prim.adj, Prim.act, Spec.ctrl]
  | one M a =>
    obtain ⟨⟨k, rfl⟩, hc⟩ := hw
    have hc' : 2 ^ k &&& c = 0 := by rw [Nat.and_comm]; exact hc
    exact ctrl_adj_cancel c _ _ (act1_readsWithin M hc') (act1_readsWithin M.adj hc')
      (act1_adj_cancel M hu k) ψ
  | two M a b =>
    obtain ⟨⟨i, j, hij, rfl, rfl⟩, hc⟩ := hw
    have hc2 : c &&& 2 ^ i = 0 ∧ c &&& 2 ^ j = 0 := by
      have := hc
      simp only [Nat.and_or_distrib_left, Nat.or_eq_zero_iff] at this
      exact this
    have ha : 2 ^ i &&& c = 0 := by rw [Nat.and_comm]; exact hc2.1
    have hb : 2 ^ j &&& c = 0 := by rw [Nat.and_comm]; exact hc2.2
    exact ctrl_adj_cancel c _ _ (act2_readsWithin M ha hb) (act2_readsWithin (Mat4.adj M) ha hb)
      (act2_adj_cancel M hu i j hij) ψ

theorem SGate.adj_act_cancel (g : SGate R) (hw : g.WF) (hu : g.IsUnitary) (ψ : State R) :
    g.act (g.adj.act ψ) = ψ := by
  have := SGate.act_adj_cancel g.adj (SGate.adj_WF g hw) (SGate.adj_isUnitary g hu) ψ
  rwa [SGate.adj_adj] at this

/-! #### circuits -/

@[simp] theorem actAll_nil (ψ : State R) : actAll ([] : List (SGate R)) ψ = ψ := rfl
@[simp] theorem actAll_cons (g : SGate R) (gs : List (SGate R)) (ψ : State R) :
    actAll (g :: gs) ψ = actAll gs (g.act ψ) := rfl

theorem actAll_append (a b : List (SGate R)) (ψ : State R) :
    actAll (a ++ b) ψ = actAll b (actAll a ψ) := by
  simp [actAll, List.foldl_append]

@[simp] theorem adjAll_nil : adjAll ([] : List (SGate R)) = [] := rfl
theorem adjAll_cons (g : SGate R) (gs : List (SGate R)) :
    adjAll (g :: gs) = adjAll gs ++ [g.adj] := by
  simp [adjAll]

theorem adjAll_append (a b : List (SGate R)) : adjAll (a ++ b) = adjAll b ++ adjAll a := by
  simp [adjAll]

theorem adjAll_adjAll (gs : List (SGate R)) : adjAll (adjAll gs) = gs := by
  induction gs with
  | nil => rfl
  | cons g gs ih =>
    rw [adjAll_cons, adjAll_append, ih]
    simp [adjAll, SGate.adj_adj]

theorem actAll_adjAll_cancel (gs : List (SGate R)) (h : ∀ g ∈ gs, g.WF ∧ g.IsUnitary)
    (ψ : State R) : actAll (adjAll gs) (actAll gs ψ) = ψ := by
  induction gs generalizing ψ with
  | nil => rfl
  | cons g gs ih =>
    have hg := h g (List.mem_cons_self)
    rw [adjAll_cons, actAll_append, actAll_cons g gs ψ, ih (fun g' hg' => h g' (List.mem_cons_of_mem _ hg'))]
    simp only [actAll_cons, actAll_nil]
    exact SGate.act_adj_cancel g hg.1 hg.2 ψ

theorem adjAll_actAll_cancel (gs : List (SGate R)) (h : ∀ g ∈ gs, g.WF ∧ g.IsUnitary)
    (ψ : State R) : actAll gs (actAll (adjAll gs) ψ) = ψ := by
  induction gs generalizing ψ with
  | nil => rfl
  | cons g gs ih =>
    have hg := h g (List.mem_cons_self)
    rw [adjAll_cons, actAll_append]
    simp only [actAll_cons, actAll_nil]
    rw [SGate.adj_act_cancel g hg.1 hg.2, ih (fun g' hg' => h g' (List.mem_cons_of_mem _ hg'))]

/-! ### C. linearity and identity -/

theorem act1_add (M : Mat2 R) (a : Nat) (ψ φ : State R) :
    act1 M a (fun i => ψ i + φ i) = fun i => act1 M a ψ i + act1 M a φ i := by
  funext idx
  simp only [act1]
  split <;> ring

theorem act1_smul (M : Mat2 R) (a : Nat) (z : Cx R) (ψ : State R) :
    act1 M a (fun i => z * ψ i) = fun i => z * act1 M a ψ i := by
  funext idx
  simp only [act1]
  split <;> ring

theorem act2_add (M : Mat4 R) (a b : Nat) (ψ φ : State R) :
    act2 M a b (fun i => ψ i + φ i) = fun i => act2 M a b ψ i + act2 M a b φ i := by
  funext idx
  simp only [act2]
  ring

theorem act2_smul (M : Mat4 R) (a b : Nat) (z : Cx R) (ψ : State R) :
    act2 M a b (fun i => z * ψ i) = fun i => z * act2 M a b ψ i := by
  funext idx
  simp only [act2]
  ring

theorem ctrl_add (c : Nat) (A : State R → State R)
    (hA : ∀ ψ φ : State R, A (fun i => ψ i + φ i) = fun i => A ψ i + A φ i) (ψ φ : State R) :
    ctrl c A (fun i => ψ i + φ i) = fun i => ctrl c A ψ i + ctrl c A φ i := by
  funext idx
  simp only [ctrl, hA]
  split <;> rfl

theorem ctrl_smul (c : Nat) (A : State R → State R)
    (hA : ∀ (z : Cx R) (ψ : State R), A (fun i => z * ψ i) = fun i => z * A ψ i)
    (z : Cx R) (ψ : State R) :
    ctrl c A (fun i => z * ψ i) = fun i => z * ctrl c A ψ i := by
  funext idx
  simp only [ctrl, hA]
  split <;> rfl

theorem Prim.act_add (p : Prim R) (ψ φ : State R) :
    p.act (fun i => ψ i + φ i) = fun i => p.act ψ i + p.act φ i := by
  cases p with
  | idle => rfl
  | one M a => exact act1_add M a ψ φ
  | two M a b => exact act2_add M a b ψ φ

theorem Prim.act_smul (p : Prim R) (z : Cx R) (ψ : State R) :
    p.act (fun i => z * ψ i) = fun i => z * p.act ψ i := by
  cases p with
  | idle => rfl
  | one M a => exact act1_smul M a z ψ
  | two M a b => exact act2_smul M a b z ψ

theorem SGate.act_add (g : SGate R) (ψ φ : State R) :
    g.act (fun i => ψ i + φ i) = fun i => g.act ψ i + g.act φ i :=
  ctrl_add g.ctrl g.prim.act (Prim.act_add g.prim) ψ φ

theorem SGate.act_smul (g : SGate R) (z : Cx R) (ψ : State R) :
    g.act (fun i => z * ψ i) = fun i => z * g.act ψ i :=
  ctrl_smul g.ctrl g.prim.act (Prim.act_smul g.prim) z ψ

theorem actAll_add (gs : List (SGate R)) (ψ φ : State R) :
    actAll gs (fun i => ψ i + φ i) = fun i => actAll gs ψ i + actAll gs φ i := by
  induction gs generalizing ψ φ with
  | nil => rfl
  | cons g gs ih => simp only [actAll_cons, SGate.act_add, ih]

theorem actAll_smul (gs : List (SGate R)) (z : Cx R) (ψ : State R) :
    actAll gs (fun i => z * ψ i) = fun i => z * actAll gs ψ i := by
  induction gs generalizing ψ with
  | nil => rfl
  | cons g gs ih => simp only [actAll_cons, SGate.act_smul, ih]

theorem act1_one (a : Nat) (ψ : State R) : act1 ⟨1, 0, 0, 1⟩ a ψ = ψ := by
  funext idx
  simp only [act1]
  split <;> simp

/-! ### D. gates on disjoint qubits commute -/

section listsum
variable {α β : Type}

theorem list_sum_map_zero (L : List α) : (L.map fun _ => (0 : Cx R)).sum = 0 := by
  induction L with
  | nil => rfl
  | cons a L ih => simp only [List.map_cons, List.sum_cons, ih, add_zero]

theorem list_sum_map_add (L : List α) (f g : α → Cx R) :
    (L.map fun b => f b + g b).sum = (L.map f).sum + (L.map g).sum := by
  induction L with
  | nil => simp
  | cons a L ih => simp only [List.map_cons, List.sum_cons, ih]; ring

theorem list_sum_map_mul_left (L : List α) (f : α → Cx R) (r : Cx R) :
    (L.map fun b => r * f b).sum = r * (L.map f).sum := by
  induction L with
  | nil => simp
  | cons a L ih => simp only [List.map_cons, List.sum_cons, ih]; ring

theorem list_sum_comm (LA : List α) (LB : List β) (f : α → β → Cx R) :
    (LA.map fun a => (LB.map fun b => f a b).sum).sum
      = (LB.map fun b => (LA.map fun a => f a b).sum).sum := by
  induction LA with
  | nil => simp only [List.map_nil, List.sum_nil, list_sum_map_zero]
  | cons a LA ih => simp only [List.map_cons, List.sum_cons, ih, list_sum_map_add]

end listsum

/-- one summand of a local operator: the coefficient `co idx` times the amplitude at
`idx ^^^ sh idx` -/
structure Term (R : Type) where
  sh : Nat → Nat
  co : Nat → Cx R

/-- the summand neither moves nor inspects any bit outside `m` -/
def Term.Within (p : Term R) (m : Nat) : Prop :=
  ∀ t, t &&& m = 0 → ∀ idx,
    p.sh idx &&& t = 0 ∧ p.sh (idx ^^^ t) = p.sh idx ∧ p.co (idx ^^^ t) = p.co idx

def evalTerms (L : List (Term R)) (ψ : State R) : State R :=
  fun idx => (L.map fun p => p.co idx * ψ (idx ^^^ p.sh idx)).sum

/-- `A` is a finite sum of summands that live on the bits of `m` -/
def LocalOn (m : Nat) (A : State R → State R) : Prop :=
  ∃ L : List (Term R), (∀ p ∈ L, p.Within m) ∧ ∀ ψ, A ψ = evalTerms L ψ

theorem evalTerms_comm (LA LB : List (Term R)) {mA mB : Nat}
    (hA : ∀ p ∈ LA, p.Within mA) (hB : ∀ q ∈ LB, q.Within mB) (hd : mA &&& mB = 0)
    (ψ : State R) : evalTerms LA (evalTerms LB ψ) = evalTerms LB (evalTerms LA ψ) := by
  have hd' : mB &&& mA = 0 := by rw [Nat.and_comm]; exact hd
  funext idx
  simp only [evalTerms]
  have hL : (LA.map fun p => p.co idx * (LB.map fun q => q.co (idx ^^^ p.sh idx) *
        ψ (idx ^^^ p.sh idx ^^^ q.sh (idx ^^^ p.sh idx))).sum)
      = LA.map fun p => (LB.map fun q => p.co idx * (q.co idx *
        ψ (idx ^^^ p.sh idx ^^^ q.sh idx))).sum := by
    apply List.map_congr_left
    intro p hp
    rw [list_sum_map_mul_left]
    congr 2
    apply List.map_congr_left
    intro q hq
    have hps : p.sh idx &&& mB = 0 := (hA p hp mB hd' idx).1
    obtain ⟨_, e1, e2⟩ := hB q hq (p.sh idx) hps idx
    rw [e1, e2]
  have hR : (LB.map fun q => q.co idx * (LA.map fun p => p.co (idx ^^^ q.sh idx) *
        ψ (idx ^^^ q.sh idx ^^^ p.sh (idx ^^^ q.sh idx))).sum)
      = LB.map fun q => (LA.map fun p => p.co idx * (q.co idx *
        ψ (idx ^^^ p.sh idx ^^^ q.sh idx))).sum := by
    apply List.map_congr_left
    intro q hq
    rw [← list_sum_map_mul_left]
    congr 1
    apply List.map_congr_left
    intro p hp
    have hqs : q.sh idx &&& mA = 0 := (hB q hq mA hd idx).1
    obtain ⟨_, e1, e2⟩ := hA p hp (q.sh idx) hqs idx
    rw [e1, e2, xor_right_comm idx (q.sh idx) (p.sh idx)]
    ring
  rw [hL, hR, list_sum_comm]

theorem LocalOn.comm {A B : State R → State R} {mA mB : Nat} (hA : LocalOn mA A)
    (hB : LocalOn mB B) (hd : mA &&& mB = 0) (ψ : State R) : A (B ψ) = B (A ψ) := by
  obtain ⟨LA, wA, eA⟩ := hA
  obtain ⟨LB, wB, eB⟩ := hB
  rw [eB, eA, eA, eB]
  exact evalTerms_comm LA LB wA wB hd ψ

theorem and_or_eq_zero {t a b : Nat} (h : t &&& (a ||| b) = 0) : t &&& a = 0 ∧ t &&& b = 0 := by
  simpa only [Nat.and_or_distrib_left, Nat.or_eq_zero_iff] using h

theorem and_comm_eq_zero {a b : Nat} (h : a &&& b = 0) : b &&& a = 0 := by
  rw [Nat.and_comm]; exact h

theorem localOn_id : LocalOn 0 (fun ψ : State R => ψ) := by
  refine ⟨[⟨fun _ => 0, fun _ => 1⟩], ?_, ?_⟩
  · intro p hp t _ idx
    simp only [List.mem_singleton] at hp
    subst hp
    simp
  · intro ψ; funext idx; simp [evalTerms]

theorem act1_localOn (M : Mat2 R) (a : Nat) : LocalOn a (act1 M a) := by
  refine ⟨[⟨fun _ => 0, fun idx => if idx &&& a = 0 then M.m00 else M.m11⟩,
    ⟨fun _ => a, fun idx => if idx &&& a = 0 then M.m01 else M.m10⟩], ?_, ?_⟩
  · intro p hp t ht idx
    simp only [List.mem_cons, List.not_mem_nil, or_false] at hp
    rcases hp with rfl | rfl
    · simp [xor_and_of_disj ht]
    · simp [xor_and_of_disj ht, and_comm_eq_zero ht]
  · intro ψ; funext idx
    simp only [evalTerms, act1, List.map_cons, List.map_nil, List.sum_cons, List.sum_nil]
    split <;> simp
    ring

theorem act2_localOn (M : Mat4 R) (a b : Nat) : LocalOn (a ||| b) (act2 M a b) := by
  let T (ca cb : Nat) : Term R :=
    ⟨fun idx => (if ca = bitAt idx a then 0 else a) ^^^ (if cb = bitAt idx b then 0 else b),
     fun idx => M (2 * bitAt idx b + bitAt idx a) (2 * cb + ca)⟩
  have hT : ∀ ca cb, (T ca cb).Within (a ||| b) := by
    intro ca cb t ht idx
    obtain ⟨hta, htb⟩ := and_or_eq_zero ht
    have e1 : ∀ p : Prop, [Decidable p] → (if p then 0 else a) &&& t = 0 := by
      intro p _; split <;> simp [and_comm_eq_zero hta]
    have e2 : ∀ p : Prop, [Decidable p] → (if p then 0 else b) &&& t = 0 := by
      intro p _; split <;> simp [and_comm_eq_zero htb]
    simp only [T, bitAt_xor_disj hta, bitAt_xor_disj htb, Nat.and_xor_distrib_right, e1, e2,
      Nat.xor_self, and_self]
  refine ⟨[T 0 0, T 1 0, T 0 1, T 1 1], ?_, ?_⟩
  · intro p hp
    simp only [List.mem_cons, List.not_mem_nil, or_false] at hp
    rcases hp with rfl | rfl | rfl | rfl <;> exact hT _ _
  · intro ψ; funext idx
    simp only [evalTerms, act2, List.map_cons, List.map_nil, List.sum_cons, List.sum_nil, T,
      Nat.xor_assoc]
    ring

theorem ctrl_localOn (c : Nat) {m : Nat} {A : State R → State R} (hA : LocalOn m A) :
    LocalOn (c ||| m) (ctrl c A) := by
  obtain ⟨L, wL, eL⟩ := hA
  refine ⟨L.map (fun p => ⟨p.sh, fun idx => if idx &&& c = c then p.co idx else 0⟩)
    ++ [⟨fun _ => 0, fun idx => if idx &&& c = c then 0 else 1⟩], ?_, ?_⟩
  · intro p hp t ht idx
    obtain ⟨htc, htm⟩ := and_or_eq_zero ht
    simp only [List.mem_append, List.mem_map, List.mem_singleton] at hp
    rcases hp with ⟨p, hp, rfl⟩ | rfl
    · obtain ⟨e0, e1, e2⟩ := wL p hp t htm idx
      simp [e0, e1, e2, xor_and_of_disj htc]
    · simp [xor_and_of_disj htc]
  · intro ψ; funext idx
    simp only [ctrl, eL, evalTerms, List.map_append, List.map_map, List.sum_append,
      List.map_cons, List.map_nil, List.sum_cons, List.sum_nil, Function.comp_def]
    by_cases hc : idx &&& c = c
    · simp [hc]
    · simp [hc, list_sum_map_zero]

theorem SGate.act_localOn (g : SGate R) : LocalOn g.support g.act := by
  obtain ⟨c, p⟩ := g
  cases p with
  | idle => exact ctrl_localOn c localOn_id
  | one M a => exact ctrl_localOn c (act1_localOn M a)
  | two M a b => exact ctrl_localOn c (act2_localOn M a b)

theorem act1_comm (M N : Mat2 R) (i j : Nat) (h : i ≠ j) (ψ : State R) :
    act1 M (2 ^ i) (act1 N (2 ^ j) ψ) = act1 N (2 ^ j) (act1 M (2 ^ i) ψ) :=
  (act1_localOn M (2 ^ i)).comm (act1_localOn N (2 ^ j)) (two_pow_and_two_pow h) ψ

/-- commutation needs only disjoint supports, not well-formedness -/
theorem SGate.act_comm' (g h : SGate R) (hd : g.support &&& h.support = 0) (ψ : State R) :
    g.act (h.act ψ) = h.act (g.act ψ) :=
  (SGate.act_localOn g).comm (SGate.act_localOn h) hd ψ

theorem SGate.act_comm (g h : SGate R) (hg : g.WF) (hh : h.WF)
    (hd : g.support &&& h.support = 0) (ψ : State R) : g.act (h.act ψ) = h.act (g.act ψ) :=
  have _ := hg; have _ := hh
  SGate.act_comm' g h hd ψ

theorem actAll_act_comm (g : SGate R) (hs : List (SGate R))
    (H : ∀ h ∈ hs, ∀ ψ, g.act (h.act ψ) = h.act (g.act ψ)) (ψ : State R) :
    actAll hs (g.act ψ) = g.act (actAll hs ψ) := by
  induction hs generalizing ψ with
  | nil => rfl
  | cons h hs ih =>
    rw [actAll_cons, actAll_cons, ← H h List.mem_cons_self,
      ih (fun h' hh' => H h' (List.mem_cons_of_mem _ hh'))]

theorem actAll_comm' (gs hs : List (SGate R))
    (hd : ∀ g ∈ gs, ∀ h ∈ hs, g.support &&& h.support = 0) (ψ : State R) :
    actAll hs (actAll gs ψ) = actAll gs (actAll hs ψ) := by
  induction gs generalizing ψ with
  | nil => rfl
  | cons g gs ih =>
    rw [actAll_cons, actAll_cons, ih (fun g' hg' => hd g' (List.mem_cons_of_mem _ hg')),
      actAll_act_comm g hs (fun h hh ψ => SGate.act_comm' g h (hd g List.mem_cons_self h hh) ψ)]

theorem actAll_comm (gs hs : List (SGate R)) (hg : ∀ g ∈ gs, g.WF) (hh : ∀ h ∈ hs, h.WF)
    (hd : ∀ g ∈ gs, ∀ h ∈ hs, g.support &&& h.support = 0) (ψ : State R) :
    actAll hs (actAll gs ψ) = actAll gs (actAll hs ψ) :=
  have _ := hg; have _ := hh
  actAll_comm' gs hs hd ψ

/-! ### axiom audit -/

#print axioms matX_unitary
#print axioms matY_unitary
#print axioms matZ_unitary
#print axioms matS_unitary
#print axioms matT_unitary
#print axioms matH_unitary
#print axioms matRX_unitary
#print axioms matRY_unitary
#print axioms matRZ_unitary
#print axioms Mat2.adj_unitary
#print axioms Mat2.adj_adj
#print axioms matSwap_unitary
#print axioms matISwap_unitary
#print axioms matSqrtSwap_unitary
#print axioms matSqrtISwap_unitary
#print axioms matRXX_unitary
#print axioms matRYY_unitary
#print axioms matRZZ_unitary
#print axioms Mat4.adj_unitary
#print axioms act1_adj_cancel
#print axioms act1_cancel_adj
#print axioms act2_adj_cancel
#print axioms act2_cancel_adj
#print axioms ctrl_adj_cancel
#print axioms SGate.act_adj_cancel
#print axioms SGate.adj_act_cancel
#print axioms actAll_adjAll_cancel
#print axioms adjAll_actAll_cancel
#print axioms adjAll_adjAll
#print axioms adjAll_append
#print axioms actAll_append
#print axioms act1_add
#print axioms act1_smul
#print axioms act2_add
#print axioms act2_smul
#print axioms ctrl_add
#print axioms ctrl_smul
#print axioms SGate.act_add
#print axioms SGate.act_smul
#print axioms actAll_add
#print axioms actAll_smul
#print axioms act1_one
#print axioms act1_comm
#print axioms SGate.act_comm
#print axioms actAll_comm

end Qvnt.Spec
