/-
LEMMAS — locality.

* model side: every kernel computes the amplitude at `idx` from the amplitudes at
  `idx ^^^ s`, `s` a sub-mask of the kernel's *read mask*; hence a queue element whose read
  mask is disjoint from `m` never looks across the `m`-blocks (`ReadsWithin m`);
* controlling a composition of `ReadsWithin c` maps = composing the controlled maps, so a
  controlled product is "the product, where all bits of the control mask are 1";
* spec side: the same for circuits of spec gates (`SGate.addCtrl`);
* a circuit of gates on pairwise disjoint supports acts the same in reverse order.
-/
import Qvnt.Lemmas.Bits
import Qvnt.Lemmas.Kernels
import Qvnt.Lemmas.Structure
import Qvnt.Lemmas.SpecAlg

namespace Qvnt
open Qvnt.Spec

/-! ## (a) model-side locality -/

section readMask
variable {R : Type}

/-- the bits a kernel may flip in the index it reads: `acts_on`, except that `h2` reads at
`a`, `b` and `ab` (for every constructor-built `h2`, `ab = a ||| b`). -/
def Atom.readMask (g : Atom R) : Nat :=
  match g with
  | .h2 a b ab => a ||| b ||| ab
  | g => g.actsOn

theorem Atom.dgr_readMask [Neg R] (g : Atom R) : g.dgr.readMask = g.readMask := by
  cases g <;> rfl

/-- constructor-validity of a queue element: its kernel reads only inside `act` -/
def SingleOp.Valid (g : SingleOp R) : Prop := g.func.readMask &&& g.act = g.func.readMask

/-- every element of the queue is constructor-valid -/
def MultiOp.Valid (o : MultiOp R) : Prop := ∀ g ∈ o, g.Valid

theorem or_or_self_and (a b : Nat) : (a ||| b ||| (a ||| b)) &&& (a ||| b) = a ||| b ||| (a ||| b) := by
  apply Nat.eq_of_testBit_eq
  intro i
  simp only [Nat.testBit_and, Nat.testBit_or]
  cases a.testBit i <;> cases b.testBit i <;> rfl

/-- an element made by `From<Op> for SingleOp` from a kernel whose read mask is its
`acts_on` is valid -/
theorem SingleOp.ofAtom_valid (g : Atom R) (h : g.readMask = g.actsOn) :
    (SingleOp.ofAtom g).Valid := by
  simp only [SingleOp.Valid, SingleOp.ofAtom, h, Nat.and_self]

theorem SingleOp.ofAtom_h2_valid (a b : Nat) :
    (SingleOp.ofAtom (Atom.h2 a b (a ||| b) : Atom R)).Valid := by
  simp only [SingleOp.Valid, SingleOp.ofAtom, Atom.readMask, Atom.actsOn]
  exact or_or_self_and a b

theorem SingleOp.Valid.dgr [Neg R] {g : SingleOp R} (h : g.Valid) : g.dgr.Valid := by
  simp only [SingleOp.Valid, SingleOp.dgr, Atom.dgr_readMask] at h ⊢
  exact h

theorem SingleOp.Valid.addCtrl {g : SingleOp R} (h : g.Valid) (cm : Nat) :
    (g.addCtrl cm).Valid := h

theorem MultiOp.Valid.nil : MultiOp.Valid ([] : MultiOp R) := fun _ h => by simp at h

theorem MultiOp.Valid.singleton {g : SingleOp R} (h : g.Valid) : MultiOp.Valid [g] := by
  intro g' hg'
  rw [List.mem_singleton] at hg'
  subst hg'; exact h

theorem MultiOp.Valid.cons {g : SingleOp R} {o : MultiOp R} (h : g.Valid) (ho : MultiOp.Valid o) :
    MultiOp.Valid (g :: o) := by
  intro g' hg'
  rcases List.mem_cons.1 hg' with rfl | hg'
  · exact h
  · exact ho g' hg'

theorem MultiOp.Valid.append {a b : MultiOp R} (ha : MultiOp.Valid a) (hb : MultiOp.Valid b) :
    MultiOp.Valid (a ++ b) := by
  intro g hg
  rcases List.mem_append.1 hg with h | h
  · exact ha g h
  · exact hb g h

theorem MultiOp.Valid.mul {a b : MultiOp R} (ha : MultiOp.Valid a) (hb : MultiOp.Valid b) :
    MultiOp.Valid (MultiOp.mul a b) := MultiOp.Valid.append ha hb

theorem MultiOp.Valid.dgr [Neg R] {o : MultiOp R} (h : MultiOp.Valid o) :
    MultiOp.Valid (MultiOp.dgr o) := by
  intro g hg
  simp only [MultiOp.dgr, List.mem_reverse, List.mem_map] at hg
  obtain ⟨g0, hg0, rfl⟩ := hg
  exact (h g0 hg0).dgr

theorem MultiOp.Valid.map_addCtrl {o : MultiOp R} (h : MultiOp.Valid o) (cm : Nat) :
    MultiOp.Valid (o.map (fun g => g.addCtrl cm)) := by
  intro g hg
  obtain ⟨g0, hg0, rfl⟩ := List.mem_map.1 hg
  exact (h g0 hg0).addCtrl cm

theorem MultiOp.Valid.ofSingle {g : SingleOp R} (h : g.Valid) :
    MultiOp.Valid (MultiOp.ofSingle g) := by
  unfold MultiOp.ofSingle
  split
  · exact MultiOp.Valid.nil
  · exact MultiOp.Valid.singleton h

/-- a valid element's reads stay clear of every mask its `act_on` is clear of -/
theorem SingleOp.Valid.readMask_disj {g : SingleOp R} (h : g.Valid) {m : Nat}
    (hd : g.actOn &&& m = 0) : g.func.readMask &&& m = 0 := by
  have h1 : g.act &&& m = 0 := ((or_and_eq_zero_iff _ _ _).1 hd).1
  rw [← h, Nat.and_assoc, h1, Nat.and_zero]

end readMask

section opCongr
variable {R : Type} [Add R] [Sub R] [Mul R] [Neg R] [Consts R]

/-- **Locality of the kernels.** The amplitude a kernel writes at `idx` depends only on the
input amplitudes at `idx ^^^ s`, `s` a sub-mask of the read mask. -/
theorem Atom.op_congr (g : Atom R) (ψ φ : State R) (idx : Nat)
    (h : ∀ s, s &&& g.readMask = s → ψ (idx ^^^ s) = φ (idx ^^^ s)) :
    g.op ψ idx = g.op φ idx := by
  have h0 : ψ idx = φ idx := by
    have := h 0 (Nat.zero_and _)
    rwa [Nat.xor_zero] at this
  cases g with
  | id => exact h0
  | x a => exact h a (Nat.and_self a)
  | y a p =>
    have ha := h a (Nat.and_self a)
    simp only [Atom.op, ha]
  | z a => simp only [Atom.op, h0]
  | s a d => simp only [Atom.op, h0]
  | t a d => simp only [Atom.op, h0]
  | rx a ph =>
    have ha := h a (Nat.and_self a)
    simp only [Atom.op, h0, ha]
  | ry a ph =>
    have ha := h a (Nat.and_self a)
    simp only [Atom.op, h0, ha]
  | rz a ph => simp only [Atom.op, h0]
  | rxx a ph =>
    have ha := h a (Nat.and_self a)
    simp only [Atom.op, h0, ha]
  | ryy a ph =>
    have ha := h a (Nat.and_self a)
    simp only [Atom.op, h0, ha]
  | rzz a ph => simp only [Atom.op, h0]
  | h1 a =>
    have ha := h a (Nat.and_self a)
    simp only [Atom.op, h0, ha]
  | h2 a b ab =>
    have sub : ∀ x, (∀ i, x.testBit i = true →
        (a.testBit i || b.testBit i || ab.testBit i) = true) →
        x &&& (Atom.h2 a b ab : Atom R).readMask = x := by
      intro x hx
      apply Nat.eq_of_testBit_eq
      intro i
      simp only [Atom.readMask, Nat.testBit_and, Nat.testBit_or]
      cases hxi : x.testBit i
      · rfl
      · rw [hx i hxi]; rfl
    have ha := h a (sub a (fun i hi => by simp [hi]))
    have hb := h b (sub b (fun i hi => by simp [hi]))
    have hab := h ab (sub ab (fun i hi => by simp [hi]))
    simp only [Atom.op, h0, ha, hb, hab]
  | swap a =>
    have ha := h a (Nat.and_self a)
    simp only [Atom.op, h0, ha]
  | iSwap a d =>
    have ha := h a (Nat.and_self a)
    simp only [Atom.op, h0, ha]
  | sqrtSwap a d =>
    have ha := h a (Nat.and_self a)
    simp only [Atom.op, h0, ha]
  | sqrtISwap a d =>
    have ha := h a (Nat.and_self a)
    simp only [Atom.op, h0, ha]

theorem and_eq_zero_of_sub {s r m : Nat} (hs : s &&& r = s) (hr : r &&& m = 0) : s &&& m = 0 := by
  rw [← hs, Nat.and_assoc, hr, Nat.and_zero]

/-- a kernel whose read mask is disjoint from `m` never reads across the `m`-blocks -/
theorem Atom.op_readsWithin (g : Atom R) (m : Nat) (h : g.readMask &&& m = 0) :
    ReadsWithin m (fun ψ => g.op ψ) := by
  intro ψ φ idx H
  apply Atom.op_congr
  intro s hs
  apply H
  exact xor_and_of_disj (and_eq_zero_of_sub hs h) idx

/-- the same for a queue element (controls only inspect `idx` itself) -/
theorem SingleOp.apply_readsWithin (g : SingleOp R) (m : Nat) (h : g.func.readMask &&& m = 0) :
    ReadsWithin m (fun ψ => g.apply ψ) := by
  intro ψ φ idx H
  have e := Atom.op_readsWithin g.func m h ψ φ idx H
  have h0 : ψ idx = φ idx := H idx rfl
  simp only [SingleOp.apply]
  simp only at e
  rw [e, h0]

end opCongr

end Qvnt

/-! ## (b) controlling a composition -/

namespace Qvnt.Spec
open Qvnt

section ctrlComp
variable {R : Type}

theorem ReadsWithin.id (c : Nat) : ReadsWithin c (fun ψ : State R => ψ) :=
  fun _ _ idx H => H idx rfl

theorem ReadsWithin.comp {c : Nat} {A B : State R → State R} (hA : ReadsWithin c A)
    (hB : ReadsWithin c B) : ReadsWithin c (fun ψ => A (B ψ)) := by
  intro ψ φ idx H
  apply hA
  intro j hj
  apply hB
  intro j' hj'
  exact H j' (hj'.trans hj)

/-- a left fold of block-local maps is block-local -/
theorem ReadsWithin.foldl {α : Type} {c : Nat} (l : List α) (f : α → State R → State R)
    (h : ∀ x ∈ l, ReadsWithin c (f x)) :
    ReadsWithin c (fun ψ => l.foldl (fun ψ x => f x ψ) ψ) := by
  induction l with
  | nil => exact ReadsWithin.id c
  | cons x l ih =>
    simp only [List.foldl_cons]
    exact ReadsWithin.comp (ih (fun y hy => h y (List.mem_cons_of_mem _ hy)))
      (h x List.mem_cons_self)

/-- the control test only looks at `idx`, so controlling keeps block-locality (for any mask) -/
theorem ReadsWithin.ctrl {m : Nat} {A : State R → State R} (hA : ReadsWithin m A) (c : Nat) :
    ReadsWithin m (Spec.ctrl c A) := by
  intro ψ φ idx H
  simp only [Spec.ctrl]
  rw [hA ψ φ idx H, H idx rfl]

/-- **Controlling a composition.** If `A` is block-local for the control mask, "first `B`,
then `A`, where all control bits are 1" = "controlled `B`, then controlled `A`". -/
theorem ctrl_comp (c : Nat) (A B : State R → State R) (hA : ReadsWithin c A) :
    Spec.ctrl c (fun ψ => A (B ψ)) = fun ψ => Spec.ctrl c A (Spec.ctrl c B ψ) := by
  funext ψ idx
  simp only [Spec.ctrl]
  by_cases hc : idx &&& c = c
  · rw [if_pos hc, if_pos hc]
    apply hA
    intro j hj
    show B ψ j = if j &&& c = c then B ψ j else ψ j
    rw [if_pos (hj.trans hc)]
  · rw [if_neg hc, if_neg hc, if_neg hc]

theorem ctrl_id' (c : Nat) (ψ : State R) : Spec.ctrl c (fun φ : State R => φ) ψ = ψ := by
  funext idx
  simp only [Spec.ctrl]
  split <;> rfl

/-- list form: controlling a left fold of block-local maps = folding the controlled maps -/
theorem ctrl_foldl {α : Type} (c : Nat) (l : List α) (f : α → State R → State R)
    (h : ∀ x ∈ l, ReadsWithin c (f x)) (ψ : State R) :
    l.foldl (fun ψ x => Spec.ctrl c (f x) ψ) ψ
      = Spec.ctrl c (fun φ => l.foldl (fun φ x => f x φ) φ) ψ := by
  induction l generalizing ψ with
  | nil => exact (ctrl_id' c ψ).symm
  | cons x l ih =>
    have hl : ∀ y ∈ l, ReadsWithin c (f y) := fun y hy => h y (List.mem_cons_of_mem _ hy)
    simp only [List.foldl_cons]
    rw [ih hl]
    exact (congrFun (ctrl_comp c _ (f x) (ReadsWithin.foldl l f hl)) ψ).symm

end ctrlComp

end Qvnt.Spec

namespace Qvnt
open Qvnt.Spec

/-! ## (c) a controlled product is the product, block-wise -/

section cWhole
variable {R : Type} [Add R] [Sub R] [Mul R] [Neg R] [Consts R]

/-- **Controlled product.** `o.c(m)` applies `o` on the block of basis states where every bit
of `m` is 1 (a sub-block the whole product maps to itself), and nothing elsewhere. -/
theorem MultiOp.c_apply_whole (o o' : MultiOp R) (m : Nat) (h : MultiOp.c o m = some o')
    (hv : MultiOp.Valid o) (ψ : State R) :
    o'.apply ψ = Spec.ctrl m (fun φ => o.apply φ) ψ := by
  rw [MultiOp.c_apply_ctrl_apply o o' m h]
  obtain ⟨h0, _⟩ := (MultiOp.c_eq_some_iff o o' m).1 h
  have hloc : ∀ g ∈ o, ReadsWithin m (fun φ => SingleOp.apply g φ) := by
    intro g hg
    exact SingleOp.apply_readsWithin g m
      ((hv g hg).readMask_disj ((MultiOp.actOn_and_eq_zero_iff o m).1 h0 g hg))
  rw [ctrl_foldl m o (fun g φ => SingleOp.apply g φ) hloc]
  congr 1
  funext φ
  exact (MultiOp.apply_eq_foldl o φ).symm

/-- a valid product never reads across the blocks of a mask it does not act on -/
theorem MultiOp.apply_readsWithin (o : MultiOp R) (m : Nat) (h0 : MultiOp.actOn o &&& m = 0)
    (hv : MultiOp.Valid o) : ReadsWithin m (fun ψ => o.apply ψ) := by
  have hloc : ∀ g ∈ o, ReadsWithin m (fun φ => SingleOp.apply g φ) := by
    intro g hg
    exact SingleOp.apply_readsWithin g m
      ((hv g hg).readMask_disj ((MultiOp.actOn_and_eq_zero_iff o m).1 h0 g hg))
  have := ReadsWithin.foldl o (fun g φ => SingleOp.apply g φ) hloc
  intro ψ φ idx H
  show o.apply ψ idx = o.apply φ idx
  rw [MultiOp.apply_eq_foldl, MultiOp.apply_eq_foldl]
  exact this ψ φ idx H

end cWhole

end Qvnt

/-! ## (d) spec side: adding controls to a circuit -/

namespace Qvnt.Spec
open Qvnt

section addCtrl
variable {R : Type}

/-- add the control mask `m` to a spec gate (what `denote` does for `.c(m)`) -/
def SGate.addCtrl (g : SGate R) (m : Nat) : SGate R := { g with ctrl := g.ctrl ||| m }

@[simp] theorem SGate.addCtrl_ctrl (g : SGate R) (m : Nat) : (g.addCtrl m).ctrl = g.ctrl ||| m := rfl
@[simp] theorem SGate.addCtrl_prim (g : SGate R) (m : Nat) : (g.addCtrl m).prim = g.prim := rfl

theorem SGate.map_addCtrl_eq (gs : List (SGate R)) (m : Nat) :
    gs.map (fun g => { g with ctrl := g.ctrl ||| m }) = gs.map (fun g => g.addCtrl m) := rfl

end addCtrl

section addCtrlSem
variable {R : Type} [CommRing R]

theorem SGate.act_addCtrl (g : SGate R) (m : Nat) : (g.addCtrl m).act = Spec.ctrl m g.act := by
  funext ψ idx
  simp only [SGate.act, SGate.addCtrl, Spec.ctrl, and_or_eq_iff]
  by_cases h1 : idx &&& g.ctrl = g.ctrl <;> by_cases h2 : idx &&& m = m <;> simp [h1, h2]

omit [CommRing R] in
theorem SGate.addCtrl_support (g : SGate R) (m : Nat) :
    (g.addCtrl m).support = g.support ||| m := by
  simp only [SGate.support, SGate.addCtrl]
  apply Nat.eq_of_testBit_eq
  intro i
  simp only [Nat.testBit_or]
  cases g.ctrl.testBit i <;> cases m.testBit i <;> simp

theorem SGate.adj_addCtrl (g : SGate R) (m : Nat) : (g.addCtrl m).adj = g.adj.addCtrl m := rfl

theorem SGate.adj_support (g : SGate R) : g.adj.support = g.support := by
  obtain ⟨c, p⟩ := g
  cases p <;> rfl

/-- a primitive whose targets are clear of `m` is block-local for `m` -/
theorem Prim.act_readsWithin (p : Prim R) (m : Nat)
    (h : (match p with | .idle => 0 | .one _ a => a | .two _ a b => a ||| b) &&& m = 0) :
    ReadsWithin m p.act := by
  cases p with
  | idle => exact ReadsWithin.id m
  | one M a => exact act1_readsWithin M h
  | two M a b =>
    have := (or_and_eq_zero_iff a b m).1 h
    exact act2_readsWithin M this.1 this.2

/-- a spec gate whose support is clear of `m` is block-local for `m` -/
theorem SGate.act_readsWithin (g : SGate R) (m : Nat) (h : g.support &&& m = 0) :
    ReadsWithin m g.act := by
  have h2 := ((or_and_eq_zero_iff _ _ m).1 h).2
  exact ReadsWithin.ctrl (Prim.act_readsWithin g.prim m h2) g.ctrl

theorem actAll_eq_foldl (gs : List (SGate R)) (ψ : State R) :
    actAll gs ψ = gs.foldl (fun ψ g => g.act ψ) ψ := rfl

/-- a circuit whose gates are clear of `m` is block-local for `m` -/
theorem actAll_readsWithin (gs : List (SGate R)) (m : Nat) (h : ∀ g ∈ gs, g.support &&& m = 0) :
    ReadsWithin m (actAll gs) :=
  ReadsWithin.foldl gs (fun g ψ => g.act ψ) (fun g hg => SGate.act_readsWithin g m (h g hg))

/-- **Controlled circuit.** Adding the controls `m` to every gate of a circuit that does not
touch `m` = running the circuit where all bits of `m` are 1. -/
theorem actAll_map_addCtrl (gs : List (SGate R)) (m : Nat) (h : ∀ g ∈ gs, g.support &&& m = 0)
    (ψ : State R) :
    actAll (gs.map (fun g => g.addCtrl m)) ψ = Spec.ctrl m (actAll gs) ψ := by
  rw [actAll_eq_foldl, List.foldl_map]
  simp only [SGate.act_addCtrl]
  exact ctrl_foldl m gs (fun g ψ => g.act ψ) (fun g hg => SGate.act_readsWithin g m (h g hg)) ψ

theorem adjAll_map_addCtrl (gs : List (SGate R)) (m : Nat) :
    adjAll (gs.map (fun g => g.addCtrl m)) = (adjAll gs).map (fun g => g.addCtrl m) := by
  simp only [adjAll, List.map_map, List.map_reverse]
  rfl

theorem mem_adjAll {gs : List (SGate R)} {g : SGate R} :
    g ∈ adjAll gs ↔ ∃ g0 ∈ gs, g = g0.adj := by
  simp only [adjAll, List.mem_reverse, List.mem_map]
  constructor
  · rintro ⟨g0, h, rfl⟩; exact ⟨g0, h, rfl⟩
  · rintro ⟨g0, h, rfl⟩; exact ⟨g0, h, rfl⟩

theorem adjAll_eq_nil_iff (gs : List (SGate R)) : adjAll gs = [] ↔ gs = [] := by
  simp [adjAll]

end addCtrlSem

/-! ## (e) reversal invariance -/

section reversal
variable {R : Type} [CommRing R]

/-- gates on pairwise disjoint qubits: the order does not matter, in particular the reversed
circuit acts the same -/
theorem actAll_reverse (gs : List (SGate R))
    (h : gs.Pairwise (fun g g' => g.support &&& g'.support = 0)) (ψ : State R) :
    actAll gs.reverse ψ = actAll gs ψ := by
  induction gs generalizing ψ with
  | nil => rfl
  | cons g gs ih =>
    obtain ⟨hg, hgs⟩ := List.pairwise_cons.1 h
    rw [List.reverse_cons, actAll_append, ih hgs, actAll_cons, actAll_cons, actAll_nil]
    exact (actAll_act_comm g gs (fun g' hg' ψ => SGate.act_comm' g g' (hg g' hg') ψ) ψ).symm

omit [CommRing R] in
theorem onEach_pairwise (M : Mat2 R) (m : Nat) :
    (onEach M m).Pairwise (fun g g' => g.support &&& g'.support = 0) := by
  unfold onEach
  rw [List.pairwise_map]
  refine List.Pairwise.imp_of_mem ?_ (bitsOf_pairwise_lt m)
  intro a b ha hb hab
  obtain ⟨i, _, rfl, _⟩ := (mem_bitsOf m a).1 ha
  obtain ⟨j, _, rfl, _⟩ := (mem_bitsOf m b).1 hb
  have hij : i ≠ j := by rintro rfl; exact Nat.lt_irrefl _ hab
  simp only [SGate.support, Nat.zero_or]
  exact two_pow_and_two_pow hij

theorem adjAll_onEach (M : Mat2 R) (m : Nat) : adjAll (onEach M m) = (onEach M.adj m).reverse := by
  simp only [adjAll, onEach, List.map_map]
  rfl

/-- the dagger of "`M` on each selected qubit" acts as "`M†` on each selected qubit" -/
theorem actAll_adjAll_onEach (M : Mat2 R) (m : Nat) (ψ : State R) :
    actAll (adjAll (onEach M m)) ψ = actAll (onEach M.adj m) ψ := by
  rw [adjAll_onEach, actAll_reverse _ (onEach_pairwise M.adj m)]

end reversal

end Qvnt.Spec

/-! ### axiom audit -/
#print axioms Qvnt.Atom.op_congr
#print axioms Qvnt.SingleOp.apply_readsWithin
#print axioms Qvnt.Spec.ctrl_comp
#print axioms Qvnt.Spec.ctrl_foldl
#print axioms Qvnt.MultiOp.c_apply_whole
#print axioms Qvnt.Spec.SGate.act_addCtrl
#print axioms Qvnt.Spec.actAll_map_addCtrl
#print axioms Qvnt.Spec.adjAll_map_addCtrl
#print axioms Qvnt.Spec.actAll_reverse
#print axioms Qvnt.Spec.actAll_adjAll_onEach
