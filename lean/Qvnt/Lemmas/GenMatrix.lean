/-
`Applicable::matrix` (`src/operator/applicable.rs`), translated by `tools/rs2lean2.py` on every run at the queue type
(`Gen2.multi_matrix`): the rows `apply(e_idx)` are built one per basis vector and the square is then transposed in place
by the double loop `for idx in 0..size { for jdx in 0..idx { swap (idx, jdx) with (jdx, idx) } }`. The equality below
says that entry `(i, j)` of the result is amplitude `i` of the image of basis vector `j` under the model's buffer sweep
`MultiOp.applyArr` - the reading `C01_matrix_column` gives to `MultiOp.matrix` on states.
-/
import Qvnt.Lemmas.GenOps

set_option linter.unusedSectionVars false

namespace Qvnt.Gen2
open Qvnt Qvnt.Gen

/-! ### in-place transposition of a square list of lists -/

section transpose
variable {α : Type}

/-- entry `(a, b)`, with the defaults the translated indexing uses -/
def ent (d : α) (m : List (List α)) (a b : Nat) : α := (m.getD a []).getD b d

def Square (N : Nat) (m : List (List α)) : Prop := m.length = N ∧ ∀ r ∈ m, r.length = N

theorem getD_of_lt (l : List α) (i : Nat) (d : α) (h : i < l.length) : l.getD i d = l[i] := by
  simp [List.getD_eq_getElem?_getD, h]

theorem getD_set_self' (l : List α) (i : Nat) (d v : α) (h : i < l.length) : (l.set i v).getD i d = v := by
  simp [List.getD_eq_getElem?_getD, h]

theorem getD_set_ne' (l : List α) (i j : Nat) (d v : α) (h : i ≠ j) : (l.set i v).getD j d = l.getD j d := by
  simp [List.getD_eq_getElem?_getD, List.getElem?_set_ne h]

theorem Square.row {N : Nat} {m : List (List α)} (h : Square N m) (i : Nat) (hi : i < N) :
    (m.getD i []).length = N := by
  have hi' : i < m.length := by rw [h.1]; exact hi
  rw [getD_of_lt _ _ _ hi']
  exact h.2 _ (List.getElem_mem hi')

/-- writing one entry -/
def setEnt (m : List (List α)) (i j : Nat) (v : α) : List (List α) := m.set i ((m.getD i []).set j v)

theorem setEnt_square {N : Nat} {m : List (List α)} (h : Square N m) (i j : Nat) (v : α) :
    Square N (setEnt m i j v) := by
  refine ⟨by simp [setEnt, h.1], ?_⟩
  intro r hr
  unfold setEnt at hr
  by_cases hi : i < N
  · rcases List.mem_or_eq_of_mem_set hr with hr | hr
    · exact h.2 r hr
    · rw [hr, List.length_set]; exact h.row i hi
  · have : m.length ≤ i := by rw [h.1]; omega
    rw [List.set_eq_of_length_le this] at hr
    exact h.2 r hr

theorem ent_setEnt (d : α) {N : Nat} {m : List (List α)} (h : Square N m) (i j : Nat) (v : α)
    (hi : i < N) (hj : j < N) (a b : Nat) :
    ent d (setEnt m i j v) a b = if a = i ∧ b = j then v else ent d m a b := by
  have hi' : i < m.length := by rw [h.1]; exact hi
  have hrow := h.row i hi
  unfold ent setEnt
  by_cases ha : a = i
  · subst ha
    rw [getD_set_self' _ _ _ _ hi']
    by_cases hb : b = j
    · subst hb
      rw [getD_set_self' _ _ _ _ (by rw [hrow]; exact hj)]; simp
    · rw [getD_set_ne' _ _ _ _ _ (Ne.symm hb)]; simp [hb]
  · rw [getD_set_ne' _ _ _ _ _ (Ne.symm ha)]; simp [ha]

/-- one exchange of the entries `(idx, jdx)` and `(jdx, idx)`, as the translated loop body does it -/
def swapStep (d : α) (m : List (List α)) (idx jdx : Nat) : List (List α) :=
  let tmp := ent d m idx jdx
  let m1 := setEnt m idx jdx (ent d m jdx idx)
  setEnt m1 jdx idx tmp

theorem swapStep_square (d : α) {N : Nat} {m : List (List α)} (h : Square N m) (idx jdx : Nat) :
    Square N (swapStep d m idx jdx) := setEnt_square (setEnt_square h _ _ _) _ _ _

theorem ent_swapStep (d : α) {N : Nat} {m : List (List α)} (h : Square N m) (idx jdx : Nat)
    (hi : idx < N) (hj : jdx < N) (hne : idx ≠ jdx) (a b : Nat) :
    ent d (swapStep d m idx jdx) a b =
      if a = idx ∧ b = jdx then ent d m jdx idx
      else if a = jdx ∧ b = idx then ent d m idx jdx else ent d m a b := by
  unfold swapStep
  simp only []
  rw [ent_setEnt d (setEnt_square h _ _ _) jdx idx _ hj hi, ent_setEnt d h idx jdx _ hi hj]
  by_cases h1 : a = jdx ∧ b = idx
  · obtain ⟨rfl, rfl⟩ := h1
    have : ¬ (a = b ∧ b = a) := fun hh => hne hh.1.symm
    simp [this]
  · by_cases h2 : a = idx ∧ b = jdx
    · rw [if_neg h1, if_pos h2, if_pos h2]
    · rw [if_neg h1, if_neg h2, if_neg h2, if_neg h1]

/-- the inner loop: row `idx` against the columns `0 .. k-1` -/
def innerLoop (d : α) (m : List (List α)) (idx k : Nat) : List (List α) :=
  (List.range' 0 k).foldl (fun m jdx => swapStep d m idx jdx) m

theorem innerLoop_spec (d : α) {N : Nat} {m : List (List α)} (h : Square N m) (idx : Nat) (hi : idx < N) :
    ∀ k, k ≤ idx → Square N (innerLoop d m idx k) ∧ ∀ a b,
      ent d (innerLoop d m idx k) a b =
        if (a = idx ∧ b < k) ∨ (b = idx ∧ a < k) then ent d m b a else ent d m a b := by
  intro k
  induction k with
  | zero => intro _; exact ⟨h, fun a b => by simp [innerLoop]⟩
  | succ k ih =>
    intro hk
    obtain ⟨hsq, hent⟩ := ih (by omega)
    have hstep : innerLoop d m idx (k + 1) = swapStep d (innerLoop d m idx k) idx k := by
      unfold innerLoop
      rw [List.range'_1_concat, List.foldl_append]; simp
    rw [hstep]
    refine ⟨swapStep_square d hsq idx k, ?_⟩
    intro a b
    rw [ent_swapStep d hsq idx k hi (by omega) (by omega), hent, hent, hent]
    by_cases h1 : a = idx ∧ b = k
    · rw [if_pos h1]
      have e1 : ¬ ((k = idx ∧ idx < k) ∨ (idx = idx ∧ k < k)) := by omega
      have e2 : (a = idx ∧ b < k + 1) ∨ (b = idx ∧ a < k + 1) := by omega
      rw [if_neg e1, if_pos e2, h1.1, h1.2]
    · rw [if_neg h1]
      by_cases h2 : a = k ∧ b = idx
      · rw [if_pos h2]
        have e1 : ¬ ((idx = idx ∧ k < k) ∨ (k = idx ∧ idx < k)) := by omega
        have e2 : (a = idx ∧ b < k + 1) ∨ (b = idx ∧ a < k + 1) := by omega
        rw [if_neg e1, if_pos e2, h2.1, h2.2]
      · rw [if_neg h2]
        have : ((a = idx ∧ b < k + 1) ∨ (b = idx ∧ a < k + 1)) ↔ ((a = idx ∧ b < k) ∨ (b = idx ∧ a < k)) := by
          constructor
          · rintro (⟨ha, hb⟩ | ⟨hb, ha⟩)
            · left; refine ⟨ha, ?_⟩
              rcases Nat.lt_succ_iff_lt_or_eq.1 hb with hb | hb
              · exact hb
              · exact absurd ⟨ha, hb⟩ h1
            · right; refine ⟨hb, ?_⟩
              rcases Nat.lt_succ_iff_lt_or_eq.1 ha with ha | ha
              · exact ha
              · exact absurd ⟨ha, hb⟩ h2
          · rintro (⟨ha, hb⟩ | ⟨hb, ha⟩)
            · left; exact ⟨ha, by omega⟩
            · right; exact ⟨hb, by omega⟩
        by_cases hp : (a = idx ∧ b < k) ∨ (b = idx ∧ a < k)
        · rw [if_pos hp, if_pos (this.2 hp)]
        · rw [if_neg hp, if_neg (fun hh => hp (this.1 hh))]

/-- the outer loop over the rows `0 .. K-1` -/
def outerLoop (d : α) (m : List (List α)) (K : Nat) : List (List α) :=
  (List.range' 0 K).foldl (fun m idx => innerLoop d m idx idx) m

theorem outerLoop_spec (d : α) {N : Nat} {m : List (List α)} (h : Square N m) :
    ∀ K, K ≤ N → Square N (outerLoop d m K) ∧ ∀ a b,
      ent d (outerLoop d m K) a b = if a < K ∧ b < K then ent d m b a else ent d m a b := by
  intro K
  induction K with
  | zero => intro _; exact ⟨h, fun a b => by simp [outerLoop]⟩
  | succ K ih =>
    intro hK
    obtain ⟨hsq, hent⟩ := ih (by omega)
    have hstep : outerLoop d m (K + 1) = innerLoop d (outerLoop d m K) K K := by
      unfold outerLoop
      rw [List.range'_1_concat, List.foldl_append]; simp
    rw [hstep]
    obtain ⟨hsq', hent'⟩ := innerLoop_spec d hsq K (by omega) K (Nat.le_refl K)
    refine ⟨hsq', ?_⟩
    intro a b
    rw [hent', hent, hent]
    by_cases hc : (a = K ∧ b < K) ∨ (b = K ∧ a < K)
    · have e1 : ¬ (b < K ∧ a < K) := by omega
      have e2 : a < K + 1 ∧ b < K + 1 := by omega
      rw [if_pos hc, if_neg e1, if_pos e2]
    · rw [if_neg hc]
      by_cases hab : a < K ∧ b < K
      · have : a < K + 1 ∧ b < K + 1 := by omega
        rw [if_pos hab, if_pos this]
      · rw [if_neg hab]
        by_cases hd : a < K + 1 ∧ b < K + 1
        · -- then a = b = K: the diagonal entry, untouched
          have hk : a = K ∧ b = K := by omega
          rw [if_pos hd, hk.1, hk.2]
        · rw [if_neg hd]

/-- a square list of lists is determined by its entries -/
theorem square_ext (d : α) {N : Nat} {m m' : List (List α)} (h : Square N m) (h' : Square N m')
    (he : ∀ a b, a < N → b < N → ent d m a b = ent d m' a b) : m = m' := by
  apply List.ext_getElem (by rw [h.1, h'.1])
  intro a ha ha'
  have haN : a < N := by rw [← h.1]; exact ha
  have hr := h.2 _ (List.getElem_mem ha)
  have hr' := h'.2 _ (List.getElem_mem ha')
  apply List.ext_getElem (by rw [hr, hr'])
  intro b hb hb'
  have hbN : b < N := by rw [← hr]; exact hb
  have := he a b haN hbN
  unfold ent at this
  rw [getD_of_lt _ _ _ ha, getD_of_lt _ _ _ ha', getD_of_lt _ _ _ hb, getD_of_lt _ _ _ hb'] at this
  exact this

end transpose

/-! ### `Applicable::matrix` for a queue -/

section matrix
variable {R : Type} [CommRing R] [Consts R] [Div R] [LE R] [DecidableLE R] [LT R] [DecidableLT R] [HasSqrt R] [RegConsts R]

/-- basis vector `j` in a buffer of `N` amplitudes -/
def basisArr (N j : Nat) : Array (Cx R) := (Array.replicate N (0 : Cx R)).setIfInBounds j 1

/-- entry `(i, j)` of the reported matrix on buffers: amplitude `i` of the image of basis vector `j` -/
def matrixArr (o : MultiOp R) (N i j : Nat) : Cx R := bufFn (MultiOp.applyArr o (basisArr N j)) i

/-- the rows the first loop builds: row `idx` is the image of basis vector `idx` -/
def matrixRows (o : MultiOp R) (N : Nat) : List (List (Cx R)) :=
  (List.range' 0 N).map (fun idx => (MultiOp.applyArr o (basisArr N idx)).toList)

theorem matrixRows_square (o : MultiOp R) (N : Nat) : Square N (matrixRows o N) := by
  refine ⟨by simp [matrixRows], ?_⟩
  intro r hr
  simp only [matrixRows, List.mem_map] at hr
  obtain ⟨idx, _, rfl⟩ := hr
  simp [MultiOp.applyArr_size, basisArr]

theorem ent_matrixRows (o : MultiOp R) (N a b : Nat) (ha : a < N) :
    ent (0 : Cx R) (matrixRows o N) a b = matrixArr o N b a := by
  unfold ent matrixRows matrixArr bufFn
  have hlen : a < ((List.range' 0 N).map (fun idx => (MultiOp.applyArr o (basisArr N idx)).toList)).length := by
    simp; exact ha
  rw [getD_of_lt _ _ _ hlen]
  simp only [List.getElem_map, List.getElem_range', Nat.zero_add, Nat.one_mul]
  simp [List.getD_eq_getElem?_getD, Array.getD_eq_getD_getElem?]

/-- **`Applicable::matrix` of a queue**: for `size < 64` and control masks that are machine words, the translated
function returns the `2^size × 2^size` table whose entry `(i, j)` is amplitude `i` of the image of basis vector `j`
under the model's buffer sweep. -/
theorem multi_matrix_eq (o : MultiOp R) (hc : ∀ g ∈ o, g.ctrl < 2 ^ 64) (size : Nat) (hs : size < 64) :
    multi_matrix o size =
      List.ofFn (n := 2 ^ size) (fun i => List.ofFn (n := 2 ^ size) (fun j => matrixArr o (2 ^ size) i.val j.val)) := by
  have hN : shlW 64 1 size = 2 ^ size := shl_one size hs
  unfold multi_matrix
  simp only [hN, Rs.range, Nat.sub_zero]
  -- first loop: the rows
  have hrows : List.foldl (fun (st1 : List (List (Cx R))) (a2 : Nat) =>
        st1 ++ [multi_apply o (List.set (Rs.resize [] (2 ^ size) ({ re := 0, im := 0 } : Cx R)) a2 ({ re := 1, im := 0 } : Cx R))
          (Rs.resize ([] : List (Cx R)) (List.set (Rs.resize [] (2 ^ size) ({ re := 0, im := 0 } : Cx R)) a2 ({ re := 1, im := 0 } : Cx R)).length (0 : Cx R))])
        [] (List.range' 0 (2 ^ size)) = matrixRows o (2 ^ size) := by
    have key : ∀ (l : List Nat) (acc : List (List (Cx R))),
        List.foldl (fun (st1 : List (List (Cx R))) (a2 : Nat) =>
          st1 ++ [multi_apply o (List.set (Rs.resize [] (2 ^ size) ({ re := 0, im := 0 } : Cx R)) a2 ({ re := 1, im := 0 } : Cx R))
            (Rs.resize ([] : List (Cx R)) (List.set (Rs.resize [] (2 ^ size) ({ re := 0, im := 0 } : Cx R)) a2 ({ re := 1, im := 0 } : Cx R)).length (0 : Cx R))])
          acc l = acc ++ l.map (fun idx => (MultiOp.applyArr o (basisArr (2 ^ size) idx)).toList) := by
      intro l
      induction l with
      | nil => intro acc; simp
      | cons x xs ih =>
        intro acc
        rw [List.foldl_cons, ih]
        have hb : List.set (Rs.resize [] (2 ^ size) ({ re := 0, im := 0 } : Cx R)) x ({ re := 1, im := 0 } : Cx R) =
            (basisArr (R := R) (2 ^ size) x).toList := by
          simp [basisArr, Rs.resize, Array.toList_setIfInBounds]
          rfl
        rw [hb, multi_apply_eq o hc (basisArr (2 ^ size) x) _ (by simp [Rs.resize, basisArr])]
        simp
    rw [key]; simp [matrixRows]
  -- second loop: the transposition
  have hloop : ∀ (m : List (List (Cx R))),
      List.foldl (fun (st5 : List (List (Cx R))) (a6 : Nat) =>
        List.foldl (fun (st7 : List (List (Cx R))) (a8 : Nat) =>
          List.set (List.set st7 a6 (List.set (st7.getD a6 ([] : List (Cx R))) a8 ((st7.getD a8 ([] : List (Cx R))).getD a6 (0 : Cx R))))
            a8 (List.set ((List.set st7 a6 (List.set (st7.getD a6 ([] : List (Cx R))) a8 ((st7.getD a8 ([] : List (Cx R))).getD a6 (0 : Cx R)))).getD a8 ([] : List (Cx R))) a6
              ((st7.getD a6 ([] : List (Cx R))).getD a8 (0 : Cx R))))
          st5 (List.range' 0 a6)) m (List.range' 0 (2 ^ size)) = outerLoop (0 : Cx R) m (2 ^ size) := by
    intro m; rfl
  rw [hrows, hloop]
  obtain ⟨hsq, hent⟩ := outerLoop_spec (0 : Cx R) (matrixRows_square o (2 ^ size)) (2 ^ size) (Nat.le_refl _)
  apply square_ext (0 : Cx R) hsq
  · refine ⟨by simp, ?_⟩
    intro r hr
    simp only [List.mem_ofFn] at hr
    obtain ⟨i, rfl⟩ := hr
    simp
  · intro a b ha hb
    rw [hent, if_pos ⟨ha, hb⟩, ent_matrixRows o _ b a hb]
    unfold ent
    simp [List.getD_eq_getElem?_getD, ha, hb]

/-- buffer sweep = functional sweep, as long as every element of the queue leaves the amplitudes beyond the buffer's
`N` entries at zero (it does when it acts on qubits the buffer has) -/
theorem bufFn_applyArr_fn (N : Nat) (o : MultiOp R) (a : Array (Cx R)) (hsz : a.size = N)
    (hloc : ∀ g ∈ o, ∀ ψ : State R, (∀ i, N ≤ i → ψ i = 0) → ∀ i, N ≤ i → g.apply ψ i = 0) :
    bufFn (o.applyArr a) = o.apply (bufFn a) := by
  have hz0 : ∀ (b : Array (Cx R)), b.size = N → ∀ i, N ≤ i → bufFn b i = 0 := by
    intro b hb i hi
    simp [bufFn, Array.getD_eq_getD_getElem?, Array.getElem?_eq_none (by omega : b.size ≤ i)]
  induction o generalizing a with
  | nil => rfl
  | cons g o ih =>
    have hg : bufFn (g.applyArr a) = g.apply (bufFn a) := by
      funext i
      by_cases hi : i < a.size
      · exact SingleOp.bufFn_applyArr g a i hi
      · rw [SingleOp.bufFn_applyArr_of_le g a i (Nat.le_of_not_lt hi)]
        exact (hloc g (List.mem_cons_self ..) _ (hz0 a hsz) i (by omega)).symm
    rw [MultiOp.applyArr_cons, MultiOp.apply_cons,
      ih (g.applyArr a) (by rw [SingleOp.applyArr_size]; exact hsz)
        (fun g' hg' => hloc g' (List.mem_cons_of_mem _ hg')), hg]

theorem bufFn_basisArr (N j : Nat) (hj : j < N) :
    bufFn (basisArr (R := R) N j) = fun k => if k = j then 1 else 0 := by
  funext k
  unfold bufFn basisArr
  by_cases hk : k = j
  · subst hk; simp [Array.getD_eq_getD_getElem?, Array.getElem?_setIfInBounds_self_of_lt, hj]
  · by_cases hkN : k < N
    · simp [Array.getD_eq_getD_getElem?, hk, hkN, Array.getElem_setIfInBounds, Ne.symm hk]
    · simp [Array.getD_eq_getD_getElem?, hk, Array.getElem?_eq_none (by simp; omega : ((Array.replicate N (0 : Cx R)).setIfInBounds j 1).size ≤ k)]

/-- the table the translated `matrix` returns is the model's `MultiOp.matrix` (`Applicable::matrix` on states, the object
of `C01_matrix_column` / `C01_matrix_linear` / `C03_adjoint_matrix`), for a queue whose elements act inside the `size`
qubits -/
theorem matrixArr_eq_matrix (o : MultiOp R) (size : Nat)
    (hloc : ∀ g ∈ o, ∀ ψ : State R, (∀ i, 2 ^ size ≤ i → ψ i = 0) → ∀ i, 2 ^ size ≤ i → g.apply ψ i = 0)
    (i j : Nat) (hj : j < 2 ^ size) : matrixArr o (2 ^ size) i j = MultiOp.matrix o i j := by
  unfold matrixArr MultiOp.matrix
  rw [bufFn_applyArr_fn (2 ^ size) o _ (by simp [basisArr]) hloc, bufFn_basisArr _ _ hj]

end matrix

end Qvnt.Gen2
