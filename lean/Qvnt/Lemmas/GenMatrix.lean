/-
`Applicable::matrix` (`src/operator/applicable.rs`), translated by `tools/rs2lean2.py` on every run at the queue type
(`Gen2.multi_matrix`): the rows `apply(e_idx)` are built one per basis vector and the square is then transposed in place
by the double loop `for idx in 0..size { for jdx in 0..idx { swap (idx, jdx) with (jdx, idx) } }`. The equality below
says that entry `(i, j)` of the result is amplitude `i` of the image of basis vector `j` under the model's buffer sweep
`MultiOp.applyArr` - the reading `C01_matrix_column` gives to `MultiOp.matrix` on states.
-/
import Qvnt.Lemmas.GenMatrix.ent
import Qvnt.Lemmas.GenMatrix.Square
import Qvnt.Lemmas.GenMatrix.getD_of_lt
import Qvnt.Lemmas.GenMatrix.getD_set_self_p
import Qvnt.Lemmas.GenMatrix.getD_set_ne_p
import Qvnt.Lemmas.GenMatrix.Square_row
import Qvnt.Lemmas.GenMatrix.setEnt
import Qvnt.Lemmas.GenMatrix.setEnt_square
import Qvnt.Lemmas.GenMatrix.ent_setEnt
import Qvnt.Lemmas.GenMatrix.swapStep
import Qvnt.Lemmas.GenMatrix.swapStep_square
import Qvnt.Lemmas.GenMatrix.ent_swapStep
import Qvnt.Lemmas.GenMatrix.innerLoop
import Qvnt.Lemmas.GenMatrix.innerLoop_spec
import Qvnt.Lemmas.GenMatrix.outerLoop
import Qvnt.Lemmas.GenMatrix.outerLoop_spec
import Qvnt.Lemmas.GenMatrix.square_ext
import Qvnt.Lemmas.GenMatrix.basisArr
import Qvnt.Lemmas.GenMatrix.matrixArr
import Qvnt.Lemmas.GenMatrix.matrixRows
import Qvnt.Lemmas.GenMatrix.matrixRows_square
import Qvnt.Lemmas.GenMatrix.ent_matrixRows
import Qvnt.Lemmas.GenMatrix.multi_matrix_eq
import Qvnt.Lemmas.GenMatrix.bufFn_applyArr_fn
import Qvnt.Lemmas.GenMatrix.bufFn_basisArr
import Qvnt.Lemmas.GenMatrix.matrixArr_eq_matrix
