/-
`qasm/int/macros.rs`: `argument_name`, `Macro::process_nested`, `Macro::process`, translated by `tools/rs2lean2.py` on every
run, are the model's `Arg.name` / `Macro.process` (`Model/Interp.lean`). The translated `process_nested` threads the call
stack as a `&mut` value (push before a nested expansion, pop after it); the model passes `stack ++ [name]` down. The
equality shows that on success the stack comes back unchanged, and that all other outcomes (arity errors, unevaluated
arguments, the recursion error, errors of built-in gates, the two panic sites) agree, for every fuel.

`macros.get(name)` is a `HashMap` lookup; on the model's association list it is the last entry with that key, while
`Macro.process` looks up the first one. They agree on tables without duplicate keys, which `process_gate` guarantees
(hypothesis `KeysNodup`).
-/
import Qvnt.Lemmas.GenMacro.macro_argument_name_eq
import Qvnt.Lemmas.GenMacro.KeysNodup
import Qvnt.Lemmas.GenMacro.find_q_eq_mapGet
import Qvnt.Lemmas.GenMacro.regs_mapM_eq
import Qvnt.Lemmas.GenMacro.evalArgsWith_eq
import Qvnt.Lemmas.GenMacro.withStack
import Qvnt.Lemmas.GenMacro.foldlM_seqCalls
import Qvnt.Lemmas.GenMacro.macro_process_nested_eq
import Qvnt.Lemmas.GenMacro.macro_process_eq
