/-
`operator/multi/h.rs`: h1, h2, the cursor loop of h.
(split out of GenRegs2.lean so that an equality that no longer holds blocks only the properties that rely on it)
-/
import Qvnt.Lemmas.GenH.h1_new_eq_p
import Qvnt.Lemmas.GenH.h2_new_eq_p
import Qvnt.Lemmas.GenH.y_new_eq_p
import Qvnt.Lemmas.GenH.single_from_eq
import Qvnt.Lemmas.GenH.h_loop_eq
import Qvnt.Lemmas.GenH.h_h_eq
