/-
`operator/multi/h.rs`: h1, h2, the cursor loop of h.
(split out of GenRegs2.lean so that an equality that no longer holds blocks only the properties that rely on it)
-/
import Qvnt.Lemmas.GenBits
import Qvnt.Lemmas.GenOps

set_option linter.unusedSectionVars false

namespace Qvnt.Gen2
open Qvnt Qvnt.Gen

variable {R : Type}

/-- the atom constructors used below (the same statements are proved for all atoms in `GenKernels`) -/
theorem h1_new_eq' (a : Nat) : (Gen.h1_new a : Atom R) = .h1 a := rfl
theorem h2_new_eq' (a b : Nat) : (Gen.h2_new a b : Atom R) = .h2 a b (a ||| b) := rfl
theorem y_new_eq' (a : Nat) : (Gen.y_new a : Atom R) = .y a (yIPow a) := by
  unfold Gen.y_new; simp only [yIPow_eq]

/-! ### `multi::h::h` (`operator/multi/h.rs`) -/
section hgate
variable [Add R] [Sub R] [Mul R] [Div R] [Neg R] [Zero R] [One R] [Consts R]

theorem single_from_eq (g : Atom R) : single_from g = SingleOp.ofAtom g := rfl

theorem h_loop_eq (a fuel p f : Nat) (b : Bool) (acc : MultiOp R) (hp : p < 2 ^ 64) :
    (h_h_loop1 a fuel ((p, f), b, acc)).map (fun s => (s.1.2, s.2.1, s.2.2)) = Op.hLoop a fuel p f b acc := by
  induction fuel generalizing p f b acc with
  | zero => simp [h_h_loop1, Op.hLoop]
  | succ n ih =>
    have hs : shl1 p < 2 ^ 64 := by unfold shl1 W; exact Nat.mod_lt _ (by decide)
    unfold h_h_loop1 Op.hLoop
    by_cases hc : (p != 0 && decide (p ≤ a)) = true
    · by_cases hb : (p &&& a != 0) = true
      · cases b
        · simp [hc, hb, shl_pos p hp, ← ih _ _ _ _ hs, h_h2, single_from, h2_new_eq', SingleOp.ofAtom]
        · simp [hc, hb, shl_pos p hp, ← ih _ _ _ _ hs]
      · simp [hc, hb, shl_pos p hp, ← ih _ _ _ _ hs]
    · simp [hc]

theorem h_h_eq (a : Nat) : h_h (R := R) a = Op.h a := by
  unfold h_h Op.h
  cases hc : popcount a with
  | zero => simp
  | succ k =>
    cases k with
    | zero => simp [h_h1, single_from, h1_new_eq', SingleOp.ofAtom]
    | succ k =>
      simp only [beq_iff_eq, Nat.succ_ne_zero, ↓reduceIte, Nat.add_eq_right]
      rw [← h_loop_eq a (W + 2) 1 0 true [] (by decide)]
      cases h_h_loop1 (R := R) a (W + 2) ((1, 0), true, []) with
      | none => simp
      | some st => cases hb : st.2.1 <;> simp [hb, h_h1, single_from, h1_new_eq', SingleOp.ofAtom]

end hgate
end Qvnt.Gen2
